#!/bin/sh
# offline build of the Lean models, theorems and model drivers (MANIFEST.setup_cmd)
set -e
HERE="$(cd "$(dirname "$0")" && pwd)"
cd "$HERE/lean"
EXES=""
for f in Drv/C*.lean; do
  [ -f "$f" ] || continue
  n=$(basename "$f" .lean | tr 'C' 'c')
  EXES="$EXES drv_$n"
done
lake build CssVerif $EXES
