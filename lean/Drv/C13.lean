import CssVerif.Model.ValidateReg
/-!
Driver for C13. Requests (strings are dotted hex, `-` = empty):

* `acc <profile index> <property> <value>`            → `1` | `0` | `nokey`
* `validate <property> <value>`                        → `1` | `0`
* `vwp <default> <profiles> <property> <value>`        → `ok <valid> <matching> <names>` | `KeyError <name>`
* `prop <default> <fontface 0|1> <name> <value> <priority>` → `ok <0|1>` | `KeyError <name>`
* `sheet <default> <validOnly 0|1> <token>…`           → `ok <sheet.valid> <per rule: 1|0|-> <all declarations valid> <kept>` | `KeyError <name>`
* `ser <default> <fontface 0|1> <validOnly 0|1> <d/…>…` → one `1` (written) / `0` (dropped) per declaration
* `flag <sheet N|0|1> <decl N|0|1>`                    → `0|1`

`<default>`/`<profiles>`: `N` (None), `E` (empty list) or comma-separated names.
sheet tokens: `s(` `f(` `m(` `p(` `g(` open a style / @font-face / @media / @page rule / margin block, `)` closes,
`o` other rule, `c` non-property item of a block, `d/<name>/<value>/<priority>` a declaration.
-/
open CssVerif CssVerif.Proto CssVerif.Validate

def reg0 : Registry Re := genRegistry

def decList (w : String) : Option (Option (List Str)) :=
  if w == "N" then some none
  else if w == "E" then some (some [])
  else ((w.splitOn ",").foldr (fun x acc => match decCps x, acc with
    | some n, some l => some (n :: l)
    | _, _ => none) (some [])).map some

def b01 (b : Bool) : String := if b then "1" else "0"

def showErr : Err → String
  | .keyError p => "KeyError " ++ encCps p

def decDecl (w : String) : Option Prop' :=
  match w.splitOn "/" with
  | ["d", n, v, p] => match decCps n, decCps v, decCps p with
    | some n, some v, some p => some { name := n, value := v, priority := p }
    | _, _, _ => none
  | _ => none

/-- items of a block up to the closing `)`; for `@page` also the margin blocks -/
def parseBlock : Nat → List String → Block → List Block → Option (Block × List Block × List String)
  | 0, _, _, _ => none
  | _ + 1, [], _, _ => none
  | fuel + 1, t :: ts, b, ms =>
    if t == ")" then some (b.reverse, ms.reverse, ts)
    else if t == "c" then parseBlock fuel ts (.other :: b) ms
    else if t == "g(" then
      match parseBlock fuel ts [] [] with
      | some (mb, _, rest) => parseBlock fuel rest b (mb :: ms)
      | none => none
    else match decDecl t with
      | some p => parseBlock fuel ts (.prop p :: b) ms
      | none => none

def parseRules : Nat → List String → List Rule → Bool → Option (List Rule × List String)
  | 0, _, _, _ => none
  | _ + 1, [], acc, nested => if nested then none else some (acc.reverse, [])
  | fuel + 1, t :: ts, acc, nested =>
    if t == ")" then (if nested then some (acc.reverse, ts) else none)
    else if t == "o" then parseRules fuel ts (.other :: acc) nested
    else if t == "s(" then
      match parseBlock fuel ts [] [] with
      | some (b, [], rest) => parseRules fuel rest (.style b :: acc) nested
      | _ => none
    else if t == "f(" then
      match parseBlock fuel ts [] [] with
      | some (b, [], rest) => parseRules fuel rest (.fontFace b :: acc) nested
      | _ => none
    else if t == "p(" then
      match parseBlock fuel ts [] [] with
      | some (b, ms, rest) => parseRules fuel rest (.page b ms :: acc) nested
      | none => none
    else if t == "m(" then
      match parseRules fuel ts [] true with
      | some (rs, rest) => parseRules fuel rest (.media rs :: acc) nested
      | none => none
    else none

def lookupPat (pi : Nat) (name : Str) : Option Re :=
  match reg0.profiles[pi]? with
  | some p => p.props.lookup name
  | none => none

def showRule (reg : Registry Re) (r : Rule) : String :=
  match ruleValid accReFast reg ffName r with
  | none => "-"
  | some (.ok b) => b01 b
  | some (.error _) => "E"

def handle (line : String) : String :=
  match words line with
  | ["acc", pi, n, v] => match pi.toNat?, decCps n, decCps v with
      | some pi, some n, some v => match lookupPat pi n with
        | some r => b01 (acceptsFast r v)
        | none => "nokey"
      | _, _, _ => "bad-op"
  | ["validate", n, v] => match decCps n, decCps v with
      | some n, some v => b01 (validate accReFast reg0 n v)
      | _, _ => "bad-op"
  | ["vwp", d, ps, n, v] => match decList d, decList ps, decCps n, decCps v with
      | some d, some ps, some n, some v =>
        match validateWithProfile accReFast { reg0 with default := d } n v ps with
        | .ok (a, b, names) => "ok " ++ b01 a ++ " " ++ b01 b ++ " " ++
            (if names.isEmpty then "E" else ",".intercalate (names.map encCps))
        | .error e => showErr e
      | _, _, _, _ => "bad-op"
  | ["prop", d, ff, n, v, p] => match decList d, decCps n, decCps v, decCps p with
      | some d, some n, some v, some p =>
        if ff != "0" && ff != "1" then "bad-op" else
        match propValid accReFast { reg0 with default := d } ffName (ff == "1") { name := n, value := v, priority := p } with
        | .ok b => "ok " ++ b01 b
        | .error e => showErr e
      | _, _, _, _ => "bad-op"
  | "sheet" :: d :: toks => match decList d with
      | some d =>
        let reg : Registry Re := { reg0 with default := d }
        match parseRules (toks.length + 1) toks [] false with
        | some (rules, _) =>
          match sheetValid accReFast reg ffName rules with
          | .ok b => "ok " ++ b01 b ++ " " ++ (if rules.isEmpty then "E" else ",".intercalate (rules.map (showRule reg)))
              ++ " " ++ b01 (rulesAllValid accReFast reg ffName rules)
          | .error e => showErr e
        | none => "bad-op"
      | none => "bad-op"
  | "ser" :: d :: ff :: vo :: toks => match decList d with
      | some d =>
        if (ff != "0" && ff != "1") || (vo != "0" && vo != "1") then "bad-op" else
        let reg : Registry Re := { reg0 with default := d }
        -- one reply character per declaration: 1 = written, 0 = dropped (wellformed declarations only)
        let rec go : List String → String → String
          | [], acc => if acc.isEmpty then "E" else acc
          | t :: ts, acc => match decDecl t with
            | some p => match serProperty accReFast reg ffName (ff == "1") (vo == "1")
                  { prop := p, text := [120], wellformed := true } with
              | .ok txt => go ts (acc ++ (if txt.isEmpty then "0" else "1"))
              | .error e => showErr e
            | none => "bad-op"
        go toks ""
      | none => "bad-op"
  | ["flag", s, d] =>
      let dec (w : String) : Option (Option Bool) :=
        if w == "N" then some none else if w == "0" then some (some false) else if w == "1" then some (some true) else none
      match dec s, dec d with
      | some s, some d => b01 (declValidating s d)
      | _, _ => "bad-op"
  | _ => "bad-op"

def main : IO Unit := serve handle
