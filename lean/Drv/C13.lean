import CssVerif.Model.ValidateReg
import CssVerif.Model.ValueText
/-!
Driver for C13. Requests (strings are dotted hex, `-` = empty):

* `acc <profile index> <property> <value>`            → `1` | `0` | `nokey`
* `validate <property> <value>`                        → `1` | `0`
* `vwp <default> <profiles> <property> <value>`        → `ok <valid> <matching> <names>` | `KeyError <name>`
* `prop <default> <fontface 0|1> <name> <value> <priority>` → `ok <0|1>` | `KeyError <name>`
* `sheet <default> <validOnly 0|1> <token>…`           → `ok <sheet.valid> <per rule: 1|0|-> <all declarations valid> <kept>` | `KeyError <name>`
* `ser <default> <fontface 0|1> <validOnly 0|1> <d/…>…` → one `1` (written) / `0` (dropped) per declaration
* `flag <sheet N|0|1> <decl N|0|1>`                    → `0|1`
* `vt <lv> <spacer> <listItemSpacer> <lineSeparator> <propertyNameSpacer> <paranthesisSpacer> <selectorCombinatorSpacer>
  <indent> <keepComments><minimizeColorHash><indentClosingBrace> <tok>…` → `bad` (value refused) |
  `ok <items> <Property.value>`; tokens: `S`, `C/<text>`, `O/<code point>`, `T/<type>/<cssText>/<wf 0|1>`, `E` (`;`),
  `I` (INVALID), `X` (other); items: `c:<text>`, `o:<code point>`, `t:<type>:<cssText>` joined by `,` (`E` = none)

`<default>`/`<profiles>`: `N` (None), `E` (empty list) or comma-separated names.
sheet tokens: `s(` `f(` `m(` `p(` `g(` open a style / @font-face / @media / @page rule / margin block, `)` closes,
`o` other rule, `c` non-property item of a block, `d/<name>/<value>/<priority>` a declaration.
-/
open CssVerif CssVerif.Proto CssVerif.Validate

def reg0 : Registry Re := genRegistry

def decList (w : String) : Option (Option (List Str)) :=
  if w == "N" then some none
  else if w == "E" then some (some [])
  else ((w.splitOn ",").foldr (fun x acc => match decCps x, acc with
    | some n, some l => some (n :: l)
    | _, _ => none) (some [])).map some

def b01 (b : Bool) : String := if b then "1" else "0"

def showErr : Err → String
  | .keyError p => "KeyError " ++ encCps p

def decDecl (w : String) : Option Prop' :=
  match w.splitOn "/" with
  | ["d", n, v, p] => match decCps n, decCps v, decCps p with
    | some n, some v, some p => some { name := n, value := v, priority := p }
    | _, _, _ => none
  | _ => none

/-- items of a block up to the closing `)`; for `@page` also the margin blocks -/
def parseBlock : Nat → List String → Block → List Block → Option (Block × List Block × List String)
  | 0, _, _, _ => none
  | _ + 1, [], _, _ => none
  | fuel + 1, t :: ts, b, ms =>
    if t == ")" then some (b.reverse, ms.reverse, ts)
    else if t == "c" then parseBlock fuel ts (.other :: b) ms
    else if t == "g(" then
      match parseBlock fuel ts [] [] with
      | some (mb, _, rest) => parseBlock fuel rest b (mb :: ms)
      | none => none
    else match decDecl t with
      | some p => parseBlock fuel ts (.prop p :: b) ms
      | none => none

def parseRules : Nat → List String → List Rule → Bool → Option (List Rule × List String)
  | 0, _, _, _ => none
  | _ + 1, [], acc, nested => if nested then none else some (acc.reverse, [])
  | fuel + 1, t :: ts, acc, nested =>
    if t == ")" then (if nested then some (acc.reverse, ts) else none)
    else if t == "o" then parseRules fuel ts (.other :: acc) nested
    else if t == "s(" then
      match parseBlock fuel ts [] [] with
      | some (b, [], rest) => parseRules fuel rest (.style b :: acc) nested
      | _ => none
    else if t == "f(" then
      match parseBlock fuel ts [] [] with
      | some (b, [], rest) => parseRules fuel rest (.fontFace b :: acc) nested
      | _ => none
    else if t == "p(" then
      match parseBlock fuel ts [] [] with
      | some (b, ms, rest) => parseRules fuel rest (.page b ms :: acc) nested
      | none => none
    else if t == "m(" then
      match parseRules fuel ts [] true with
      | some (rs, rest) => parseRules fuel rest (.media rs :: acc) nested
      | none => none
    else none

def lookupPat (pi : Nat) (name : Str) : Option Re :=
  match reg0.profiles[pi]? with
  | some p => p.props.lookup name
  | none => none

def showRule (reg : Registry Re) (r : Rule) : String :=
  match ruleValid accReFast reg ffName r with
  | none => "-"
  | some (.ok b) => b01 b
  | some (.error _) => "E"

def decVTok (w : String) : Option ValueText.VTok :=
  match w.splitOn "/" with
  | ["S"] => some .s
  | ["E"] => some .semi
  | ["I"] => some .invalid
  | ["X"] => some .other
  | ["C", t] => (decCps t).map .comment
  | ["O", c] => match c.toNat? with
    | some n => if n == 44 || n == 47 then some (.op n) else none
    | none => none
  | ["T", ty, tx, wf] => match decCps ty, decCps tx with
    | some ty, some tx => if wf == "1" || wf == "0" then some (.term { ty := ty, text := tx, wf := wf == "1" }) else none
    | _, _ => none
  | _ => none

def decVToks : List String → Option (List ValueText.VTok)
  | [] => some []
  | w :: r => match decVTok w, decVToks r with
    | some t, some l => some (t :: l)
    | _, _ => none

def showSItem : ValueText.SItem → String
  | .comment t => "c:" ++ encCps t
  | .op c => "o:" ++ toString c
  | .term x => "t:" ++ encCps x.ty ++ ":" ++ encCps x.text

/-- the preferences `Out.append` reads; the others do not reach a value (set to the `useDefaults` values) -/
def vtPrefs (spacer lis ls pns ps scs indent : Str) (kc mch icb : Bool) : Out.Prefs :=
  { defaultAtKeyword := true, defaultPropertyName := true, defaultPropertyPriority := true, importHrefFormat := none,
    indent := indent, indentClosingBrace := icb, indentSpecificities := false, keepAllProperties := true,
    keepComments := kc, keepEmptyRules := false, keepUnknownAtRules := true, keepUsedNamespaceRulesOnly := false,
    lineNumbers := false, lineSeparator := ls, listItemSpacer := lis, minimizeColorHash := mch,
    normalizedVarNames := true, omitLastSemicolon := true, omitLeadingZero := false, paranthesisSpacer := ps,
    propertyNameSpacer := pns, resolveVariables := true, selectorCombinatorSpacer := scs, spacer := spacer,
    validOnly := false }

def handle (line : String) : String :=
  match words line with
  | ["acc", pi, n, v] => match pi.toNat?, decCps n, decCps v with
      | some pi, some n, some v => match lookupPat pi n with
        | some r => b01 (acceptsFast r v)
        | none => "nokey"
      | _, _, _ => "bad-op"
  | ["validate", n, v] => match decCps n, decCps v with
      | some n, some v => b01 (validate accReFast reg0 n v)
      | _, _ => "bad-op"
  | ["vwp", d, ps, n, v] => match decList d, decList ps, decCps n, decCps v with
      | some d, some ps, some n, some v =>
        match validateWithProfile accReFast { reg0 with default := d } n v ps with
        | .ok (a, b, names) => "ok " ++ b01 a ++ " " ++ b01 b ++ " " ++
            (if names.isEmpty then "E" else ",".intercalate (names.map encCps))
        | .error e => showErr e
      | _, _, _, _ => "bad-op"
  | ["prop", d, ff, n, v, p] => match decList d, decCps n, decCps v, decCps p with
      | some d, some n, some v, some p =>
        if ff != "0" && ff != "1" then "bad-op" else
        match propValid accReFast { reg0 with default := d } ffName (ff == "1") { name := n, value := v, priority := p } with
        | .ok b => "ok " ++ b01 b
        | .error e => showErr e
      | _, _, _, _ => "bad-op"
  | "sheet" :: d :: toks => match decList d with
      | some d =>
        let reg : Registry Re := { reg0 with default := d }
        match parseRules (toks.length + 1) toks [] false with
        | some (rules, _) =>
          match sheetValid accReFast reg ffName rules with
          | .ok b => "ok " ++ b01 b ++ " " ++ (if rules.isEmpty then "E" else ",".intercalate (rules.map (showRule reg)))
              ++ " " ++ b01 (rulesAllValid accReFast reg ffName rules)
          | .error e => showErr e
        | none => "bad-op"
      | none => "bad-op"
  | "ser" :: d :: ff :: vo :: toks => match decList d with
      | some d =>
        if (ff != "0" && ff != "1") || (vo != "0" && vo != "1") then "bad-op" else
        let reg : Registry Re := { reg0 with default := d }
        -- one reply character per declaration: 1 = written, 0 = dropped (wellformed declarations only)
        let rec go : List String → String → String
          | [], acc => if acc.isEmpty then "E" else acc
          | t :: ts, acc => match decDecl t with
            | some p => match serProperty accReFast reg ffName (ff == "1") (vo == "1")
                  { prop := p, text := [120], wellformed := true } with
              | .ok txt => go ts (acc ++ (if txt.isEmpty then "0" else "1"))
              | .error e => showErr e
            | none => "bad-op"
        go toks ""
      | none => "bad-op"
  | "vt" :: lv :: sp :: lis :: ls :: pns :: ps :: scs :: ind :: fl :: toks =>
      match lv.toNat?, decCps sp, decCps lis, decCps ls, decCps pns, decCps ps, decCps scs, decCps ind, decVToks toks with
      | some lv, some sp, some lis, some ls, some pns, some ps, some scs, some ind, some ts =>
        match fl.toList with
        | [a, b, c] =>
          if !([a, b, c].all fun x => x == '0' || x == '1') then "bad-op" else
          let p := vtPrefs sp lis ls pns ps scs ind (a == '1') (b == '1') (c == '1')
          match ValueText.parseValue ts with
          | none => "bad"
          | some seq => "ok " ++ (if seq.isEmpty then "E" else ",".intercalate (seq.map showSItem)) ++ " " ++
              encCps (ValueText.valueText p lv seq)
        | _ => "bad-op"
      | _, _, _, _, _, _, _, _, _ => "bad-op"
  | ["flag", s, d] =>
      let dec (w : String) : Option (Option Bool) :=
        if w == "N" then some none else if w == "0" then some (some false) else if w == "1" then some (some true) else none
      match dec s, dec d with
      | some s, some d => b01 (declValidating s d)
      | _, _ => "bad-op"
  | _ => "bad-op"

def main : IO Unit := serve handle
