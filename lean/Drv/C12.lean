import CssVerif.Model.Globals
import CssVerif.Model.GlobalsMemo
open CssVerif.Proto CssVerif.GProd CssVerif.Globals

/-! line protocol of the C12 model driver (see tools/harness/c12.py)

`pp <R|L> <saved> <pushed> <T|L> <toks> <k> <fuel> <env>`
  tokens  `c3,s8,o5!,e11!,i10` (type letter, symbol, `!` = value in ',/'), `-` = none
  env     specs joined by `|`; spec = `<flags K C E P or ->/<node>;<node>…`
  node    `P:<acc +-joined>:<flags o s k i n m or ->:<d|k|cN>`  `S:<children>:<min>:<max|*>`  `C:<children>:<-|t|f>`
reply     `<outcome> / <saved> / <pushed>`
-/

def splitOnChar (s : String) (c : Char) : List String := s.splitOn (String.singleton c)

def parseTok (w : String) : Option Tok :=
  match w.toList with
  | [] => none
  | ty :: rest =>
    let sep := rest.getLast? == some '!'
    let digits := if sep then rest.dropLast else rest
    match (String.ofList digits).toNat? with
    | none => none
    | some n =>
      let typ? : Option TT := match ty with
        | 'c' => some .comment | 's' => some .s | 'i' => some .invalid | 'e' => some .eof | 'o' => some .other
        | _ => none
      typ?.map fun typ => { typ := typ, sym := n, sep := sep }

def parseList {α} (f : String → Option α) (sepc : Char) (w : String) : Option (List α) :=
  if w == "-" then some []
  else (splitOnChar w sepc).foldr (fun x acc => match f x, acc with
    | some a, some l => some (a :: l)
    | _, _ => none) (some [])

def parseToks : String → Option (List Tok) := parseList parseTok ','
def parseNats : String → Option (List Nat) := parseList String.toNat? '+'

def parseNode (w : String) : Option Node :=
  match splitOnChar w ':' with
  | ["P", acc, fl, act] =>
    let has (c : Char) := fl.toList.contains c
    let flags : PFlags := { optional := has 'o', stop := has 's', stopAndKeep := has 'k', stopIf := has 'i',
                            nextSor := has 'n', mayEnd := has 'm' }
    let act? : Option Act := match act.toList with
      | ['d'] => some .drop
      | ['k'] => some .keep
      | 'c' :: ds => (String.ofList ds).toNat?.map .child
      | _ => none
    match parseNats acc, act? with
    | some a, some ac => some (.prod a flags ac)
    | _, _ => none
  | ["S", ch, mn, mx] =>
    match parseNats ch, mn.toNat?, (if mx == "*" then some maxsize else mx.toNat?) with
    | some c, some a, some b => some (.seq c a b)
    | _, _, _ => none
  | ["C", ch, opt] =>
    let o? : Option (Option Bool) := if opt == "-" then some none else if opt == "t" then some (some true)
      else if opt == "f" then some (some false) else none
    match parseNats ch, o? with
    | some c, some o => some (.choice c o)
    | _, _ => none
  | _ => none

def parseSpec (w : String) : Option Spec :=
  match splitOnChar w '/' with
  | [fl, nodes] =>
    let has (c : Char) := fl.toList.contains c
    (parseList parseNode ';' nodes).bind fun tb =>
      if wfTable tb then some { tb := tb, keepS := has 'K', checkS := has 'C', emptyOk := has 'E', postErr := has 'P' }
      else none
  | _ => none

def showTok (t : Tok) : String :=
  (match t.typ with | .comment => "c" | .s => "s" | .invalid => "i" | .eof => "e" | .other => "o")
    ++ toString t.sym ++ (if t.sep then "!" else "")

def showToks (l : List Tok) : String := if l.isEmpty then "-" else ",".intercalate (l.map showTok)

def showItem : Item → String
  | .com s => "c" ++ toString s
  | .tok s true => "S" ++ toString s
  | .tok s false => "t" ++ toString s
  | .openc k => "(" ++ toString k
  | .closec true => ")1"
  | .closec false => ")0"
  | .closeNoContent => ")n"
  | .closeOther => ")x"

def showOut : Out → String
  | .ok wf items => "ok " ++ (if wf then "1 " else "0 ") ++ (if items.isEmpty then "-" else ",".intercalate (items.map showItem))
  | .noContent => "nocontent"
  | .raised => "raised"
  | .noFuel => "nofuel"
  | .unsupported => "unsupported"

/-! `hist <raising 0|1> <profiles +-joined|-> <fuel> <step> <step> …` — a history on the top-level state machine
(`Model/Globals.lean`); steps (blank separated tokens, bodies in parentheses):
  `log0|log1`  `imp ( inner ) RES ( sub )`  `mode0|mode1`  `pref i v`  `ind0|ind1`  `newser`  `prof LIST`
  `newp RV`  `pstr P V INP ( body )`  `psty P V INP ( body )`  `pfile P V FOUND INP ( body )`
  `purl P V ( inner ) RES INP ( body )`   (P = o<i> | f<r><v> | R | L;  V = validate argument: - | 0 | 1)
  `direct ( body )`  `comb STEP ( post ) ( serBody )`  `ser RULES`
  P = R|L, INP = s|b|x, RES = C|N|Rd|Rx|Ro|Ru0|Ru1, RULES = `els:spec;spec,els:spec` (els `1+2`, spec `0.0.1.1`)
reply: one observation per top-level step, joined by ` | `:
  `<ok|dom|decode|os|user0|user1> <obs,…|-> <raising> <saved empty> <same serializer> <prefs> <indent> <profiles> <parsers rv,rv…>` -/

def parseRes : String → Option FetchRes
  | "C" => some .content
  | "N" => some .nothing
  | "Rd" => some (.raises .dom)
  | "Rx" => some (.raises .decode)
  | "Ro" => some (.raises .os)
  | "Ru0" => some (.raises (.user false))
  | "Ru1" => some (.raises (.user true))
  | _ => none

/-- `o3` = the parser object number 3; `f10` = a parser made for this call (raiseExceptions=1, validate=0);
`R` / `L` = `f11` / `f01` -/
def parseP (w : String) : Option PRef :=
  match w.toList with
  | ['R'] => some (.fresh ⟨true, true⟩)
  | ['L'] => some (.fresh ⟨false, true⟩)
  | ['f', r, v] => some (.fresh ⟨r == '1', v == '1'⟩)
  | 'o' :: ds => (String.ofList ds).toNat?.map .obj
  | _ => none

/-- the per-call `validate` argument: `-` (not given), `0`, `1` -/
def parseV : String → Option (Option Bool)
  | "-" => some none
  | "0" => some (some false)
  | "1" => some (some true)
  | _ => none

def parseInp : String → Option Input
  | "s" => some .str
  | "b" => some .bytesOk
  | "x" => some .bytesBad
  | _ => none

def parseRule (w : String) : Option SelRec :=
  match splitOnChar w ':' with
  | [els, specs] =>
    match parseNats els, parseList (parseList String.toNat? '.') ';' specs with
    | some e, some sp => some ⟨e, sp⟩
    | _, _ => none
  | _ => none

mutual
def parseStep : Nat → List String → Option (Step × List String)
  | 0, _ => none
  | fuel + 1, toks =>
    match toks with
    | "log0" :: r => some (.log false, r)
    | "log1" :: r => some (.log true, r)
    | "mode0" :: r => some (.setMode false, r)
    | "mode1" :: r => some (.setMode true, r)
    | "ind0" :: r => some (.setIndent false, r)
    | "ind1" :: r => some (.setIndent true, r)
    | "newser" :: r => some (.newSer, r)
    | "pref" :: i :: v :: r => match i.toNat?, v.toNat? with
      | some i, some v => some (.setPref i v, r)
      | _, _ => none
    | "prof" :: l :: r => (parseNats l).map fun l => (.setProfiles l, r)
    | "newp" :: w :: r => match w.toList with
      | [a, b] => some (.newParser ⟨a == '1', b == '1'⟩, r)
      | _ => none
    | "ser" :: rules :: r => (parseList parseRule ',' rules).map fun rs => (.serialize rs, r)
    | "imp" :: "(" :: r =>
      match parseSteps fuel r with
      | some (inner, res :: "(" :: r) =>
        match parseRes res, parseSteps fuel r with
        | some res, some (sub, r) => some (.imp inner res sub, r)
        | _, _ => none
      | _ => none
    | "pstr" :: p :: v :: inp :: "(" :: r =>
      match parseP p, parseV v, parseInp inp, parseSteps fuel r with
      | some p, some v, some inp, some (body, r) => some (.parseString p v inp body, r)
      | _, _, _, _ => none
    | "psty" :: p :: v :: inp :: "(" :: r =>
      match parseP p, parseV v, parseInp inp, parseSteps fuel r with
      | some p, some v, some inp, some (body, r) => some (.parseStyle p v inp body, r)
      | _, _, _, _ => none
    | "pfile" :: p :: v :: found :: inp :: "(" :: r =>
      match parseP p, parseV v, parseInp inp, parseSteps fuel r with
      | some p, some v, some inp, some (body, r) => some (.parseFile p v (found == "1") inp body, r)
      | _, _, _, _ => none
    | "purl" :: p :: v :: "(" :: r =>
      match parseP p, parseV v, parseSteps fuel r with
      | some p, some v, some (inner, res :: inp :: "(" :: r) =>
        match parseRes res, parseInp inp, parseSteps fuel r with
        | some res, some inp, some (body, r) => some (.parseUrl p v inner res inp body, r)
        | _, _, _ => none
      | _, _, _ => none
    | "direct" :: "(" :: r =>
      match parseSteps fuel r with
      | some (body, r) => some (.direct body, r)
      | none => none
    | "comb" :: r =>
      match parseStep fuel r with
      | some (src, "(" :: r) =>
        match parseSteps fuel r with
        | some (post, "(" :: r) =>
          match parseSteps fuel r with
          | some (sb, r) => some (.combine src post sb, r)
          | none => none
        | _ => none
      | _ => none
    | _ => none
/-- steps up to the closing parenthesis (which is consumed) -/
def parseSteps : Nat → List String → Option (List Step × List String)
  | 0, _ => none
  | fuel + 1, toks =>
    match toks with
    | ")" :: r => some ([], r)
    | _ =>
      match parseStep fuel toks with
      | some (s, r) =>
        match parseSteps fuel r with
        | some (ss, r) => some (s :: ss, r)
        | none => none
      | none => none
end

def parseTop : Nat → List String → Option (List Step)
  | 0, _ => none
  | _, [] => some []
  | fuel + 1, toks =>
    match parseStep fuel toks with
    | some (s, r) => (parseTop fuel r).map (s :: ·)
    | none => none

def showNats (l : List Nat) : String := if l.isEmpty then "-" else "+".intercalate (l.map toString)

def showObs : Obs → String
  | .seen b => if b then "s1" else "s0"
  | .levels l => "l" ++ showNats l
  | .pp o => "p:" ++ (showOut o).replace " " "_"
  | .none => "n"
  | .validating b => if b then "v1" else "v0"

def showErr : Err → String
  | .dom => "dom" | .decode => "decode" | .os => "os"
  | .user false => "user0" | .user true => "user1"

def b01 (b : Bool) : String := if b then "1" else "0"

def runHist (env : Env) (fuel : Nat) : List Step → G → List String
  | [], _ => []
  | s :: ss, g =>
    let r := runStep env fuel s g
    let res := match r.res with
      | .ok _ => "ok"
      | .error e => showErr e
    let obs := if r.obs.isEmpty then "-" else ",".intercalate (r.obs.map showObs)
    let line := " ".intercalate [res, obs, b01 r.g.raising, b01 r.g.saved.isEmpty, b01 (r.g.ser.id == g.ser.id),
      showNats r.g.ser.prefs, b01 r.g.ser.indentSpec, showNats r.g.profiles,
      if r.g.parsers.isEmpty then "-" else ",".intercalate (r.g.parsers.map fun p => b01 p.raising ++ b01 p.validate)]
    line :: runHist env fuel ss r.g


/-! `memo <fuel> <MACROS>;<PRODUCTIONS>;<dx> <op> <op> …` — a history on the tokenizer cache (`Model/GlobalsMemo.lean`)
  strings  dotted hex code points (`-` = empty);  items `name=text,name=text`, `E` = empty, `N` = `None`
  op       `set` (settings.set) | `new:<macros>:<productions>` (Tokenizer(macros, productions)) |
           `run:<macros>:<productions>` (a `tokenize` run of an object created with these arguments)
reply: one observation per op, joined by ` | `:
  `ok <hit 0|1> <entries in the cache> <name=pattern,…> <commentmatcher> <urimatcher>` |
  `err <KeyError:name|IndexError|diverges> <entries>` | `set <entries>`; `baddict` for a dict with a repeated key

`lazy <compiles 0|1> <flags> <compiled flags> <groups> <n>` — n method calls on one LazyRegex; reply per call
  `<ok|err>:<matcher set 0|1>:<flags>:<groups|N>` -/


def parseItem (w : String) : Option (CssVerif.Memo.Str × CssVerif.Memo.Str) :=
  match splitOnChar w '=' with
  | [a, b] => match decCps a, decCps b with
    | some a, some b => some (a, b)
    | _, _ => none
  | _ => none

def parseItems (w : String) : Option (Option CssVerif.Memo.Items) :=
  if w == "N" then some none
  else if w == "E" then some (some [])
  else (parseList parseItem ',' w).map some

def showItems (l : CssVerif.Memo.Items) : String :=
  if l.isEmpty then "E" else ",".intercalate (l.map fun kv => encCps kv.1 ++ "=" ++ encCps kv.2)

def mkDict (l : CssVerif.Memo.Items) : Option CssVerif.Memo.PyDict :=
  if h : (l.map (·.1)).Nodup then some ⟨l, h⟩ else none

inductive MemoReq
  | set
  | new (m : CssVerif.Memo.MacrosArg) (p : CssVerif.Memo.ProdsArg)
  | run (m : CssVerif.Memo.MacrosArg) (p : CssVerif.Memo.ProdsArg)
  | badDict

def parseMemoOp (w : String) : Option MemoReq :=
  if w == "set" then some .set else
  match splitOnChar w ':' with
  | [kind, m, p] =>
    if kind != "new" && kind != "run" then none else
    let mk (m : CssVerif.Memo.MacrosArg) (p : CssVerif.Memo.ProdsArg) : MemoReq :=
      if kind == "new" then .new m p else .run m p
    match parseItems m, parseItems p with
    | some none, some p => some (mk none p)
    | some (some l), some p => match mkDict l with
      | some d => some (mk (some d) p)
      | none => some .badDict
    | _, _ => none
  | _ => none

def showCErr : CssVerif.Memo.CErr → String
  | .keyError n => "KeyError:" ++ encCps n
  | .indexError => "IndexError"
  | .diverges => "diverges"

def runMemo (fuel : Nat) : List MemoReq → CssVerif.Memo.TkState CssVerif.Memo.Tables → List String
  | [], _ => []
  | .badDict :: t, s => "baddict" :: runMemo fuel t s
  | .set :: t, s =>
    let s' := CssVerif.Memo.settingsSet s
    ("set " ++ toString s'.cache.length) :: runMemo fuel t s'
  | .new m p :: t, s =>
    let r := CssVerif.Memo.newTokenizer (CssVerif.Memo.pyCompile fuel) s m p
    let line := match r.1 with
      | .ok (tb, hit) => " ".intercalate ["ok", b01 hit, toString r.2.cache.length, showItems tb.tokenmatches,
                                           encCps tb.comment, encCps tb.uri]
      | .error e => "err " ++ showCErr e ++ " " ++ toString r.2.cache.length
    line :: runMemo fuel t r.2
  | .run m p :: t, s =>
    let r := CssVerif.Memo.runTokenizer (CssVerif.Memo.pyCompile fuel) s m p
    let line := match r.1 with
      | .ok (tb, hit) => " ".intercalate ["ok", b01 hit, toString r.2.cache.length, showItems tb.tokenmatches,
                                           encCps tb.comment, encCps tb.uri]
      | .error e => "err " ++ showCErr e ++ " " ++ toString r.2.cache.length
    line :: runMemo fuel t r.2

def runLazy (re : CssVerif.Memo.ReLib Unit (Nat × Nat)) : Nat → CssVerif.Memo.Lazy (Nat × Nat) → List String
  | 0, _ => []
  | n + 1, l =>
    let r := l.query re (fun _ (_ : Unit) => ()) ()
    let res := match r.1 with
      | .ok _ => "ok"
      | .error (.compile _) => "err"
      | .error .noneAttr => "none-attr"
    (":".intercalate [res, b01 r.2.matcher.isSome, toString r.2.flags,
                       match r.2.groups with | some g => toString g | none => "N"]) :: runLazy re n r.2

def handleMemo (line : String) : Option String :=
  match words line with
  | "memo" :: fuel :: glob :: ops =>
    match fuel.toNat?, splitOnChar glob ';' with
    | some fuel, [ms, ps, dx] =>
      match parseItems ms, parseItems ps, parseItem dx, parseList parseMemoOp ' ' (" ".intercalate ops) with
      | some (some ms), some (some ps), some dx, some reqs =>
        some (" | ".intercalate (runMemo fuel reqs (CssVerif.Memo.TkState.cold { macros := ms, prods := ps, dx := dx })))
      | _, _, _, _ => some "bad-op"
    | _, _ => some "bad-op"
  | ["lazy", okc, flags, cflags, groups, n] =>
    match flags.toNat?, cflags.toNat?, groups.toNat?, n.toNat? with
    | some f, some cf, some g, some n =>
      let re : CssVerif.Memo.ReLib Unit (Nat × Nat) :=
        { compile := fun _ _ => if okc == "1" then .ok (cf, g) else .error (), flagsOf := (·.1), groupsOf := (·.2) }
      some (" ".intercalate (runLazy re n (CssVerif.Memo.Lazy.new [] f)))
    | _, _, _, _ => some "bad-op"
  | _ => none

def handle (line : String) : String :=
  match handleMemo line with
  | some r => r
  | none =>
  match words line with
  | ["pp", mode, saved, pushed, srck, toks, k, fuel, env] =>
    match parseToks saved, parseToks pushed, parseToks toks, k.toNat?, fuel.toNat?, parseList parseSpec '|' env with
    | some sv, some pu, some ts, some k, some fuel, some env =>
      if mode != "R" && mode != "L" then "bad-op" else
      if srck != "T" && srck != "L" then "bad-op" else
      let g : PG := { raising := mode == "R", saved := sv, pushed := pu }
      let src : Stream := if srck == "T" then .tkz false ts else .lst ts
      let r := ctor env fuel k src g
      showOut r.out ++ " / " ++ showToks r.g.saved ++ " / " ++ showToks r.g.pushed
    | _, _, _, _, _, _ => "bad-op"
  | "hist" :: raising :: profiles :: fuel :: steps =>
    match parseNats profiles, fuel.toNat?, parseTop (steps.length + 1) steps with
    | some pr, some fuel, some steps =>
      let g : G := { raising := raising == "1", saved := [], pushed := [], ser := ⟨0, [], false⟩, nextSer := 1,
                     profiles := pr, parsers := [] }
      " | ".intercalate (runHist [] fuel steps g)
    | _, _, _ => "bad-op"
  | _ => "bad-op"

def main : IO Unit := serve handle
