import CssVerif.Model.GlobalsProd
open CssVerif.Proto CssVerif.GProd

/-! line protocol of the C12 model driver (see tools/harness/c12.py)

`pp <R|L> <saved> <pushed> <T|L> <toks> <k> <fuel> <env>`
  tokens  `c3,s8,o5!,e11!,i10` (type letter, symbol, `!` = value in ',/'), `-` = none
  env     specs joined by `|`; spec = `<flags K C E P or ->/<node>;<node>…`
  node    `P:<acc +-joined>:<flags o s k i n m or ->:<d|k|cN>`  `S:<children>:<min>:<max|*>`  `C:<children>:<-|t|f>`
reply     `<outcome> / <saved> / <pushed>`
-/

def splitOnChar (s : String) (c : Char) : List String := s.splitOn (String.singleton c)

def parseTok (w : String) : Option Tok :=
  match w.toList with
  | [] => none
  | ty :: rest =>
    let sep := rest.getLast? == some '!'
    let digits := if sep then rest.dropLast else rest
    match (String.ofList digits).toNat? with
    | none => none
    | some n =>
      let typ? : Option TT := match ty with
        | 'c' => some .comment | 's' => some .s | 'i' => some .invalid | 'e' => some .eof | 'o' => some .other
        | _ => none
      typ?.map fun typ => { typ := typ, sym := n, sep := sep }

def parseList {α} (f : String → Option α) (sepc : Char) (w : String) : Option (List α) :=
  if w == "-" then some []
  else (splitOnChar w sepc).foldr (fun x acc => match f x, acc with
    | some a, some l => some (a :: l)
    | _, _ => none) (some [])

def parseToks : String → Option (List Tok) := parseList parseTok ','
def parseNats : String → Option (List Nat) := parseList String.toNat? '+'

def parseNode (w : String) : Option Node :=
  match splitOnChar w ':' with
  | ["P", acc, fl, act] =>
    let has (c : Char) := fl.toList.contains c
    let flags : PFlags := { optional := has 'o', stop := has 's', stopAndKeep := has 'k', stopIf := has 'i',
                            nextSor := has 'n', mayEnd := has 'm' }
    let act? : Option Act := match act.toList with
      | ['d'] => some .drop
      | ['k'] => some .keep
      | 'c' :: ds => (String.ofList ds).toNat?.map .child
      | _ => none
    match parseNats acc, act? with
    | some a, some ac => some (.prod a flags ac)
    | _, _ => none
  | ["S", ch, mn, mx] =>
    match parseNats ch, mn.toNat?, (if mx == "*" then some maxsize else mx.toNat?) with
    | some c, some a, some b => some (.seq c a b)
    | _, _, _ => none
  | ["C", ch, opt] =>
    let o? : Option (Option Bool) := if opt == "-" then some none else if opt == "t" then some (some true)
      else if opt == "f" then some (some false) else none
    match parseNats ch, o? with
    | some c, some o => some (.choice c o)
    | _, _ => none
  | _ => none

def parseSpec (w : String) : Option Spec :=
  match splitOnChar w '/' with
  | [fl, nodes] =>
    let has (c : Char) := fl.toList.contains c
    (parseList parseNode ';' nodes).bind fun tb =>
      if wfTable tb then some { tb := tb, keepS := has 'K', checkS := has 'C', emptyOk := has 'E', postErr := has 'P' }
      else none
  | _ => none

def showTok (t : Tok) : String :=
  (match t.typ with | .comment => "c" | .s => "s" | .invalid => "i" | .eof => "e" | .other => "o")
    ++ toString t.sym ++ (if t.sep then "!" else "")

def showToks (l : List Tok) : String := if l.isEmpty then "-" else ",".intercalate (l.map showTok)

def showItem : Item → String
  | .com s => "c" ++ toString s
  | .tok s true => "S" ++ toString s
  | .tok s false => "t" ++ toString s
  | .openc k => "(" ++ toString k
  | .closec true => ")1"
  | .closec false => ")0"
  | .closeNoContent => ")n"
  | .closeOther => ")x"

def showOut : Out → String
  | .ok wf items => "ok " ++ (if wf then "1 " else "0 ") ++ (if items.isEmpty then "-" else ",".intercalate (items.map showItem))
  | .noContent => "nocontent"
  | .raised => "raised"
  | .noFuel => "nofuel"
  | .unsupported => "unsupported"

def handle (line : String) : String :=
  match words line with
  | ["pp", mode, saved, pushed, srck, toks, k, fuel, env] =>
    match parseToks saved, parseToks pushed, parseToks toks, k.toNat?, fuel.toNat?, parseList parseSpec '|' env with
    | some sv, some pu, some ts, some k, some fuel, some env =>
      if mode != "R" && mode != "L" then "bad-op" else
      if srck != "T" && srck != "L" then "bad-op" else
      let g : PG := { raising := mode == "R", saved := sv, pushed := pu }
      let src : Stream := if srck == "T" then .tkz false ts else .lst ts
      let r := ctor env fuel k src g
      showOut r.out ++ " / " ++ showToks r.g.saved ++ " / " ++ showToks r.g.pushed
    | _, _, _, _, _, _ => "bad-op"
  | _ => "bad-op"

def main : IO Unit := serve handle
