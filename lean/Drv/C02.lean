import CssVerif.Model.Normalize
open CssVerif.Proto CssVerif.Normalize

def handle (line : String) : String :=
  match words line with
  | ["normalize", x] => match decCps x with
      | some l => encCps (normalize l)
      | none => "bad-op"
  | _ => "bad-op"

def main : IO Unit := serve handle
