import CssVerif.Model.StrCodec
import CssVerif.Model.StrSafe
import CssVerif.Gen.C03Productions
import CssVerif.Model.Tok
import CssVerif.Model.SheetCanon
import CssVerif.Model.SheetCanonWire
import CssVerif.Gen.C02Margins
open CssVerif CssVerif.Proto CssVerif.StrCodec

def showOpt : Option (List Nat) → String
  | some l => "OK " ++ encCps l
  | none => "ERR IndexError"

def showLen : Option Nat → String
  | some n => "N " ++ toString n
  | none => "NONE"

def genRe (name : String) : Option Re :=
  match name with
  | "STRING" => some Gen.C03.stringRe
  | "URI" => some Gen.C03.uriRe
  | "IDENT" => some Gen.C03.identRe
  | "COMMENT" => some Gen.C03.commentRe
  | "unicodesub" => some Gen.C03.unicodesubRe
  | "stringsub" => some Gen.C03.stringsubRe
  | "simpleescapes" => some Gen.C03.simpleescapesRe
  | "forbidden_in_uri" => some Gen.C03.forbiddenInUriRe
  | _ => none

/-- the hand-written counterpart of each generated pattern: length of the match at the start -/
def handLen (name : String) (s : List Nat) : Option (Option Nat) :=
  match name with
  | "STRING" => some (lexString s)
  | "IDENT" => some (lexIdent s)
  | "COMMENT" => some (lexComment s)
  | "URI" => some (lexUriPlain s)
  | "unicodesub" => some ((escMatch s).map (·.1))
  | "stringsub" => some ((strMatch s).map (·.1))
  | "simpleescapes" => some ((simpleEscMatch s).map (·.1))
  | _ => none

def showClass : Option Unsafe → String
  | none => "safe"
  | some .dq => "dq"
  | some .bshex => "bshex"
  | some .bsnl => "bsnl"
  | some .trail => "trail"

def kindOf (k : String) : Option TokKind :=
  match k with
  | "s" => some .string
  | "o" => some .other
  | "r" => some .raw
  | _ => none

/-- sheet level (structure): `canon SX` -> the tokens of `serialise s`; `reparse SX` -> `eq` when the model's parse of
those tokens projects to `erase (prune s)` (the theorem `parse_serialise`, evaluated), `fix SX` -> `eq` when
`canon (canon s)` renders the same tokens (the theorem `serialise_fixpoint`, evaluated) -/
def handleSheet (op : String) (ws : List String) : String :=
  open CssVerif.SheetCanonWire CssVerif.SheetCanon CssVerif.SheetSpec CssVerif.Struct in
  match (parseSX ws).bind sxSheet with
  | none => "bad-op"
  | some s =>
    match op with
    | "canon" => encToks (serialise s)
    | "reparse" =>
      let got := jASheet false (projSheet orc CssVerif.Gen.C02.margins (parseSheet orc CssVerif.Gen.C02.margins (serialise s)))
      let want := jASheet false (prune s).erase
      if got == want then "eq" else "ne " ++ got ++ " " ++ want
    | "fix" => if encToks (serialise (canon s)) == encToks (serialise s) then "eq" else "ne " ++ encToks (serialise (canon s))
    | _ => "bad-op"

def handle (line : String) : String :=
  match words line with
  | "canon" :: ws => handleSheet "canon" ws
  | "reparse" :: ws => handleSheet "reparse" ws
  | "fix" :: ws => handleSheet "fix" ws
  | [op, a] =>
    match decCps a with
    | none => "bad-op"
    | some s =>
      match op with
      | "usub" => encCps (usub s)
      | "ssub" => encCps (ssub s)
      | "normalize" => encCps (normalize s)
      | "string" => encCps (helperString s)
      | "stringvalue" => showOpt (stringvalue s)
      | "uri" => encCps (helperUri s)
      | "urivalue" => showOpt (urivalue s)
      | "uritokenvalue" => showOpt (uritokenvalue s)
      | "forb" => if forbMatch s then "1" else "0"
      | "strD" => showOpt (strD s)
      | "uriD" => showOpt (uriD s)
      | "uriDTok" => showOpt (uriDTok s)
      | "strclass" => showClass (strClass s)
      | "uriclass" => showClass (uriClass s)
      | "escfree" => if escFree s then "1" else "0"
      -- write, then read back as a token of the same kind: `RT <written> <re-read value | LEX>`
      | "strRT" => let w := strE s
          "RT " ++ encCps w ++ " " ++ (if lexString w = some w.length then showOpt (strD w) else "LEX")
      | "uriRT" => let w := uriE s
          "RT " ++ encCps w ++ " " ++ showOpt (uriD w)
      | _ => "bad-op"
  | [op, n, a] =>
    match decCps a with
    | none => "bad-op"
    | some s =>
      match op with
      | "re" => (match genRe n with
          | some r => showLen (r.first s)
          | none => "bad-op")
      | "hand" => (match handLen n s with
          | some r => showLen r
          | none => "bad-op")
      | "tokval" => (match kindOf n with
          | some k => encCps (tokValue k s)
          | none => "bad-op")
      -- the same value computed by the C05 tokenizer model (`Model/Tok.lean`, regex-driven `subGo` over the
      -- generated patterns): `SAME` / `DIFF <value>`; the two hand models must agree
      | "tokc05" => (match kindOf n with
          | some .string => (match CssVerif.Tok.subS s with
              | some v => if v == tokValue .string s then "SAME" else "DIFF " ++ encCps v
              | none => "DIFF raised")
          | some .other => (match CssVerif.Tok.subU s with
              | some v => if v == tokValue .other s then "SAME" else "DIFF " ++ encCps v
              | none => "DIFF raised")
          | _ => "bad-op")
      | _ => "bad-op"
  | _ => "bad-op"

def main : IO Unit := serve handle
