import CssVerif.Model.SerCost
import CssVerif.Model.ParseAll
import CssVerif.Gen.C04Margins
/-!
Driver for C01. One request per line:

  visits K TREE                 -> `<n>`      serializer entries for a value tree (Model/SerCost)
  pipe DOC TEXT ORACLE          -> JSON       the composed kernels on a text (Model/ParseAll): tokenizer, sheet
                                              dispatcher, selector machine on every ruleset prelude, media engine on
                                              every @media prelude; ORACLE answers for what stays opaque (property
                                              values, bodies of the other at-rules, @namespace), as in Drv/C04
  nsq DOC TEXT                  -> JSON list  keys of every statement starting at a NAMESPACE_SYM
  selcall NS TOKS               -> `ok1|ok0|raised dom=0|1 n=<tokens>`     the selector machine on one prelude
  mediacall TOKS                -> `ok1|ok0|unsupported dom=0|1 n=<tokens>` the media engine on one prelude

DOC = `1|0` (parseComments); TEXT = hex code points; TOKS = `TYPE:hex,…` or `-`; NS = `-` | `pfx=uri&…`;
ORACLE, KEY as in Drv/C04 (entries `v:` `a:` `n:`; `s:` / `m:` entries are ignored: the machines answer).
-/
open CssVerif.Proto CssVerif.SerCost CssVerif.Struct CssVerif.ParseAll

def nameOfTT : TT → String
  | .ident => "IDENT" | .function => "FUNCTION" | .char => "CHAR" | .s => "S" | .comment => "COMMENT"
  | .eof => "EOF" | .atkeyword => "ATKEYWORD" | .string => "STRING" | .uri => "URI" | .invalid => "INVALID"
  | .cdo => "CDO" | .cdc => "CDC" | .charsetSym => "CHARSET_SYM" | .importSym => "IMPORT_SYM"
  | .namespaceSym => "NAMESPACE_SYM" | .pageSym => "PAGE_SYM" | .mediaSym => "MEDIA_SYM"
  | .fontFaceSym => "FONT_FACE_SYM" | .variablesSym => "VARIABLES_SYM" | .other => "OTHER"

/-- KEY of a token list -/
def keyOf (l : List Tok) : String :=
  match l with
  | [] => "e"
  | t :: ts =>
    let rec contiguous (p : Nat) : List Tok → Bool
      | [] => true
      | x :: xs => x.pos == p + 1 && contiguous x.pos xs
    if contiguous t.pos ts then
      s!"{t.pos}-{(l.getLast?.map (·.pos)).getD t.pos}"
    else "+".intercalate (l.map fun x => toString x.pos)

def nsKey (ns : List (Cps × Cps)) : String :=
  if ns.isEmpty then "-" else "&".intercalate (ns.map fun e => encCps e.1 ++ "=" ++ encCps e.2)

/-- the oracle table: (query string, answer words) -/
abbrev Table := List (String × List String)

def decTable (w : String) : Option Table :=
  if w == "-" then some []
  else (w.splitOn ",").foldr (fun e acc =>
    match acc with
    | none => none
    | some l =>
      match e.splitOn ":" with
      | ["v", k, b] => some ((s!"v:{k}", [b]) :: l)
      | ["m", k, b] => some ((s!"m:{k}", [b]) :: l)
      | ["s", ns, k, b] => some ((s!"s:{ns}:{k}", [b]) :: l)
      | ["a", ty, im, k, b] => some ((s!"a:{ty}:{im}:{k}", [b]) :: l)
      | ["n", k, "0"] => some ((s!"n:{k}", ["0"]) :: l)
      | ["n", k, "1", p, u] => some ((s!"n:{k}", ["1", p, u]) :: l)
      | _ => none) (some [])

def lookupB (tb : Table) (q : String) : Bool :=
  match tb.lookup q with
  | some ["0"] => false
  | _ => true

def oracleOf (tb : Table) : Oracle where
  valueOk l := lookupB tb s!"v:{keyOf l}"
  selOk ns l := lookupB tb s!"s:{nsKey ns}:{keyOf l}"
  mediaOk l := lookupB tb s!"m:{keyOf l}"
  atOk t im l := lookupB tb s!"a:{nameOfTT t}:{if im then "1" else "0"}:{keyOf l}"
  nsInfo l :=
    match tb.lookup s!"n:{keyOf l}" with
    | some ["1", p, u] => match decCps p, decCps u with
      | some p, some u => some (p, u)
      | _, _ => none
    | _ => none

def q (s : String) : String := "\"" ++ s ++ "\""

def optPos : Option Tok → String
  | none => "null"
  | some t => toString t.pos

def jItem : Item → String
  | .decl d => "{\"k\":\"decl\",\"name\":" ++ toString d.name.pos ++ ",\"value\":" ++ q (keyOf d.value)
      ++ ",\"prio\":" ++ optPos d.prio ++ "}"
  | .unknown l => "{\"k\":\"unknown\",\"toks\":" ++ q (keyOf l) ++ "}"
  | .comment t => "{\"k\":\"comment\",\"pos\":" ++ toString t.pos ++ "}"
  | .dropped l => "{\"k\":\"dropped\",\"toks\":" ++ q (keyOf l) ++ "}"

def jList (l : List String) : String := "[" ++ ",".intercalate l ++ "]"

def kindName : Kind → String
  | .comment => "comment" | .charset => "charset" | .import_ => "import" | .namespace_ => "namespace"
  | .variables => "variables" | .fontface => "fontface" | .page => "page" | .margin => "margin"
  | .media => "media" | .style => "style" | .unknown => "unknown"

mutual
def jRule : Rule → String
  | .comment t => "{\"k\":\"comment\",\"pos\":" ++ toString t.pos ++ "}"
  | .at_ k l => "{\"k\":" ++ q (kindName k) ++ ",\"toks\":" ++ q (keyOf l) ++ "}"
  | .ns p u l => "{\"k\":\"namespace\",\"toks\":" ++ q (keyOf l) ++ ",\"pfx\":" ++ q (encCps p)
      ++ ",\"uri\":" ++ q (encCps u) ++ "}"
  | .unknown l => "{\"k\":\"unknown\",\"toks\":" ++ q (keyOf l) ++ "}"
  | .style ns sel items => "{\"k\":\"style\",\"ns\":" ++ q (nsKey ns) ++ ",\"sel\":" ++ q (keyOf sel) ++ ",\"items\":"
      ++ jList (items.map jItem) ++ "}"
  | .media none _ => "{\"k\":\"media\",\"stub\":true}"
  | .media (some (mq, name)) rules => "{\"k\":\"media\",\"mq\":" ++ q (keyOf mq) ++ ",\"name\":" ++ optPos name
      ++ ",\"rules\":[" ++ jRules rules ++ "]}"
def jRules : List Rule → String
  | [] => ""
  | [r] => jRule r
  | r :: rs => jRule r ++ "," ++ jRules rs
end

/-- which selector queries a rule list shows (the harness needs the namespace context of each) -/
def jNs (ns : List (Cps × Cps)) : String := q (nsKey ns)

/-- all statements that start at a NAMESPACE_SYM token, wherever it stands (a superset of the `nsInfo`
queries the sheet dispatcher can make: the sheet-level list is consumed left to right) -/
def nsQueries : List Tok → List String
  | [] => []
  | t :: ts =>
    (if t.typ = .namespaceSym then [q (keyOf (upto .default (some t) ts).1)] else []) ++ nsQueries ts


def decNs (w : String) : Option (List (Cps × Cps)) :=
  if w == "-" then some []
  else (w.splitOn "&").foldr (fun e acc =>
    match acc, e.splitOn "=" with
    | some l, [p, u] => match decCps p, decCps u with
      | some p, some u => some ((p, u) :: l)
      | _, _ => none
    | _, _ => none) (some [])

/-- `TYPE:hex` pairs -/
def decPairs (w : String) : Option (List (String × Cps)) :=
  if w == "-" then some []
  else (w.splitOn ",").foldr (fun e acc =>
    match acc, e.splitOn ":" with
    | some l, [ty, v] => match decCps v with
      | some v => some ((ty, v) :: l)
      | none => none
    | _, _ => none) (some [])

def outcomeName : Outcome → String
  | .ok true => "ok1" | .ok false => "ok0" | .raised => "raised" | .unsupported => "unsupported"

def stopName : CssVerif.Tok.Stop → String
  | .done _ _ => "done" | .stuck _ => "stuck" | .raised _ => "raised" | .noFuel _ => "noFuel"

def itemWire (it : CssVerif.Tok.Item) : String := it.typ ++ ":" ++ encCps it.value

def handle (line : String) : String :=
  match words line with
  | ["visits", k, t] =>
    match k.toNat?, parseV t.toList (t.length + 1) with
    | some k, some (v, []) => toString (visits k v)
    | _, _ => "bad-op"
  | ["pipe", doc, text, tb] =>
    match decCps text, decTable tb with
    | some text, some tb =>
      if doc != "0" && doc != "1" then "bad-op" else
      let doC := doc == "1"
      let r := CssVerif.Tok.tokenize text true doC
      let items := stream text doC
      let ts := structToks items
      if !tokWF ts then "out-of-domain" else
      let st := sheetLoop (kernelOracle items (oracleOf tb)) CssVerif.Gen.C04.margins {} ts
      "{\"stop\":" ++ q (stopName r.stop) ++ ",\"iterations\":" ++ toString r.items.length
        ++ ",\"toks\":" ++ q (",".intercalate (items.map itemWire))
        ++ ",\"rules\":[" ++ jRules (cleanNamespaces st.rules) ++ "],\"expected\":" ++ toString st.expected
        ++ ",\"ns\":" ++ q (nsKey st.nsmap) ++ "}"
    | _, _ => "bad-op"
  | ["nsq", doc, text] =>
    match decCps text with
    | some text =>
      if doc != "0" && doc != "1" then "bad-op" else
      jList (nsQueries (structToks (stream text (doc == "1"))))
    | none => "bad-op"
  | ["selcall", ns, ts] =>
    match decNs ns, decPairs ts with
    | some ns, some ps =>
      let toks : List CssVerif.Sel.Tok := ps.map fun p => ⟨selTT p.1, p.2⟩
      outcomeName (selRun ns toks) ++ " dom=" ++ (if toks.all selDom then "1" else "0") ++ " n=" ++ toString toks.length
    | _, _ => "bad-op"
  | ["mediacall", ts] =>
    match decPairs ts with
    | some ps =>
      let toks : List CssVerif.Media.Tok := ps.map fun p => { typ := mediaTT p.1, val := p.2 }
      outcomeName (mediaRun toks) ++ " dom=" ++ (if toks.all mediaDom then "1" else "0") ++ " n=" ++ toString toks.length
    | none => "bad-op"
  | _ => "bad-op"

def main : IO Unit := serve handle
