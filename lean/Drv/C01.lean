import CssVerif.Model.SerCost
open CssVerif.Proto CssVerif.SerCost

def handle (line : String) : String :=
  match words line with
  | ["visits", k, t] =>
    match k.toNat?, parseV t.toList (t.length + 1) with
    | some k, some (v, []) => toString (visits k v)
    | _, _ => "bad-op"
  | _ => "bad-op"

def main : IO Unit := serve handle
