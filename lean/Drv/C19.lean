import CssVerif.Model.Urls
open CssVerif.Proto CssVerif.Urls

def showErr : Err → String
  | .valueError => "ERR ValueError"
  | .unicodeEncodeError => "ERR UnicodeEncodeError"
  | .hierarchyRequestErr => "ERR HierarchyRequestErr"
  | .unsupported => "UNSUPPORTED"
  | .fuel => "ERR OutOfFuel"

def showStrE : Except Err Str → String
  | .ok s => "OK " ++ encCps s
  | .error e => showErr e


/-! wire format of sheets (prefix notation, one word per token; strings as dotted hex):
sheet := `[` rule* `]` ;  rule := `C` s | `K` s | `I` href media found thref sheet | `N` pfx uri | `S` sel style
 | `M` media sheet | `P` sel style `[` (name style)* `]` | `F` style | `U` s ;  style := `{` (`D` name comps prio)* `}` ;
comps := `(` (`u` s | `t` s | `f` name comps)* `)` -/

abbrev Toks := List String
abbrev P (α : Type) := Option (α × Toks)

def pStr : Toks → P Str
  | w :: ws => match decCps w with
    | some s => some (s, ws)
    | none => none
  | [] => none

mutual
def pComps (fuel : Nat) : Toks → P (List Comp)
  | "(" :: ws => pCompList fuel ws
  | _ => none
def pCompList (fuel : Nat) (ws : Toks) : P (List Comp) :=
  match fuel with
  | 0 => none
  | fuel + 1 =>
    match ws with
    | ")" :: ws => some ([], ws)
    | "u" :: ws => match pStr ws with
      | some (s, ws) => match pCompList fuel ws with
        | some (cs, ws) => some (.uri s :: cs, ws)
        | none => none
      | none => none
    | "t" :: ws => match pStr ws with
      | some (s, ws) => match pCompList fuel ws with
        | some (cs, ws) => some (.tok s :: cs, ws)
        | none => none
      | none => none
    | "f" :: ws => match pStr ws with
      | some (s, ws) => match pComps fuel ws with
        | some (args, ws) => match pCompList fuel ws with
          | some (cs, ws) => some (.fn s args :: cs, ws)
          | none => none
        | none => none
      | none => none
    | _ => none
end

def pDecls (fuel : Nat) (ws : Toks) : P Style :=
  match fuel with
  | 0 => none
  | fuel + 1 =>
    match ws with
    | "}" :: ws => some ([], ws)
    | "D" :: ws => match pStr ws with
      | some (n, ws) => match pComps (ws.length + 1) ws with
        | some (v, ws) => match pStr ws with
          | some (pr, ws) => match pDecls fuel ws with
            | some (ds, ws) => some ({ name := n, value := v, prio := pr } :: ds, ws)
            | none => none
          | none => none
        | none => none
      | none => none
    | _ => none

def pStyle : Toks → P Style
  | "{" :: ws => pDecls (ws.length + 1) ws
  | _ => none

def pMargins (fuel : Nat) (ws : Toks) : P (List (Str × Style)) :=
  match fuel with
  | 0 => none
  | fuel + 1 =>
    match ws with
    | "]" :: ws => some ([], ws)
    | _ => match pStr ws with
      | some (n, ws) => match pStyle ws with
        | some (st, ws) => match pMargins fuel ws with
          | some (ms, ws) => some ((n, st) :: ms, ws)
          | none => none
        | none => none
      | none => none

mutual
def pSheet (fuel : Nat) : Toks → P Sheet
  | "[" :: ws => pRules fuel ws
  | _ => none
def pRules (fuel : Nat) (ws : Toks) : P Sheet :=
  match fuel with
  | 0 => none
  | fuel + 1 =>
    match ws with
    | "]" :: ws => some ([], ws)
    | _ => match pRule fuel ws with
      | some (r, ws) => match pRules fuel ws with
        | some (rs, ws) => some (r :: rs, ws)
        | none => none
      | none => none
def pRule (fuel : Nat) (ws : Toks) : P Rule :=
  match fuel with
  | 0 => none
  | fuel + 1 =>
    match ws with
    | "C" :: ws => match pStr ws with
      | some (s, ws) => some (.charset s, ws)
      | none => none
    | "K" :: ws => match pStr ws with
      | some (s, ws) => some (.comment s, ws)
      | none => none
    | "U" :: ws => match pStr ws with
      | some (s, ws) => some (.unknown s, ws)
      | none => none
    | "N" :: ws => match pStr ws with
      | some (a, ws) => match pStr ws with
        | some (b, ws) => some (.ns a b, ws)
        | none => none
      | none => none
    | "I" :: ws => match pStr ws with
      | some (h, ws) => match pStr ws with
        | some (m, f :: ws) => match pStr ws with
          | some (th, ws) => match pSheet fuel ws with
            | some (sh, ws) => if f == "0" || f == "1" then some (.imp h m (f == "1") th sh, ws) else none
            | none => none
          | none => none
        | _ => none
      | none => none
    | "S" :: ws => match pStr ws with
      | some (sel, ws) => match pStyle ws with
        | some (st, ws) => some (.style sel st, ws)
        | none => none
      | none => none
    | "F" :: ws => match pStyle ws with
      | some (st, ws) => some (.fontface st, ws)
      | none => none
    | "M" :: ws => match pStr ws with
      | some (m, ws) => match pSheet fuel ws with
        | some (rs, ws) => some (.media m rs, ws)
        | none => none
      | none => none
    | "P" :: ws => match pStr ws with
      | some (sel, ws) => match pStyle ws with
        | some (st, "[" :: ws) => match pMargins (ws.length + 1) ws with
          | some (ms, ws) => some (.page sel st ms, ws)
          | none => none
        | _ => none
      | none => none
    | _ => none
end

def pVfsEntries (fuel : Nat) (ws : Toks) : P Vfs :=
  match fuel with
  | 0 => none
  | fuel + 1 =>
    match ws with
    | ">" :: ws => some ([], ws)
    | _ => match pStr ws with
      | some (u, ws) => match pSheet (ws.length + 1) ws with
        | some (sh, ws) => match pVfsEntries fuel ws with
          | some (es, ws) => some ((u, sh) :: es, ws)
          | none => none
        | none => none
      | none => none

def pVfs : Toks → P Vfs
  | "<" :: ws => pVfsEntries (ws.length + 1) ws
  | _ => none

mutual
def shComp : Comp → List String
  | .uri u => ["u", encCps u]
  | .tok t => ["t", encCps t]
  | .fn n args => ["f", encCps n, "("] ++ shCompsL args ++ [")"]
def shCompsL : List Comp → List String
  | [] => []
  | c :: cs => shComp c ++ shCompsL cs
end

def shStyle (st : Style) : List String :=
  ["{"] ++ st.flatMap (fun d => ["D", encCps d.name, "("] ++ shCompsL d.value ++ [")", encCps d.prio]) ++ ["}"]

mutual
def shRule (deep : Bool) : Rule → List String
  | .charset s => ["C", encCps s]
  | .comment s => ["K", encCps s]
  | .unknown s => ["U", encCps s]
  | .ns a b => ["N", encCps a, encCps b]
  | .imp h m f th sh =>
    ["I", encCps h, encCps m, if f then "1" else "0", encCps th, "["] ++ (if deep then shRules deep true sh else []) ++ ["]"]
  | .style sel st => ["S", encCps sel] ++ shStyle st
  | .fontface st => ["F"] ++ shStyle st
  | .media m rs => ["M", encCps m, "["] ++ shRules deep false rs ++ ["]"]
  | .page sel st ms => ["P", encCps sel] ++ shStyle st ++ ["["] ++ ms.flatMap (fun m => encCps m.1 :: shStyle m.2) ++ ["]"]
/-- `dropC`: leave out @charset rules (those of imported sheets are C08's business and not compared) -/
def shRules (deep dropC : Bool) : List Rule → List String
  | [] => []
  | r :: rs => (if dropC && isCharset r then [] else shRule deep r) ++ shRules deep dropC rs
end

def shSheet (s : Sheet) (deep : Bool := true) : String := " ".intercalate (["["] ++ shRules deep false s ++ ["]"])

def shStrs (l : List Str) : String := " ".intercalate (l.map encCps)

def shFLog (l : FLog) : String :=
  " ".intercalate (l.map fun e => (match e.1 with | .user => "u:" | .dflt => "d:") ++ encCps e.2)

/-- the replacers the harness can ask for -/
def mkReplacer (spec : String) : Option (Str → Except Err Str) :=
  match spec.splitOn ":" with
  | ["id"] => some fun u => .ok u
  | ["pfx", p] => match decCps p with
    | some p => some fun u => .ok (p ++ u)
    | none => none
  | ["rep", h] => match decCps h with
    | some h => some (replacer h)
    | none => none
  | ["fail", p] => match decCps p with
    | some p => some fun u => if u = p then .error .valueError else .ok (0x58 :: u)
    | none => none
  | _ => none

def shLogged (r : Logged Sheet) : String :=
  match r with
  | .ok a => "OK " ++ shSheet a.1 ++ " | " ++ shStrs a.2
  | .error e => showErr e

def shRes (r : Res Sheet) (deep : Bool := true) : String :=
  (match r.val with
   | .ok s => "OK " ++ shSheet s deep
   | .error e => showErr e) ++ " | " ++ shFLog r.log

def handle (line : String) : String :=
  match words line with
  | ["normpath", p] => match decCps p with
      | some p => "OK " ++ encCps (normpath p)
      | none => "bad-op"
  | ["psplit", p] => match decCps p with
      | some p => "OK " ++ encCps (psplit p).1 ++ " " ++ encCps (psplit p).2
      | none => "bad-op"
  | ["pjoin", a, b, c] => match decCps a, decCps b, decCps c with
      | some a, some b, some c => "OK " ++ encCps (pjoin a [b, c])
      | _, _, _ => "bad-op"
  | ["urlsplit", u] => match decCps u with
      | some u => match urlsplit u with
        | .ok s => "OK " ++ " ".intercalate ([s.scheme, s.netloc, s.path, s.query, s.fragment].map encCps)
        | .error e => showErr e
      | none => "bad-op"
  | ["urlunsplit", a, b, c, d, e] => match decCps a, decCps b, decCps c, decCps d, decCps e with
      | some a, some b, some c, some d, some e =>
        "OK " ++ encCps (urlunsplit { scheme := a, netloc := b, path := c, query := d, fragment := e })
      | _, _, _, _, _ => "bad-op"
  | ["urljoin", b, u] => match decCps b, decCps u with
      | some b, some u => showStrE (urljoin b u)
      | _, _ => "bad-op"
  | ["quote", s] => match decCps s with
      | some s => showStrE (quote s)
      | none => "bad-op"
  | ["replacer", h, u] => match decCps h, decCps u with
      | some h, some u => showStrE (replacer h u)
      | _, _ => "bad-op"
  | "geturls" :: ws => match pSheet (ws.length + 1) ws with
      | some (sh, []) => "OK " ++ shStrs (getUrls sh)
      | _ => "bad-op"
  | "allurls" :: ws => match pSheet (ws.length + 1) ws with
      | some (sh, []) => "OK " ++ shStrs (allUrls sh)
      | _ => "bad-op"
  | "replace" :: spec :: ign :: ws => match mkReplacer spec, pSheet (ws.length + 1) ws with
      | some f, some (sh, []) =>
        if ign == "0" || ign == "1" then shLogged (replaceUrls f (fun _ => (false, [], [])) (ign == "1") sh)
        else "bad-op"
      | _, _ => "bad-op"
  | "replstyle" :: spec :: ws => match mkReplacer spec, pStyle ws with
      | some f, some (st, []) => match replStyle f st with
        | .ok a => "OK " ++ " ".intercalate (shStyle a.1) ++ " | " ++ shStrs a.2
        | .error e => showErr e
      | _, _ => "bad-op"
  | "parse" :: h :: ws => match decCps h, pVfs ws with
      | some h, some (vfs, ws) => match pSheet (ws.length + 1) ws with
        | some (sh, []) => shRes (parseSheet vfs h sh)
        | _ => "bad-op"
      | _, _ => "bad-op"
  | "resolvetree" :: h :: ws => match decCps h, pVfs ws with
      -- `resolveImports` on a sheet given in its loaded state (after DOM edits): the tree as it is
      | some h, some (vfs, ws) => match pSheet (ws.length + 1) ws with
        | some (sh, []) => shRes (resolveImports vfs .user h sh) false
        | _ => "bad-op"
      | _, _ => "bad-op"
  | "resolve" :: h :: ws => match decCps h, pVfs ws with
      | some h, some (vfs, ws) => match pSheet (ws.length + 1) ws with
        | some (sh, []) =>
          let a := parseSheet vfs h sh
          match a.val with
          | .ok loaded => shRes (resolveImports vfs .user h loaded) false ++ " | " ++ shFLog a.log
          | .error e => "PARSE-" ++ showErr e
        | _ => "bad-op"
      | _, _ => "bad-op"
  | "resolveinto" :: h :: th :: ws => match decCps h, decCps th, pVfs ws with
      -- `resolveImports(sheet, target)` with a target that holds rules already and has the href `th`
      | some h, some th, some (vfs, ws) => match pSheet (ws.length + 1) ws with
        | some (sh, ws2) => match pSheet (ws2.length + 1) ws2 with
          | some (tg, []) =>
            let a := parseSheet vfs h sh
            match a.val with
            | .ok loaded => shRes (resolveRules vfs .user th tg loaded) false
            | .error e => "PARSE-" ++ showErr e
          | _ => "bad-op"
        | _ => "bad-op"
      | _, _, _ => "bad-op"
  | "flatspecinto" :: h :: th :: ws => match decCps h, decCps th, pVfs ws with
      -- the specification of the same: the groups of the sheet added to the target one by one (`run`)
      | some h, some th, some (vfs, ws) => match pSheet (ws.length + 1) ws with
        | some (sh, ws2) => match pSheet (ws2.length + 1) ws2 with
          | some (tg, []) =>
            let a := parseSheet vfs h sh
            match a.val with
            | .ok loaded =>
              let c := cascRules vfs .user th loaded
              shRes ⟨(match c.val with
                | .ok l => .ok (run tg l)
                | .error e => .error e), c.log⟩ false
            | .error e => "PARSE-" ++ showErr e
          | _ => "bad-op"
        | _ => "bad-op"
      | _, _, _ => "bad-op"
  | "flatspectree" :: h :: ws => match decCps h, pVfs ws with
      -- the SPECIFICATION of flattening with kept imports (`flatSpec`) on a sheet given in its loaded state
      | some h, some (vfs, ws) => match pSheet (ws.length + 1) ws with
        | some (sh, []) => shRes (flatSpec vfs .user h sh) false
        | _ => "bad-op"
      | _, _ => "bad-op"
  | "flatspec" :: h :: ws => match decCps h, pVfs ws with
      | some h, some (vfs, ws) => match pSheet (ws.length + 1) ws with
        | some (sh, []) =>
          let a := parseSheet vfs h sh
          match a.val with
          | .ok loaded => shRes (flatSpec vfs .user h loaded) false ++ " | " ++ shFLog a.log
          | .error e => "PARSE-" ++ showErr e
        | _ => "bad-op"
      | _, _ => "bad-op"
  | _ => "bad-op"

def main : IO Unit := serve handle
