import CssVerif.Model.NsShare
import CssVerif.Model.NsCalls
/-!
Driver for C15 (stateful): one sheet; every operation replies with its outcome and the canonical state.

requests
  reset
  parse <dict> <srcrules>           srcrules: `;`-separated, `_` = none
  insns <p> <u> <idx> <inorder>     idx: `n` (None) or a decimal number
  insnstext <p> <u> <c0c1c2> <idx> <inorder>
  setns <p> <u> | delns <p> | delrule <i> | setprefix <i> <q>
  setsel <i> <ssels> | insstyle <ssels> <idx> <inorder> | insobj <sels> <idx> <inorder>
  setnstext <i> <p> <u> <c0c1c2> | rawdel <i> | insmedia <i> <ssels> <idx>
  wreset                            two empty sheets, no followed object
  w <side> <one of the requests above>      side: `0` = sheet A, `1` = sheet B
  wgrab <side> <i> <ssels> | wshare <side> <idx> <inorder> | wobjsel <ssels>
                                    reply: `<outcome> A:<state of A> B:<state of B> O=<owner a|b|n>:<index in A|->:<index in B|->`
  resolve <dict> <ssel>             stateless: a detached Selector((text, dict))
  calls <dict> <calls>              stateless: the calls of New.append (`+`-joined: `p<ps>` prefix | `c:<hex>` comment |
                                    `n:<k>:<name>` | `o:<val>:<ser>` | `x`); reply `ok <items and c:<hex>, +-joined>` | `err:Name`
  ser <dict> <sel>                  stateless

encodings (strings are dotted hex, `-` = empty)
  dict     `D` followed by `k~v` entries separated by `,`
  ssel     items joined by `+`;  selectors joined by `,`
  sitem    `q:<k>:<ps>:<name>` (k = t|u|a|n, ps = N|A|E|P<hex>) | `o:<val>:<ser>` | `x`
  item     `q:<k>:<ns>:<name>` (ns = n|a|u<hex>) | `b:<name>` | `o:<val>:<ser>`
  srcrule  `N=<p>:<u>:<c0c1c2>` | `S=<ssels>` | `M=<ssels>/<ssels>…` | `O=<kind>`
reply
  `<ok:ret|err:Name> V=<dict> R=<rules> T=<selector texts> W=<wf bits>`
-/
open CssVerif.Proto CssVerif.Ns

def showDict (d : Dict) : String :=
  "D" ++ ",".intercalate (d.map fun e => encCps e.1 ++ "~" ++ encCps e.2)

def showK : QKind → String
  | .typeSel => "t" | .universal => "u" | .attrSel => "a" | .negType => "n"

def showNsVal : NsVal → String
  | .none => "n" | .any => "a" | .uri u => "u" ++ encCps u

def showItem : Item → String
  | .q k ns name => "q:" ++ showK k ++ ":" ++ showNsVal ns ++ ":" ++ encCps name
  | .bareAttr n => "b:" ++ encCps n
  | .other v s => "o:" ++ encCps v ++ ":" ++ encCps s

def showSel (s : Sel) : String := "+".intercalate (s.map showItem)
def showSels (l : List Sel) : String := ",".intercalate (l.map showSel)

def showSeqItem : SeqItem → String
  | .pfx p => "p" ++ encCps p | .uri u => "u" ++ encCps u | .comment => "c"

def showKind : OKind → String
  | .charset => "charset" | .import => "import" | .comment => "comment" | .variables => "variables"
  | .page => "page" | .fontface => "fontface" | .unknown => "unknown"

def showRule : Rule → String
  | .ns r => "N=" ++ encCps r.pfx ++ ":" ++ encCps r.uri ++ ":" ++ "+".intercalate (r.seq.map showSeqItem)
  | .style sels => "S=" ++ showSels sels
  | .media rs => "M=" ++ "/".intercalate (rs.map showSels)
  | .other k => "O=" ++ showKind k

def commaSpace : Cps := [0x2C, 0x20]

/-- `selectorText` of a style rule: the selectors joined by `, ` (`serialize.py:818-831`) -/
def selListText (d : Dict) (sels : List Sel) : Cps :=
  match sels.map (serSel d) with
  | [] => []
  | h :: t => t.foldl (fun acc x => acc ++ commaSpace ++ x) h

def ruleTexts (d : Dict) : Rule → List String
  | .style sels => [encCps (selListText d sels)]
  | .media rs => rs.map fun sels => encCps (selListText d sels)
  | _ => []

def showErr : Err → String
  | .namespaceErr => "NamespaceErr" | .noModificationAllowedErr => "NoModificationAllowedErr"
  | .syntaxErr => "SyntaxErr" | .indexSizeErr => "IndexSizeErr" | .hierarchyRequestErr => "HierarchyRequestErr"
  | .badTarget => "BAD-TARGET"

def showOutcome : Outcome → String
  | .ok none => "ok:n"
  | .ok (some i) => "ok:" ++ toString i
  | .err e => "err:" ++ showErr e

def showState (s : Sheet) : String :=
  let d := view s
  let rules := if s.isEmpty then "_" else ";".intercalate (s.map showRule)
  let texts := (s.map (ruleTexts d)).flatten
  let wf := String.join (s.map fun r => match r with
    | .ns n => if n.wf then "1" else "0"
    | _ => "")
  "V=" ++ showDict d ++ " R=" ++ rules ++ " T=" ++ (if texts.isEmpty then "_" else ";".intercalate texts) ++
    " W=" ++ (if wf.isEmpty then "_" else wf)

/-! parsing of requests -/

def parseBool (w : String) : Option Bool :=
  if w == "1" then some true else if w == "0" then some false else none

def parseIdx (w : String) : Option (Option Nat) :=
  if w == "n" then some none else w.toNat?.map some

def parseDict (w : String) : Option Dict :=
  if !w.startsWith "D" then none else
  let body := (w.drop 1).toString
  if body.isEmpty then some [] else
  (body.splitOn ",").foldr (fun e acc => match e.splitOn "~", acc with
    | [k, v], some l => match decCps k, decCps v with
      | some k, some v => some ((k, v) :: l)
      | _, _ => none
    | _, _ => none) (some [])

def parseK (w : String) : Option QKind :=
  if w == "t" then some .typeSel else if w == "u" then some .universal
  else if w == "a" then some .attrSel else if w == "n" then some .negType else none

def parsePs (w : String) : Option PfxSpec :=
  if w == "N" then some .noPfx else if w == "A" then some .anyPfx else if w == "E" then some .emptyPfx
  else if w.startsWith "P" then (decCps (w.drop 1).toString).map .named else none

def parseNsVal (w : String) : Option NsVal :=
  if w == "n" then some .none else if w == "a" then some .any
  else if w.startsWith "u" then (decCps (w.drop 1).toString).map .uri else none

def parseSItem (w : String) : Option SItem :=
  match w.splitOn ":" with
  | ["x"] => some .bad
  | ["o", v, s] => match decCps v, decCps s with
    | some v, some s => some (.other v s)
    | _, _ => none
  | ["q", k, ps, n] => match parseK k, parsePs ps, decCps n with
    | some k, some ps, some n => some (.q k ps n)
    | _, _, _ => none
  | _ => none

def parseItem (w : String) : Option Item :=
  match w.splitOn ":" with
  | ["b", n] => (decCps n).map .bareAttr
  | ["o", v, s] => match decCps v, decCps s with
    | some v, some s => some (.other v s)
    | _, _ => none
  | ["q", k, ns, n] => match parseK k, parseNsVal ns, decCps n with
    | some k, some ns, some n => some (.q k ns n)
    | _, _, _ => none
  | _ => none

def parseList {α : Type} (sep : String) (f : String → Option α) (w : String) : Option (List α) :=
  (w.splitOn sep).foldr (fun e acc => match f e, acc with
    | some x, some l => some (x :: l)
    | _, _ => none) (some [])

def parseSSel (w : String) : Option SSel := parseList "+" parseSItem w
def parseSSels (w : String) : Option (List SSel) := parseList "," parseSSel w
def parseRSel (w : String) : Option Sel := parseList "+" parseItem w
def parseRSels (w : String) : Option (List Sel) := parseList "," parseRSel w

def parseKind (w : String) : Option OKind :=
  if w == "charset" then some .charset else if w == "import" then some .import
  else if w == "comment" then some .comment else if w == "variables" then some .variables
  else if w == "page" then some .page else if w == "fontface" then some .fontface
  else if w == "unknown" then some .unknown else none

def parseSrcRule (w : String) : Option SrcRule :=
  if w.startsWith "N=" then
    match ((w.drop 2).toString).splitOn ":" with
    | [p, u, c] => match decCps p, decCps u, c.toList with
      | some p, some u, [a, b, d] => some (.ns p u (a == '1') (b == '1') (d == '1'))
      | _, _, _ => none
    | _ => none
  else if w.startsWith "S=" then (parseSSels (w.drop 2).toString).map .style
  else if w.startsWith "M=" then (parseList "/" parseSSels (w.drop 2).toString).map .media
  else if w.startsWith "O=" then (parseKind (w.drop 2).toString).map .other
  else none

def parseSrc (w : String) : Option (List SrcRule) :=
  if w == "_" then some [] else parseList ";" parseSrcRule w

def parseOp (ws : List String) : Option Op :=
  match ws with
  | ["parse", d, src] => match parseDict d, parseSrc src with
    | some d, some src => some (.parse d src)
    | _, _ => none
  | ["insns", p, u, idx, io] => match decCps p, decCps u, parseIdx idx, parseBool io with
    | some p, some u, some idx, some io => some (.insNs p u idx io)
    | _, _, _, _ => none
  | ["insnstext", p, u, c, idx, io] => match decCps p, decCps u, c.toList, parseIdx idx, parseBool io with
    | some p, some u, [a, b, d], some idx, some io => some (.insNsText p u (a == '1') (b == '1') (d == '1') idx io)
    | _, _, _, _, _ => none
  | ["setns", p, u] => match decCps p, decCps u with
    | some p, some u => some (.setNs p u)
    | _, _ => none
  | ["delns", p] => (decCps p).map .delNs
  | ["delrule", i] => i.toNat?.map .delRule
  | ["setprefix", i, q] => match i.toNat?, decCps q with
    | some i, some q => some (.setPrefix i q)
    | _, _ => none
  | ["setsel", i, sels] => match i.toNat?, parseSSels sels with
    | some i, some sels => some (.setSelText i sels)
    | _, _ => none
  | ["insstyle", sels, idx, io] => match parseSSels sels, parseIdx idx, parseBool io with
    | some sels, some idx, some io => some (.insStyleText sels idx io)
    | _, _, _ => none
  | ["setnstext", i, p, u, c] => match i.toNat?, decCps p, decCps u, c.toList with
    | some i, some p, some u, [a, b, d] => some (.setNsText i p u (a == '1') (b == '1') (d == '1'))
    | _, _, _, _ => none
  | ["rawdel", i] => i.toNat?.map .rawDel
  | ["insmedia", i, sels, idx] => match i.toNat?, parseSSels sels, parseIdx idx with
    | some i, some sels, some idx => some (.insMediaText i sels idx)
    | _, _, _ => none
  | ["insobj", sels, idx, io] => match parseRSels sels, parseIdx idx, parseBool io with
    | some sels, some idx, some io => some (.insStyleObj sels idx io)
    | _, _, _ => none
  | _ => none

def joinTexts (l : List Cps) : Cps :=
  match l with
  | [] => []
  | h :: t => t.foldl (fun acc x => acc ++ commaSpace ++ x) h

/-- state of one sheet of the world: the followed object writes its selectors with its own dicts -/
def showStateW (w : World) (side : Bool) : String :=
  let s := w.sheet side
  let d := view s
  let oi := w.objIndex side
  let rules := if s.isEmpty then "_" else ";".intercalate (s.map showRule)
  let texts := ((List.range s.length).map fun i => match s[i]? with
    | some r =>
      if oi = some i then match w.obj with
        | some o => [encCps (joinTexts (w.objTexts o))]
        | none => ruleTexts d r
      else ruleTexts d r
    | none => []).flatten
  let wf := String.join (s.map fun r => match r with
    | .ns n => if n.wf then "1" else "0"
    | _ => "")
  "V=" ++ showDict d ++ " R=" ++ rules ++ " T=" ++ (if texts.isEmpty then "_" else ";".intercalate texts) ++
    " W=" ++ (if wf.isEmpty then "_" else wf)

def showIdx : Option Nat → String
  | none => "-"
  | some i => toString i

def showWorld (w : World) : String :=
  "A:" ++ showStateW w false ++ " B:" ++ showStateW w true ++ " O=" ++
    match w.obj with
    | none => "_"
    | some o => (match o.owner with
        | none => "n"
        | some false => "a"
        | some true => "b") ++ ":" ++ showIdx (w.objIndex false) ++ ":" ++ showIdx (w.objIndex true)

def emptyWorld : World := { a := [], b := [], obj := none }

def parseWOp (ws : List String) : Option WOp :=
  match ws with
  | "w" :: side :: rest => match parseBool side, parseOp rest with
    | some side, some op => some (.on side op)
    | _, _ => none
  | ["wgrab", side, i, sels] => match parseBool side, i.toNat?, parseSSels sels with
    | some side, some i, some sels => some (.grab side i sels)
    | _, _, _ => none
  | ["wshare", side, idx, io] => match parseBool side, parseIdx idx, parseBool io with
    | some side, some idx, some io => some (.share side idx io)
    | _, _, _ => none
  | ["wobjsel", sels] => (parseSSels sels).map .objSel
  | _ => none

def parseCall (w : String) : Option Call :=
  match w.splitOn ":" with
  | ["x"] => some .bad
  | ["c", c] => (decCps c).map .comment
  | ["o", v, s] => match decCps v, decCps s with
    | some v, some s => some (.other v s)
    | _, _ => none
  | ["n", k, n] => match parseK k, decCps n with
    | some k, some n => some (.name k n)
    | _, _ => none
  | [one] => if one.startsWith "p" then (parsePs (one.drop 1).toString).map .pfx else none
  | _ => none

def showEmit : Emit → String
  | .item x => showItem x
  | .comment c => "c:" ++ encCps c

def handle (st : Sheet × World) (line : String) : (Sheet × World) × String :=
  let s := st.1
  match words line with
  | ["reset"] => (([], st.2), "ok:n " ++ showState [])
  | ["wreset"] => ((s, emptyWorld), "ok:n " ++ showWorld emptyWorld)
  | ["resolve", d, sel] => match parseDict d, parseSSel sel with
    | some d, some sel => match resolveSel d sel with
      | .ok x => (st, "ok " ++ showSel x ++ " " ++ encCps (serSel d x))
      | .error e => (st, "err:" ++ showErr e)
    | _, _ => (st, "bad-op")
  | ["ser", d, sel] => match parseDict d, parseRSel sel with
    | some d, some sel => (st, "ok " ++ encCps (serSel d sel))
    | _, _ => (st, "bad-op")
  | ["calls", d, cs] => match parseDict d, parseList "+" parseCall cs with
    | some d, some cs => match runCalls d none cs with
      | .ok ys => (st, "ok " ++ "+".intercalate (ys.map showEmit))
      | .error e => (st, "err:" ++ showErr e)
    | _, _ => (st, "bad-op")
  | ws => match parseOp ws with
    | some op =>
      let r := step s op
      ((r.1, st.2), showOutcome r.2 ++ " " ++ showState r.1)
    | none => match parseWOp ws with
      | some wop =>
        let r := wstep st.2 wop
        ((s, r.1), showOutcome r.2 ++ " " ++ showWorld r.1)
      | none => (st, "bad-op")

def main : IO Unit := serveSt (([], emptyWorld) : Sheet × World) handle
