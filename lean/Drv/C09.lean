import CssVerif.Model.SheetBlocks
/-!
Line-protocol driver for the rule-list edit machine (C09). Stateful: one sheet per `reset`.

requests (one per line)                                   reply
  reset <raising 0|1>                                      <outcome> | <dump>
  ins <spec> <index|N> <viaStr 0|1>
  insord <spec> <index> <viaStr>                          insertRule(rule, index, inOrder=True)
  insl <n> <spec,...|-> <index|N>                         insertRule(CSSRuleList, index)
  ninsl <path> <n> <spec,...|-> <index|N>
  add <spec> <viaStr>
  del <int>
  enc <cps> <valid 0|1>
  text <n> <spec,spec,...|->
  nsset <cps> <cps>
  nsdel <cps>
  nins <path> <spec> <index|N> <viaStr>
  ndel <path> <int>
  ntext <path> <n> <spec,...|->
  nbroken <path>                                          container.cssText = <trailing content / unclosed block>
  mode <0|1>
  reparse                                                  R <kinds tree of the reparsed sheet>  (state unchanged)
  dnew <path> <items> <form 0|1|2>                         rule.style = CSSStyleDeclaration(cssText=…) | rule.style = text | rule.cssText = …
  dshare <path> <path>                                     rule.style = other.style
  dtext <path> <items>                                     rule.style.cssText = text
  dset <path> <name> <wf> <empty> <replace>                rule.style.setProperty(name, value, replace=…) / style[name] = value
  dsetobj <path> <name>                                    rule.style.setProperty(Property(name, value))
  ddel <path> <name>                                       rule.style.removeProperty(name) / del style[name]
  rawdel <path|-> <int>                                    del sheet.cssRules[i] (`-`) / del rule.cssRules[i]
  rawins <spec> <int>                                      sheet.cssRules.insert(i, rule)
  reins <path> <index|N>                                   sheet.insertRule(<the rule object at path>, index)
  dshareprop <path> <path> <i>                             rule.style.setProperty(<i-th Property object of the other rule's block>)

items = `<name cps>:<wellformed 0|1>` joined by `,` (or `-`)

spec  = nodes in preorder joined by `,`; node = `<type code>/<pre>/<uri>/<enc>/<used+used…|->/<number of kids>`
path  = indexes joined by `.`
dump  = `enc=<cps> ns=<pre>=<uri>,… rules=<rule>,… gone=<rule>;…` (gone sorted)
rule  = `<type code><S|-><-|C|X|L|G>[~<pre>~<uri> | ~<enc> | ~<margin>][<block>][(<rule>,…)]`
block = `{<R|-|X><prop>+<prop>…}` of a rule with a style: `_parentRule` is the rule / None / something else; prop =
        `<name cps><P|-|X>`: `_parent` is the block / None / something else
dump ends with ` gb=<block>;…` (replaced blocks, sorted; `-`/`X`: names nothing / something) and ` gp=<prop>,…` (loose
properties, sorted)
-/
open CssVerif.Proto CssVerif.SheetEdit

def kindOfCode (n : Nat) : Option Kind :=
  [Kind.unknown, .style, .charset, .imp, .media, .fontface, .page, .ns, .comment, .vars, .margin].find?
    (fun k => Gen.code k == n)

def decInt (s : String) : Option Int :=
  if s.startsWith "-" then (s.drop 1).toNat?.map (fun n => - (n : Int)) else s.toNat?.map (fun n => (n : Int))

def decIdx (s : String) : Option (Option Int) := if s == "N" then some none else (decInt s).map some

def decBool (s : String) : Option Bool := if s == "1" then some true else if s == "0" then some false else none

def decPath (s : String) : Option (List Nat) :=
  (s.splitOn ".").foldr (fun w acc => match w.toNat?, acc with
    | some n, some l => some (n :: l)
    | _, _ => none) (some [])

def decUsed (s : String) : Option (List Cps) :=
  if s == "-" then some [] else
  (s.splitOn "+").foldr (fun w acc => match decCps w, acc with
    | some c, some l => some (c :: l)
    | _, _ => none) (some [])

structure Node where
  kind : Kind
  pre : Cps
  uri : Cps
  enc : Cps
  used : List Cps
  nkids : Nat

def decNode (s : String) : Option Node :=
  match s.splitOn "/" with
  | [k, p, u, e, us, n] =>
    match k.toNat? >>= kindOfCode, decCps p, decCps u, decCps e, decUsed us, n.toNat? with
    | some k, some p, some u, some e, some us, some n => some ⟨k, p, u, e, us, n⟩
    | _, _, _, _, _, _ => none
  | _ => none

/-- `count` specs from a preorder node list; fuel bounds the recursion (number of nodes + 1 suffices) -/
def buildSpecs : Nat → Nat → List Node → Option (List Spec × List Node)
  | 0, _, _ => none
  | _ + 1, 0, nodes => some ([], nodes)
  | _ + 1, _ + 1, [] => none
  | fuel + 1, count + 1, nd :: rest =>
    match buildSpecs fuel nd.nkids rest with
    | none => none
    | some (kids, rest1) =>
      match buildSpecs fuel count rest1 with
      | none => none
      | some (sibs, rest2) => some (⟨nd.kind, nd.pre, nd.uri, nd.enc, nd.used, kids⟩ :: sibs, rest2)

def decSpecs (count : Nat) (s : String) : Option (List Spec) :=
  if s == "-" then (if count = 0 then some [] else none) else
  let nodes := (s.splitOn ",").foldr (fun w acc => match decNode w, acc with
    | some n, some l => some (n :: l)
    | _, _ => none) (some [])
  match nodes with
  | none => none
  | some ns => match buildSpecs (2 * ns.length + 2) count ns with
    | some (l, []) => some l
    | _ => none

def decSpec (s : String) : Option Spec :=
  match decSpecs 1 s with
  | some [x] => some x
  | _ => none

/-! dumps -/

def showErr : Err → String
  | .indexSize => "IndexSizeErr" | .hierarchy => "HierarchyRequestErr" | .noMod => "NoModificationAllowedErr"
  | .syntaxErr => "SyntaxErr" | .namespaceErr => "NamespaceErr" | .invalidMod => "InvalidModificationErr"

def showOutcome : Outcome → String
  | .ok i => "OK " ++ toString i
  | .none => "NONE"
  | .err e => "ERR " ++ showErr e
  | .badOp => "bad-op"

mutual
def liveIds : Rule → List Nat
  | ⟨i, _, _, _, _, _, _, _, kids⟩ => i :: liveIdsL kids
def liveIdsL : List Rule → List Nat
  | [] => []
  | r :: rs => liveIds r ++ liveIdsL rs
end

def showExtra (r : Rule) : String :=
  if r.kind = .ns then "~" ++ encCps r.pre ++ "~" ++ encCps r.uri
  else if r.kind = .charset then "~" ++ encCps r.enc
  else if r.kind = .margin then "~" ++ encCps r.pre
  else ""

def showProp (ds : DSt) (b : Option BId) (p : PId) : String :=
  encCps (ds.ph.name p) ++ (match ds.ph.parent p with
    | none => "-"
    | some x => if some x = b then "P" else "X")

/-- properties whose name is outside the pool of the operations (shown as `-`) are shown once per run: a parsed
@page text merges the declarations of a repeated margin into one rule, which the model does not follow -/
def collapse : List String → List String
  | a :: b :: rest => if a == b && a.startsWith "-" then collapse (b :: rest) else a :: collapse (b :: rest)
  | l => l

/-- the block object `b` as seen from the rule `rid` that holds it (`none`: a replaced block) -/
def showBlock (ds : DSt) (rid : Option Nat) (b : BId) : String :=
  let link := match ds.bprule b with
    | none => "-"
    | some r => if some r = rid then "R" else "X"
  "{" ++ link ++ "+".intercalate (collapse ((ds.bprops b).map (showProp ds (some b)))) ++ "}"

mutual
/-- `container`: id of the rule whose list holds `r` (none: the sheet's list, or a root of `gone`);
`root`: how to show a parent rule link of an object that has no container -/
def showRule (ds : DSt) (live : List Nat) (container : Option Nat) : Rule → String
  | ⟨i, k, pre, uri, enc, used, pss, prule, kids⟩ =>
    let link := match prule, container with
      | none, _ => "-"
      | some p, some c => if p = c then "C" else "X"
      | some p, none => if live.contains p then "L" else "G"
    let r : Rule := ⟨i, k, pre, uri, enc, used, pss, prule, []⟩
    toString (Gen.code k) ++ (if pss then "S" else "-") ++ link ++ showExtra r ++
      (if styled k then showBlock ds (some i) (ds.style i) else "") ++
      (if k = .media || k = .page then "(" ++ ",".intercalate (showRules ds live (some i) kids) ++ ")" else "")
def showRules (ds : DSt) (live : List Nat) (container : Option Nat) : List Rule → List String
  | [] => []
  | r :: rs => showRule ds live container r :: showRules ds live container rs
end

mutual
def showKinds : Rule → String
  | ⟨_, k, _, _, _, _, _, _, kids⟩ =>
    toString (Gen.code k) ++ (if k = .media || k = .page then "(" ++ ",".intercalate (showKindsL kids) ++ ")" else "")
def showKindsL : List Rule → List String
  | [] => []
  | r :: rs => showKinds r :: showKindsL rs
end

def showDict (d : Dict) : String :=
  let items := (d.map (fun e => encCps e.1 ++ "=" ++ encCps e.2)).mergeSort (fun a b => a ≤ b)
  if items.isEmpty then "-" else ",".intercalate items

def dump (ds : DSt) : String :=
  let st := ds.st
  let live := liveIdsL st.rules
  let rules := showRules ds live none st.rules
  let gone := (showRules ds live none st.gone).mergeSort (fun a b => a ≤ b)
  let held := (live ++ liveIdsL st.gone).map ds.style
  let gb := ((ds.goneB.eraseDups.filter (fun b => !held.contains b)).map (showBlock ds none)).mergeSort (fun a b => a ≤ b)
  let seen := held ++ ds.goneB
  let gp := collapse (((ds.goneP.eraseDups.filter (fun p => !seen.any (fun b => (ds.bprops b).contains p))).map
    (showProp ds none)).mergeSort (fun a b => a ≤ b))
  "enc=" ++ encCps (encodingOf st.rules) ++ " ns=" ++ showDict (nsDict st.rules) ++
    " rules=" ++ (if rules.isEmpty then "-" else ",".intercalate rules) ++
    " gone=" ++ (if gone.isEmpty then "-" else ";".intercalate gone) ++
    " gb=" ++ (if gb.isEmpty then "-" else ";".intercalate gb) ++
    " gp=" ++ (if gp.isEmpty then "-" else ",".intercalate gp)

def reply (r : DSt × Outcome) : DSt × String := (r.1, showOutcome r.2 ++ " | " ++ dump r.1)

def decItems (s : String) : Option (List (Cps × Bool)) :=
  if s == "-" then some [] else
  (s.splitOn ",").foldr (fun w acc => match w.splitOn ":", acc with
    | [n, b], some l => match decCps n, decBool b with
      | some n, some b => some ((n, b) :: l)
      | _, _ => none
    | _, _ => none) (some [])

def decDOp (ws : List String) : Option DOp :=
  match ws with
  | ["dnew", p, items, f] => match decPath p, decItems items, f.toNat? with
    | some p, some l, some f => if f < 3 then some (.newStyle p l f) else none
    | _, _, _ => none
  | ["dshare", p, q] => match decPath p, decPath q with
    | some p, some q => some (.shareStyle p q)
    | _, _ => none
  | ["dtext", p, items] => match decPath p, decItems items with
    | some p, some l => some (.blockText p l)
    | _, _ => none
  | ["dset", p, n, wf, e, r] => match decPath p, decCps n, decBool wf, decBool e, decBool r with
    | some p, some n, some wf, some e, some r => some (.setProp p n wf e r)
    | _, _, _, _, _ => none
  | ["dsetobj", p, n] => match decPath p, decCps n with
    | some p, some n => some (.setPropObj p n)
    | _, _ => none
  | ["dshareprop", p, q, i] => match decPath p, decPath q, i.toNat? with
    | some p, some q, some i => some (.sharePropObj p q i)
    | _, _, _ => none
  | ["rawdel", p, i] => match (if p == "-" then some [] else decPath p), decInt i with
    | some p, some i => some (.rawDelete p i)
    | _, _ => none
  | ["rawins", sp, i] => match decSpec sp, decInt i with
    | some sp, some i => some (.rawInsert sp i)
    | _, _ => none
  | ["reins", p, i] => match decPath p, decIdx i with
    | some p, some i => some (.reinsert p i)
    | _, _ => none
  | ["ddel", p, n] => match decPath p, decCps n with
    | some p, some n => some (.removeProp p n)
    | _, _ => none
  | _ => none

def decOp (ws : List String) : Option Op :=
  match ws with
  | ["ins", s, i, v] => match decSpec s, decIdx i, decBool v with
    | some s, some i, some v => some (.insert s i v)
    | _, _, _ => none
  | ["insord", s, i, v] => match decSpec s, decInt i, decBool v with
    | some s, some i, some v => some (.insertOrdered s i v)
    | _, _, _ => none
  | ["add", s, v] => match decSpec s, decBool v with
    | some s, some v => some (.add s v)
    | _, _ => none
  | ["del", i] => (decInt i).map .delete
  | ["enc", e, v] => match decCps e, decBool v with
    | some e, some v => some (.setEncoding e v)
    | _, _ => none
  | ["text", n, s] => match n.toNat? with
    | some n => (decSpecs n s).map .setText
    | none => none
  | ["insl", n, s, i] => match n.toNat?, decIdx i with
    | some n, some i => (decSpecs n s).map (fun l => .insertList l i)
    | _, _ => none
  | ["ninsl", p, n, s, i] => match decPath p, n.toNat?, decIdx i with
    | some p, some n, some i => (decSpecs n s).map (fun l => .nInsertList p l i)
    | _, _, _ => none
  | ["nsset", p, u] => match decCps p, decCps u with
    | some p, some u => some (.nsSet p u)
    | _, _ => none
  | ["nsdel", p] => (decCps p).map .nsDel
  | ["nins", p, s, i, v] => match decPath p, decSpec s, decIdx i, decBool v with
    | some p, some s, some i, some v => some (.nInsert p s i v)
    | _, _, _, _ => none
  | ["ndel", p, i] => match decPath p, decInt i with
    | some p, some i => some (.nDelete p i)
    | _, _ => none
  | ["ntext", p, n, s] => match decPath p, n.toNat? with
    | some p, some n => (decSpecs n s).map (.nSetText p)
    | _, _ => none
  | ["nbroken", p] => (decPath p).map .nSetBroken
  | ["mode", b] => (decBool b).map .setMode
  | _ => none

def handle (ds : DSt) (line : String) : DSt × String :=
  match words line with
  | ["reset", b] => match decBool b with
    | some b => reply (DSt.init (St.empty b), .none)
    | none => (ds, "bad-op")
  | ["reparse"] =>
    (ds, "R " ++ (let l := showKindsL (reparse ds.st).rules; if l.isEmpty then "-" else ",".intercalate l))
  | ws => match decOp ws with
    | some op => reply (dstep ds (.sheet op))
    | none => match decDOp ws with
      | some op => reply (dstep ds op)
      | none => (ds, "bad-op")

def main : IO Unit := serveSt (DSt.init (St.empty true)) handle
