import CssVerif.Model.DeclText
import CssVerif.Model.DeclAttr
/-!
Driver for C10 (stateful). The tokenizer and the value grammar are parameters of the model (`Decl.Env`); the
harness fills their tables (`tok`, `val`, `idn` lines) from the real `Tokenizer` / `PropertyValue`. Every operation
is evaluated under two environments that differ exactly on the strings *missing* from the tables; if the results
differ the reply is `missing` (a harness error, never a silent default).
-/
open CssVerif.Proto CssVerif.Decl

structure St where
  toks : List (Cps × List Tok) := []
  vals : List (Cps × Option Val) := []
  idns : List (Cps × Bool) := []
  raising : Bool := true
  d : Decl := { seq := [] }
  v : Vars := { vars := [], seq := [] }
  /-- serializer preferences in force for the `ptext` / `psep` / `vptext` requests -/
  prefs : SPrefs := {}
  /-- `PropertyValue.cssText` under `prefs`, keyed by the cssText under the default preferences -/
  vts : List (Cps × Cps) := []
  /-- `property.valid`, keyed by name, value text and priority -/
  valids : List ((Cps × Cps × Cps) × Bool) := []

def lookup {β : Type} (l : List (Cps × β)) (k : Cps) : Option β :=
  match l.find? (fun e => e.1 == k) with
  | some e => some e.2
  | none => none

def sentinel : Cps := [1114112]

/-- environment; `alt` selects what a missing table entry answers -/
def St.env (s : St) (alt : Bool) : Env :=
  { raising := s.raising
    tokenize := fun t => match lookup s.toks t with
      | some r => r
      | none => if alt then [⟨.other, sentinel⟩] else []
    parseValue := fun t => match lookup s.vals t with
      | some r => r
      | none => if alt then some ⟨sentinel, sentinel⟩ else none
    isIdent := fun t => match lookup s.idns t with
      | some r => r
      | none => alt }

/-- render environment for the preferences in force; `alt` selects what a missing table entry answers -/
def St.renv (s : St) (alt : Bool) : REnv :=
  { vtext := fun v => match lookup s.vts v.css with
      | some r => r
      | none => if alt then sentinel else []
    valid := fun p => match s.valids.find? (fun e => e.1 == (p.name, p.val.css, p.prio)) with
      | some e => e.2
      | none => alt }

/-- a text computed under both render environments -/
def rtext (st : St) (f : REnv → Cps) : String :=
  let a := f (st.renv false)
  let b := f (st.renv true)
  if a == b then encCps a else "missing"

def decTok (w : String) : Option Tok :=
  match w.splitOn ":" with
  | [t, v] =>
    match decCps v with
    | none => none
    | some c =>
      match t with
      | "I" => some ⟨.ident, c⟩
      | "C" => some ⟨.char, c⟩
      | "S" => some ⟨.s, c⟩
      | "M" => some ⟨.comment, c⟩
      | "O" => some ⟨.other, c⟩
      | "A" => some ⟨.atkw, c⟩
      | _ => none
  | _ => none

def decToks (w : String) : Option (List Tok) :=
  if w == "-" then some []
  else (w.splitOn ",").foldr (fun x acc => match decTok x, acc with
    | some t, some l => some (t :: l)
    | _, _ => none) (some [])

def decBool (w : String) : Option Bool :=
  if w == "1" then some true else if w == "0" then some false else none

/-- `None` or a string -/
def decOpt (w : String) : Option (Option Cps) :=
  if w == "None" then some none else (decCps w).map some

def decInt (w : String) : Option Int := w.toInt?

def showErr : Err → String
  | .syntaxErr => "err SyntaxErr"
  | .noModification => "err NoModificationAllowedErr"
  | .pyCrash => "err crash"
  | .unmodelled => "err unmodelled"

def showProp (p : Pty) : String :=
  "/".intercalate [encCps p.lit, encCps p.name, encCps p.val.css, encCps p.val.value, encCps p.litPrio,
    encCps p.prio, if p.wf then "1" else "0"]

def showOProp : Option Pty → String
  | some p => showProp p
  | none => "none"

def showList (l : List String) : String := if l.isEmpty then "-" else ",".intercalate l

def range (lo hi : Int) : List Int := (List.range (hi - lo + 1).toNat).map (fun (k : Nat) => lo + Int.ofNat k)

def showObs (d : Decl) : String :=
  let s := d.seq
  let n : Int := (length s : Nat)
  " | ".intercalate [
    "all=" ++ showList ((getProperties s [] true).map showOProp),
    "eff=" ++ showList ((getProperties s [] false).map showOProp),
    "iter=" ++ showList ((iter s).map showOProp),
    "len=" ++ toString (length s),
    "keys=" ++ showList ((keys s).map encCps),
    "items=" ++ showList ((range (-(n + 1)) (n + 1)).map (fun i => encCps (item s i))),
    "text=" ++ encCps (cssTextP SPrefs.default REnv.default s),
    "ro=" ++ (if d.readonly then "1" else "0")]

def showVObs (v : Vars) : String :=
  let n : Int := (vLength v : Nat)
  " | ".intercalate [
    "keys=" ++ showList ((vKeys v).map encCps),
    "len=" ++ toString (vLength v),
    "items=" ++ showList ((range (-(n + 1)) (n + 1)).map (fun i => encCps (vItem v i))),
    "seq=" ++ showList (v.seq.map (fun x => match x with
      | .var nm val => "var/" ++ encCps nm ++ "/" ++ encCps val.css
      | .other t => "other/" ++ encCps t)),
    "reported=" ++ showList ((vReported v).map (fun e => encCps e.1 ++ "/" ++ encCps e.2)),
    "reportedq=" ++ showList ((vReportedQ v).map (fun e => encCps e.1 ++ "/" ++ encCps e.2)),
    "serialized=" ++ showList ((vSerialized v).map (fun e => encCps e.1 ++ "/" ++ encCps e.2)),
    "text=" ++ encCps (vCssTextP SPrefs.default REnv.default 1 v)]

def showBool (b : Bool) : String := if b then "1" else "0"

def showPrefs (p : SPrefs) : String :=
  " ".intercalate [showBool p.keepAllProperties, showBool p.keepComments, showBool p.omitLastSemicolon,
    showBool p.defaultPropertyName, showBool p.defaultPropertyPriority, showBool p.validOnly,
    showBool p.normalizedVarNames, showBool p.indentClosingBrace, encCps p.lineSeparator,
    encCps p.propertyNameSpacer, encCps p.spacer, encCps p.listItemSpacer, encCps p.paranthesisSpacer,
    encCps p.indent]

def decPrefs (ws : List String) : Option SPrefs :=
  match ws with
  | [a, b, c, d, e, f, g, h, ls, pns, sp, lis, ps, ind] =>
    match decBool a, decBool b, decBool c, decBool d, decBool e, decBool f, decBool g, decBool h with
    | some a, some b, some c, some d, some e, some f, some g, some h =>
      match decCps ls, decCps pns, decCps sp, decCps lis, decCps ps, decCps ind with
      | some ls, some pns, some sp, some lis, some ps, some ind =>
        some { keepAllProperties := a, keepComments := b, omitLastSemicolon := c, defaultPropertyName := d,
               defaultPropertyPriority := e, validOnly := f, normalizedVarNames := g, indentClosingBrace := h,
               lineSeparator := ls, propertyNameSpacer := pns, spacer := sp, listItemSpacer := lis,
               paranthesisSpacer := ps, indent := ind }
      | _, _, _, _, _, _ => none
    | _, _, _, _, _, _, _, _ => none
  | _ => none

def decSrc (w : String) : Option SrcItem :=
  match w.splitOn ":" with
  | ["D", n, v, p] => match decCps n, decCps v, decCps p with
    | some n, some v, some p => some (.decl n v p)
    | _, _, _ => none
  | ["M", t] => (decCps t).map .comment
  | ["S"] => some .semicolon
  | _ => none

def decVSrc (w : String) : Option VSrc :=
  match w.splitOn ":" with
  | ["I", n] => (decCps n).map .ident
  | ["V", c, v] => match decCps c, decCps v with
    | some c, some v => some (.value ⟨c, v⟩)
    | _, _ => none
  | ["O", t] => (decCps t).map .other
  | _ => none

def decAll {α : Type} (f : String → Option α) (ws : List String) : Option (List α) :=
  ws.foldr (fun x acc => match f x, acc with
    | some t, some l => some (t :: l)
    | _, _ => none) (some [])

def showRet : Option Cps → String
  | none => "ok None"
  | some s => "ok s:" ++ encCps s

/-- run a state-changing declaration operation under both environments -/
def runD {α : Type} (st : St) (op : Env → Res α) (sh : α → String) : St × String :=
  let a := op (st.env false)
  let b := op (st.env true)
  let ra := match a.out with | .ok x => sh x | .error e => showErr e
  let rb := match b.out with | .ok x => sh x | .error e => showErr e
  if a.st == b.st && ra == rb then ({ st with d := a.st }, ra) else (st, "missing")

def runV {α : Type} (st : St) (op : Env → VRes α) (sh : α → String) : St × String :=
  let a := op (st.env false)
  let b := op (st.env true)
  let ra := match a.out with | .ok x => sh x | .error e => showErr e
  let rb := match b.out with | .ok x => sh x | .error e => showErr e
  if a.st == b.st && ra == rb then ({ st with v := a.st }, ra) else (st, "missing")

def bad (st : St) : St × String := (st, "bad-op")

def step (st : St) (line : String) : St × String :=
  match words line with
  | ["reset"] => ({}, "ok")
  | ["tok", t, l] => match decCps t, decToks l with
    | some t, some l => ({ st with toks := (t, l) :: st.toks }, "ok")
    | _, _ => bad st
  | ["val", t, "bad"] => match decCps t with
    | some t => ({ st with vals := (t, none) :: st.vals }, "ok")
    | none => bad st
  | ["val", t, c, v] => match decCps t, decCps c, decCps v with
    | some t, some c, some v => ({ st with vals := (t, some ⟨c, v⟩) :: st.vals }, "ok")
    | _, _, _ => bad st
  | ["idn", t, b] => match decCps t, decBool b with
    | some t, some b => ({ st with idns := (t, b) :: st.idns }, "ok")
    | _, _ => bad st
  | ["mode", b] => match decBool b with
    | some b => ({ st with raising := b }, "ok")
    | none => bad st
  | ["new"] => ({ st with d := { seq := [] } }, "ok")
  | ["ro", b] => match decBool b with
    | some b => ({ st with d := { st.d with readonly := b } }, "ok")
    | none => bad st
  | ["set", n, v, p, nm, rp] => match decCps n, decOpt v, decCps p, decBool nm, decBool rp with
    | some n, some v, some p, some nm, some rp => runD st (fun env => setProperty env st.d n v p nm rp) showRet
    | _, _, _, _, _ => bad st
  | ["seti", n, v, p] => match decCps n, decOpt v, decOpt p with
    | some n, some v, some p => runD st (fun env => setItem env st.d n v p) showRet
    | _, _, _ => bad st
  | ["rm", n, nm] => match decCps n, decBool nm with
    | some n, some nm => runD st (fun _ => removeProperty st.d n nm) (fun s => "ok s:" ++ encCps s)
    | _, _ => bad st
  | ["deli", n] => match decCps n with
    | some n => runD st (fun _ => delItem st.d n) (fun s => "ok s:" ++ encCps s)
    | none => bad st
  | "text" :: items => match decAll decSrc items with
    | some l => runD st (fun env => setCssText env st.d l) (fun _ => "ok None")
    | none => bad st
  | ["gp", n, nm] => match decCps n, decBool nm with
    | some n, some nm => (st, showOProp (getProperty st.d.seq n nm))
    | _, _ => bad st
  | ["gv", n, nm] => match decCps n, decBool nm with
    | some n, some nm => (st, encCps (getPropertyValue st.d.seq n nm))
    | _, _ => bad st
  | ["gpr", n, nm] => match decCps n, decBool nm with
    | some n, some nm => (st, encCps (getPropertyPriority st.d.seq n nm))
    | _, _ => bad st
  | ["gps", n, a] => match decCps n, decBool a with
    | some n, some a => (st, showList ((getProperties st.d.seq n a).map showOProp))
    | _, _ => bad st
  | ["has", n] => match decCps n with
    | some n => (st, if contains st.d.seq n then "1" else "0")
    | none => bad st
  | ["item", i] => match decInt i with
    | some i => (st, encCps (item st.d.seq i))
    | none => bad st
  | ["obs"] => (st, showObs st.d)
  | ["dom", n] => match decCps n with
    | some n => (st, encCps (toDOM n))
    | none => bad st
  | ["css", n] => match decCps n with
    | some n => (st, encCps (toCSS n))
    | none => bad st
  | ["rq", n] => match decCps n with
    | some n => (st, encCps (requote n))
    | none => bad st
  | ["gvq", n] => match decCps n with
    | some n => (st, encCps (getPropertyValue st.d.seq (requote n) true))
    | none => bad st
  | ["norm", n] => match decCps n with
    | some n => (st, encCps (normalize n))
    | none => bad st
  | ["vnew"] => ({ st with v := { vars := [], seq := [] } }, "ok")
  | ["vro", b] => match decBool b with
    | some b => ({ st with v := { st.v with readonly := b } }, "ok")
    | none => bad st
  | ["vset", n, v] => match decCps n, decCps v with
    | some n, some v => runV st (fun env => vSet env st.v n v) (fun _ => "ok None")
    | _, _ => bad st
  | ["vrm", n] => match decCps n with
    | some n => runV st (fun _ => vRemove st.v n) (fun s => "ok s:" ++ encCps s)
    | none => bad st
  | "vtext" :: items => match decAll decVSrc items with
    | some l => runV st (fun _ => vSetCssText st.v l) (fun _ => "ok None")
    | none => bad st
  | ["vget", n] => match decCps n with
    | some n => (st, encCps (vGet st.v n))
    | none => bad st
  | ["vhas", n] => match decCps n with
    | some n => (st, if vContains st.v n then "1" else "0")
    | none => bad st
  | ["vobs"] => (st, showVObs st.v)
  | ["aget", dom] => match decCps dom with
    | some dom => (st, match attrGet st.d.seq dom with | some v => encCps v | none => "err crash:AttributeError")
    | none => bad st
  | ["aset", dom, v] => match decCps dom, decOpt v with
    | some dom, some v =>
      match attrCss dom with
      | none => (st, "err crash:AttributeError")
      | some _ => runD st (fun env => (attrSet env st.d dom v).getD ⟨st.d, .error .pyCrash⟩) showRet
    | _, _ => bad st
  | ["adel", dom] => match decCps dom with
    | some dom =>
      match attrCss dom with
      | none => (st, "err crash:AttributeError")
      | some _ => runD st (fun _ => (attrDel st.d dom).getD ⟨st.d, .error .pyCrash⟩) (fun s => "ok s:" ++ encCps s)
    | none => bad st
  | ["pdef"] => (st, showPrefs SPrefs.default)
  | ["pmin"] => (st, showPrefs minifiedPrefs)
  | "prefs" :: ws => match decPrefs ws with
    | some p => ({ st with prefs := p, vts := [], valids := [] }, "ok")
    | none => bad st
  | ["vt", c, t] => match decCps c, decCps t with
    | some c, some t => ({ st with vts := (c, t) :: st.vts }, "ok")
    | _, _ => bad st
  | ["pvalid", n, c, pr, b] => match decCps n, decCps c, decCps pr, decBool b with
    | some n, some c, some pr, some b => ({ st with valids := ((n, c, pr), b) :: st.valids }, "ok")
    | _, _, _, _ => bad st
  | ["ptext"] => (st, rtext st (fun re => cssTextP st.prefs re st.d.seq))
  | ["psep", sep] => match decCps sep with
    | some sep => (st, rtext st (fun re => cssTextSep st.prefs re sep true st.d.seq))
    | none => bad st
  | ["psrc"] =>
    let f := fun (re : REnv) => (srcOf st.prefs re (declSeqP st.prefs st.d.seq)).map (fun it => match it with
      | .decl n v p => "D:" ++ encCps n ++ ":" ++ encCps v ++ ":" ++ encCps p
      | .comment t => "M:" ++ encCps t
      | .semicolon => "S")
    let a := f (st.renv false)
    let b := f (st.renv true)
    (st, if a == b then showList a else "missing")
  | ["vpsrc"] =>
    (st, showList ((vWritten st.prefs st.v.seq).map (fun x => match x with
      | .var nm val => "var/" ++ encCps nm ++ "/" ++ encCps ((st.renv false).vtext val)
      | .other t => "other/" ++ encCps t)))
  | ["vptext"] => (st, rtext st (fun re => vCssTextP st.prefs re 1 st.v))
  | _ => bad st

def main : IO Unit := serveSt ({} : St) step
