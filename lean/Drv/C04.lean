import CssVerif.Model.Struct
import CssVerif.Model.StructCut
import CssVerif.Model.StructText
import CssVerif.Gen.C04Margins
/-!
Driver for C04 (K2 `Struct`).  One request per line:

  upto MODE START TOKS            -> `<n>`            tokens taken from TOKS by `_tokensupto2`
  unknown TOKS                    -> `0|1`            `CSSUnknownRule(cssText=TOKS).wellformed`
  prop TOKS ORACLE                -> JSON             `Property.cssText = TOKS`
  decls TOKS ORACLE               -> JSON list        `CSSStyleDeclaration.cssText = TOKS` (the seq)
  sheet TOKS ORACLE               -> JSON             `CSSStyleSheet.cssText = TOKS` (cssRules)
  nsq TOKS                        -> JSON list        keys of every statement starting at a NAMESPACE_SYM
  text CPS ORACLE                 -> JSON             as `sheet`, on the tokens the TOKENIZER MODEL (C05 `Tok`) makes of
                                                      the text CPS (hex code points): `sheetToks`, T4.5
  cut TOKS ORACLE                 -> JSON             truncation certificate for TOKS (`findCut`), checked by
                                                      `Cut.ok`; when it holds: the rule list that theorem
                                                      `truncation_certified` predicts (same format as `sheet`)

TOKS   = `TYPE:hex,TYPE:hex,…` (`-` = no tokens); the position of a token is its index.
START  = `-` or one `TYPE:hex` (position 1000000).
ORACLE = `-` or `entry,entry,…`:  `v:KEY:b`  `s:NS:KEY:b`  `m:KEY:b`  `a:TYPE:inMedia:KEY:b`
         `n:KEY:0` | `n:KEY:1:pfxhex:urihex`;   a missing entry answers "wellformed" (for `n`: not).
KEY    = `e` (no tokens) | `a-b` (positions a..b) | `p+q+r` (anything else);  NS = `-` | `pfx=uri&pfx=uri`.
Token lists in replies are KEYs; the harness checks that every KEY it is shown has an entry.
-/
open CssVerif.Proto CssVerif.Struct

def ttOfName (s : String) : Option TT :=
  match s with
  | "IDENT" => some .ident | "FUNCTION" => some .function | "CHAR" => some .char | "S" => some .s
  | "COMMENT" => some .comment | "EOF" => some .eof | "ATKEYWORD" => some .atkeyword
  | "STRING" => some .string | "URI" => some .uri | "INVALID" => some .invalid
  | "CDO" => some .cdo | "CDC" => some .cdc
  | "CHARSET_SYM" => some .charsetSym | "IMPORT_SYM" => some .importSym
  | "NAMESPACE_SYM" => some .namespaceSym | "PAGE_SYM" => some .pageSym | "MEDIA_SYM" => some .mediaSym
  | "FONT_FACE_SYM" => some .fontFaceSym | "VARIABLES_SYM" => some .variablesSym
  -- productions the structure level never dispatches on
  | "BOM" | "UNICODE-RANGE" | "DIMENSION" | "PERCENTAGE" | "NUMBER" | "HASH" | "INCLUDES" | "DASHMATCH"
  | "PREFIXMATCH" | "SUFFIXMATCH" | "SUBSTRINGMATCH" => some .other
  | _ => none

def nameOfTT : TT → String
  | .ident => "IDENT" | .function => "FUNCTION" | .char => "CHAR" | .s => "S" | .comment => "COMMENT"
  | .eof => "EOF" | .atkeyword => "ATKEYWORD" | .string => "STRING" | .uri => "URI" | .invalid => "INVALID"
  | .cdo => "CDO" | .cdc => "CDC" | .charsetSym => "CHARSET_SYM" | .importSym => "IMPORT_SYM"
  | .namespaceSym => "NAMESPACE_SYM" | .pageSym => "PAGE_SYM" | .mediaSym => "MEDIA_SYM"
  | .fontFaceSym => "FONT_FACE_SYM" | .variablesSym => "VARIABLES_SYM" | .other => "OTHER"

def decTok (pos : Nat) (w : String) : Option Tok :=
  match w.splitOn ":" with
  | [ty, v] => match ttOfName ty, decCps v with
    | some t, some l => some ⟨t, l, pos⟩
    | _, _ => none
  | _ => none

def decToks (w : String) : Option (List Tok) :=
  if w == "-" then some []
  else
    let ws := w.splitOn ","
    let rec go (i : Nat) : List String → Option (List Tok)
      | [] => some []
      | x :: xs => match decTok i x, go (i + 1) xs with
        | some t, some l => some (t :: l)
        | _, _ => none
    go 0 ws

def modeOfName (s : String) : Option Mode :=
  match s with
  | "default" => some .default | "blockstart" => some .blockstart | "blockend" => some .blockend
  | "mediaend" => some .mediaend | "importmq" => some .importmq | "mq" => some .mq
  | "semicolon" => some .semicolon | "propname" => some .propname | "propvalue" => some .propvalue
  | "propprio" => some .propprio | "selatt" => some .selatt | "funcend" => some .funcend
  | "listsep" => some .listsep
  | _ => none

/-- KEY of a token list -/
def keyOf (l : List Tok) : String :=
  match l with
  | [] => "e"
  | t :: ts =>
    let rec contiguous (p : Nat) : List Tok → Bool
      | [] => true
      | x :: xs => x.pos == p + 1 && contiguous x.pos xs
    if contiguous t.pos ts then
      s!"{t.pos}-{(l.getLast?.map (·.pos)).getD t.pos}"
    else "+".intercalate (l.map fun x => toString x.pos)

def nsKey (ns : List (Cps × Cps)) : String :=
  if ns.isEmpty then "-" else "&".intercalate (ns.map fun e => encCps e.1 ++ "=" ++ encCps e.2)

/-- the oracle table: (query string, answer words) -/
abbrev Table := List (String × List String)

def decTable (w : String) : Option Table :=
  if w == "-" then some []
  else (w.splitOn ",").foldr (fun e acc =>
    match acc with
    | none => none
    | some l =>
      match e.splitOn ":" with
      | ["v", k, b] => some ((s!"v:{k}", [b]) :: l)
      | ["m", k, b] => some ((s!"m:{k}", [b]) :: l)
      | ["s", ns, k, b] => some ((s!"s:{ns}:{k}", [b]) :: l)
      | ["a", ty, im, k, b] => some ((s!"a:{ty}:{im}:{k}", [b]) :: l)
      | ["n", k, "0"] => some ((s!"n:{k}", ["0"]) :: l)
      | ["n", k, "1", p, u] => some ((s!"n:{k}", ["1", p, u]) :: l)
      | _ => none) (some [])

def lookupB (tb : Table) (q : String) : Bool :=
  match tb.lookup q with
  | some ["0"] => false
  | _ => true

def oracleOf (tb : Table) : Oracle where
  valueOk l := lookupB tb s!"v:{keyOf l}"
  selOk ns l := lookupB tb s!"s:{nsKey ns}:{keyOf l}"
  mediaOk l := lookupB tb s!"m:{keyOf l}"
  atOk t im l := lookupB tb s!"a:{nameOfTT t}:{if im then "1" else "0"}:{keyOf l}"
  nsInfo l :=
    match tb.lookup s!"n:{keyOf l}" with
    | some ["1", p, u] => match decCps p, decCps u with
      | some p, some u => some (p, u)
      | _, _ => none
    | _ => none

def q (s : String) : String := "\"" ++ s ++ "\""

def optPos : Option Tok → String
  | none => "null"
  | some t => toString t.pos

def jItem : Item → String
  | .decl d => "{\"k\":\"decl\",\"name\":" ++ toString d.name.pos ++ ",\"value\":" ++ q (keyOf d.value)
      ++ ",\"prio\":" ++ optPos d.prio ++ "}"
  | .unknown l => "{\"k\":\"unknown\",\"toks\":" ++ q (keyOf l) ++ "}"
  | .comment t => "{\"k\":\"comment\",\"pos\":" ++ toString t.pos ++ "}"
  | .dropped l => "{\"k\":\"dropped\",\"toks\":" ++ q (keyOf l) ++ "}"

def jList (l : List String) : String := "[" ++ ",".intercalate l ++ "]"

def kindName : Kind → String
  | .comment => "comment" | .charset => "charset" | .import_ => "import" | .namespace_ => "namespace"
  | .variables => "variables" | .fontface => "fontface" | .page => "page" | .margin => "margin"
  | .media => "media" | .style => "style" | .unknown => "unknown"

mutual
def jRule : Rule → String
  | .comment t => "{\"k\":\"comment\",\"pos\":" ++ toString t.pos ++ "}"
  | .at_ k l => "{\"k\":" ++ q (kindName k) ++ ",\"toks\":" ++ q (keyOf l) ++ "}"
  | .ns p u l => "{\"k\":\"namespace\",\"toks\":" ++ q (keyOf l) ++ ",\"pfx\":" ++ q (encCps p)
      ++ ",\"uri\":" ++ q (encCps u) ++ "}"
  | .unknown l => "{\"k\":\"unknown\",\"toks\":" ++ q (keyOf l) ++ "}"
  | .style ns sel items => "{\"k\":\"style\",\"ns\":" ++ q (nsKey ns) ++ ",\"sel\":" ++ q (keyOf sel) ++ ",\"items\":"
      ++ jList (items.map jItem) ++ "}"
  | .media none _ => "{\"k\":\"media\",\"stub\":true}"
  | .media (some (mq, name)) rules => "{\"k\":\"media\",\"mq\":" ++ q (keyOf mq) ++ ",\"name\":" ++ optPos name
      ++ ",\"rules\":[" ++ jRules rules ++ "]}"
def jRules : List Rule → String
  | [] => ""
  | [r] => jRule r
  | r :: rs => jRule r ++ "," ++ jRules rs
end

/-- which selector queries a rule list shows (the harness needs the namespace context of each) -/
def jNs (ns : List (Cps × Cps)) : String := q (nsKey ns)

/-- all statements that start at a NAMESPACE_SYM token, wherever it stands (a superset of the `nsInfo`
queries the sheet dispatcher can make: the sheet-level list is consumed left to right) -/
def nsQueries : List Tok → List String
  | [] => []
  | t :: ts =>
    (if t.typ = .namespaceSym then [q (keyOf (upto .default (some t) ts).1)] else []) ++ nsQueries ts

def startPos : Nat := 1000000

def handle (line : String) : String :=
  match words line with
  | ["upto", m, st, ts] =>
    match modeOfName m, decToks ts with
    | some m, some ts =>
      if st == "-" then toString (upto m none ts).1.length
      else match decTok startPos st with
        | some s => toString ((upto m (some s) ts).1.length - 1)
        | none => "bad-op"
    | _, _ => "bad-op"
  | ["unknown", ts] =>
    match decToks ts with
    | some ts => if tokWF ts then (if unknownOk ts then "1" else "0") else "out-of-domain"
    | none => "bad-op"
  | ["prop", ts, tb] =>
    match decToks ts, decTable tb with
    | some ts, some tb =>
      if !tokWF ts then "out-of-domain" else
      match parseProperty (oracleOf tb) ts with
      | some d => jItem (.decl d)
      | none => "null"
    | _, _ => "bad-op"
  | ["decls", ts, tb] =>
    match decToks ts, decTable tb with
    | some ts, some tb =>
      if !tokWF ts then "out-of-domain" else jList ((parseDecls (oracleOf tb) ts).map jItem)
    | _, _ => "bad-op"
  | ["sheet", ts, tb] =>
    match decToks ts, decTable tb with
    | some ts, some tb =>
      if !tokWF ts then "out-of-domain" else
      let st := sheetLoop (oracleOf tb) CssVerif.Gen.C04.margins {} ts
      "{\"rules\":[" ++ jRules (cleanNamespaces st.rules) ++ "],\"expected\":" ++ toString st.expected
        ++ ",\"ns\":" ++ jNs st.nsmap ++ "}"
    | _, _ => "bad-op"
  | ["text", cpsHex, tb] =>
    match decCps cpsHex, decTable tb with
    | some text, some tb =>
      let ts := sheetToksIdx text true
      if !tokWF ts then "out-of-domain" else
      let st := sheetLoop (oracleOf tb) CssVerif.Gen.C04.margins {} ts
      "{\"rules\":[" ++ jRules (cleanNamespaces st.rules) ++ "],\"expected\":" ++ toString st.expected
        ++ ",\"ns\":" ++ jNs st.nsmap ++ ",\"toks\":"
        ++ q (",".intercalate (ts.map fun t => nameOfTT t.typ ++ ":" ++ encCps t.val)) ++ "}"
    | _, _ => "bad-op"
  | ["cut", ts, tb] =>
    match decToks ts, decTable tb with
    | some ts, some tb =>
      if !tokWF ts then "out-of-domain" else
      match findCut ts with
      | none => "{\"ok\":false,\"shape\":\"empty\"}"
      | some c =>
        if decide (c.toks = ts) && c.ok then
          "{\"ok\":true,\"shape\":" ++ q c.o.shape ++ ",\"units\":" ++ toString c.s₁.length ++ ",\"rules\":["
            ++ jRules (cleanNamespaces (c.predict (oracleOf tb) CssVerif.Gen.C04.margins)) ++ "]}"
        else "{\"ok\":false,\"shape\":" ++ q c.o.shape ++ "}"
    | _, _ => "bad-op"
  | ["nsq", ts] =>
    match decToks ts with
    | some ts => jList (nsQueries ts)
    | none => "bad-op"
  | _ => "bad-op"

def main : IO Unit := serve handle
