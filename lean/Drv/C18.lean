import CssVerif.Model.Num
open CssVerif.Proto CssVerif.Num

def showErr : Err → String
  | .indexError => "ERR IndexError"
  | .valueError => "ERR ValueError"
  | .tooLarge => "ERR TooLarge"

def prefs? (olz mch sp lis : String) : Option Prefs :=
  match decCps sp, decCps lis with
  | some s, some l =>
    if (olz == "0" || olz == "1") && (mch == "0" || mch == "1") then
      some { omitLeadingZero := olz == "1", minimizeColorHash := mch == "1", spacer := s, listItemSpacer := l }
    else none
  | _, _ => none

def numType? : String → Option NumType
  | "D" => some .dimension | "N" => some .number | "P" => some .percentage | _ => none

def itemType? : String → Option ItemType
  | "IDENT" => some .ident | "STRING" => some .string | "URI" => some .uri | "HASH" => some .hash
  | "UNICODE-RANGE" => some .unicodeRange | "CHAR" => some .char | "FUNCTION" => some .function
  | _ => none

def showOpt : Option Cps → String
  | none => "~"
  | some l => encCps l

def exc (r : Except Err Cps) : String :=
  match r with
  | .ok t => "OK " ++ encCps t
  | .error e => showErr e

def handle (line : String) : String :=
  match words line with
  | ["num", olz, mch, sp, lis, ty, tv] =>
    match prefs? olz mch sp lis, numType? ty, decCps tv with
    | some p, some t, some s =>
      match parseDim t s with
      | .error e => showErr e
      | .ok v =>
        match fmtNum exactOps p v with
        | .error e => showErr e
        | .ok text => "OK " ++ encCps text ++ " " ++ encCps v.sign ++ " " ++ encCps v.ip ++ " " ++ showOpt v.fp
                        ++ " " ++ encCps v.dim
    | _, _, _ => "bad-op"
  | ["den", tv] =>
    match decCps tv with
    | some s => match denote s with
      | some d => "OK " ++ (if d.neg then "1 " else "0 ") ++ toString d.mant ++ " " ++ toString d.scale ++ " " ++ encCps d.unit
      | none => "NONE"
    | none => "bad-op"
  | ["simple", olz, mch, sp, lis, ty, tv] =>
    match prefs? olz mch sp lis, itemType? ty, decCps tv with
    | some p, some t, some s => "OK " ++ encCps (fmtSimple p t s)
    | _, _, _ => "bad-op"
  | ["string", tv] => match decCps tv with
    | some s => "OK " ++ encCps (helperString s)
    | none => "bad-op"
  | ["stringvalue", tv] => match decCps tv with
    | some s => exc (stringValue s)
    | none => "bad-op"
  | ["uri", tv] => match decCps tv with
    | some s => "OK " ++ encCps (helperUri s)
    | none => "bad-op"
  | ["urivalue", tv] => match decCps tv with
    | some s => exc (uriValue s)
    | none => "bad-op"
  | ["normalize", tv] => match decCps tv with
    | some s => "OK " ++ encCps (normalize s)
    | none => "bad-op"
  | _ => "bad-op"

def main : IO Unit := serve handle
