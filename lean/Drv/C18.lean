import CssVerif.Model.NumPV
open CssVerif.Proto CssVerif.Num

def showErr : Err → String
  | .indexError => "ERR IndexError"
  | .valueError => "ERR ValueError"
  | .tooLarge => "ERR TooLarge"
  | .protocol => "bad-op"

def prefs? (olz mch sp lis : String) : Option Prefs :=
  match decCps sp, decCps lis with
  | some s, some l =>
    if (olz == "0" || olz == "1") && (mch == "0" || mch == "1") then
      some { omitLeadingZero := olz == "1", minimizeColorHash := mch == "1", spacer := s, listItemSpacer := l }
    else none
  | _, _ => none

def numType? : String → Option NumType
  | "D" => some .dimension | "N" => some .number | "P" => some .percentage | _ => none

def itemType? : String → Option ItemType
  | "IDENT" => some .ident | "STRING" => some .string | "URI" => some .uri | "HASH" => some .hash
  | "UNICODE-RANGE" => some .unicodeRange | "CHAR" => some .char | "FUNCTION" => some .function
  | "S" => some .s | "OTHER" => some .other
  | _ => none

def showOpt : Option Cps → String
  | none => "~"
  | some l => encCps l

def exc (r : Except Err Cps) : String :=
  match r with
  | .ok t => "OK " ++ encCps t
  | .error e => showErr e

def showRat (q : Rat) : String := toString q.num ++ "/" ++ toString q.den

def showRgba (c : Rgba) : String := showRat c.r ++ " " ++ showRat c.g ++ " " ++ showRat c.b ++ " " ++ showRat c.a

def showCErr : ColorErr → String
  | .malformed => "MALFORMED"
  | .valueError => "ERR ValueError"
  | .keyError => "ERR KeyError"

def ctok? (w : String) : Option CTok :=
  if w == "C" then some .comma else if w == "R" then some .rparen else if w == "S" then some .s
  else if w == "M" then some .comment else if w == "O" then some .other
  else match w.splitOn ":" with
    | ["F", h] => (decCps h).map CTok.func
    | ["N", h] => (decCps h).map CTok.num
    | ["P", h] => (decCps h).map CTok.pct
    | _ => none

def ctoks? : List String → Option (List CTok)
  | [] => some []
  | w :: t => match ctok? w, ctoks? t with
    | some a, some l => some (a :: l)
    | _, _ => none

def calcTok? (w : String) : Option CalcTok :=
  if w == "S" then some .s else if w == "R" then some .rparen else if w == "[" then some .openNested
  else if w == "]" then some .closeNested
  else match w.splitOn ":" with
    | ["F", h] => (decCps h).map CalcTok.func
    | ["O", h] => (decCps h).map CalcTok.op
    | [k, h] => match numType? k, decCps h with
      | some t, some v => some (CalcTok.operand t v)
      | _, _ => none
    | _ => none

def calcToks? : List String → Option (List CalcTok)
  | [] => some []
  | w :: t => match calcTok? w, calcToks? t with
    | some a, some l => some (a :: l)
    | _, _ => none

/-- a leaf component `K:hex` of a `pv` request -/
def pvLeaf? (k h : String) : Option Comp :=
  match decCps h with
  | none => none
  | some v =>
    match numType? k with
    | some t => some (.num t v)
    | none =>
      if k == "I" then some (.simple .ident v) else if k == "T" then some (.simple .string v)
      else if k == "R" then some (.simple .unicodeRange v) else if k == "U" then some (.uri v)
      else if k == "H" then some (.color .hash v) else if k == "K" then some (.color .ident v)
      else if k == "M" then some (.comment v) else none

mutual
/-- one component from the words of a `pv` request (fuel = number of words) -/
def pvComp? : Nat → List String → Option (Comp × List String)
  | 0, _ => none
  | _, [] => none
  | n + 1, w :: rest =>
    if w == "calc{" then
      match calcToks? (rest.takeWhile (· != "}")), rest.dropWhile (· != "}") with
      | some ts, _ :: after => some (.calc ts, after)
      | _, _ => none
    else match w.splitOn ":" with
      | ["F", h] =>
        match decCps h, pvArgs? n rest with
        | some name, some (args, after) => some (.func name args, after)
        | _, _ => none
      | [k, h] => (pvLeaf? k h).map (·, rest)
      | _ => none
def pvArgs? : Nat → List String → Option (Args × List String)
  | 0, _ => none
  | _, [] => none
  | n + 1, w :: rest =>
    if w == ")" then some (.nil, rest)
    else if w == "C" then (pvArgs? n rest).map fun (a, r) => (.comma a, r)
    else match pvComp? n (w :: rest) with
      | some (c, r) => (pvArgs? n r).map fun (a, r') => (.comp c a, r')
      | none => none
end

def pvItems? : Nat → List String → Option (List PVItem)
  | 0, _ => none
  | _, [] => some []
  | n + 1, w :: rest =>
    match w.splitOn ":" with
    | ["O", h] =>
      match decCps h, pvItems? n rest with
      | some v, some l => some (.op v :: l)
      | _, _ => none
    | _ =>
      match pvComp? n (w :: rest) with
      | some (c, r) => (pvItems? n r).map (PVItem.comp c :: ·)
      | none => none

/-- the items `TYPE:hex` of an `outseq` request -/
def outItems? : List String → Option (List (ItemType × Cps))
  | [] => some []
  | w :: rest =>
    match w.splitOn ":" with
    | [k, h] =>
      match itemType? k, decCps h, outItems? rest with
      | some t, some v, some l => some ((t, v) :: l)
      | _, _, _ => none
    | _ => none

def handle (line : String) : String :=
  match words line with
  | ["num", olz, mch, sp, lis, ty, tv] =>
    match prefs? olz mch sp lis, numType? ty, decCps tv with
    | some p, some t, some s =>
      match parseDim t s with
      | .error e => showErr e
      | .ok v =>
        -- the text as CPython computes it (binary64) and the text of the exact layer (`=` when equal)
        match fmtNum f64Ops p v, fmtNum exactOps p v with
        | .ok text, .ok ex => "OK " ++ encCps text ++ " " ++ encCps v.sign ++ " " ++ encCps v.ip ++ " " ++ showOpt v.fp
                        ++ " " ++ encCps v.dim ++ " " ++ (if ex = text then "=" else encCps ex)
        | .error e, _ => showErr e
        | _, .error e => showErr e
    | _, _, _ => "bad-op"
  | ["den", tv] =>
    match decCps tv with
    | some s => match denote s with
      | some d => "OK " ++ (if d.neg then "1 " else "0 ") ++ toString d.mant ++ " " ++ toString d.scale ++ " " ++ encCps d.unit
      | none => "NONE"
    | none => "bad-op"
  | ["simple", olz, mch, sp, lis, ty, tv] =>
    match prefs? olz mch sp lis, itemType? ty, decCps tv with
    | some p, some t, some s => "OK " ++ encCps (fmtSimple p t s)
    | _, _, _ => "bad-op"
  | "cfunc" :: olz :: mch :: sp :: lis :: toks =>
    match prefs? olz mch sp lis, ctoks? toks with
    | some p, some ts =>
      match parseColorFunc ts with
      | none => "MALFORMED"
      | some items =>
        match funcChannels items with
        | .error e => showCErr e
        | .ok (c, tie) =>
          match fmtColorFunc f64Ops p items with
          | .error e => showErr e
          | .ok text => "OK " ++ showRgba c ++ (if tie then " 1 " else " 0 ") ++ encCps text
    | _, _ => "bad-op"
  | "calc" :: olz :: mch :: sp :: lis :: toks =>
    match prefs? olz mch sp lis, calcToks? toks with
    | some p, some ts => exc (fmtCalc f64Ops p ts)
    | _, _ => "bad-op"
  | "pv" :: olz :: mch :: sp :: lis :: ws =>
    match prefs? olz mch sp lis, pvItems? (ws.length + 1) ws with
    | some p, some items => exc (fmtPV f64Ops p items)
    | _, _ => "bad-op"
  | "outseq" :: olz :: mch :: sp :: lis :: ws =>
    -- `out = Out(ser); for t, v in items: out.append(v, t); out.value()`
    match prefs? olz mch sp lis, outItems? ws with
    | some p, some items => "OK " ++ encCps (outValue (items.foldl (fun o tv => outAppend p o tv.2 false tv.1) []))
    | _, _ => "bad-op"
  | ["tokval", k, tv] =>
    match decCps tv with
    | some src => if k == "S" then "OK " ++ encCps (tokenValue .string src)
                  else if k == "U" then "OK " ++ encCps (tokenValue .uri src) else "bad-op"
    | none => "bad-op"
  | ["srcvalue", k, tv] =>
    match decCps tv with
    | some src => if k == "S" then exc (stringSourceValue src)
                  else if k == "U" then exc (uriSourceValue src) else "bad-op"
    | none => "bad-op"
  | ["hashchan", tv] =>
    match decCps tv with
    | some v => if !isHexColor v then "NOMATCH" else
      match hashChannels v with
      | .ok c => "OK " ++ showRgba c
      | .error e => showCErr e
    | none => "bad-op"
  | ["kw", tv] =>
    match decCps tv with
    | some v => match keywordChannels v with
      | .ok c => "OK " ++ showRgba c
      | .error e => showCErr e
    | none => "bad-op"
  | ["csimple", olz, mch, sp, lis, ty, tv] =>
    match prefs? olz mch sp lis, itemType? ty, decCps tv with
    | some p, some t, some s => "OK " ++ encCps (fmtColorSimple p t s)
    | _, _, _ => "bad-op"
  | ["string", tv] => match decCps tv with
    | some s => "OK " ++ encCps (helperString s)
    | none => "bad-op"
  | ["stringvalue", tv] => match decCps tv with
    | some s => exc (stringValue s)
    | none => "bad-op"
  | ["uri", tv] => match decCps tv with
    | some s => "OK " ++ encCps (helperUri s)
    | none => "bad-op"
  | ["urivalue", tv] => match decCps tv with
    | some s => exc (uriValue s)
    | none => "bad-op"
  | ["normalize", tv] => match decCps tv with
    | some s => "OK " ++ encCps (normalize s)
    | none => "bad-op"
  | _ => "bad-op"

def main : IO Unit := serve handle
