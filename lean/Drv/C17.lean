import CssVerif.Model.Media
import CssVerif.Model.ProdEngine
import CssVerif.Gen.C17Grammar
/-!
Driver for C17 (stateful: the state is one `MediaList`).

requests (one per line)                         reply
  new                                           obs
  set R F TOKS        mediaText = …             outcome # obs     (R raiseExceptions, F from text 1 / token list 0)
  append R MEDIUM     appendMedium              outcome # obs
  delete R CPS        deleteMedium              outcome # obs
  setitem R INT MEDIUM  ml[i] = …               outcome # obs
  item INT            item(i)                   outcome
  obs                                           obs
  mq TOKS             MediaQuery(text)          ok TYPE TEXT ITEMS | bad | unsupported
  mqset R TOKS CPS    MediaQuery(text).mediaType = …   outcome # TYPE TEXT ITEMS | bad | unsupported
  cmpq TOKS           derived query parser vs the engine on the captured grammar      same | unsupported | differ …
  cmpl F TOKS         derived list parser vs the engine on the captured grammars      same | unsupported | differ …
TOKS: `_` (no token) or tokens `TYPE/valhex/texthex` joined by `,`;  MEDIUM: TOKS or `!` (the empty string)
-/
open CssVerif.Proto CssVerif.Media CssVerif.ProdEngine

def ttOf (s : String) : TT :=
  match s with
  | "IDENT" => .ident | "S" => .s | "COMMENT" => .comment | "CHAR" => .char | "NUMBER" => .number
  | "DIMENSION" => .dimension | "PERCENTAGE" => .percentage | "HASH" => .hash | "FUNCTION" => .function
  | "STRING" => .string | "UNICODE-RANGE" => .unicodeRange | "INVALID" => .invalid | "EOF" => .eof
  | n => .other (cps n)

def ttName : TT → String
  | .ident => "IDENT" | .s => "S" | .comment => "COMMENT" | .char => "CHAR" | .number => "NUMBER"
  | .dimension => "DIMENSION" | .percentage => "PERCENTAGE" | .hash => "HASH" | .function => "FUNCTION"
  | .string => "STRING" | .unicodeRange => "UNICODE-RANGE" | .invalid => "INVALID" | .eof => "EOF"
  | .other n => showCps n

def decTok (w : String) : Option Tok :=
  match w.splitOn "/" with
  | [t, v, x] => match decCps v, decCps x with
    | some v, some x => some { typ := ttOf t, val := v, text := x }
    | _, _ => none
  | _ => none

def decToks (w : String) : Option (List Tok) :=
  if w == "_" then some []
  else (w.splitOn ",").foldr (fun x acc => match decTok x, acc with
    | some t, some l => some (t :: l)
    | _, _ => none) (some [])

def decMedium (w : String) : Option MediumText :=
  if w == "!" then some none else (decToks w).map some

def decBool (w : String) : Option Bool :=
  if w == "1" then some true else if w == "0" then some false else none

def showErr : Err → String
  | .syntaxErr => "SyntaxErr" | .invalidModification => "InvalidModificationErr" | .notFound => "NotFoundErr"
  | .indexError => "IndexError" | .attributeError => "AttributeError"

def showOutcome {α : Type} (f : α → String) : Outcome α → String
  | .ret a => "ret:" ++ f a
  | .raised e => "raised:" ++ showErr e
  | .unsupported => "unsupported"

def joinOr (sep : String) (l : List String) : String := if l.isEmpty then "_" else sep.intercalate l

def showTok (t : Tok) : String := ttName t.typ ++ "/" ++ encCps t.val

def showQItem : QItem → String
  | .tok t => ttName t.typ ++ "/" ++ encCps t.val
  | .comment t => "C/" ++ encCps t.val
  | .value _ t => "V/" ++ encCps t.text

def showMQ (q : MQ) : String :=
  encCps q.mediaType ++ " " ++ encCps q.text ++ " " ++ joinOr "," (q.items.map showQItem)

def obs (m : ML) : String :=
  "wf=" ++ (if m.wellformed then "1" else "0") ++
  " length=" ++ toString m.length ++
  " len=" ++ toString m.length ++
  " text=" ++ encCps m.mediaText ++
  " types=" ++ joinOr ";" (m.iterTypes.map encCps) ++
  " q=" ++ joinOr ";" ((queries m.seq).map fun q => encCps q.text) ++
  " items=" ++ joinOr "," (m.seq.map fun | .comment _ => "C" | .query _ => "Q") ++
  " toks=" ++ joinOr "," (m.toks.map showTok)

def showItems (l : List LItem) : String :=
  joinOr ";" (l.map fun | .comment t => "C/" ++ encCps t.val | .query q => showMQ q)

/-- derived parser vs engine: `same` when both reject, both are outside the model, or both give equal results -/
def cmpOut {α : Type} [DecidableEq α] (a b : POut α) (sh : α → String) : String :=
  match a, b with
  | .ok x, .ok y => if x = y then "same:ok" else "differ derived=" ++ sh x ++ " engine=" ++ sh y
  | .bad, .bad => "same:bad"
  | .unsupported, _ => "unsupported"
  | _, .unsupported => "unsupported"
  | .ok x, .bad => "differ derived=" ++ sh x ++ " engine=bad"
  | .bad, .ok y => "differ derived=bad engine=" ++ sh y

def pyBool (b : Bool) : String := if b then "True" else "False"

def step (m : ML) (line : String) : ML × String :=
  match words line with
  | ["new"] => ({}, obs {})
  | ["obs"] => (m, obs m)
  | ["set", r, f, t] =>
    match decBool r, decBool f, decToks t with
    | some r, some f, some t =>
      let (m', o) := m.setMediaText r f t
      (m', showOutcome (fun _ => "None") o ++ " # " ++ obs m')
    | _, _, _ => (m, "bad-op")
  | ["append", r, t] =>
    match decBool r, decMedium t with
    | some r, some t =>
      let (m', o) := m.appendMedium r t
      (m', showOutcome pyBool o ++ " # " ++ obs m')
    | _, _ => (m, "bad-op")
  | ["delete", r, c] =>
    match decBool r, decCps c with
    | some r, some c =>
      let (m', o) := m.deleteMedium r c
      (m', showOutcome (fun _ => "None") o ++ " # " ++ obs m')
    | _, _ => (m, "bad-op")
  | ["setitem", r, i, t] =>
    match decBool r, i.toInt?, decMedium t with
    | some r, some i, some t =>
      let (m', o) := m.setItem r i t
      (m', showOutcome (fun _ => "None") o ++ " # " ++ obs m')
    | _, _, _ => (m, "bad-op")
  | ["item", i] =>
    match i.toInt? with
    | some i => (m, showOutcome (fun | none => "None" | some v => encCps v) (m.item i))
    | none => (m, "bad-op")
  | ["mq", t] =>
    match decToks t with
    | some t => (m, match parseQ {} t with
        | .ok q => "ok " ++ showMQ q
        | .bad => "bad"
        | .unsupported => "unsupported")
    | none => (m, "bad-op")
  | ["mqset", r, t, c] =>
    match decBool r, decToks t, decCps c with
    | some r, some t, some c => (m, match parseQ {} t with
        | .ok q =>
          let (q', o) := q.setMediaType r c
          showOutcome (fun _ => "None") o ++ " # " ++ showMQ q'
        | .bad => "bad"
        | .unsupported => "unsupported")
    | _, _, _ => (m, "bad-op")
  | ["cmpq", t] =>
    match decToks t with
    | some t => (m, cmpOut (parseQ {} t) (engineQ CssVerif.Gen.C17Grammar.mediaQueryAlone t) showMQ)
    | none => (m, "bad-op")
  | ["cmpl", f, t] =>
    match decBool f, decToks t with
    | some f, some t =>
      (m, cmpOut (parseL true f {} t) (engineL CssVerif.Gen.C17Grammar.mediaList CssVerif.Gen.C17Grammar.mediaQueryPartof f t) showItems)
    | _, _ => (m, "bad-op")
  | _ => (m, "bad-op")

def main : IO Unit := serveSt ({} : ML) step
