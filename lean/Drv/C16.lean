import CssVerif.Model.Sel
open CssVerif.Proto CssVerif.Sel

/-! line protocol of the C16 model driver (see tools/harness/c16.py)

```
sel  <ns> <tokens>            one selector on a fresh Selector
prep <tokens>                 Selector._prepare_tokens only
ops  <op> <op> …              a history on one fresh SelectorList; ops:
       set:<ns>:<tokens>   selectorList.selectorText = (tokens, ns)
       app:<ns>:<tokens>   selectorList.appendSelector((tokens, ns))
       idx:<i>:<tokens>    selectorList[i] = tokens
       del:<i>             del selectorList[i]
space <hex>                   str.isspace of each code point
```
`<ns>` = `-` or `p=u&p=u` (hex strings), `<tokens>` = `-` or `typ/val,typ/val` (hex strings). -/

def decTok (w : String) : Option Tok :=
  match w.splitOn "/" with
  | [t, v] => match decCps t, decCps v with
      | some t, some v => some ⟨TT.ofName t, v⟩
      | _, _ => none
  | _ => none

def decToks (w : String) : Option (List Tok) :=
  if w == "-" then some []
  else (w.splitOn ",").foldr (fun x acc => match decTok x, acc with
    | some t, some l => some (t :: l)
    | _, _ => none) (some [])

def decNs (w : String) : Option NsMap :=
  if w == "-" then some []
  else (w.splitOn "&").foldr (fun x acc => match x.splitOn "=", acc with
    | [p, u], some l => (match decCps p, decCps u with
        | some p, some u => some ((p, u) :: l)
        | _, _ => none)
    | _, _ => none) (some [])

def decInt (w : String) : Option Int :=
  if w.startsWith "m" then (w.drop 1).toNat?.map (fun n => - (Int.ofNat n)) else w.toNat?.map Int.ofNat

def showErr : PyErr → String
  | .keyError => "RAISE KeyError" | .indexError => "RAISE IndexError"
  | .valueError => "RAISE ValueError" | .typeError => "RAISE TypeError"

def showUri : Uri → String
  | .none => "N" | .any => "A" | .uri u => "U" ++ encCps u

def showVal : Val → String
  | .str s => "s:" ++ encCps s
  | .comment s => "c:" ++ encCps s
  | .ns u n => "n:" ++ showUri u ++ ":" ++ encCps n

def showItem (it : Item) : String := encCps it.typ ++ "/" ++ showVal it.val

def showNs (ns : NsMap) : String :=
  if ns.isEmpty then "-" else "&".intercalate (ns.map fun pu => encCps pu.1 ++ "=" ++ encCps pu.2)

def showSel (r : SelRec) : String :=
  s!"OK {r.b} {r.c} {r.d} E={match r.element with | some v => showVal v | none => "none"} T={encCps r.text} N={showNs r.nsUsed} I={";".intercalate (r.seq.map showItem)}"

def showList (l : List SelRec) : String :=
  s!"L {l.length};{encCps (listText l)};{",".intercalate (l.map fun r => s!"{r.b}.{r.c}.{r.d}")};{",".intercalate (l.map fun r => encCps r.text)}"

def doOp (l : List SelRec) (op : String) : Option (M (List SelRec)) :=
  match op.splitOn ":" with
  | ["set", ns, toks] => match decNs ns, decToks toks with
      | some ns, some toks => some (do
          let r ← parseList ns toks
          pure (match r with | some l' => l' | none => l))
      | _, _ => none
  | ["app", ns, toks] => match decNs ns, decToks toks with
      | some ns, some toks => some (appendSel l ns toks)
      | _, _ => none
  | ["idx", i, toks] => match decInt i, decToks toks with
      | some i, some toks => some (setItem l i toks)
      | _, _ => none
  | ["del", i] => match decInt i with
      | some i => some (delItem l i)
      | none => none
  | _ => none

def doOps (ops : List String) : Option String :=
  let rec go (l : List SelRec) (ops : List String) (acc : List String) : Option (List String) :=
    match ops with
    | [] => some acc.reverse
    | op :: rest =>
      match doOp l op with
      | none => none
      | some (.ok l') => go l' rest (showList l' :: acc)
      | some (.error e) => go l rest (showErr e :: acc)
  (go [] ops []).map (" | ".intercalate ·)

def handle (line : String) : String :=
  match words line with
  | ["sel", ns, toks] => match decNs ns, decToks toks with
      | some ns, some toks => (match parseSel ns toks with
          | .ok (some r) =>
            -- a committed selector without items, counts and element cannot be told from a fresh one
            if r.seq.isEmpty && r.b == 0 && r.c == 0 && r.d == 0 && r.element.isNone then "REJECT" else showSel r
          | .ok none => "REJECT"
          | .error e => showErr e)
      | _, _ => "bad-op"
  | ["prep", toks] => match decToks toks with
      | some toks =>
        let p := prepare toks
        if p.isEmpty then "-" else ",".intercalate (p.map fun t => encCps t.typ.name ++ "/" ++ encCps t.val)
      | none => "bad-op"
  | "ops" :: ops => (doOps ops).getD "bad-op"
  | ["space", cs] => match decCps cs with
      | some l => String.ofList (l.map fun c => if isPySpace c then '1' else '0')
      | none => "bad-op"
  | _ => "bad-op"

def main : IO Unit := serve handle
