import CssVerif.Model.SelSpec
import CssVerif.Model.SelText
open CssVerif.Proto CssVerif.Sel

/-! line protocol of the C16 model driver (see tools/harness/c16.py)

```
sel  <ns> <tokens>            one selector on a fresh Selector
prep <tokens>                 Selector._prepare_tokens only
ops  <op> <op> …              a history on one fresh SelectorList; ops:
       set:<ns>:<tokens>   selectorList.selectorText = (tokens, ns)
       app:<ns>:<tokens>   selectorList.appendSelector((tokens, ns))
       idx:<i>:<tokens>    selectorList[i] = tokens
       del:<i>             del selectorList[i]
space <hex>                   str.isspace of each code point
spec <ns> <words…>            a written selector (`Sel` of Model/SelSpec.lean) in prefix notation: replies with its
                              `ok` flag, `count`, `raw` tokens, `items`, `element` (the specification side)
```
text <ns> <words…>            the same written selector at text level: `plainChain raw`, `Sel.text`, the tokens the
                              tokenizer model (Model/Tok.lean) returns for that text, and the selector model on them
attach <ns> <sheetns> <tokens>  a selector parsed with <ns> and then attached to a sheet whose namespaces (the
                              sheet's effective prefix -> URI view) are <sheetns>: its text there (`serItems sheetns seq`)
seltext <ns> <hex>            any text: tokenizer model, then the selector model (`parseSel ns (tokensOf text)`)
`<ns>` = `-` or `p=u&p=u` (hex strings), `<tokens>` = `-` or `typ/val,typ/val` (hex strings). -/

def decTok (w : String) : Option Tok :=
  match w.splitOn "/" with
  | [t, v] => match decCps t, decCps v with
      | some t, some v => some ⟨TT.ofName t, v⟩
      | _, _ => none
  | _ => none

def decToks (w : String) : Option (List Tok) :=
  if w == "-" then some []
  else (w.splitOn ",").foldr (fun x acc => match decTok x, acc with
    | some t, some l => some (t :: l)
    | _, _ => none) (some [])

def decNs (w : String) : Option NsMap :=
  if w == "-" then some []
  else (w.splitOn "&").foldr (fun x acc => match x.splitOn "=", acc with
    | [p, u], some l => (match decCps p, decCps u with
        | some p, some u => some ((p, u) :: l)
        | _, _ => none)
    | _, _ => none) (some [])

def decInt (w : String) : Option Int :=
  if w.startsWith "m" then (w.drop 1).toNat?.map (fun n => - (Int.ofNat n)) else w.toNat?.map Int.ofNat

def showErr : PyErr → String
  | .keyError => "RAISE KeyError" | .indexError => "RAISE IndexError"
  | .valueError => "RAISE ValueError" | .typeError => "RAISE TypeError"

def showUri : Uri → String
  | .none => "N" | .any => "A" | .uri u => "U" ++ encCps u

def showVal : Val → String
  | .str s => "s:" ++ encCps s
  | .comment s => "c:" ++ encCps s
  | .ns u n => "n:" ++ showUri u ++ ":" ++ encCps n

def showItem (it : Item) : String := encCps it.typ ++ "/" ++ showVal it.val

def showNs (ns : NsMap) : String :=
  if ns.isEmpty then "-" else "&".intercalate (ns.map fun pu => encCps pu.1 ++ "=" ++ encCps pu.2)

def showSel (r : SelRec) : String :=
  s!"OK {r.b} {r.c} {r.d} E={match r.element with | some v => showVal v | none => "none"} T={encCps r.text} N={showNs r.nsUsed} I={";".intercalate (r.seq.map showItem)}"

def showList (l : List SelRec) : String :=
  s!"L {l.length};{encCps (listText l)};{",".intercalate (l.map fun r => s!"{r.b}.{r.c}.{r.d}")};{",".intercalate (l.map fun r => encCps r.text)}"

def doOp (l : List SelRec) (op : String) : Option (M (List SelRec)) :=
  match op.splitOn ":" with
  | ["set", ns, toks] => match decNs ns, decToks toks with
      | some ns, some toks => some (do
          let r ← parseList ns toks
          pure (match r with | some l' => l' | none => l))
      | _, _ => none
  | ["app", ns, toks] => match decNs ns, decToks toks with
      | some ns, some toks => some (appendSel l ns toks)
      | _, _ => none
  | ["idx", i, toks] => match decInt i, decToks toks with
      | some i, some toks => some (setItem l i toks)
      | _, _ => none
  | ["del", i] => match decInt i with
      | some i => some (delItem l i)
      | none => none
  | _ => none

def doOps (ops : List String) : Option String :=
  let rec go (l : List SelRec) (ops : List String) (acc : List String) : Option (List String) :=
    match ops with
    | [] => some acc.reverse
    | op :: rest =>
      match doOp l op with
      | none => none
      | some (.ok l') => go l' rest (showList l' :: acc)
      | some (.error e) => go l rest (showErr e :: acc)
  (go [] ops []).map (" | ".intercalate ·)

/-! ### the wire format of a written selector (prefix notation, counts before repetitions)

```
sel      := fills compound k (gap compound)^k fills
fills    := k (w<hex> | c<hex>)^k
compound := (h- | h pfx name) k (fills simple)^k        -- the fills before a simple selector are comments
pfx      := pn | pa | pe | pq<hex>          name := n<hex> | u
simple   := I<hex> | C<hex> | A attr | P0<hex> | P1<hex> | F0<hex> args | F1<hex> args | N<hex> fills negarg fills
negarg   := T pfx name | I<hex> | C<hex> | A attr | P0<hex> | P1<hex> | F0<hex> args | F1<hex> args
attr     := fills pfx n<hex> fills (o- | o(eq|inc|dash|pre|suf|sub) fills (vi<hex>|vs<hex>) fills)
args     := k (a+ | a- | an<hex> | ad<hex> | as<hex> | ai<hex> | aw<hex> | ac<hex>)^k
gap      := fills (g- | g> fills | g+ fills | g~ fills)
``` -/
abbrev P (α : Type) := List String → Option (α × List String)

def pMany {α : Type} (p : P α) : Nat → P (List α)
  | 0, ws => some ([], ws)
  | k + 1, ws => match p ws with
    | some (a, ws) => (match pMany p k ws with
        | some (l, ws) => some (a :: l, ws)
        | none => none)
    | none => none

def pCount {α : Type} (p : P α) : P (List α)
  | w :: ws => match w.toNat? with
    | some k => pMany p k ws
    | none => none
  | [] => none

def tagged (tag : String) (w : String) : Option Cps :=
  if w.startsWith tag then decCps (w.drop tag.length).toString else none

def pFill : P Fill
  | w :: ws => match tagged "w" w, tagged "c" w with
    | some v, _ => some (.ws v, ws)
    | _, some v => some (.cm v, ws)
    | _, _ => none
  | [] => none

def pFills : P (List Fill) := pCount pFill

def pPfx : P Pfx
  | w :: ws =>
    if w == "pn" then some (.none, ws) else if w == "pa" then some (.any, ws) else if w == "pe" then some (.empty, ws)
    else match tagged "pq" w with
      | some v => some (.named v, ws)
      | none => none
  | [] => none

def pName : P (Option Cps)
  | w :: ws => if w == "u" then some (none, ws) else match tagged "n" w with
      | some v => some (some v, ws)
      | none => none
  | [] => none

def pTypeSel : P TypeSel := fun ws =>
  match pPfx ws with
  | some (p, ws) => (match pName ws with
      | some (n, ws) => some (⟨p, n⟩, ws)
      | none => none)
  | none => none

def pOp (w : String) : Option AttOp :=
  if w == "oeq" then some .eq else if w == "oinc" then some .includes else if w == "odash" then some .dashmatch
  else if w == "opre" then some .prefixmatch else if w == "osuf" then some .suffixmatch
  else if w == "osub" then some .substringmatch else none

def pAttVal : P AttVal
  | w :: ws => match tagged "vi" w, tagged "vs" w with
    | some v, _ => some (.ident v, ws)
    | _, some v => some (.string v, ws)
    | _, _ => none
  | [] => none

def pAttr : P Attr := fun ws =>
  match pFills ws with
  | some (f1, ws) => (match pPfx ws with
    | some (p, w :: ws) => (match tagged "n" w with
      | some n => (match pFills ws with
        | some (f2, w :: ws) =>
          if w == "o-" then some (⟨f1, p, n, f2, none⟩, ws)
          else (match pOp w with
            | some o => (match pFills ws with
              | some (f3, ws) => (match pAttVal ws with
                | some (v, ws) => (match pFills ws with
                  | some (f4, ws) => some (⟨f1, p, n, f2, some (o, f3, v, f4)⟩, ws)
                  | none => none)
                | none => none)
              | none => none)
            | none => none)
        | _ => none)
      | none => none)
    | _ => none)
  | none => none

def pArg : P ArgTok
  | w :: ws =>
    if w == "a+" then some (.plus, ws) else if w == "a-" then some (.minus, ws)
    else match tagged "an" w, tagged "ad" w, tagged "as" w, tagged "ai" w, tagged "aw" w, tagged "ac" w with
      | some v, _, _, _, _, _ => some (.num v, ws)
      | _, some v, _, _, _, _ => some (.dim v, ws)
      | _, _, some v, _, _, _ => some (.str v, ws)
      | _, _, _, some v, _, _ => some (.ident v, ws)
      | _, _, _, _, some v, _ => some (.ws v, ws)
      | _, _, _, _, _, some v => some (.cm v, ws)
      | _, _, _, _, _, _ => none
  | [] => none

def pNegArg : P NegArg
  | w :: ws =>
    if w == "T" then (match pTypeSel ws with | some (t, ws) => some (.type t, ws) | none => none)
    else if w == "A" then (match pAttr ws with | some (a, ws) => some (.attr a, ws) | none => none)
    else match tagged "I" w, tagged "C" w, tagged "P0" w, tagged "P1" w, tagged "F0" w, tagged "F1" w with
      | some v, _, _, _, _, _ => some (.id v, ws)
      | _, some v, _, _, _, _ => some (.cls v, ws)
      | _, _, some v, _, _, _ => some (.pseudo false v, ws)
      | _, _, _, some v, _, _ => some (.pseudo true v, ws)
      | _, _, _, _, some v, _ => (match pCount pArg ws with | some (a, ws) => some (.func false v a, ws) | none => none)
      | _, _, _, _, _, some v => (match pCount pArg ws with | some (a, ws) => some (.func true v a, ws) | none => none)
      | _, _, _, _, _, _ => none
  | [] => none

def pSimple : P Simple
  | w :: ws =>
    if w == "A" then (match pAttr ws with | some (a, ws) => some (.attr a, ws) | none => none)
    else match tagged "I" w, tagged "C" w, tagged "P0" w, tagged "P1" w, tagged "F0" w, tagged "F1" w, tagged "N" w with
      | some v, _, _, _, _, _, _ => some (.id v, ws)
      | _, some v, _, _, _, _, _ => some (.cls v, ws)
      | _, _, some v, _, _, _, _ => some (.pseudo false v, ws)
      | _, _, _, some v, _, _, _ => some (.pseudo true v, ws)
      | _, _, _, _, some v, _, _ => (match pCount pArg ws with | some (a, ws) => some (.func false v a, ws) | none => none)
      | _, _, _, _, _, some v, _ => (match pCount pArg ws with | some (a, ws) => some (.func true v a, ws) | none => none)
      | _, _, _, _, _, _, some v => (match pFills ws with
          | some (f1, ws) => (match pNegArg ws with
            | some (x, ws) => (match pFills ws with
              | some (f2, ws) => some (.not v f1 x f2, ws)
              | none => none)
            | none => none)
          | none => none)
      | _, _, _, _, _, _, _ => none
  | [] => none

def commentsOf (f : List Fill) : Option (List Cps) :=
  f.foldr (fun x acc => match x, acc with
    | .cm v, some l => some (v :: l)
    | _, _ => none) (some [])

def pCmSimple : P (List Cps × Simple) := fun ws =>
  match pFills ws with
  | some (f, ws) => (match commentsOf f, pSimple ws with
    | some cs, some (s, ws) => some ((cs, s), ws)
    | _, _ => none)
  | none => none

def pCompound : P Compound
  | w :: ws =>
    if w == "h-" then (match pCount pCmSimple ws with | some (r, ws) => some (⟨none, r⟩, ws) | none => none)
    else if w == "h" then (match pTypeSel ws with
      | some (t, ws) => (match pCount pCmSimple ws with | some (r, ws) => some (⟨some t, r⟩, ws) | none => none)
      | none => none)
    else none
  | [] => none

def pGap : P Gap := fun ws =>
  match pFills ws with
  | some (pre, w :: ws) =>
    if w == "g-" then some (⟨pre, none⟩, ws)
    else
      let o : Option Comb := if w == "g>" then some .child else if w == "g+" then some .adjacent
        else if w == "g~" then some .sibling else none
      (match o, pFills ws with
       | some o, some (post, ws) => some (⟨pre, some (o, post)⟩, ws)
       | _, _ => none)
  | _ => none

def pGapCompound : P (Gap × Compound) := fun ws =>
  match pGap ws with
  | some (g, ws) => (match pCompound ws with | some (c, ws) => some ((g, c), ws) | none => none)
  | none => none

def pSel : P Sel := fun ws =>
  match pFills ws with
  | some (lead, ws) => (match pCompound ws with
    | some (first, ws) => (match pCount pGapCompound ws with
      | some (more, ws) => (match pFills ws with
        | some (trail, ws) => some (⟨lead, first, more, trail⟩, ws)
        | none => none)
      | none => none)
    | none => none)
  | none => none

def showToks (l : List Tok) : String :=
  if l.isEmpty then "-" else ",".intercalate (l.map fun t => encCps t.typ.name ++ "/" ++ encCps t.val)

def doSpec (ns : NsMap) (ws : List String) : String :=
  match pSel ws with
  | some (s, []) =>
    let k := s.count
    s!"SPEC ok={if s.ok ns then 1 else 0} {k.1} {k.2.1} {k.2.2} E={match s.element ns with | some v => showVal v | none => "none"} RAW={showToks s.raw} COOKED={showToks s.cooked} I={";".intercalate ((s.items ns).map showItem)}"
  | _ => "bad-op"

def showParse (ns : NsMap) (toks : List Tok) : String :=
  match parseSel ns toks with
  | .ok (some r) =>
    if r.seq.isEmpty && r.b == 0 && r.c == 0 && r.d == 0 && r.element.isNone then "REJECT" else showSel r
  | .ok none => "REJECT"
  | .error e => showErr e

def doText (ns : NsMap) (ws : List String) : String :=
  match pSel ws with
  | some (s, []) =>
    let toks := tokensOf s.text
    s!"TEXT plain={if plainChain s.raw then 1 else 0} T={encCps s.text} TOK={showToks toks} | {showParse ns toks}"
  | _ => "bad-op"

def handle (line : String) : String :=
  match words line with
  | "text" :: ns :: ws => (match decNs ns with
      | some ns => doText ns ws
      | none => "bad-op")
  | ["attach", ns, sns, toks] => (match decNs ns, decNs sns, decToks toks with
      | some ns, some sns, some toks => (match parseSel ns toks with
          | .ok (some r) => s!"ATT {r.b} {r.c} {r.d} T={encCps (serItems sns r.seq)}"
          | .ok none => "REJECT"
          | .error e => showErr e)
      | _, _, _ => "bad-op")
  | ["seltext", ns, t] => (match decNs ns, decCps t with
      | some ns, some t =>
        let toks := tokensOf t
        s!"SELTEXT plain={if plainChain toks then 1 else 0} TOK={showToks toks} | {showParse ns toks}"
      | _, _ => "bad-op")
  | ["sel", ns, toks] => match decNs ns, decToks toks with
      | some ns, some toks => (match parseSel ns toks with
          | .ok (some r) =>
            -- a committed selector without items, counts and element cannot be told from a fresh one
            if r.seq.isEmpty && r.b == 0 && r.c == 0 && r.d == 0 && r.element.isNone then "REJECT" else showSel r
          | .ok none => "REJECT"
          | .error e => showErr e)
      | _, _ => "bad-op"
  | ["prep", toks] => match decToks toks with
      | some toks =>
        let p := prepare toks
        if p.isEmpty then "-" else ",".intercalate (p.map fun t => encCps t.typ.name ++ "/" ++ encCps t.val)
      | none => "bad-op"
  | "spec" :: ns :: ws => (match decNs ns with
      | some ns => doSpec ns ws
      | none => "bad-op")
  | "ops" :: ops => (doOps ops).getD "bad-op"
  | ["space", cs] => match decCps cs with
      | some l => String.ofList (l.map fun c => if isPySpace c then '1' else '0')
      | none => "bad-op"
  | _ => "bad-op"

def main : IO Unit := serve handle
