import CssVerif.Lib.Proto
import CssVerif.Model.Mutators
import CssVerif.Model.MutatorTree
import CssVerif.Gen.C11Scripts
open CssVerif.Proto CssVerif.Mutators

/-!
Driver for C11. Requests:
* `count`                         -> number of extracted scripts
* `info <i>`                      -> `<name> disc=<0|1> guarded=<0|1> rosafe=<0|1> dirty=<f,f,..|-> fields=<n>`
* `run <i> <ro 0|1> <fuel> <bits>`-> `<exit> trace=<m.m.m|-> dirty=<f,f|-> left=<n>`; bits = string of 0/1 (`-` = none)
* `deep <i> <ro 0|1> <fuel> <bits>`-> same format: script `i` run on the root of the ownership tree `drvWorld` (every
  object carries all extracted mutators; children start in `St.init false`), the root's `call f` statements really
  executed (`World.runFrom`, one level; the children's own calls by the contract `Handler.shallow`); at a call the
  bits give the number of the child's script in unary (1ⁿ0), then the child's decisions
-/

def showExit : Exit → String
  | .norm => "norm" | .ret => "ret" | .brk => "brk" | .cont => "cont" | .exc => "exc" | .roExc => "roexc"
  | .stuck => "stuck"

def showList (l : List Nat) : String :=
  if l.isEmpty then "-" else ",".intercalate (l.map toString)

def parseBits (s : String) : Option (List Bool) :=
  if s == "-" then some []
  else s.toList.foldr (fun c acc => match c, acc with
    | '0', some l => some (false :: l)
    | '1', some l => some (true :: l)
    | _, _ => none) (some [])

def scriptsArr : Array Script := (CssVerif.Gen.C11.scripts ++ CssVerif.Gen.C11.internalScripts).toArray

def drvWorld : World := ⟨fun _ => CssVerif.Gen.C11.scripts ++ CssVerif.Gen.C11.internalScripts, fun _ => St.init false⟩

def showRes (sc : Script) (st0 : St) (r : Res) : String :=
  let dirty := sc.fields.filter fun f => r.st.cur f != st0.cur f
  s!"{showExit r.exit} trace={if r.st.trace.isEmpty then "-" else ".".intercalate (r.st.trace.reverse.map toString)} dirty={showList dirty} left={r.os.length}"

def handle (line : String) : String :=
  match words line with
  | ["count"] => toString scriptsArr.size
  | ["info", i] =>
    match i.toNat? with
    | some n =>
      if h : n < scriptsArr.size then
        let sc := scriptsArr[n]
        s!"{sc.name} disc={if Disciplined sc.fields sc.body then 1 else 0} guarded={if guardedFirst sc.body then 1 else 0} rosafe={if ReadonlySafe sc.fields sc.body then 1 else 0} dirty={showList (dirtyOnExc sc.fields sc.body)} fields={sc.fields.length}"
      else "bad-op"
    | none => "bad-op"
  | ["run", i, ro, fuel, bits] =>
    match i.toNat?, fuel.toNat?, parseBits bits with
    | some n, some fu, some os =>
      if h : n < scriptsArr.size then
        if ro == "0" || ro == "1" then
          let sc := scriptsArr[n]
          let st0 := St.init (ro == "1")
          let r := run fu sc.body st0 os
          let dirty := sc.fields.filter fun f => r.st.cur f != st0.cur f
          s!"{showExit r.exit} trace={if r.st.trace.isEmpty then "-" else ".".intercalate (r.st.trace.reverse.map toString)} dirty={showList dirty} left={r.os.length}"
        else "bad-op"
      else "bad-op"
    | _, _, _ => "bad-op"
  | ["deep", i, ro, fuel, bits] =>
    match i.toNat?, fuel.toNat?, parseBits bits with
    | some n, some fu, some os =>
      if h : n < scriptsArr.size then
        if ro == "0" || ro == "1" then
          let sc := scriptsArr[n]
          let st0 := St.init (ro == "1")
          showRes sc st0 (drvWorld.runFrom Handler.shallow 1 [] fu sc.body st0 os)
        else "bad-op"
      else "bad-op"
    | _, _, _ => "bad-op"
  | _ => "bad-op"

def main : IO Unit := serve handle
