import CssVerif.Model.Codec
open CssVerif.Proto CssVerif.Codec

def showEnc : Enc → String
  | .utf8 => "utf-8" | .utf8sig => "utf-8-sig" | .utf16 => "utf-16" | .utf16le => "utf-16-le"
  | .utf16be => "utf-16-be" | .utf32 => "utf-32" | .utf32le => "utf-32-le" | .utf32be => "utf-32-be"
  | .named n => "named:" ++ encCps n

def showAns : Option (Enc × Bool) → String
  | none => "NONE"
  | some (e, x) => showEnc e ++ (if x then " 1" else " 0")

def handle (line : String) : String :=
  match words line with
  | ["detect", f, b] => match decCps b with
      | some l => showAns (detect l (f == "1"))
      | none => "bad-op"
  | ["detectu", f, b] => match decCps b with
      | some l => showAns (detectUnicode l (f == "1"))
      | none => "bad-op"
  | ["fix", f, e, b] => match decCps e, decCps b with
      | some e, some l => match fixEncoding l e (f == "1") with
          | some r => "OK " ++ encCps r
          | none => "NONE"
      | _, _ => "bad-op"
  | _ => "bad-op"

def main : IO Unit := serve handle
