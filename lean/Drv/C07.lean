import CssVerif.Model.Codec
import CssVerif.Model.CodecInc
import CssVerif.Model.CodecInner
import CssVerif.Lemmas.CodecEncInner
import CssVerif.Model.CodecStream
import CssVerif.Model.CodecErr
open CssVerif.Proto CssVerif.Codec

def showEnc : Enc → String
  | .utf8 => "utf-8" | .utf8sig => "utf-8-sig" | .utf16 => "utf-16" | .utf16le => "utf-16-le"
  | .utf16be => "utf-16-be" | .utf32 => "utf-32" | .utf32le => "utf-32-le" | .utf32be => "utf-32-be"
  | .named n => "named:" ++ encCps n

def showAns : Option (Enc × Bool) → String
  | none => "NONE"
  | some (e, x) => showEnc e ++ (if x then " 1" else " 0")

/-- identity inner codec: the harness only uses it with ASCII data and ASCII-compatible encodings -/
def idInner : Inner := ⟨fun _ b _ => b, fun _ a b _ => ⟨b, rfl⟩, fun _ => rfl⟩

def showSt : DSt → String
  | .waiting _ _ b => "W:" ++ encCps b
  | .decoding e _ t => "D:" ++ encCps e ++ ":" ++ encCps t
  | .streaming e _ => "S:" ++ encCps e

/-- `incdec given force chunk…`: per-chunk outputs, final output, state before the final call -/
def incdec (given : Option Name) (force : Bool) (chunks : List (List Nat)) : String :=
  let rec go (s : DSt) (cs : List (List Nat)) (acc : List String) : DSt × List String :=
    match cs with
    | [] => (s, acc.reverse)
    | c :: cs => let r := step idInner s c false; go r.1 cs (encCps r.2 :: acc)
  let r := go (.waiting given force []) chunks []
  let fin := step idInner r.1 [] true
  " ".intercalate r.2 ++ " | " ++ encCps fin.2 ++ " | " ++ showSt r.1 ++ " | " ++
    encCps (oneShot idInner given force chunks.flatten)

def idInnerEnc : InnerEnc := ⟨fun _ b _ => b, fun _ a b _ => ⟨b, rfl⟩, fun _ => rfl⟩

def showESt : ESt → String
  | .waiting _ b => "W:" ++ encCps b
  | .encoding e _ => "E:" ++ encCps e

/-- `incenc given chunk…`: per-chunk outputs, final output, state before the final call, one-shot -/
def incenc (given : Option Name) (chunks : List (List Nat)) : String :=
  let rec go (s : ESt) (cs : List (List Nat)) (acc : List String) : ESt × List String :=
    match cs with
    | [] => (s, acc.reverse)
    | c :: cs => let r := estep idInnerEnc s c false; go r.1 cs (encCps r.2 :: acc)
  let r := go (.waiting given []) chunks []
  let fin := estep idInnerEnc r.1 [] true
  " ".intercalate r.2 ++ " | " ++ encCps fin.2 ++ " | " ++ showESt r.1 ++ " | " ++
    encCps (encodeOneShot idInnerEnc given chunks.flatten)

/-! ### inner codecs (Model/CodecInner.lean) -/

def parseCName : String → Option CName
  | "u8" => some (.plain .u8) | "u8sig" => some .u8sig | "u16" => some .u16 | "u32" => some .u32
  | "u16le" => some (.plain .u16le) | "u16be" => some (.plain .u16be)
  | "u32le" => some (.plain .u32le) | "u32be" => some (.plain .u32be)
  | "l1" => some (.plain .l1) | "ascii" => some (.plain .ascii)
  | _ => none

def showKind : Option Kind → String
  | none => "none" | some .u8 => "u8" | some .u16le => "u16le" | some .u16be => "u16be"
  | some .u32le => "u32le" | some .u32be => "u32be" | some .l1 => "l1" | some .ascii => "ascii"

def isBytes (l : List Nat) : Bool := l.all (· < 256)

/-- `pdec c final bytes`: one `_buffer_decode(bytes, "strict", final)` of a fresh decoder: text, consumed -/
def pdec (c : CName) (final : Bool) (d : List Nat) : String :=
  let r := sniff c d final
  if r.res.err then "RAISE" else encCps r.res.text ++ " " ++ toString (d.length - r.res.pend.length) ++ " " ++ showKind r.mode

/-- `idec c chunk…`: outputs of `decode(chunk, False)` …, `decode(b"", True)`; `RAISE` ends the list -/
def idec (c : CName) (chunks : List (List Nat)) : String :=
  let rec go (s : ISt) (cs : List (List Nat)) (acc : List String) : List String :=
    match cs with
    | [] => match istep c s [] true with
      | none => ("RAISE" :: acc).reverse
      | some (_, t) => (encCps t :: acc).reverse
    | x :: xs => match istep c s x false with
      | none => ("RAISE" :: acc).reverse
      | some (s', t) => go s' xs (encCps t :: acc)
  " ".intercalate (go c.init chunks []) ++ " | " ++
    (match incDecode c chunks with | none => "RAISE" | some t => encCps t) ++ " | " ++
    (match statelessDecode c chunks.flatten with | none => "RAISE" | some t => encCps t)

def ienc (c : CName) (chunks : List (List Nat)) : String :=
  let rec go (s : Bool) (cs : List (List Nat)) (acc : List String) : List String :=
    match cs with
    | [] => match estepInner c s [] with
      | none => ("RAISE" :: acc).reverse
      | some (_, t) => (encCps t :: acc).reverse
    | x :: xs => match estepInner c s x with
      | none => ("RAISE" :: acc).reverse
      | some (s', t) => go s' xs (encCps t :: acc)
  " ".intercalate (go true chunks []) ++ " | " ++
    (match incEncode c chunks with | none => "RAISE" | some t => encCps t) ++ " | " ++
    (match statelessEncode c chunks.flatten with | none => "RAISE" | some t => encCps t)

/-- `cdec given force chunk…`: the CSS incremental decoder over CPython's inner decoders (`cpyInner`), with
the exception: per-chunk outputs (`RAISE` ends the list) then the final output | all | one-shot -/
def cdec (given : Option Name) (force : Bool) (chunks : List (List Nat)) : String :=
  let rec go (s : DSt) (cs : List (List Nat)) (acc : List String) : List String :=
    match cs with
    | [] => match stepE cpyInner s [] true with
      | none => ("RAISE" :: acc).reverse
      | some r => (encCps r.2 :: acc).reverse
    | c :: cs => match stepE cpyInner s c false with
      | none => ("RAISE" :: acc).reverse
      | some r => go r.1 cs (encCps r.2 :: acc)
  " ".intercalate (go (.waiting given force []) chunks []) ++ " | " ++
    (match runAllE cpyInner given force chunks with | none => "RAISE" | some t => encCps t) ++ " | " ++
    (match oneShotE cpyInner given force chunks.flatten with | none => "RAISE" | some t => encCps t)

def cenc (given : Option Name) (chunks : List (List Nat)) : String :=
  let rec go (s : ESt) (cs : List (List Nat)) (acc : List String) : List String :=
    match cs with
    | [] => match estepE cpyInnerEnc s [] true with
      | none => ("RAISE" :: acc).reverse
      | some r => (encCps r.2 :: acc).reverse
    | c :: cs => match estepE cpyInnerEnc s c false with
      | none => ("RAISE" :: acc).reverse
      | some r => go r.1 cs (encCps r.2 :: acc)
  " ".intercalate (go (.waiting given []) chunks []) ++ " | " ++
    (match erunAllE cpyInnerEnc given chunks with | none => "RAISE" | some t => encCps t) ++ " | " ++
    (match encodeOneShotE cpyInnerEnc given chunks.flatten with | none => "RAISE" | some t => encCps t)

/-- `sread given force chunk…`: `newchars` of every turn of the `read()` loop of the CSS stream reader over
CPython's inner decoders | 1 if the reader is still waiting at the end | one-shot -/
def sread (given : Option Name) (force : Bool) (chunks : List (List Nat)) : String :=
  let rec go (s : RSt) (cs : List (List Nat)) (acc : List String) : Option RSt × List String :=
    match cs with
    | [] => (some s, acc.reverse)
    | c :: cs => match rstepE cpyInner force s c with
      | none => (none, ("RAISE" :: acc).reverse)
      | some r => go r.1 cs (encCps r.2 :: acc)
  let r := go (.waiting given []) chunks []
  " ".intercalate r.2 ++ " | " ++
    (match r.1 with | none => "X" | some (.waiting _ _) => "W" | some (.reading _ _) => "R") ++ " | " ++
    encCps (oneShot cpyInner given force chunks.flatten)

def swrite (given : Option Name) (chunks : List (List Nat)) : String :=
  let rec go (s : ESt) (cs : List (List Nat)) (acc : List String) : Option ESt × List String :=
    match cs with
    | [] => (some s, acc.reverse)
    | c :: cs => match estepE cpyInnerEnc s c false with
      | none => (none, ("RAISE" :: acc).reverse)
      | some r => go r.1 cs (encCps r.2 :: acc)
  let r := go (.waiting given []) chunks []
  " ".intercalate r.2 ++ " | " ++
    (match r.1 with | none => "X" | some (.waiting _ _) => "W" | some (.encoding _ _) => "E") ++ " | " ++
    encCps (encodeOneShot cpyInnerEnc given chunks.flatten)

/-- `rdec given force n chunk…`: the first `n` chunks (then `decode(b"", True)`), `reset()`, the other chunks
(then the final call): total of the first run | total of the second run -/
def rdec (given : Option Name) (force : Bool) (n : Nat) (chunks : List (List Nat)) : String :=
  let run (s : DSt) (cs : List (List Nat)) : Option (DSt × List Nat) :=
    match runChunksE cpyInner s cs with
    | none => none
    | some r => match stepE cpyInner r.1 [] true with
      | none => none
      | some r' => some (r'.1, r.2 ++ r'.2)
  match run (.waiting given force []) (chunks.take n) with
  | none => "RAISE | -"
  | some r1 =>
    encCps r1.2 ++ " | " ++ (match run (r1.1.reset given force) (chunks.drop n) with | none => "RAISE" | some r2 => encCps r2.2)

def renc (given : Option Name) (n : Nat) (chunks : List (List Nat)) : String :=
  let run (s : ESt) (cs : List (List Nat)) : Option (ESt × List Nat) :=
    match erunChunksE cpyInnerEnc s cs with
    | none => none
    | some r => match estepE cpyInnerEnc r.1 [] true with
      | none => none
      | some r' => some (r'.1, r.2 ++ r'.2)
  match run (.waiting given []) (chunks.take n) with
  | none => "RAISE | -"
  | some r1 =>
    encCps r1.2 ++ " | " ++ (match run (r1.1.reset given) (chunks.drop n) with | none => "RAISE" | some r2 => encCps r2.2)

def handle (line : String) : String :=
  match words line with
  | ["detect", f, b] => match decCps b with
      | some l => showAns (detect l (f == "1"))
      | none => "bad-op"
  | ["detectu", f, b] => match decCps b with
      | some l => showAns (detectUnicode l (f == "1"))
      | none => "bad-op"
  | ["fix", f, e, b] => match decCps e, decCps b with
      | some e, some l => match fixEncoding l e (f == "1") with
          | some r => "OK " ++ encCps r
          | none => "NONE"
      | _, _ => "bad-op"
  | "incdec" :: g :: f :: chunks =>
      let given := if g == "none" then some none else (decCps g).map some
      match given, chunks.mapM decCps with
      | some given, some cs => incdec given (f == "1") cs
      | _, _ => "bad-op"
  | "incenc" :: g :: chunks =>
      let given := if g == "none" then some none else (decCps g).map some
      match given, chunks.mapM decCps with
      | some given, some cs => incenc given cs
      | _, _ => "bad-op"
  | "cdec" :: g :: f :: chunks =>
      let given := if g == "none" then some none else (decCps g).map some
      match given, chunks.mapM decCps with
      | some given, some cs => if cs.all isBytes then cdec given (f == "1") cs else "bad-op"
      | _, _ => "bad-op"
  | "rdec" :: g :: f :: n :: chunks =>
      let given := if g == "none" then some none else (decCps g).map some
      match given, n.toNat?, chunks.mapM decCps with
      | some given, some n, some cs => if cs.all isBytes then rdec given (f == "1") n cs else "bad-op"
      | _, _, _ => "bad-op"
  | "renc" :: g :: n :: chunks =>
      let given := if g == "none" then some none else (decCps g).map some
      match given, n.toNat?, chunks.mapM decCps with
      | some given, some n, some cs => renc given n cs
      | _, _, _ => "bad-op"
  | "sread" :: g :: f :: chunks =>
      let given := if g == "none" then some none else (decCps g).map some
      match given, chunks.mapM decCps with
      | some given, some cs => if cs.all isBytes then sread given (f == "1") cs else "bad-op"
      | _, _ => "bad-op"
  | "swrite" :: g :: chunks =>
      let given := if g == "none" then some none else (decCps g).map some
      match given, chunks.mapM decCps with
      | some given, some cs => swrite given cs
      | _, _ => "bad-op"
  | "cenc" :: g :: chunks =>
      let given := if g == "none" then some none else (decCps g).map some
      match given, chunks.mapM decCps with
      | some given, some cs => cenc given cs
      | _, _ => "bad-op"
  | ["pdec", c, f, b] => match parseCName c, decCps b with
      | some c, some d => if isBytes d then pdec c (f == "1") d else "bad-op"
      | _, _ => "bad-op"
  | "idec" :: c :: chunks => match parseCName c, chunks.mapM decCps with
      | some c, some cs => if cs.all isBytes then idec c cs else "bad-op"
      | _, _ => "bad-op"
  | "ienc" :: c :: chunks => match parseCName c, chunks.mapM decCps with
      | some c, some cs => ienc c cs
      | _, _ => "bad-op"
  | _ => "bad-op"

def main : IO Unit := serve handle
