import CssVerif.Model.Codec
import CssVerif.Model.CodecInc
open CssVerif.Proto CssVerif.Codec

def showEnc : Enc → String
  | .utf8 => "utf-8" | .utf8sig => "utf-8-sig" | .utf16 => "utf-16" | .utf16le => "utf-16-le"
  | .utf16be => "utf-16-be" | .utf32 => "utf-32" | .utf32le => "utf-32-le" | .utf32be => "utf-32-be"
  | .named n => "named:" ++ encCps n

def showAns : Option (Enc × Bool) → String
  | none => "NONE"
  | some (e, x) => showEnc e ++ (if x then " 1" else " 0")

/-- identity inner codec: the harness only uses it with ASCII data and ASCII-compatible encodings -/
def idInner : Inner := ⟨fun _ b _ => b, fun _ a b _ => ⟨b, rfl⟩, fun _ => rfl⟩

def showSt : DSt → String
  | .waiting _ _ b => "W:" ++ encCps b
  | .decoding e _ t => "D:" ++ encCps e ++ ":" ++ encCps t
  | .streaming e _ => "S:" ++ encCps e

/-- `incdec given force chunk…`: per-chunk outputs, final output, state before the final call -/
def incdec (given : Option Name) (force : Bool) (chunks : List (List Nat)) : String :=
  let rec go (s : DSt) (cs : List (List Nat)) (acc : List String) : DSt × List String :=
    match cs with
    | [] => (s, acc.reverse)
    | c :: cs => let r := step idInner s c false; go r.1 cs (encCps r.2 :: acc)
  let r := go (.waiting given force []) chunks []
  let fin := step idInner r.1 [] true
  " ".intercalate r.2 ++ " | " ++ encCps fin.2 ++ " | " ++ showSt r.1 ++ " | " ++
    encCps (oneShot idInner given force chunks.flatten)

def idInnerEnc : InnerEnc := ⟨fun _ b _ => b, fun _ a b _ => ⟨b, rfl⟩, fun _ => rfl⟩

def showESt : ESt → String
  | .waiting _ b => "W:" ++ encCps b
  | .encoding e _ => "E:" ++ encCps e

/-- `incenc given chunk…`: per-chunk outputs, final output, state before the final call, one-shot -/
def incenc (given : Option Name) (chunks : List (List Nat)) : String :=
  let rec go (s : ESt) (cs : List (List Nat)) (acc : List String) : ESt × List String :=
    match cs with
    | [] => (s, acc.reverse)
    | c :: cs => let r := estep idInnerEnc s c false; go r.1 cs (encCps r.2 :: acc)
  let r := go (.waiting given []) chunks []
  let fin := estep idInnerEnc r.1 [] true
  " ".intercalate r.2 ++ " | " ++ encCps fin.2 ++ " | " ++ showESt r.1 ++ " | " ++
    encCps (encodeOneShot idInnerEnc given chunks.flatten)

def handle (line : String) : String :=
  match words line with
  | ["detect", f, b] => match decCps b with
      | some l => showAns (detect l (f == "1"))
      | none => "bad-op"
  | ["detectu", f, b] => match decCps b with
      | some l => showAns (detectUnicode l (f == "1"))
      | none => "bad-op"
  | ["fix", f, e, b] => match decCps e, decCps b with
      | some e, some l => match fixEncoding l e (f == "1") with
          | some r => "OK " ++ encCps r
          | none => "NONE"
      | _, _ => "bad-op"
  | "incdec" :: g :: f :: chunks =>
      let given := if g == "none" then some none else (decCps g).map some
      match given, chunks.mapM decCps with
      | some given, some cs => incdec given (f == "1") cs
      | _, _ => "bad-op"
  | "incenc" :: g :: chunks =>
      let given := if g == "none" then some none else (decCps g).map some
      match given, chunks.mapM decCps with
      | some given, some cs => incenc given cs
      | _, _ => "bad-op"
  | _ => "bad-op"

def main : IO Unit := serve handle
