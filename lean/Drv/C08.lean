import CssVerif.Model.EncLadder
import CssVerif.Model.EncEscape
import CssVerif.Model.EncSheet
import CssVerif.Model.EncTok
/-!
Driver for C08. One request per line:

```
readurl <override> <parent> <shape> {D <name> <bytes> <res>}*          -> NONE | ERR e | OK <enc> <enctype> <text|N>
load ps <fuel> <enc> <href|N> <content> {F <url> <shape>}* {D …}* {K <name>}*   -> ERR e | OK …
load pu <fuel> <enc> <href> {F …}* {D …}* {K …}*                        -> NONE | ERR e | OK …
esc <unrepresentable code points> <text>     -> escaped text
unesc <text>                                  -> token value (unicodesub: IDENT, HASH, DIMENSION, FUNCTION …)
unescs <text>                                 -> token value (stringsub: STRING, INVALID, URI)
ok | oks <unrepresentable code points> <text> -> 0 | 1
scan <text>                                   -> items
sheet <op>*                                   -> one result per op, then the final rule list
tokesc <unrepresentable code points> <text>   -> g=<guard> A=<tokens of the text> B=<tokens of the escaped text>
                                                 (token = type/value/source span; `Tok.tokenize`, partial-sheet mode)
tokescf <unrepresentable code points> <text>  -> A=… B=… in full-sheet mode (type/value)
first <unrepresentable code points> <text>    -> g=<guard> then per production name:first(text):first(escaped):elen
```
`<override>`, `<parent>`, `<enc>`, `<http>`: `N` = None, otherwise a dotted-hex string (`-` = empty string).
`<shape>`: `none` | `badlen` | `nc:<http>` | `p:<http>:<content>`;  `<content>`: `B:<hex>` | `T:<hex>`;
`<res>`: `OK:<hex>` | `UERR`  (a name without any `D` entry for the bytes in question: LookupError).
-/
open CssVerif.Proto CssVerif.EncLadder CssVerif.EncEscape

def optName? (s : String) : Option (Option Name) :=
  if s == "N" then some none else (decCps s).map some

def content? (s : String) : Option Content :=
  match s.splitOn ":" with
  | ["B", h] => (decCps h).map Content.bytes
  | ["T", h] => (decCps h).map Content.text
  | _ => none

def shape? (s : String) : Option FetchRes :=
  match s.splitOn ":" with
  | ["none"] => some .none
  | ["badlen"] => some .badLen
  | ["nc", h] => (optName? h).map FetchRes.noContent
  | ["p", h, k, c] => match optName? h, content? (k ++ ":" ++ c) with
      | some h, some c => some (.pair h c)
      | _, _ => none
  | _ => none

def decRes? (s : String) : Option DecRes :=
  if s == "UERR" then some .unicodeError
  else match s.splitOn ":" with
    | ["OK", h] => (decCps h).map DecRes.ok
    | _ => none

structure Tables where
  fetch : List (Url × FetchRes) := []
  dec : List (Name × Bytes × DecRes) := []
  known : List Name := []

def parseTables : List String → Tables → Option Tables
  | [], t => some t
  | "F" :: u :: s :: rest, t => match decCps u, shape? s with
      | some u, some s => parseTables rest { t with fetch := t.fetch ++ [(u, s)] }
      | _, _ => none
  | "D" :: n :: b :: r :: rest, t => match decCps n, decCps b, decRes? r with
      | some n, some b, some r => parseTables rest { t with dec := t.dec ++ [(n, b, r)] }
      | _, _, _ => none
  | "K" :: n :: rest, t => match decCps n with
      | some n => parseTables rest { t with known := t.known ++ [n] }
      | none => none
  | _, _ => none

def lookupFetch (l : List (Url × FetchRes)) (u : Url) : FetchRes :=
  match l.find? (fun e => e.1 == u) with
  | some e => e.2
  | none => .none

def lookupDec (l : List (Name × Bytes × DecRes)) (n : Name) (b : Bytes) : DecRes :=
  match l.find? (fun e => e.1 == n && e.2.1 == b) with
  | some e => e.2.2
  | none => .lookupError

def mkWorld (t : Tables) : World :=
  { fetch := lookupFetch t.fetch, dec := lookupDec t.dec, known := fun n => t.known.contains n, view := scan }

def showErr : Err → String
  | .lookupError => "LookupError" | .unicodeDecodeError => "UnicodeDecodeError"
  | .outOfFuel => "OutOfFuel"

def showOpt : Option Name → String
  | none => "N"
  | some n => encCps n

def showKind : RuleK → String
  | .charset e => "cs:" ++ encCps e | .comment => "cm" | .imp => "im" | .other => "ot"

def showKinds (l : List RuleK) : String := if l.isEmpty then "-" else "+".intercalate (l.map showKind)

def showRec (r : Rec) : String :=
  ",".intercalate [toString r.depth, encCps r.url, if r.found then "1" else "0", showOpt r.parentArg,
    toString r.enctype, encCps r.used, encCps r.text, encCps r.reported, showKinds r.rules]

def showParsed (p : Parsed) : String :=
  "OK enc=" ++ encCps p.encoding ++ " rules=" ++ showKinds p.rules ++ " text=" ++ encCps p.text ++
  " log=" ++ ",".intercalate (p.out.log.map encCps) ++ " recs=" ++ "|".intercalate (p.out.recs.map showRec)

def showItem : Item → String
  | .charset n => "charset:" ++ encCps n | .ws => "ws" | .comment => "comment"
  | .imp u => "imp:" ++ encCps u | .other => "other"

def cmdReadUrl (ov pa sh : String) (rest : List String) : String :=
  match optName? ov, optName? pa, shape? sh, parseTables rest {} with
  | some ov, some pa, some sh, some t =>
    match readUrl (mkWorld t) sh ov pa with
    | none => "NONE"
    | some r => "OK " ++ encCps r.encoding ++ " " ++ toString r.enctype ++ " " ++ showOpt r.text
  | _, _, _, _ => "bad-op"

def cmdLoad (mode fuel enc href : String) (rest : List String) : String :=
  match fuel.toNat?, optName? enc, optName? href with
  | some fuel, some enc, some href =>
    if mode == "ps" then
      match rest with
      | c :: rest => match content? c, parseTables rest {} with
        | some c, some t => match parseString (mkWorld t) fuel c enc href with
          | .error e => "ERR " ++ showErr e
          | .ok p => showParsed p
        | _, _ => "bad-op"
      | [] => "bad-op"
    else if mode == "pu" then
      match href, parseTables rest {} with
      | some href, some t => match parseUrl (mkWorld t) fuel href enc with
        | .error e => "ERR " ++ showErr e
        | .ok none => "NONE"
        | .ok (some p) => showParsed p
      | _, _ => "bad-op"
    else "bad-op"
  | _, _, _ => "bad-op"

def showTok (it : CssVerif.Tok.Item) : String := it.typ ++ "/" ++ encCps it.value ++ "/" ++ encCps it.span

def showToks (r : CssVerif.Tok.Res) : String :=
  let items := r.tokens
  let body := if items.isEmpty then "-" else ",".intercalate (items.map showTok)
  match r.stop with
  | .done _ _ => body
  | _ => body ++ ",STOP"

def cmdTokEsc (u t : List Nat) : String :=
  let rep := fun c => !u.contains c
  "g=" ++ (if CssVerif.EncTok.guard rep t then "1" else "0") ++
    " A=" ++ showToks (CssVerif.Tok.tokenize t false true) ++
    " B=" ++ showToks (CssVerif.Tok.tokenize (escape rep t) false true)

def showTokV (it : CssVerif.Tok.Item) : String := it.typ ++ "/" ++ encCps it.value

def showToksV (r : CssVerif.Tok.Res) : String :=
  let items := r.tokens
  let body := if items.isEmpty then "-" else ",".intercalate (items.map showTokV)
  match r.stop with
  | .done _ _ => body
  | _ => body ++ ",STOP"

/-- full-sheet mode (`fullsheet=True`): type and value of every token, of the text and of the escaped text -/
def cmdTokEscF (u t : List Nat) : String :=
  let rep := fun c => !u.contains c
  "A=" ++ showToksV (CssVerif.Tok.tokenize t true true) ++
    " B=" ++ showToksV (CssVerif.Tok.tokenize (escape rep t) true true)

def showFirst : Option Nat → String
  | none => "N"
  | some l => toString l

def cmdFirst (u t : List Nat) : String :=
  let rep := fun c => !u.contains c
  let e := escape rep t
  "g=" ++ (if CssVerif.EncTok.guard rep t then "1" else "0") ++ " " ++
    " ".intercalate (CssVerif.Gen.C05.productions.map fun p =>
      p.1 ++ ":" ++ showFirst (p.2.first t) ++ ":" ++ showFirst (p.2.first e) ++ ":" ++
        showFirst ((p.2.first t).map (CssVerif.EncTok.elen rep t)))

def handle (line : String) : String :=
  match words line with
  | "readurl" :: ov :: pa :: sh :: rest => cmdReadUrl ov pa sh rest
  | "load" :: mode :: fuel :: enc :: href :: rest => cmdLoad mode fuel enc href rest
  | ["esc", u, t] => match decCps u, decCps t with
      | some u, some t => encCps (escape (fun c => !u.contains c) t)
      | _, _ => "bad-op"
  | ["unesc", t] => match decCps t with
      | some t => encCps (unescape t)
      | none => "bad-op"
  | ["ok", u, t] => match decCps u, decCps t with
      | some u, some t => if ok (fun c => !u.contains c) t then "1" else "0"
      | _, _ => "bad-op"
  | ["oks", u, t] => match decCps u, decCps t with
      | some u, some t => if okStr (fun c => !u.contains c) t then "1" else "0"
      | _, _ => "bad-op"
  | ["unescs", t] => match decCps t with
      | some t => encCps (unescapeStr t)
      | none => "bad-op"
  | ["scan", t] => match decCps t with
      | some t => " ".intercalate ((scan t).map showItem)
      | none => "bad-op"
  | "sheet" :: ops => CssVerif.EncSheet.sheetCmd ops
  | ["tokesc", u, t] => match decCps u, decCps t with
      | some u, some t => cmdTokEsc u t
      | _, _ => "bad-op"
  | ["tokescf", u, t] => match decCps u, decCps t with
      | some u, some t => cmdTokEscF u t
      | _, _ => "bad-op"
  | ["first", u, t] => match decCps u, decCps t with
      | some u, some t => cmdFirst u t
      | _, _ => "bad-op"
  | _ => "bad-op"

def main : IO Unit := serve handle
