import CssVerif.Model.Out
import CssVerif.Model.OutRules
import CssVerif.Model.OutEffectDom
/-!
Line-protocol driver for the serializer model (C06).

  calls  <il> PREFS <n> (CALL)*                  -> OK <text>         value(runCalls)       (Out.append scripts)
  obj    <lv> PREFS OBJ                          -> OK <text>         serObj
  prop   <lv> PREFS PROPERTY                     -> OK <text>         doProperty
  decl   <lv> <omit> PREFS DITEMS                -> OK <text> | ERR e doDecl
  rule   <lv> <sl> PREFS RULE                    -> OK <text> | ERR e doRule
  sheet  <sl> PREFS SHEET                        -> OK <text> | ERR e doSheet (sl: state left in the serializer; not read)

PREFS = the 25 fields in the order of `Preferences.useDefaults` (bool 0/1, string hex, importHrefFormat hex or `~`).
Trees are prefix-coded; lists are preceded by their length; `~` is Python `None`.
-/
open CssVerif.Proto CssVerif.Out

abbrev P (α : Type) := List String → Option (α × List String)

def pTok : P String
  | [] => none
  | t :: r => some (t, r)

def pBool : P Bool
  | "0" :: r => some (false, r)
  | "1" :: r => some (true, r)
  | _ => none

def pNat : P Nat
  | t :: r => t.toNat?.map (·, r)
  | [] => none

def pCps : P Cps
  | t :: r => (decCps t).map (·, r)
  | [] => none

def pOptCps : P (Option Cps)
  | "~" :: r => some (none, r)
  | t :: r => (decCps t).map (fun c => (some c, r))
  | [] => none

def pRepeat {α : Type} (q : P α) : Nat → P (List α)
  | 0, ts => some ([], ts)
  | n + 1, ts => match q ts with
    | none => none
    | some (a, ts1) => match pRepeat q n ts1 with
      | none => none
      | some (l, ts2) => some (a :: l, ts2)

def pList {α : Type} (q : P α) : P (List α) := fun ts =>
  match pNat ts with
  | none => none
  | some (n, ts1) => if n > ts1.length then none else pRepeat q n ts1

def pPrefs : P Prefs := fun ts => do
  let (a1, ts) ← pBool ts
  let (a2, ts) ← pBool ts
  let (a3, ts) ← pBool ts
  let (a4, ts) ← pOptCps ts
  let (a5, ts) ← pCps ts
  let (a6, ts) ← pBool ts
  let (a7, ts) ← pBool ts
  let (a8, ts) ← pBool ts
  let (a9, ts) ← pBool ts
  let (a10, ts) ← pBool ts
  let (a11, ts) ← pBool ts
  let (a12, ts) ← pBool ts
  let (a13, ts) ← pBool ts
  let (a14, ts) ← pCps ts
  let (a15, ts) ← pCps ts
  let (a16, ts) ← pBool ts
  let (a17, ts) ← pBool ts
  let (a18, ts) ← pBool ts
  let (a19, ts) ← pBool ts
  let (a20, ts) ← pCps ts
  let (a21, ts) ← pCps ts
  let (a22, ts) ← pBool ts
  let (a23, ts) ← pCps ts
  let (a24, ts) ← pCps ts
  let (a25, ts) ← pBool ts
  pure ({ defaultAtKeyword := a1, defaultPropertyName := a2, defaultPropertyPriority := a3, importHrefFormat := a4,
          indent := a5, indentClosingBrace := a6, indentSpecificities := a7, keepAllProperties := a8,
          keepComments := a9, keepEmptyRules := a10, keepUnknownAtRules := a11, keepUsedNamespaceRulesOnly := a12,
          lineNumbers := a13, lineSeparator := a14, listItemSpacer := a15, minimizeColorHash := a16,
          normalizedVarNames := a17, omitLastSemicolon := a18, omitLeadingZero := a19, paranthesisSpacer := a20,
          propertyNameSpacer := a21, resolveVariables := a22, selectorCombinatorSpacer := a23, spacer := a24,
          validOnly := a25 }, ts)

def pNum : P Num := fun ts => do
  let (sign, ts) ← pCps ts
  let (zero, ts) ← pBool ts
  let (it, ts) ← pOptCps ts
  let (small, ts) ← pBool ts
  let (ft, ts) ← pCps ts
  let (dim, ts) ← pOptCps ts
  pure ({ sign := sign, zero := zero, intText := it, small := small, ftext := ft, dim := dim }, ts)

mutual
def pObj : Nat → P Obj
  | 0, _ => none
  | f + 1, ts => match ts with
    | "C" :: ts => do let (t, ts) ← pCps ts; pure (.comment t, ts)
    | "PV" :: ts => do let (ne, ts) ← pBool ts; let (its, ts) ← pItems f ts; pure (.pvalue ne its, ts)
    | "V" :: ts => do let (ty, ts) ← pCps ts; let (v, ts) ← pCps ts; pure (.value ty v, ts)
    | "N" :: ts => do let (ty, ts) ← pCps ts; let (n, ts) ← pNum ts; pure (.num ty n, ts)
    | "K" :: ts => do let (ct, ts) ← pCps ts; let (its, ts) ← pItems f ts; pure (.color ct its, ts)
    | "F" :: ts => do let (its, ts) ← pItems f ts; pure (.func its, ts)
    | "CA" :: ts => do let (its, ts) ← pItems f ts; pure (.calc its, ts)
    | "MS" :: ts => do let (its, ts) ← pItems f ts; pure (.ms its, ts)
    | "VR" :: ts => do
        let (nm, ts) ← pCps ts; let (a, ts) ← pVal f ts; let (b, ts) ← pVal f ts; pure (.var nm a b, ts)
    | "SE" :: ts => do let (wf, ts) ← pBool ts; let (its, ts) ← pItems f ts; pure (.selector wf its, ts)
    | "MQ" :: ts => do let (wf, ts) ← pBool ts; let (its, ts) ← pItems f ts; pure (.mquery wf its, ts)
    | "ML" :: ts => do let (its, ts) ← pItems f ts; pure (.mlist its, ts)
    | _ => none
def pVal : Nat → P Val
  | 0, _ => none
  | f + 1, ts => match ts with
    | "s" :: ts => do let (s, ts) ← pCps ts; pure (.str s, ts)
    | "t" :: ts => do let (s, ts) ← pCps ts; pure (.tup s, ts)
    | "n" :: ts => some (.none, ts)
    | "o" :: ts => do let (o, ts) ← pObj f ts; pure (.obj o, ts)
    | _ => none
def pItem : Nat → P Item
  | 0, _ => none
  | f + 1, ts => do let (ty, ts) ← pCps ts; let (v, ts) ← pVal f ts; pure (.mk ty v, ts)
def pItems : Nat → P (List Item)
  | 0, _ => none
  | f + 1, ts => pList (pItem f) ts
end

def pNPart : P NPart
  | "s" :: ts => do let (s, ts) ← pCps ts; pure (.str s, ts)
  | "c" :: ts => do let (s, ts) ← pCps ts; pure (.comment s, ts)
  | _ => none

def pProperty (f : Nat) : P Property := fun ts => do
  let (wf, ts) ← pBool ts
  let (valid, ts) ← pBool ts
  let (mq, ts) ← pBool ts
  let (ns, ts) ← pList pNPart ts
  let (ln, ts) ← pCps ts
  let (nm, ts) ← pCps ts
  let (v, ts) ← pObj f ts
  let (ps, ts) ← pList pNPart ts
  let (lp, ts) ← pCps ts
  let (pr, ts) ← pCps ts
  pure ({ wf := wf, valid := valid, mq := mq, nameseq := ns, literalname := ln, name := nm, value := v,
          prioseq := ps, literalpriority := lp, priority := pr }, ts)

mutual
def pURule : Nat → P URule
  | 0, _ => none
  | f + 1, ts => do
    let (wf, ts) ← pBool ts
    let (atk, ts) ← pCps ts
    let (its, ts) ← pList (pUItem f) ts
    pure (.mk wf atk its, ts)
def pUItem : Nat → P UItem
  | 0, _ => none
  | f + 1, ts => match ts with
    | "s" :: ts => do let (ty, ts) ← pCps ts; let (s, ts) ← pCps ts; pure (.str ty s, ts)
    | "c" :: ts => do let (t, ts) ← pCps ts; pure (.comment t, ts)
    | "r" :: ts => do let (r, ts) ← pURule f ts; pure (.rule r, ts)
    | _ => none
end

def pDItem (f : Nat) : P DItem
  | "c" :: ts => do let (t, ts) ← pCps ts; pure (.comment t, ts)
  | "p" :: ts => do let (p, ts) ← pProperty f ts; pure (.prop p, ts)
  | "u" :: ts => do let (r, ts) ← pURule f ts; pure (.urule r, ts)
  | "o" :: ts => do let (s, ts) ← pCps ts; pure (.other s, ts)
  | _ => none

def pVItem (f : Nat) : P VItem
  | "v" :: ts => do
      let (n, ts) ← pCps ts; let (nn, ts) ← pCps ts; let (o, ts) ← pObj f ts; pure (.var n nn o, ts)
  | "c" :: ts => do let (t, ts) ← pCps ts; pure (.comment t, ts)
  | "o" :: ts => do let (ty, ts) ← pCps ts; let (o, ts) ← pObj f ts; pure (.other ty o, ts)
  | _ => none

def pRule : Nat → P Rule
  | 0, _ => none
  | f + 1, ts => match ts with
    | "rc" :: ts => do let (t, ts) ← pCps ts; pure (.comment t, ts)
    | "rch" :: ts => do let (wf, ts) ← pBool ts; let (e, ts) ← pCps ts; pure (.charset wf e, ts)
    | "rim" :: ts => do
        let (wf, ts) ← pBool ts; let (atk, ts) ← pCps ts; let (kw, ts) ← pOptCps ts; let (hs, ts) ← pBool ts
        let (its, ts) ← pItems f ts
        pure (.import_ wf atk kw hs its, ts)
    | "rns" :: ts => do
        let (wf, ts) ← pBool ts; let (atk, ts) ← pCps ts; let (kw, ts) ← pOptCps ts; let (pf, ts) ← pCps ts
        let (uri, ts) ← pOptCps ts; let (its, ts) ← pItems f ts
        pure (.namespace_ wf atk kw pf uri its, ts)
    | "rme" :: ts => do
        let (wf, ts) ← pBool ts; let (atk, ts) ← pCps ts; let (kw, ts) ← pOptCps ts; let (m, ts) ← pObj f ts
        let (nm, ts) ← pOptCps ts; let (its, ts) ← pItems f ts; let (rs, ts) ← pList (pRule f) ts
        pure (.media wf atk kw m nm its rs, ts)
    | "rpg" :: ts => do
        let (wf, ts) ← pBool ts; let (atk, ts) ← pCps ts; let (kw, ts) ← pOptCps ts; let (sel, ts) ← pItems f ts
        let (st, ts) ← pList (pDItem f) ts; let (rs, ts) ← pList (pRule f) ts
        pure (.page wf atk kw sel st rs, ts)
    | "rmg" :: ts => do
        let (atk, ts) ← pOptCps ts; let (kw, ts) ← pOptCps ts; let (wf, ts) ← pBool ts
        let (st, ts) ← pList (pDItem f) ts
        pure (.margin atk kw wf st, ts)
    | "rff" :: ts => do
        let (wf, ts) ← pBool ts; let (atk, ts) ← pCps ts; let (kw, ts) ← pOptCps ts; let (its, ts) ← pItems f ts
        let (st, ts) ← pList (pDItem f) ts
        pure (.fontface wf atk kw its st, ts)
    | "rst" :: ts => do
        let (wf, ts) ← pBool ts; let (swf, ts) ← pBool ts; let (sels, ts) ← pList (pObj f) ts
        let (st, ts) ← pList (pDItem f) ts
        pure (.style wf swf sels st, ts)
    | "run" :: ts => do let (r, ts) ← pURule f ts; pure (.unknown r, ts)
    | "rva" :: ts => do
        let (wf, ts) ← pBool ts; let (atk, ts) ← pCps ts; let (kw, ts) ← pOptCps ts; let (its, ts) ← pItems f ts
        let (vs, ts) ← pList (pVItem f) ts
        pure (.variables wf atk kw its vs, ts)
    | _ => none

def pSheet (f : Nat) : P Sheet := fun ts => do
  let (used, ts) ← pList pOptCps ts
  let (rs, ts) ← pList (pRule f) ts
  pure ({ usedUris := used, rules := rs }, ts)

def pAVal : P AVal
  | "s" :: ts => do let (s, ts) ← pCps ts; pure (.str s, ts)
  | "o" :: ts => do let (s, ts) ← pCps ts; pure (.obj s, ts)
  | "n" :: ts => some (.none, ts)
  | _ => none

def pCall : P Call := fun ts => do
  let (v, ts) ← pAVal ts
  let (ty, ts) ← pCps ts
  let (sp, ts) ← pBool ts
  let (ks, ts) ← pBool ts
  let (ind, ts) ← pBool ts
  let (al, ts) ← pBool ts
  pure ({ v := v, ty := ty, f := { space := sp, keepS := ks, indent := ind, alwaysS := al } }, ts)

def showErr : Err → String
  | .indexError => "IndexError"

def showRes : Except Err Cps → String
  | .ok t => "OK " ++ encCps t
  | .error e => "ERR " ++ showErr e

def done {α : Type} (r : Option (α × List String)) : Option α :=
  match r with
  | some (a, []) => some a
  | _ => none

def handle (line : String) : String :=
  let ws := words line
  let fuel := ws.length + 1
  match ws with
  | "calls" :: il :: rest =>
    match il.toNat?, pPrefs rest with
    | some il, some (p, ts) => match done (pList pCall ts) with
      | some cs => "OK " ++ encCps (value (runCalls p il cs))
      | none => "bad-op"
    | _, _ => "bad-op"
  | "obj" :: lv :: rest =>
    match lv.toNat?, pPrefs rest with
    | some lv, some (p, ts) => match done (pObj fuel ts) with
      | some o => "OK " ++ encCps (serObj p lv o)
      | none => "bad-op"
    | _, _ => "bad-op"
  | "prop" :: lv :: rest =>
    match lv.toNat?, pPrefs rest with
    | some lv, some (p, ts) => match done (pProperty fuel ts) with
      | some o => "OK " ++ encCps (doProperty p lv o)
      | none => "bad-op"
    | _, _ => "bad-op"
  | "decl" :: lv :: om :: rest =>
    match lv.toNat?, pPrefs rest with
    | some lv, some (p, ts) => match done (pList (pDItem fuel) ts) with
      | some o => showRes (doDecl p lv o (om == "1"))
      | none => "bad-op"
    | _, _ => "bad-op"
  | "rule" :: lv :: sl :: rest =>
    match lv.toNat?, sl.toNat?, pPrefs rest with
    | some lv, some sl, some (p, ts) => match done (pRule fuel ts) with
      | some o => showRes (doRule p lv sl o)
      | none => "bad-op"
    | _, _, _ => "bad-op"
  | "sheet" :: sl :: rest =>
    match sl.toNat?, pPrefs rest with
    | some sl, some (p, ts) => match done (pSheet fuel ts) with
      | some o => showRes (doSheet p sl o)
      | none => "bad-op"
    | _, _ => "bad-op"
  | "effsheet" :: sl :: rest =>
    -- the transformed DOM under the record with the leaf preferences switched to "as written"
    match sl.toNat?, pPrefs rest with
    | some sl, some (p, ts) => match done (pSheet fuel ts) with
      | some o => showRes (doSheet (neutralLeaf p) sl (effectSheet p o))
      | none => "bad-op"
    | _, _ => "bad-op"
  | _ => "bad-op"

def main : IO Unit := serve handle
