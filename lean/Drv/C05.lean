import CssVerif.Lib.Proto
import CssVerif.Model.Tok
import CssVerif.Model.TokSpec
import CssVerif.Lemmas.TokLex2Sep
import CssVerif.Model.TokPush
open CssVerif CssVerif.Proto CssVerif.Tok CssVerif.Gen.C05

def showStop : Stop → String
  | .done l c => s!"DONE {l} {c}"
  | .stuck _ => "STUCK"
  | .raised _ => "RAISED"
  | .noFuel _ => "NOFUEL"

def showItem (t : Item) : String := s!"{t.typ}:{encCps t.value}:{t.line}:{t.col}"

def showRes (r : Res) : String :=
  showStop r.stop ++ " |" ++ String.join (r.tokens.map fun t => " " ++ showItem t)

def showOptCps : Option (List Nat) → String
  | some v => "OK " ++ encCps v
  | none => "RAISED"

def reByName (n : String) : Option Re :=
  if n == "unicodesub" then some unicodesubRe
  else if n == "stringsub" then some stringsubRe
  else if n == "simpleescapes" then some simpleescapesRe
  else if n == bomName then some bomRe
  else productions.lookup n

def flag? (w : String) : Option Bool :=
  if w == "1" then some true else if w == "0" then some false else none

/-- string items, flattened: `0 c` ordinary, `1 d` escape, `2 k` continuation, `3 k d n ds…` hex escape + line break -/
def sitems? : Nat → List Nat → Option (List SItem)
  | _, [] => some []
  | 0, _ => none
  | fuel + 1, 0 :: c :: rest => (sitems? fuel rest).map (SItem.ord c :: ·)
  | fuel + 1, 1 :: d :: rest => (sitems? fuel rest).map (SItem.esc d :: ·)
  | fuel + 1, 2 :: k :: rest => (sitems? fuel rest).map (SItem.cont k :: ·)
  | fuel + 1, 3 :: k :: d :: n :: rest =>
    if n ≤ rest.length then (sitems? fuel (rest.drop n)).map (SItem.hexnl d (rest.take n) k :: ·) else none
  | _, _ => none

def numBody? (ip fr : List Nat) : Option NumBody :=
  match fr, ip with
  | d :: ds, _ => some (.frac ip d ds)
  | [], d :: ds => some (.int d ds)
  | [], [] => none

/-- one lexeme of `Lex2`, written `kind,arg,…` (arguments: dotted hex code points) -/
def lex2? (w : String) : Option Lex2 :=
  match (w.splitOn ",").map fun a => (a, decCps a) with
  | [("num", _), (_, some (d :: ds))] => some (.old (.num d ds))
  | [("ident", _), (_, some (c :: cs))] => some (.old (.ident c cs))
  | [("fixed", _), (n, _), (_, some w), (_, some [k])] => some (.old (.fixed n w k))
  | [("fast", _), (_, some [c])] => some (.old (.fast c))
  | [("pct", _), (_, some (d :: ds))] => some (.old (.pct d ds))
  | [("dim", _), (_, some (d :: ds)), (_, some (c :: cs))] => some (.old (.dim d ds c cs))
  | [("hash", _), (_, some (n :: ns))] => some (.old (.hash n ns))
  | [("atkw", _), (_, some (c :: cs))] => some (.old (.atkw c cs))
  | [("str", _), (_, some [q]), (_, some body)] => some (.str q body)
  | [("fn", _), (_, some (c :: cs))] => some (.fn c cs)
  | [("uri", _), (_, some [u, r, l]), (_, some body)] => some (.uri u r l body)
  | [("ur", _), (_, some [u]), (_, some (h :: hs))] => some (.urange u h hs)
  | [("cmt", _), (_, some body)] => some (.cmt body)
  | [("cdc", _)] => some .cdc
  | [("pctg", _), (_, some sg), (_, some ip), (_, some fr)] => (numBody? ip fr).map (Lex2.pctG sg ·)
  | [("dimg", _), (_, some sg), (_, some ip), (_, some fr), (_, some (c :: cs))] =>
      (numBody? ip fr).map (Lex2.dimG sg · c cs)
  | [("nums", _), (_, some sg), (_, some (d :: ds))] => some (.numS sg d ds)
  | [("numf", _), (_, some sg), (_, some ip), (_, some (d :: ds))] => some (.numF sg ip d ds)
  | [("uri2", _), (_, some [u]), (_, some (h :: hs)), (_, some (h2 :: hs2))] => some (.urangeI u h hs h2 hs2)
  | [("identu", _), (_, some (u :: cs))] => some (.identU u cs)
  | [("uriq", _), (_, some [u, r, l]), (_, some w1), (_, some [q]), (_, some enc), (_, some w2)] =>
      (sitems? (enc.length + 1) enc).map (Lex2.uriQ u r l w1 q · w2)
  | [("identd", _), (_, some [n]), (_, some (c :: cs))] => some (.identD n c cs)
  | [("stri", _), (_, some [q]), (_, some enc)] => (sitems? (enc.length + 1) enc).map (Lex2.strI q ·)
  | _ => none

def lex2All? : List String → Option (List Lex2)
  | [] => some []
  | w :: ws => match lex2? w, lex2All? ws with
    | some t, some ts => some (t :: ts)
    | _, _ => none

def showPairs (ps : List (String × List Nat)) : String :=
  String.join (ps.map fun p => " " ++ p.1 ++ ":" ++ encCps p.2)

/-- script of consumer actions: `n` = next, `pK` = push K fresh tokens (numbered consecutively) -/
def script? (ws : List String) (ctr : Nat) : Option (List Act) :=
  match ws with
  | [] => some []
  | w :: rest =>
    if w == "n" then (script? rest ctr).map (Act.next :: ·)
    else if w.startsWith "p" then
      match (w.drop 1).toNat? with
      | some k =>
        let ts := (List.range k).map fun i => (⟨"PUSHED", [ctr + i], 0, 0, [], [], true⟩ : Item)
        (script? rest (ctr + k)).map (Act.push ts :: ·)
      | none => none
    else none

def showOut : Out → String
  | .text it => s!"T:{it.typ}:{encCps it.value}:{it.line}:{it.col}"
  | .pushed it => s!"P:{encCps it.value}"
  | .stop => "-"

def handle (line : String) : String :=
  match words line with
  | ["tok", f, d, t] => match flag? f, flag? d, decCps t with
      | some f, some d, some t => showRes (tokenize t f d)
      | _, _, _ => "bad-op"
  | "lex2" :: d :: ws => match flag? d, lex2All? ws with
      | some d, some ts =>
        let wf := ts.all fun t => decide t.WF
        let ok := wf && !hasAt (render2 ts) charsetStart
        s!"{if ok then 1 else 0} {encCps (render2 ts)} |" ++
          showPairs ((expectedAll ts).filter fun p => d || p.1 != "COMMENT")
      | _, _ => "bad-op"
  | ["push", f, d, t, sc] => match flag? f, flag? d, decCps t, script? (sc.splitOn ".") 0 with
      | some f, some d, some t, some acts =>
        String.intercalate " " ((runP (initP t f d) acts).map showOut)
      | _, _, _, _ => "bad-op"
  | ["re", n, t] => match reByName n, decCps t with
      | some r, some t => match r.first t with
          | some l => toString l
          | none => "N"
      | _, _ => "bad-op"
  | ["subu", t] => match decCps t with
      | some t => showOptCps (subU t)
      | none => "bad-op"
  | ["subs", t] => match decCps t with
      | some t => showOptCps (subS t)
      | none => "bad-op"
  | ["normalize", t] => match decCps t with
      | some t => showOptCps (normalize t)
      | none => "bad-op"
  | ["lower", t] => match decCps t with
      | some t => "OK " ++ encCps (pyLower t)
      | none => "bad-op"
  | ["spec", f, t] => match decCps t with
      | some t =>
        if f == "unescape" then "OK " ++ encCps (unescape t)
        else if f == "strval" then "OK " ++ encCps (stringValue t)
        else if f == "lc" then s!"{(lc t).1} {(lc t).2}"
        else "bad-op"
      | none => "bad-op"
  | ["report", l, c, m, v] => match l.toNat?, c.toNat?, decCps m, decCps v with
      | some l, some c, some m, some v =>
        let r := report m (some ⟨"", v, l, c, [], [], true⟩)
        s!"{encCps r.msg} {r.line.getD 0} {r.col.getD 0}"
      | _, _, _, _ => "bad-op"
  | _ => "bad-op"

def main : IO Unit := serve handle
