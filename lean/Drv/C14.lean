import CssVerif.Model.Profiles
import CssVerif.Model.MacroRank
import CssVerif.Model.ProfilesSpec
import CssVerif.Gen.C14Profiles
import Std.Data.HashMap
import Std.Data.HashSet
/-!
Stateful line-protocol driver for the profile-registry model (C14). See `tools/harness/c14.py`.

  init                       registry := Profiles() built from the generated tables          -> OK | ERR <exc>
  initcheck                  hypotheses of C14.init_contents on the generated tables        -> OK | FAIL
  add <name> <props> <macros>                                                               -> OK | ERR <exc>
  addps <name> <props> <macros> ...                                                         -> OK | ERR <exc>
  rm <name> | rmnone | rmall                                                                -> OK | ERR <exc>
  def <names>                defaultProfiles := N (None) | L (empty) | L:a,b                -> OK
  dump <names>               observables; full expanded patterns for the listed property names
  pat <id> <pattern>         intern a compiled pattern (acceptance table)                    -> OK
  acc <id> <value>           the pattern accepts the value                                   -> OK
  accfn <id> <value>         callable <id> accepts the value                                 -> OK
  val <name> <value>         validate                                                        -> OK 0|1 | ERR <exc>
  vwp <name> <value> <names> validateWithProfile                                             -> OK v m a,b | ERR <exc>
  pbp <names>                propertiesByProfile                                             -> OK a,b | ERR <exc>
  expand <macros> <value>    _expand_macros on one value with exactly these macros           -> OK <s> | ERR <exc>
  spec <names> <name> <props> <macros> ...   the observables of the registry computed from these contents and this
                             defaultProfiles value alone (`specReg`), same format as dump                 -> names=...
  phs <value>                the placeholder names of the value (re.findall)                 -> OK a,b
  acyc <macros>              cycle check and closedness of a macro set                       -> OK 0|1 0|1
  passes <macros> <value>    number of re.sub passes, and the proved bound (- if cyclic)     -> OK <n> <bound> | ERR <exc>
-/
open CssVerif.Proto CssVerif.Profiles

structure St where
  reg : Reg
  pats : Std.HashMap Str Nat
  acc : Std.HashSet (Nat × Str)
  accFn : Std.HashSet (Nat × Str)

def theCfg : Cfg := CssVerif.Gen.C14.cfg

def showExc : Exc → String
  | .keyError k => "KeyError " ++ encCps k
  | .noSuchProfile => "NoSuchProfileException"
  | .valueError => "ValueError"
  | .diverges => "Diverges"

def listEnc (l : List Str) : String :=
  if l.isEmpty then "_" else ",".intercalate (l.map encCps)

def decList (s : String) : Option (List Str) :=
  if s == "_" then some []
  else (s.splitOn ",").foldr (fun w acc => match decCps w, acc with
    | some n, some l => some (n :: l)
    | _, _ => none) (some [])

/-- `N` = None, `L` = empty sequence, `L:a,b` -/
def decNames (s : String) : Option (Option (List Str)) :=
  if s == "N" then some none
  else if s == "L" then some (some [])
  else if s.startsWith "L:" then (decList (s.drop 2).toString).map some
  else none

def decMacros (s : String) : Option (Option (Dict Str)) :=
  if s == "N" then some none
  else if s == "E" then some (some [])
  else
    let r := (s.splitOn ",").foldr (fun w acc => match w.splitOn "=", acc with
      | [k, v], some l => match decCps k, decCps v with
          | some k, some v => some ((k, v) :: l)
          | _, _ => none
      | _, _ => none) (some [])
    r.map fun l => some (dnorm l)

def decProps (s : String) : Option (Dict PVal) :=
  if s == "E" then some []
  else
    let r := (s.splitOn ",").foldr (fun w acc => match w.splitOn "=", acc with
      | [k, v], some l =>
          if v.startsWith "P" then
            match decCps k, decCps (v.drop 1).toString with
            | some k, some v => some ((k, PVal.pat v) :: l)
            | _, _ => none
          else if v.startsWith "F" then
            match decCps k, (v.drop 1).toString.toNat? with
            | some k, some i => some ((k, PVal.fn i) :: l)
            | _, _ => none
          else none
      | _, _ => none) (some [])
    r.map dnorm

def decDefs : List String → Option (List ProfileDef)
  | [] => some []
  | n :: p :: m :: rest => match decCps n, decProps p, decMacros m, decDefs rest with
      | some n, some p, some m, some l => some ({ name := n, props := p, macros := m } :: l)
      | _, _, _, _ => none
  | _ => none

def polyHash (s : Str) : Nat :=
  s.foldl (fun h c => (h * 1000003 + c + 1) % 2147483647) 7

def showC : CVal → String
  | .re s => toString s.length ++ ":" ++ toString (polyHash s)
  | .fn i => "F" ++ toString i

def reply (r : Reg × Option Exc) : String :=
  match r.2 with
  | none => "OK"
  | some e => "ERR " ++ showExc e

def dump (pats : Std.HashMap Str Nat) (r : Reg) (want : List Str) : String :=
  let ps := r.compiled.flatMap fun pc => pc.2.map fun kv =>
    encCps pc.1 ++ "/" ++ encCps kv.1 ++ "=" ++ showC kv.2
  -- full text of the patterns of the wanted property names; a pattern interned by `pat` is named by its id
  let full := r.compiled.flatMap fun pc => pc.2.filterMap fun kv =>
    if want.contains kv.1 then
      match kv.2 with
      | .re s => match pats[s]? with
          | some i => some (encCps pc.1 ++ "/" ++ encCps kv.1 ++ "=#" ++ toString i)
          | none => some (encCps pc.1 ++ "/" ++ encCps kv.1 ++ "=" ++ encCps s)
      | .fn _ => none
    else none
  let bp := match propertiesByProfile r none with
    | .ok l => "OK:" ++ listEnc l
    | .error e => "ERR:" ++ (showExc e).replace " " ":"
  let dflt := match r.default with
    | none => "N"
    | some l => "L:" ++ listEnc l
  "names=" ++ listEnc r.names ++ " known=" ++ listEnc r.known ++ " default=" ++ dflt
    ++ " eff=" ++ listEnc (getDefault r) ++ " bp=" ++ bp
    ++ " pats=" ++ (if ps.isEmpty then "_" else ",".intercalate ps)
    ++ " full=" ++ (if full.isEmpty then "_" else ",".intercalate full)

def accepts (st : St) (c : CVal) (v : Str) : Bool :=
  match c with
  | .re s => match st.pats[s]? with
      | some i => st.acc.contains (i, v)
      | none => false
  | .fn i => st.accFn.contains (i, v)

def stepLine (st : St) (line : String) : St × String :=
  match words line with
  | ["init"] =>
      let r := init theCfg CssVerif.Gen.C14.builtins
      ({ st with reg := r.1 }, reply r)
  | ["initcheck"] =>
      -- the hypotheses of `C14.init_contents` for the generated tables: the names differ, construction succeeds
      let l := CssVerif.Gen.C14.builtins
      let env := CssVerif.Gen.C14.envLit
      let ok := decide ((l.map (·.name)).Nodup) && (init theCfg l).2.isNone
        -- the premises of `C14.builtin_init_ok` / `builtin_acyclic`, evaluated once more by compiled code
        && decide (CssVerif.Gen.C14.base = theCfg.base)
        && l.foldl (fun m d => dupdate m (if truthy d.macros then d.macros.getD [] else [])) theCfg.base == env
        && acyclicB env && l.all (fun d => propsDeepB env theCfg.fuel d.props)
      (st, if ok then "OK" else "FAIL")
  | ["add", n, p, m] => match decCps n, decProps p, decMacros m with
      | some n, some p, some m =>
          let r := addProfile theCfg st.reg n p m
          ({ st with reg := r.1 }, reply r)
      | _, _, _ => (st, "bad-op")
  | "addps" :: rest => match decDefs rest with
      | some l =>
          let r := addProfiles theCfg st.reg l
          ({ st with reg := r.1 }, reply r)
      | none => (st, "bad-op")
  | ["rm", n] => match decCps n with
      | some n =>
          let r := removeProfile theCfg st.reg (some n)
          ({ st with reg := r.1 }, reply r)
      | none => (st, "bad-op")
  | ["rmnone"] =>
      let r := removeProfile theCfg st.reg none
      ({ st with reg := r.1 }, reply r)
  | ["rmall"] => ({ st with reg := removeAll theCfg st.reg }, "OK")
  | ["def", d] => match decNames d with
      | some d => ({ st with reg := setDefault st.reg d }, "OK")
      | none => (st, "bad-op")
  | ["dump", w] => match decNames w with
      | some w => (st, dump st.pats st.reg (w.getD []))
      | none => (st, "bad-op")
  | ["pat", i, p] => match i.toNat?, decCps p with
      | some i, some p => ({ st with pats := st.pats.insert p i }, "OK")
      | _, _ => (st, "bad-op")
  | ["acc", i, v] => match i.toNat?, decCps v with
      | some i, some v => ({ st with acc := st.acc.insert (i, v) }, "OK")
      | _, _ => (st, "bad-op")
  | ["accfn", i, v] => match i.toNat?, decCps v with
      | some i, some v => ({ st with accFn := st.accFn.insert (i, v) }, "OK")
      | _, _ => (st, "bad-op")
  | ["val", n, v] => match decCps n, decCps v with
      | some n, some v => match validate (accepts st) st.reg n v with
          | .ok b => (st, if b then "OK 1" else "OK 0")
          | .error e => (st, "ERR " ++ showExc e)
      | _, _ => (st, "bad-op")
  | ["vwp", n, v, ps] => match decCps n, decCps v, decNames ps with
      | some n, some v, some ps => match validateWithProfile (accepts st) st.reg n v ps with
          | .ok r => (st, "OK " ++ (if r.valid then "1 " else "0 ") ++ (if r.matching then "1 " else "0 ")
                        ++ listEnc r.profiles)
          | .error e => (st, "ERR " ++ showExc e)
      | _, _, _ => (st, "bad-op")
  | ["pbp", ps] => match decNames ps with
      | some ps => match propertiesByProfile st.reg ps with
          | .ok l => (st, "OK " ++ listEnc l)
          | .error e => (st, "ERR " ++ showExc e)
      | none => (st, "bad-op")
  | ["expand", m, v] => match decMacros m, decCps v with
      | some m, some v => match expandValue (m.getD []) theCfg.fuel v with
          | .ok s => (st, "OK " ++ encCps s)
          | .error e => (st, "ERR " ++ showExc e)
      | _, _ => (st, "bad-op")
  | "spec" :: dflt :: rest => match decNames dflt, decDefs rest with
      | some dflt, some l =>
          (st, dump st.pats (specReg theCfg (l.map fun e => (e.name, e.props, e.macros.getD [])) dflt) [])
      | _, _ => (st, "bad-op")
  | ["phs", v] => match decCps v with
      | some v => (st, "OK " ++ listEnc (phNames v))
      | none => (st, "bad-op")
  | ["acyc", m] => match decMacros m with
      | some m =>
          let m := m.getD []
          (st, "OK " ++ (if acyclicB m then "1 " else "0 ") ++ (if closedB m then "1" else "0"))
      | none => (st, "bad-op")
  | ["passes", m, v] => match decMacros m, decCps v with
      | some m, some v =>
          let m := m.getD []
          match passCount m theCfg.fuel v with
          | .ok n => (st, "OK " ++ toString n ++ " " ++ (if acyclicB m then toString (depth (rankFn m) v) else "-"))
          | .error e => (st, "ERR " ++ showExc e)
      | _, _ => (st, "bad-op")
  | _ => (st, "bad-op")

def main : IO Unit :=
  serveSt { reg := empty theCfg, pats := {}, acc := {}, accFn := {} } stepLine
