import CssVerif.Model.Encutils
open CssVerif.Proto CssVerif.Encutils

/-- optional string on the wire: `N` = None, otherwise dotted hex (`-` = empty) -/
def decOpt (w : String) : Option (Option Cps) :=
  if w == "N" then some none else (decCps w).map some

def encOpt : Option Cps → String
  | none => "N"
  | some s => encCps s

def showErr : Err → String
  | .valueError => "ValueError"
  | .attributeError => "AttributeError"
  | .extractor => "Extractor"

def flag (b : Bool) : String := if b then "1" else "0"

def decBool (w : String) : Option Bool :=
  if w == "1" then some true else if w == "0" then some false else none

def decParam (w : String) : Option Param :=
  if w == "N" then some .none
  else if w.startsWith "T" then (decCps (w.drop 1).toString).map .tuple
  else (decCps w).map .str

def decMeta (kind mt cs : String) : Option MetaRaw :=
  if kind == "raises" then some .raises
  else if kind == "absent" then some .absent
  else if kind == "found" then
    match decCps mt, decParam cs with
    | some m, some p => some (.found m p)
    | _, _ => none
  else none

def showInfo (i : Info) : String :=
  "OK " ++ encOpt i.encoding ++ " " ++ flag i.mismatch ++ " " ++ encOpt i.httpMediaType ++ " " ++
  encOpt i.httpEncoding ++ " " ++ encOpt i.metaMediaType ++ " " ++ encOpt i.metaEncoding ++ " " ++
  encOpt i.xmlEncoding

def handle (line : String) : String :=
  match words line with
  | ["lower", s] => match decCps s with
      | some l => encCps (lower l)
      | none => "bad-op"
  | ["strip", s] => match decCps s with
      | some l => encCps (strip l)
      | none => "bad-op"
  | ["classify", s] => match decOpt s with
      | some m => toString (textTypeByMediaType m)
      | none => "bad-op"
  | ["ebm", s] => match decOpt s with
      | some m => encOpt (encodingByMediaType m)
      | none => "bad-op"
  | ["ttype", s] => match decCps s with
      | some l => toString (textTypeOfText l)
      | none => "bad-op"
  | ["xml", bin, incl, pos, s] => match decBool bin, decBool incl, pos.toNat?, decCps s with
      | some b, some i, some p, some l =>
        let r := detectXMLStream ⟨l, p, b⟩ i
        match r.out with
        | .ok e => "OK " ++ encOpt e ++ " " ++ toString r.fp.pos
        | .error e => "ERR " ++ showErr e ++ " " ++ toString r.fp.pos
      | _, _, _, _ => "bad-op"
  | ["info", hasResp, mt, cs, body, text, mkind, mmt, mcs, tryenc] =>
      match decBool hasResp, decOpt mt, decOpt cs, decOpt body, decOpt text, decMeta mkind mmt mcs, decOpt tryenc with
      | some hr, some mt, some cs, some body, some text, some m, some te =>
        let resp : Option Resp := if hr then some ⟨mt, cs, body⟩ else none
        match getEncodingInfo resp text m te with
        | .ok i => showInfo i
        | .error e => "ERR " ++ showErr e
      | _, _, _, _, _, _, _ => "bad-op"
  | _ => "bad-op"

def main : IO Unit := serve handle
