import CssVerif.Model.EncutilsDoc
import CssVerif.Model.EncutilsXml
import CssVerif.Model.EncutilsTry
open CssVerif.Proto CssVerif.Encutils

/-- optional string on the wire: `N` = None, otherwise dotted hex (`-` = empty) -/
def decOpt (w : String) : Option (Option Cps) :=
  if w == "N" then some none else (decCps w).map some

def encOpt : Option Cps → String
  | none => "N"
  | some s => encCps s

def showErr : Err → String
  | .valueError => "ValueError"
  | .attributeError => "AttributeError"
  | .extractor => "Extractor"

def flag (b : Bool) : String := if b then "1" else "0"

def decBool (w : String) : Option Bool :=
  if w == "1" then some true else if w == "0" then some false else none

def decParam (w : String) : Option Param :=
  if w == "N" then some .none
  else if w.startsWith "T" then (decCps (w.drop 1).toString).map .tuple
  else (decCps w).map .str

def decMeta (kind mt cs : String) : Option MetaRaw :=
  if kind == "raises" then some .raises
  else if kind == "absent" then some .absent
  else if kind == "found" then
    match decCps mt, decParam cs with
    | some m, some p => some (.found m p)
    | _, _ => none
  else none

/-- attribute list on the wire: `<name> <value|N>` pairs -/
def takeAttrs : Nat → List String → Option (List (Cps × Option Cps) × List String)
  | 0, ws => some ([], ws)
  | n + 1, a :: v :: ws =>
    match decCps a, decOpt v, takeAttrs n ws with
    | some a', some v', some (r, rest) => some ((a', v') :: r, rest)
    | _, _, _ => none
  | _, _ => none

/-- start tags on the wire: `T <tag> <number of attributes> <attributes>` repeated -/
def decEvents : Nat → List String → Option (List StartTag)
  | _, [] => some []
  | fuel + 1, "T" :: tag :: n :: ws =>
    match decCps tag, n.toNat? with
    | some tg, some k =>
      match takeAttrs k ws with
      | some (attrs, rest) => (decEvents fuel rest).map (⟨tg, attrs⟩ :: ·)
      | none => none
    | _, _ => none
  | _, _ => none

def toBytes : Cps → Option (List UInt8)
  | [] => some []
  | c :: t => if c < 256 then (toBytes t).map (c.toUInt8 :: ·) else none

/-- a document on the wire: kind `N` (None), `S` (str), `B` (bytes: every value below 256) and the values -/
def decDoc (kind w : String) : Option (Option Doc) :=
  if kind == "N" then some none
  else match decCps w with
    | none => none
    | some l =>
      if kind == "S" then some (some (.text l))
      else if kind == "B" then (toBytes l).map fun b => some (.bytes b)
      else none

/-- the `Message` stage of this case: asked about `content` it answers `(mt, param)` / raises; asked about anything
else it raises (so a model that hands over another content string is noticed) -/
def decMsg (kind content mt cs : String) : Option (Cps → Except Err (Cps × Param)) :=
  if kind == "none" then some fun _ => .error .extractor
  else match decCps content with
    | none => none
    | some c =>
      if kind == "raises" then some fun _ => .error .extractor
      else if kind == "ok" then
        match decCps mt, decParam cs with
        | some m, some p => some fun x => if x == c then .ok (m, p) else .error .extractor
        | _, _ => none
      else none

def showInfo (i : Info) : String :=
  "OK " ++ encOpt i.encoding ++ " " ++ flag i.mismatch ++ " " ++ encOpt i.httpMediaType ++ " " ++
  encOpt i.httpEncoding ++ " " ++ encOpt i.metaMediaType ++ " " ++ encOpt i.metaEncoding ++ " " ++
  encOpt i.xmlEncoding ++ " " ++ encCps i.str

def handle (line : String) : String :=
  match words line with
  | ["lower", s] => match decCps s with
      | some l => encCps (lower l)
      | none => "bad-op"
  | ["strip", s] => match decCps s with
      | some l => encCps (strip l)
      | none => "bad-op"
  | ["classify", s] => match decOpt s with
      | some m => toString (textTypeByMediaType m)
      | none => "bad-op"
  | ["ebm", s] => match decOpt s with
      | some m => encOpt (encodingByMediaType m)
      | none => "bad-op"
  | ["ttype", s] => match decCps s with
      | some l => toString (textTypeOfText l)
      | none => "bad-op"
  | ["xml", bin, incl, pos, s] => match decBool bin, decBool incl, pos.toNat?, decCps s with
      | some b, some i, some p, some l =>
        let r := detectXMLStream ⟨l, p, b⟩ i
        match r.out with
        | .ok e => "OK " ++ encOpt e ++ " " ++ toString r.fp.pos
        | .error e => "ERR " ++ showErr e ++ " " ++ toString r.fp.pos
      | _, _, _, _ => "bad-op"
  | ["info", hasResp, mt, cs, body, text, mkind, mmt, mcs, tryenc] =>
      match decBool hasResp, decOpt mt, decOpt cs, decOpt body, decOpt text, decMeta mkind mmt mcs, decOpt tryenc with
      | some hr, some mt, some cs, some body, some text, some m, some te =>
        let resp : Option Resp := if hr then some ⟨mt, cs, body⟩ else none
        match getEncodingInfo resp text m te with
        | .ok i => showInfo i
        | .error e => "ERR " ++ showErr e
      | _, _, _, _, _, _, _ => "bad-op"
  | ["try", u, d] => match decBool u, (decCps d).bind toBytes with
      | some u, some b => match tryEncodings u b with
        | some r => "OK " ++ encOpt r
        | none => "UNMODELLED"
      | _, _ => "bad-op"
  | ["strict", d] => match decCps d with
      | some l => match parseXmlDecl l with
        | some (e, rest) => "WF " ++ encOpt e ++ " " ++ toString (l.length - rest.length)
        | none => "NODECL"
      | none => "bad-op"
  | "meta" :: ws => match decEvents ws.length ws with
      | some evs => encOpt (metaScan evs)
      | none => "bad-op"
  | "infod" :: hasResp :: mt :: cs :: bkind :: body :: tkind :: text :: mkind :: mcontent :: mmt :: mcs :: tryenc :: hkind :: ws =>
      match decBool hasResp, decOpt mt, decOpt cs, decDoc bkind body, decDoc tkind text, decMsg mkind mcontent mmt mcs,
        decOpt tryenc, decEvents ws.length ws with
      | some hr, some mt, some cs, some body, some text, some msg, some te, some evs =>
        if hkind != "ok" && hkind != "raises" then "bad-op" else
        let L : Lib := ⟨fun _ => if hkind == "ok" then .ok evs else .error .extractor, msg⟩
        let resp : Option RespD := if hr then some ⟨mt, cs, body⟩ else none
        match getEncodingInfoD L resp text te with
        | .ok i => showInfo i
        | .error e => "ERR " ++ showErr e
      | _, _, _, _, _, _, _, _ => "bad-op"
  | _ => "bad-op"

def main : IO Unit := serve handle
