import CssVerif.Model.Sel
/-!
# C16 specification side: written selectors of the CSS3 selector grammar

A `Sel` is a selector **as written**: the abstract structure (compounds of an optional type / universal
selector with optional namespace prefix, then id / class / attribute with every operator / pseudo-class /
functional pseudo / pseudo-element in one- and two-colon form / `:not(simple)`, joined by the four
combinators) *together with its spelling* (white space and comments at every gap where they may stand, the
spelling of every name including letter case and backslash escapes, the spelling of `not(`, quote style).

* `Sel.raw`    — the token list the tokenizer hands to `Selector` (types as the tokenizer names them),
* `Sel.cooked` — the same after `Selector._prepare_tokens`,
* `Sel.rpush`  — the items (`seq`, reversed) the selector denotes,
* `Sel.count`  — its specificity `(b, c, d)`; defined on the *skeleton* (`Sel.skel`), which forgets every
  name, all white space and comments and all letter case.

The theorems (Props/C16.lean) say that the model of the code, run on `raw`, produces exactly these.
-/
namespace CssVerif.Sel
open CssVerif.Proto
open CssVerif.Gen.C16

/-! ## fillers -/

/-- a token that may stand where white space is allowed: an `S` token or a `COMMENT` token (by value) -/
inductive Fill | ws (v : Cps) | cm (v : Cps)
deriving DecidableEq, Repr

def Fill.tok : Fill → Tok
  | .ws v => ⟨.s, v⟩
  | .cm v => ⟨.comment, v⟩

def Fill.isWs : Fill → Bool
  | .ws _ => true
  | .cm _ => false

def cmItem (v : Cps) : Item := ⟨.comment v, tyCOMMENT⟩

/-- where white space is ignored (inside `[ ]`, inside `:not( )`, before the first compound, after a
`+ > ~`): only the comments become items -/
def fillQuiet (rs : List Item) : List Fill → List Item
  | [] => rs
  | .ws _ :: t => fillQuiet rs t
  | .cm v :: t => fillQuiet (cmItem v :: rs) t

def descItem : Item := ⟨.str c_S, tyDescendant⟩

/-- where white space is the descendant combinator: every `S` token appends one -/
def fillDesc (rs : List Item) : List Fill → List Item
  | [] => rs
  | .ws _ :: t => fillDesc (descItem :: rs) t
  | .cm v :: t => fillDesc (cmItem v :: rs) t

/-! ## type selectors -/

inductive Pfx | none | any | empty | named (p : Cps)
deriving DecidableEq, Repr

/-- the text before `|` -/
def Pfx.str : Pfx → Cps
  | .none => []
  | .any => [42]
  | .empty => []
  | .named p => p

def Pfx.raw : Pfx → List Tok
  | .none => []
  | .any => [⟨.char, [42]⟩, ⟨.char, [124]⟩]
  | .empty => [⟨.char, [124]⟩]
  | .named p => [⟨.ident, p⟩, ⟨.char, [124]⟩]

/-- the namespace a prefix denotes under `ns` (for element names; `Pfx.none` = the default namespace) -/
def Pfx.uri (ns : NsMap) : Pfx → Uri
  | .none => (match nsGet ns [] with | Option.some u => .uri u | Option.none => .none)
  | .any => .any
  | .empty => .uri []
  | .named p => (match nsGet ns p with | Option.some u => .uri u | Option.none => .none)

/-- `name = none` is the universal selector `*` -/
structure TypeSel where
  pfx : Pfx
  name : Option Cps
deriving DecidableEq, Repr

def TypeSel.raw (t : TypeSel) : List Tok :=
  t.pfx.raw ++ [match t.name with | some n => ⟨.ident, n⟩ | none => ⟨.char, [42]⟩]

def TypeSel.cooked (t : TypeSel) : List Tok :=
  match t.pfx, t.name with
  | .none, some n => [⟨.ident, n⟩]
  | .none, none => [⟨.universal, [42]⟩]
  | p, some n => [⟨.nsPrefix, p.str ++ [124]⟩, ⟨.ident, n⟩]
  | p, none => [⟨.universal, p.str ++ [124, 42]⟩]

/-- the item of a type selector: `neg` = inside `:not( )` -/
def TypeSel.item (ns : NsMap) (neg : Bool) (t : TypeSel) : Item :=
  match t.name with
  | some n => ⟨.ns (t.pfx.uri ns) n, if neg then tyNegTypeSel else tyTypeSel⟩
  | none => ⟨.ns (t.pfx.uri ns) [42], tyUniversal⟩

/-! ## attribute selectors -/

inductive AttOp | eq | includes | dashmatch | prefixmatch | suffixmatch | substringmatch
deriving DecidableEq, Repr

def AttOp.tok : AttOp → Tok
  | .eq => ⟨.char, [61]⟩
  | .includes => ⟨.includes, [126, 61]⟩
  | .dashmatch => ⟨.dashmatch, [124, 61]⟩
  | .prefixmatch => ⟨.prefixmatch, [94, 61]⟩
  | .suffixmatch => ⟨.suffixmatch, [36, 61]⟩
  | .substringmatch => ⟨.substringmatch, [42, 61]⟩

def AttOp.item (o : AttOp) : Item :=
  match o with
  | .eq => ⟨.str [61], tyEquals⟩
  | o => ⟨.str o.tok.val, lower o.tok.typ.name⟩

/-- an attribute value: an identifier, or a STRING token (with its quotes and escapes, as written) -/
inductive AttVal | ident (v : Cps) | string (raw : Cps)
deriving DecidableEq, Repr

def AttVal.tok : AttVal → Tok
  | .ident v => ⟨.ident, v⟩
  | .string raw => ⟨.string, raw⟩

/-- content of a STRING token: quotes removed, `\q` → `q` for its own quote `q` -/
def strContent (raw : Cps) : Cps :=
  match raw with
  | q :: _ => ((unquoteEsc q raw).drop 1).dropLast
  | [] => []

def AttVal.item : AttVal → Item
  | .ident v => ⟨.str v, tyAttrValue⟩
  | .string raw => ⟨.str (strContent raw), TT.string.name⟩

structure Attr where
  f1 : List Fill                              -- after `[`
  pfx : Pfx
  name : Cps
  f2 : List Fill                              -- after the name
  opv : Option (AttOp × List Fill × AttVal × List Fill)   -- operator, fill, value, fill
deriving DecidableEq, Repr

def Attr.pfxCooked (a : Attr) : List Tok :=
  match a.pfx with
  | .none => []
  | p => [⟨.nsPrefix, p.str ++ [124]⟩]

def Attr.opvToks (a : Attr) : List Tok :=
  match a.opv with
  | none => []
  | some (o, f3, v, f4) => [o.tok] ++ f3.map Fill.tok ++ [v.tok] ++ f4.map Fill.tok

def Attr.tail (a : Attr) : List Tok :=
  [⟨.ident, a.name⟩] ++ a.f2.map Fill.tok ++ a.opvToks ++ [⟨.char, [93]⟩]

def Attr.raw (a : Attr) : List Tok := [⟨.char, [91]⟩] ++ a.f1.map Fill.tok ++ a.pfx.raw ++ a.tail
def Attr.cooked (a : Attr) : List Tok := [⟨.char, [91]⟩] ++ a.f1.map Fill.tok ++ a.pfxCooked ++ a.tail

/-- an attribute name is in no namespace unless it has a non-empty prefix (`[|a]` is `[a]`) -/
def Attr.nameItem (ns : NsMap) (a : Attr) : Item :=
  match a.pfx with
  | .none => ⟨.str a.name, tyAttrSel⟩
  | .empty => ⟨.str a.name, tyAttrSel⟩
  | p => ⟨.ns (p.uri ns) a.name, tyAttrSel⟩

def Attr.rpush (ns : NsMap) (a : Attr) (rs : List Item) : List Item :=
  let rs := ⟨.str [91], tyAttrStart⟩ :: rs
  let rs := fillQuiet rs a.f1
  let rs := a.nameItem ns :: rs
  let rs := fillQuiet rs a.f2
  let rs := match a.opv with
    | none => rs
    | some (o, f3, v, f4) => fillQuiet (v.item :: fillQuiet (o.item :: rs) f3) f4
  ⟨.str [93], tyAttrEnd⟩ :: rs

/-! ## pseudo-classes, pseudo-elements, functional pseudos -/

def colons (two : Bool) : Cps := if two then [58, 58] else [58]
def colonsRaw (two : Bool) : List Tok := if two then [⟨.char, [58]⟩, ⟨.char, [58]⟩] else [⟨.char, [58]⟩]
def pseudoTT (two : Bool) : TT := if two then .pseudoElement else .pseudoClass

/-- is `:name` / `::name` a pseudo-element? two colons, or one of the four legacy names in any spelling -/
def pseudoIsElem (two : Bool) (name : Cps) : Bool :=
  two || elemOf (normalizeName (colons two ++ name)) legacyPseudoElements

def pseudoItem (two : Bool) (name : Cps) : Item :=
  ⟨.str (normalizeName (colons two ++ name)), if pseudoIsElem two name then tyPseudoElement else (pseudoTT two).name⟩

/-- tokens of the argument of a functional pseudo -/
inductive ArgTok
  | plus | minus | num (v : Cps) | dim (v : Cps) | str (raw : Cps) | ident (v : Cps) | ws (v : Cps) | cm (v : Cps)
deriving DecidableEq, Repr

def ArgTok.tok : ArgTok → Tok
  | .plus => ⟨.char, [43]⟩
  | .minus => ⟨.char, [45]⟩
  | .num v => ⟨.number, v⟩
  | .dim v => ⟨.dimension, v⟩
  | .str raw => ⟨.string, raw⟩
  | .ident v => ⟨.ident, v⟩
  | .ws v => ⟨.s, v⟩
  | .cm v => ⟨.comment, v⟩

def ArgTok.isFill : ArgTok → Bool
  | .ws _ => true
  | .cm _ => true
  | _ => false

def sItem : Item := ⟨.str c_S, tyS⟩

/-- the items of the argument tokens, onto `rs` (whose head is the pseudo item): white space is kept as an
`S` item except directly after a sign; a `+` directly after white space takes its place -/
def argPush (rs : List Item) : List ArgTok → List Item
  | [] => rs
  | a :: t =>
    let rs' := match a with
      | .plus => (match rs with
          | ⟨.str s, _⟩ :: r => if s == c_S then ⟨.str [43], tyPlus⟩ :: r else ⟨.str [43], tyPlus⟩ :: rs
          | _ => ⟨.str [43], tyPlus⟩ :: rs)
      | .minus => ⟨.str [45], tyMinus⟩ :: rs
      | .num v => ⟨.str v, TT.number.name⟩ :: rs
      | .dim v => ⟨.str v, TT.dimension.name⟩ :: rs
      | .str raw => ⟨.str (strContent raw), TT.string.name⟩ :: rs
      | .ident v => ⟨.str v, TT.ident.name⟩ :: rs
      | .ws _ => (match rs with
          | it :: _ => if it.typ == tyPlus || it.typ == tyMinus then rs else sItem :: rs
          | [] => rs)
      | .cm v => cmItem v :: rs
    argPush rs' t

/-! ## simple selectors -/

/-- the argument of `:not( )`: one simple selector (no nested negation) -/
inductive NegArg
  | type (t : TypeSel) | id (v : Cps) | cls (name : Cps) | attr (a : Attr) | pseudo (two : Bool) (name : Cps)
  | func (two : Bool) (fname : Cps) (args : List ArgTok)
deriving DecidableEq, Repr

/-- tokens / items of a functional pseudo `:` [`:`] FUNCTION args `)` -/
def funcRaw (two : Bool) (f : Cps) (args : List ArgTok) : List Tok :=
  colonsRaw two ++ [⟨.function, f⟩] ++ args.map ArgTok.tok ++ [⟨.char, [41]⟩]
def funcCooked (two : Bool) (f : Cps) (args : List ArgTok) : List Tok :=
  [⟨pseudoTT two, colons two ++ f⟩] ++ args.map ArgTok.tok ++ [⟨.char, [41]⟩]
def funcPush (two : Bool) (f : Cps) (args : List ArgTok) (rs : List Item) : List Item :=
  ⟨.str [41], tyFuncEnd⟩ :: argPush (⟨.str (normalizeName (colons two ++ f)), (pseudoTT two).name⟩ :: rs) args

inductive Simple
  | id (v : Cps)                                   -- the HASH token value, e.g. `#x`
  | cls (name : Cps)                               -- `.` IDENT
  | attr (a : Attr)
  | pseudo (two : Bool) (name : Cps)               -- `:` [`:`] IDENT
  | func (two : Bool) (fname : Cps) (args : List ArgTok)     -- `:` [`:`] FUNCTION args `)`
  | not (fval : Cps) (f1 : List Fill) (arg : NegArg) (f2 : List Fill)   -- `:` FUNCTION(`not(`) fill arg fill `)`
deriving DecidableEq, Repr

def NegArg.raw : NegArg → List Tok
  | .type t => t.raw
  | .id v => [⟨.hash, v⟩]
  | .cls n => [⟨.char, [46]⟩, ⟨.ident, n⟩]
  | .attr a => a.raw
  | .pseudo two n => colonsRaw two ++ [⟨.ident, n⟩]
  | .func two f args => funcRaw two f args

def NegArg.cooked : NegArg → List Tok
  | .type t => t.cooked
  | .id v => [⟨.hash, v⟩]
  | .cls n => [⟨.cls, 46 :: n⟩]
  | .attr a => a.cooked
  | .pseudo two n => [⟨pseudoTT two, colons two ++ n⟩]
  | .func two f args => funcCooked two f args

def NegArg.rpush (ns : NsMap) (x : NegArg) (rs : List Item) : List Item :=
  match x with
  | .type t => t.item ns true :: rs
  | .id v => ⟨.str v, tyId⟩ :: rs
  | .cls n => ⟨.str (46 :: n), tyClass⟩ :: rs
  | .attr a => a.rpush ns rs
  | .pseudo two n => pseudoItem two n :: rs
  | .func two f args => funcPush two f args rs

def Simple.raw : Simple → List Tok
  | .id v => [⟨.hash, v⟩]
  | .cls n => [⟨.char, [46]⟩, ⟨.ident, n⟩]
  | .attr a => a.raw
  | .pseudo two n => colonsRaw two ++ [⟨.ident, n⟩]
  | .func two f args => funcRaw two f args
  | .not fv f1 x f2 => [⟨.char, [58]⟩, ⟨.function, fv⟩] ++ f1.map Fill.tok ++ x.raw ++ f2.map Fill.tok ++ [⟨.char, [41]⟩]

def Simple.cooked : Simple → List Tok
  | .id v => [⟨.hash, v⟩]
  | .cls n => [⟨.cls, 46 :: n⟩]
  | .attr a => a.cooked
  | .pseudo two n => [⟨pseudoTT two, colons two ++ n⟩]
  | .func two f args => funcCooked two f args
  | .not fv f1 x f2 => [⟨.negation, 58 :: fv⟩] ++ f1.map Fill.tok ++ x.cooked ++ f2.map Fill.tok ++ [⟨.char, [41]⟩]

def Simple.rpush (ns : NsMap) (s : Simple) (rs : List Item) : List Item :=
  match s with
  | .id v => ⟨.str v, tyId⟩ :: rs
  | .cls n => ⟨.str (46 :: n), tyClass⟩ :: rs
  | .attr a => a.rpush ns rs
  | .pseudo two n => pseudoItem two n :: rs
  | .func two f args => funcPush two f args rs
  | .not fv f1 x f2 =>
    ⟨.str [41], tyNegEnd⟩ :: fillQuiet (x.rpush ns (fillQuiet (⟨.str (normalizeName (58 :: fv)), tyNegStart⟩ :: rs) f1)) f2

/-- a pseudo-element closes its compound (only a combinator may follow) -/
def Simple.isElem : Simple → Bool
  | .pseudo two n => pseudoIsElem two n
  | .func two _ _ => two
  | _ => false

/-! ## compounds, combinators, selectors -/

structure Compound where
  head : Option TypeSel
  /-- the simple selectors, each with the comments written directly before it -/
  rest : List (List Cps × Simple)
deriving DecidableEq, Repr

def cmToks (cs : List Cps) : List Tok := cs.map fun v => ⟨.comment, v⟩

def restRaw : List (List Cps × Simple) → List Tok
  | [] => []
  | (cs, s) :: t => cmToks cs ++ s.raw ++ restRaw t

def restCooked : List (List Cps × Simple) → List Tok
  | [] => []
  | (cs, s) :: t => cmToks cs ++ s.cooked ++ restCooked t

def cmPush (rs : List Item) : List Cps → List Item
  | [] => rs
  | v :: t => cmPush (cmItem v :: rs) t

def restPush (ns : NsMap) (rs : List Item) : List (List Cps × Simple) → List Item
  | [] => rs
  | (cs, s) :: t => restPush ns (s.rpush ns (cmPush rs cs)) t

def Compound.raw (c : Compound) : List Tok :=
  (match c.head with | some t => t.raw | none => []) ++ restRaw c.rest

def Compound.cooked (c : Compound) : List Tok :=
  (match c.head with | some t => t.cooked | none => []) ++ restCooked c.rest

def Compound.rpush (ns : NsMap) (c : Compound) (rs : List Item) : List Item :=
  restPush ns (match c.head with | some t => t.item ns false :: rs | none => rs) c.rest

inductive Comb | child | adjacent | sibling
deriving DecidableEq, Repr

def Comb.cp : Comb → Nat
  | .child => 62
  | .adjacent => 43
  | .sibling => 126

def Comb.item (o : Comb) : Item :=
  match o with
  | .child => ⟨.str [62], tyChild⟩
  | .adjacent => ⟨.str [43], tyAdjSibling⟩
  | .sibling => ⟨.str [126], tyFolSibling⟩

/-- what stands between two compounds: fillers, then optionally one of `> + ~` and more fillers.
Without an operator the white space in `pre` is the (descendant) combinator. -/
structure Gap where
  pre : List Fill
  op : Option (Comb × List Fill)
deriving DecidableEq, Repr

def Gap.toks (g : Gap) : List Tok :=
  g.pre.map Fill.tok ++ (match g.op with | none => [] | some (o, post) => ⟨.char, [o.cp]⟩ :: post.map Fill.tok)

/-- an operator directly after white space replaces the descendant item that white space produced -/
def putComb (o : Comb) (rs : List Item) : List Item :=
  match rs with
  | ⟨.str s, t⟩ :: r => if s == c_S then o.item :: r else o.item :: ⟨.str s, t⟩ :: r
  | _ => o.item :: rs

def Gap.rpush (g : Gap) (rs : List Item) : List Item :=
  let rs := fillDesc rs g.pre
  match g.op with
  | none => rs
  | some (o, post) => fillQuiet (putComb o rs) post

structure Sel where
  lead : List Fill
  first : Compound
  more : List (Gap × Compound)
  trail : List Fill
deriving DecidableEq, Repr

def moreRaw : List (Gap × Compound) → List Tok
  | [] => []
  | (g, c) :: t => g.toks ++ c.raw ++ moreRaw t

def moreCooked : List (Gap × Compound) → List Tok
  | [] => []
  | (g, c) :: t => g.toks ++ c.cooked ++ moreCooked t

def morePush (ns : NsMap) (rs : List Item) : List (Gap × Compound) → List Item
  | [] => rs
  | (g, c) :: t => morePush ns (c.rpush ns (g.rpush rs)) t

def Sel.raw (s : Sel) : List Tok := s.lead.map Fill.tok ++ s.first.raw ++ moreRaw s.more ++ s.trail.map Fill.tok
def Sel.cooked (s : Sel) : List Tok := s.lead.map Fill.tok ++ s.first.cooked ++ moreCooked s.more ++ s.trail.map Fill.tok

/-- `seq` reversed, before the trailing blank item is removed -/
def Sel.rpush (ns : NsMap) (s : Sel) : List Item :=
  fillDesc (morePush ns (s.first.rpush ns (fillQuiet [] s.lead)) s.more) s.trail

/-- :749-754 a trailing white-space item is not part of the selector -/
def dropBlank : List Item → List Item
  | ⟨.str v, t⟩ :: r => if isBlank v then r else ⟨.str v, t⟩ :: r
  | l => l

/-- the `seq` the written selector denotes -/
def Sel.items (ns : NsMap) (s : Sel) : List Item := (dropBlank (s.rpush ns)).reverse

/-- `element`: the last type / universal selector written outside `:not( )` -/
def Sel.element (ns : NsMap) (s : Sel) : Option Val :=
  let e0 : Option Val := match s.first.head with | some t => some (t.item ns false).val | none => none
  s.more.foldl (fun e gc => match gc.2.head with | some t => some (t.item ns false).val | none => e) e0

/-! ## the skeleton and the specificity -/

/-- what is left of a simple selector when names, white space, comments and case are forgotten -/
inductive Kind | id | cls | attr | type | universal | pclass | pelem
deriving DecidableEq, Repr

def TypeSel.kind (t : TypeSel) : Kind := if t.name.isSome then .type else .universal

def NegArg.kind : NegArg → Kind
  | .type t => t.kind
  | .id _ => .id
  | .cls _ => .cls
  | .attr _ => .attr
  | .pseudo two n => if pseudoIsElem two n then .pelem else .pclass
  | .func two _ _ => if two then .pelem else .pclass

/-- `(kind, negated?)` -/
def Simple.kind : Simple → Kind × Bool
  | .id _ => (.id, false)
  | .cls _ => (.cls, false)
  | .attr _ => (.attr, false)
  | .pseudo two n => (if pseudoIsElem two n then .pelem else .pclass, false)
  | .func two _ _ => (if two then .pelem else .pclass, false)
  | .not _ _ x _ => (x.kind, true)

def Compound.skel (c : Compound) : List (Kind × Bool) :=
  (match c.head with | some t => [(t.kind, false)] | none => []) ++ c.rest.map (fun p => p.2.kind)

/-- compounds and the combinators between them (`none` = descendant) -/
def Sel.skel (s : Sel) : List (Kind × Bool) × List (Option Comb × List (Kind × Bool)) :=
  (s.first.skel, s.more.map fun gc => (gc.1.op.map (·.1), gc.2.skel))

/-- specificity contribution `(b, c, d)` of one kind: ids; classes and attributes; type selectors and
pseudo-elements. Negation itself counts nothing, its argument counts as usual. -/
def Kind.count : Kind → Nat × Nat × Nat
  | .id => (1, 0, 0)
  | .cls => (0, 1, 0)
  | .attr => (0, 1, 0)
  | .type => (0, 0, 1)
  | .pelem => (0, 0, 1)
  | .universal => (0, 0, 0)
  | .pclass => (0, 0, 0)

def add3 (x y : Nat × Nat × Nat) : Nat × Nat × Nat := (x.1 + y.1, x.2.1 + y.2.1, x.2.2 + y.2.2)

def countKinds (l : List (Kind × Bool)) : Nat × Nat × Nat := l.foldr (fun k acc => add3 k.1.count acc) (0, 0, 0)

def countSkel (k : List (Kind × Bool) × List (Option Comb × List (Kind × Bool))) : Nat × Nat × Nat :=
  add3 (countKinds k.1) (k.2.foldr (fun p acc => add3 (countKinds p.2) acc) (0, 0, 0))

/-- the kinds of all simple selectors of a skeleton, negated ones included -/
def flatKinds (k : List (Kind × Bool) × List (Option Comb × List (Kind × Bool))) : List Kind :=
  (k.1 ++ k.2.flatMap (·.2)).map (·.1)

/-- the specificity `(b, c, d)` of a written selector — a function of its skeleton only -/
def Sel.count (s : Sel) : Nat × Nat × Nat := countSkel s.skel

/-! ## well-formedness of the spelling (what the tokenizer guarantees about its tokens) -/

/-- a token value that `_prepare_tokens` never regroups when it comes *after* another token and that never
absorbs a following IDENT: not `.`, `*`, `|`, and not starting with `:` -/
def inert (v : Cps) : Bool := !(v == [46]) && !(v == [42]) && !(v == [124]) && !(startsWith v [58])

/-- an identifier as the tokenizer delivers it: non-empty, does not start with `:` … -/
def nameOk (v : Cps) : Bool := !v.isEmpty && inert v

def Fill.ok : Fill → Bool
  | .ws v => inert v
  | .cm v => inert v

def Pfx.ok (ns : NsMap) : Pfx → Bool
  | .named p => nameOk p && !(hasCp 124 p) && !(p == [42]) && (nsGet ns p).isSome
  | _ => true

def TypeSel.ok (ns : NsMap) (t : TypeSel) : Bool :=
  t.pfx.ok ns && (match t.name with | some n => nameOk n | none => true)

def AttVal.ok : AttVal → Bool
  | .ident v => nameOk v
  | .string raw => !raw.isEmpty && inert raw

def Attr.ok (ns : NsMap) (a : Attr) : Bool :=
  a.f1.all Fill.ok && a.pfx.ok ns && nameOk a.name && a.f2.all Fill.ok &&
  (match a.opv with
   | none => true
   | some (_, f3, v, f4) => f3.all Fill.ok && v.ok && f4.all Fill.ok)

/-- a pseudo name: an identifier whose normalised form does not end in `(` (it is not read as a function) -/
def pseudoOk (two : Bool) (n : Cps) : Bool := nameOk n && !(endsWith (normalizeName (colons two ++ n)) [40])

def ArgTok.ok : ArgTok → Bool
  | .plus => true
  | .minus => true
  | .num v => inert v
  | .dim v => inert v
  | .str raw => !raw.isEmpty && inert raw
  | .ident v => nameOk v
  | .ws v => inert v
  | .cm v => inert v

/-- a FUNCTION token ends with `(`; with one colon it must not be `not(`; at least one argument token -/
def funcOk (two : Bool) (f : Cps) (args : List ArgTok) : Bool :=
  endsWith f [40] && endsWith (normalizeName (colons two ++ f)) [40] && (two || !(normalize f == sNotOpen)) &&
  args.all ArgTok.ok && args.any (fun a => !a.isFill)

def NegArg.ok (ns : NsMap) : NegArg → Bool
  | .type t => t.ok ns
  | .id v => startsWith v [35]
  | .cls n => nameOk n
  | .attr a => a.ok ns
  | .pseudo two n => pseudoOk two n
  | .func two f args => funcOk two f args

def Simple.ok (ns : NsMap) : Simple → Bool
  | .id v => startsWith v [35]                     -- a HASH token starts with `#`
  | .cls n => nameOk n
  | .attr a => a.ok ns
  | .pseudo two n => pseudoOk two n
  | .func two f args => funcOk two f args
  | .not fv f1 x f2 =>
    normalize fv == sNotOpen && endsWith fv [40] && f1.all Fill.ok && x.ok ns && f2.all Fill.ok

/-- in a compound only the last simple selector may be a pseudo-element -/
def restOk (ns : NsMap) : List (List Cps × Simple) → Bool
  | [] => true
  | [(cs, s)] => cs.all inert && s.ok ns
  | (cs, s) :: t => cs.all inert && s.ok ns && !s.isElem && restOk ns t

def Compound.ok (ns : NsMap) (c : Compound) : Bool :=
  (match c.head with | some t => t.ok ns | none => true) && restOk ns c.rest && (c.head.isSome || !c.rest.isEmpty)

/-- without `> + ~` the gap must contain white space (that is the combinator) -/
def Gap.ok (g : Gap) : Bool :=
  g.pre.all Fill.ok &&
  (match g.op with
   | none => g.pre.any Fill.isWs
   | some (_, post) => post.all Fill.ok)

def Sel.ok (ns : NsMap) (s : Sel) : Bool :=
  s.lead.all Fill.ok && s.first.ok ns && s.more.all (fun gc => gc.1.ok && gc.2.ok ns) && s.trail.all Fill.ok

end CssVerif.Sel
