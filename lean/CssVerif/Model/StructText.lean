import CssVerif.Model.Tok
import CssVerif.Model.Struct
/-!
# K2 `Struct` composed with K1 `Tok`: the token list `parseString(text)` hands to the sheet dispatcher

`sheetToks text doC` = the yielded tokens of `Tokenizer(doComments=doC).tokenize(text, fullsheet=True)`
(C05's model `Tok.tokenize`, read-only) projected to (type, value) — `parse.py:111-125` `CSSParser.parseString`
→ `cssstylesheet.py:152` `_setCssText` → `_tokenize2`.  Core Lean only: the driver request `text` runs the whole
pipeline text → tokens → sheet in the model, and the harness compares it with the model run on the REAL
tokenizer's tokens and with the real DOM.
-/
namespace CssVerif.Struct
open CssVerif.Proto (Cps)

/-- token type names of the tokenizer → the types the structure level dispatches on (= `ttOfName` of
`Drv/C04.lean`; every other production is `other`) -/
def ttOf (s : String) : TT :=
  match s with
  | "IDENT" => .ident | "FUNCTION" => .function | "CHAR" => .char | "S" => .s
  | "COMMENT" => .comment | "EOF" => .eof | "ATKEYWORD" => .atkeyword
  | "STRING" => .string | "URI" => .uri | "INVALID" => .invalid
  | "CDO" => .cdo | "CDC" => .cdc
  | "CHARSET_SYM" => .charsetSym | "IMPORT_SYM" => .importSym
  | "NAMESPACE_SYM" => .namespaceSym | "PAGE_SYM" => .pageSym | "MEDIA_SYM" => .mediaSym
  | "FONT_FACE_SYM" => .fontFaceSym | "VARIABLES_SYM" => .variablesSym
  | _ => .other

def ofItem (it : CssVerif.Tok.Item) : Tok := ⟨ttOf it.typ, it.value, 0⟩

/-- the token list of `parseString(text)`: yielded tokens (comments filtered when `doC = false`) of
`Tokenizer.tokenize(text, fullsheet=True)` -/
def sheetToks (text : Cps) (doC : Bool) : List Tok :=
  ((CssVerif.Tok.tokenize text true doC).tokens).map ofItem

/-- the same list with the position of each token = its index (the driver's token keys) -/
def sheetToksIdx (text : Cps) (doC : Bool) : List Tok :=
  let rec go (i : Nat) : List Tok → List Tok
    | [] => []
    | t :: ts => { t with pos := i } :: go (i + 1) ts
  go 0 (sheetToks text doC)

end CssVerif.Struct
