import CssVerif.Lib.Proto
/-!
# `cssutils.helper.normalize` (helper.py:41-58) — the normalisation behind every case-insensitive and escape-insensitive comparison

`normalize(x)` = remove the backslash of every simple escape (`re.sub(r'(\\[^0-9a-fA-F])', …)`, leftmost,
non-overlapping), then `.lower()`. Used for property names, at-keywords, pseudo-class / function names, units,
`!important`, media types. Hex escapes are resolved earlier, by the tokenizer.
`str.lower()` is modelled on ASCII; code points above 0x7F are left alone (assumption: the inputs of the
correspondence contain only caseless non-ASCII characters).
-/
namespace CssVerif.Normalize

def isHex (c : Nat) : Bool :=
  (0x30 ≤ c && c ≤ 0x39) || (0x41 ≤ c && c ≤ 0x46) || (0x61 ≤ c && c ≤ 0x66)

def lowerAscii (c : Nat) : Nat := if 0x41 ≤ c ∧ c ≤ 0x5A then c + 32 else c
def upperAscii (c : Nat) : Nat := if 0x61 ≤ c ∧ c ≤ 0x7A then c - 32 else c

/-- `_simpleescapes(removeescape, x)`: scanning left to right, `\` + non-hex char ↦ that char -/
def unesc : List Nat → List Nat
  | [] => []
  | [c] => [c]
  | c :: d :: t =>
    if c = 0x5C then
      if isHex d then c :: unesc (d :: t) else d :: unesc t
    else c :: unesc (d :: t)

def normalize (x : List Nat) : List Nat := (unesc x).map lowerAscii

/-- one way of writing a name: per character, upper-case it or not, put a backslash before it or not
(the backslash is only written where CSS reads it as a simple escape: before a non-hex character) -/
def spell : List (Bool × Bool) → List Nat → List Nat
  | _, [] => []
  | [], c :: t => c :: spell [] t
  | (up, esc) :: m, c :: t =>
    let c' := if up then upperAscii c else c
    if esc && !isHex c' then 0x5C :: c' :: spell m t else c' :: spell m t

/-- names as the grammar writes them: lower case, no backslash -/
def Plain (name : List Nat) : Prop := ∀ c ∈ name, c ≠ 0x5C ∧ lowerAscii c = c

end CssVerif.Normalize
