import CssVerif.Model.Media
/-!
# K4 `Prod` — the engine of `cssutils/prodparser.py`, generic over the grammar

`Choice.nextProd` (`prodparser.py:94-121`), `Sequence.nextProd` (`:189-236`), `Sequence.matches` / `Choice.matches`,
`ProdParser.parse` (`:438-693`) with the module-level `savedTokens` list and the tokenizer's `_pushed` queue as
explicit state, ported from the validated functional rendering `design-notes/engine_reference.py` and brought up to
the current code. `_SorTokens` (`prodparser.py:403-441`: behind the `_sor` flag it drops an S — since f1e0059 a whole
run of S tokens — that stands before `,` `/` or a comment) wraps the token stream only after a production with
`nextSor=True` has matched (`prodparser.py:637-645`); the media grammars have no such production
(`Lemmas/MediaEngine.media_grammars_never_reach_SorTokens`, re-checked against the captured trees on every run), so
it is not part of this model and a `nextSor` production makes the engine answer `unsupported`. Runs of S tokens do
reach the media parsers (token lists of a sheet parsed with `parseComments=False`); there every S is skipped by the
default S handling of `parse` (`prodparser.py:531-536`), which `mainLoop` mirrors. `stopIfNoMoreMatch` of
`media_type` follows `_partof`.

The grammar trees are data: `Gen/C17Grammar.lean` holds the `MediaList` and `MediaQuery` trees as captured from the
live objects on every run (structure, min/max, optional / stop / stopAndKeep / stopIfNoMoreMatch / nextSor / mayEnd,
`toSeq is False`, store key, production name). The `match` lambdas are opaque: each production name is mapped to a
hand-written predicate (`Matcher.test`) and the captured verdicts on a probe battery are re-checked by `decide`.

Use here: the derived automata of `Model/Media.lean` (`parseQ`, `parseL`) must agree with this engine on the captured
grammars — compared on every generated input by the driver (`cmpq`, `cmpl`).
-/
namespace CssVerif.ProdEngine
open CssVerif.Proto CssVerif.Media

/-- the `match` callbacks of the productions of the two grammars, by production name -/
inductive Matcher
  | comment | queryStart | comma | onlyNot | mediaType | and_ | open_ | feature | colon | close
  | color | dimension | value
  deriving DecidableEq, Repr

def Matcher.test (m : Matcher) (t : Tok) : Bool :=
  match m with
  | .comment => t.typ == .comment
  | .queryStart => isQueryStart t
  | .comma => t.val == cComma
  | .onlyNot => t.typ == .ident && isPrefixWord t.val
  | .mediaType => t.typ == .ident && isMediaType t.val
  | .and_ => t.typ == .ident && isAndWord t.val
  | .open_ => t.val == cOpen
  | .feature => t.typ == .ident
  | .colon => t.val == cColon
  | .close => t.val == cClose
  -- `_ColorProd` also takes IDENTs that are colour names; they reach `_ValueProd` here (same item, same text)
  | .color => (t.typ == .hash && isHexColor t.val) || (t.typ == .function && colorFunctions.contains (normalize t.val))
  | .dimension => t.typ == .dimension || t.typ == .number || t.typ == .percentage
  | .value => t.typ == .ident || t.typ == .string || t.typ == .unicodeRange

structure PFlags where
  optional : Bool := false
  stopIf : Bool := false
  stop : Bool := false
  stopAndKeep : Bool := false
  nextSor : Bool := false
  mayEnd : Bool := false
  /-- `toSeq is not False` -/
  toSeq : Bool := true
  /-- 0: no `toStore`; 1: `'media_type'`; 2: `'not simple'` -/
  store : Nat := 0
  deriving DecidableEq, Repr

inductive Node
  | prod (m : Matcher) (f : PFlags)
  | seq (id : Nat) (min : Nat) (max : Option Nat) (kids : List Node)
  | choice (id : Nat) (optional : Bool) (kids : List Node)
  deriving Repr

inductive NState
  | seq (i round : Nat) (started : Bool)
  | choice (exhausted : Bool)
  deriving Repr

abbrev St := List (Nat × NState)

def St.get (st : St) (id : Nat) : Option NState := (st.find? (·.1 == id)).map (·.2)
def St.set (st : St) (id : Nat) (v : NState) : St := (id, v) :: st.filter (·.1 != id)

mutual
/-- no production of the tree has `nextSor` or `stopAndKeep` (the parts of `parse` this model leaves out) -/
def Node.plain : Node → Bool
  | .prod _ f => !f.nextSor && !f.stopAndKeep
  | .seq _ _ _ kids => plainKids kids
  | .choice _ _ kids => plainKids kids
def plainKids : List Node → Bool
  | [] => true
  | k :: r => k.plain && plainKids r
end

def Node.optional : Node → Bool
  | .prod _ f => f.optional
  | .seq _ min _ _ => min == 0
  | .choice _ o _ => o

mutual
/-- `Prod.matches` / `Choice.matches` / `Sequence.matches` -/
def Node.matches : Node → Option Tok → Bool
  | .prod m _, some t => m.test t
  | .prod _ _, none => false
  | .choice _ _ kids, t => matchesAny kids t
  | .seq _ _ _ kids, t => matchesSeq kids t
def matchesAny : List Node → Option Tok → Bool
  | [], _ => false
  | k :: r, t => k.matches t || matchesAny r t
def matchesSeq : List Node → Option Tok → Bool
  | [], _ => false
  | k :: r, t => k.matches t || (k.optional && matchesSeq r t)
end

/-- `reset()` -/
def Node.reset (n : Node) (st : St) : St :=
  match n with
  | .prod _ _ => st
  | .seq id _ _ _ => st.set id (.seq 0 0 false)
  | .choice id _ _ => st.set id (.choice false)

inductive Exc | noMatch | exhausted | missing | done | fuel
  deriving DecidableEq, Repr

/-- result of `nextProd`: a production (or `None`) or an exception -/
inductive NP
  | ret (n : Option Node)
  | exc (e : Exc)

/-- `Choice.nextProd`, the scan over the alternatives -/
def choiceScan (tok : Option Tok) : List Node → Bool → Option Node × Bool
  | [], opt => (none, opt)
  | p :: r, opt => if p.matches tok then (some p, opt) else choiceScan tok r (opt || p.optional)

/-- `Sequence.nextProd` (`while self._round < self._max`), `fuel` bounds the iterations -/
def seqLoop (id min : Nat) (max : Option Nat) (kids : List Node) (tok : Option Tok) :
    Nat → St → NP × St
  | 0, st => (.exc .fuel, st)
  | fuel + 1, st =>
    match st.get id with
    | some (.seq i round started) =>
      if (match max with | some mx => decide (round < mx) | none => true) then
        match kids[i]? with
        | none => (.exc .fuel, st)        -- not reachable: 0 ≤ i < prodcount
        | some p =>
          let started := if i == 0 then false else started
          let ni := i + 1
          let (ni, nr) := if ni == kids.length then (0, round + 1) else (ni, round)
          let st1 := st.set id (.seq ni nr started)
          if p.matches tok then
            (.ret (some p), p.reset (st1.set id (.seq ni nr true)))
          else if p.optional then seqLoop id min max kids tok fuel st1
          else if round < min || started then (.exc .missing, st1)
          else if tok.isNone then (if started then (.exc .missing, st1) else (.exc .done, st1))
          else (.exc .noMatch, st1)
      else if tok.isSome then (.exc .exhausted, st) else (.ret none, st)
    | _ => (.exc .fuel, st)

def nextProd (n : Node) (st : St) (tok : Option Tok) (fuel : Nat) : NP × St :=
  match n with
  | .prod _ _ => (.ret none, st)
  | .choice id _ kids =>
    match st.get id with
    | some (.choice false) =>
      match choiceScan tok kids false with
      | (some p, _) => (.ret (some p), p.reset (st.set id (.choice true)))
      | (none, opt) => if opt then (.ret none, st) else (.exc .noMatch, st)
    | _ => if tok.isSome then (.exc .exhausted, st) else (.ret none, st)
  | .seq id min max kids => seqLoop id min max kids tok fuel st

mutual
def Node.init : Node → St → St
  | .prod _ _, st => st
  | .seq id _ _ kids, st => initKids kids (st.set id (.seq 0 0 false))
  | .choice id _ kids, st => initKids kids (st.set id (.choice false))
def initKids : List Node → St → St
  | [], st => st
  | k :: r, st => initKids r (k.init st)
end

/-! ## token source and the two module-level hand-back channels -/

structure Src where
  toks : List Tok
  /-- the tokens come from `tokenizer.tokenize(text)` of the module-level tokenizer (and not from a list) -/
  fromText : Bool
  /-- `tokenizer._pushed` -/
  pushed : List Tok := []
  /-- `prodparser.savedTokens` (top = last) -/
  saved : List Tok := []
  deriving Repr

def Src.size (s : Src) : Nat := s.toks.length + s.pushed.length + s.saved.length

/-- `savedTokens.pop()`, else `next(tokens)`; the tokenizer re-emits pushed tokens while text remains -/
def Src.next (s : Src) : Option (Tok × Src) :=
  match s.saved with
  | t :: r => some (t, { s with saved := r })
  | [] =>
    match s.toks with
    | [] => none
    | t :: r =>
      if s.fromText then
        match s.pushed with
        | p :: ps => some (p, { s with pushed := ps })
        | [] => some (t, { s with toks := r })
      else some (t, { s with toks := r })

/-! ## `ProdParser.parse` -/

/-- what the `toSeq` callback of a production does with the token (and the rest of the stream) -/
structure Act (α : Type) where
  comment : Tok → α
  /-- `none` in the result: the nested object is not well-formed (or outside the model) -/
  prod : Matcher → Tok → Src → Nat → POut (α × Src)

structure PRes (α : Type) where
  wellformed : Bool
  seq : List α
  mediaType : Option Tok
  notSimple : Bool
  src : Src

/-- the descent `while True: prod = prods[-1].nextProd(token) …` (`prodparser.py:552-571`) -/
def descend (tok : Tok) : Nat → List Node → St → (Except Exc (Matcher × PFlags)) × List Node × St
  | 0, prods, st => (.error .fuel, prods, st)
  | fuel + 1, prods, st =>
    match prods with
    | [] => (.error .noMatch, prods, st)
    | top :: rest =>
      let (r, st1) := nextProd top st (some tok) (fuel + 1)
      match r with
      | .exc .exhausted | .exc .noMatch | .ret none =>
        if rest.isEmpty then (.error .noMatch, prods, st1) else descend tok fuel rest st1
      | .exc e => (.error e, prods, st1)
      | .ret (some (.prod m f)) => (.ok (m, f), prods, st1)
      | .ret (some n) => descend tok fuel (n :: prods) st1

/-- the end-of-input loop (`prodparser.py:648-685`): returns the new `wellformed` -/
def endLoop (lastMayEnd : Option Bool) : Nat → List Node → St → Bool → Bool
  | 0, _, _, _ => false
  | fuel + 1, prods, st, wf =>
    match prods with
    | [] => wf
    | top :: rest =>
      let (r, st1) := nextProd top st none (fuel + 1)
      match r with
      | .exc .done => if rest.isEmpty then wf else endLoop lastMayEnd fuel rest st1 wf
      | .exc .missing =>
        -- `hasattr(lastprod, 'mayEnd') and not lastprod.mayEnd`
        let wf := match lastMayEnd with | some false => false | _ => wf
        if rest.isEmpty then wf else endLoop lastMayEnd fuel rest st1 wf
      | .exc _ => if rest.isEmpty then false else endLoop lastMayEnd fuel rest st1 false
      | .ret p =>
        if top.optional then (if rest.isEmpty then wf else endLoop lastMayEnd fuel rest st1 wf)
        else match p with
          | some q =>
            if q.optional then endLoop lastMayEnd fuel prods st1 wf     -- `continue`
            else false                                                  -- missing token for production
          | none => if rest.isEmpty then wf else endLoop lastMayEnd fuel rest st1 wf

structure Loop (α : Type) where
  seq : List α := []          -- newest first
  prods : List Node
  st : St
  wellformed : Bool := true
  stopall : Bool := false
  stopIf : Bool := false
  lastMayEnd : Option Bool := none
  mediaType : Option Tok := none
  notSimple : Bool := false

/-- the main loop (`prodparser.py:505-641`); `first`: a token put in front of the stream (`pushtoken(t, tokens)`) -/
def mainLoop {α : Type} (act : Act α) : Nat → Option Tok → Src → Loop α → POut (Loop α × Src)
  | 0, _, _, _ => .unsupported
  | fuel + 1, first, src, l =>
    -- `savedTokens.pop()` first, then the stream (whose head may be a token put in front of it)
    let nx : Option (Tok × Src × Option Tok) := match src.saved with
      | s :: r => some (s, { src with saved := r }, first)
      | [] => match first with
        | some t => some (t, src, none)
        | none => (src.next).map fun (t, s) => (t, s, none)
    match nx with
    | none => .ok (l, src)
    | some (t, src, first) =>
      match t.typ with
      | .comment => mainLoop act fuel first src { l with seq := act.comment t :: l.seq }
      | .s => mainLoop act fuel first src l
      | .invalid => .ok ({ l with wellformed := false }, src)
      | .eof => .unsupported
      | _ =>
        let (r, prods, st) := descend t 64 l.prods l.st
        match r with
        | .error .noMatch =>
          if l.stopIf then .ok ({ l with prods := prods, st := st, stopall := true },
                                { src with saved := t :: src.saved })
          else .ok ({ l with prods := prods, st := st, wellformed := false }, src)
        | .error .fuel => .unsupported
        | .error _ =>
          -- `except ParseError` (`prodparser.py:589-596`): Missing is an error also with `stopIfNoMoreMatch`; the token
          -- is not pushed back (since "an incomplete media query in a media list is an error …")
          .ok ({ l with prods := prods, st := st, wellformed := false }, src)
        | .ok (m, f) =>
          let l := { l with prods := prods, st := st, stopIf := f.stopIf || l.stopIf, lastMayEnd := some f.mayEnd }
          let l := if f.store == 1 then { l with mediaType := some t }
                   else if f.store == 2 then { l with notSimple := true } else l
          if f.nextSor || first.isSome then .unsupported   -- not used by the media grammars / not reachable
          else if f.toSeq && !f.stopAndKeep then
            match act.prod m t src fuel with
            | .ok (item, src) =>
              let l := { l with seq := item :: l.seq }
              if f.stop then .ok (l, src)
              else mainLoop act fuel none src l
            | .bad => .bad
            | .unsupported => .unsupported
          else if f.stop then .ok (l, src)
          else if f.stopAndKeep then .unsupported      -- not used by the media grammars
          else mainLoop act fuel none src l

/-- `ProdParser().parse(tokens, name, productions)` with the default flags (`keepS`, `checkS`, `emptyOk` false) -/
def parse {α : Type} (act : Act α) (g : Node) (first : Option Tok) (src : Src) (fuel : Nat) : POut (PRes α) :=
  -- `ProdParser()` clears `tokenizer._pushed` (`prodparser.py:367-371`)
  let src := { src with pushed := [] }
  match mainLoop act fuel first src { prods := [g], st := g.init [] } with
  | .bad => .bad
  | .unsupported => .unsupported
  | .ok (l, src) =>
    let wf := if l.stopall then l.wellformed
              else endLoop l.lastMayEnd 64 l.prods l.st l.wellformed
    -- "No content to parse."
    let wf := if !l.stopall && l.seq.isEmpty then false else wf
    .ok { wellformed := wf, seq := l.seq.reverse, mediaType := l.mediaType, notSimple := l.notSimple, src := src }

/-! ## the two media grammars on the engine -/

/-- `toSeq` callbacks of the query grammar: default `(type, value)`; the three value productions build a value
object from the token (their nested parsers take exactly this token: every production there has `stop=True`) -/
def actQ : Act QItem where
  comment := fun t => .comment t
  prod := fun m t src _ =>
    match m with
    | .color => if t.typ == .function then .unsupported else .ok (.value .color t, src)
    | .dimension => .ok (.value .dimension t, src)
    | .value => .ok (.value .value t, src)
    | _ => .ok (.tok t, src)

/-- `MediaQuery._setMediaText` after the parse (`mediaquery.py:165-177`) -/
def toMQ (r : PRes QItem) : MQ :=
  { items := r.seq
    mediaType := match r.mediaType with
      | some t => if r.notSimple then [] else t.val
      | none => [] }

/-- stand-alone `MediaQuery(text)` on the engine -/
def engineQ (g : Node) (toks : List Tok) : POut MQ :=
  match parse actQ g none { toks := toks, fromText := true } (toks.length + 4) with
  | .ok r => if r.wellformed then .ok (toMQ r) else .bad
  | .bad => .bad
  | .unsupported => .unsupported

/-- `toSeq` of `MediaQueryStart`: `MediaQuery(pushtoken(t, tokens), _partof=True)` on the same stream -/
def actL (gq : Node) : Act LItem where
  comment := fun t => .comment t
  prod := fun m t src fuel =>
    match m with
    | .queryStart =>
      match parse actQ gq (some t) src fuel with
      | .ok r => if r.wellformed then .ok (.query (toMQ r), r.src) else .bad
      | .bad => .bad
      | .unsupported => .unsupported
    | _ => .unsupported      -- the only other production with a `toSeq` is the comment production (never reached)

/-- `MediaList._setMediaText` up to the filter, on the engine -/
def engineL (gl gq : Node) (fromText : Bool) (toks : List Tok) : POut (List LItem) :=
  match parse (actL gq) gl none { toks := toks, fromText := fromText } (toks.length + 4) with
  | .ok r => if r.wellformed then .ok r.seq else .bad
  | .bad => .bad
  | .unsupported => .unsupported

end CssVerif.ProdEngine
