import CssVerif.Lib.Proto
import CssVerif.Gen.C16SelConst
/-!
# K3 `Sel` — selector regrouping, the `New` state machine, SelectorList, selector serialisation

Hand transcription of (line numbers: /repo at HEAD)

* `cssutils/css/selector.py`  — `Selector._prepare_tokens` (765-854), `New.append` (66-147), the fourteen
  callbacks of `New` (149-467), `Base._parse` (util.py:437-491) with the default `EOF` production
  (util.py:549-551), the post-conditions and the commit of `Selector._setSelectorText` (728-763),
  `_getUsedUris` / `_getUsedNamespaces` (625-646);
* `cssutils/css/selectorlist.py` — `_setSelectorText` (160-223) with `Base._tokensupto2(listseponly=True)`
  (util.py:270-388), `appendSelector` (113-154), `__setitem__` (62-69), `__delitem__` (util.py:721);
* `cssutils/serialize.py` — `do_css_Selector` (833-874), `do_css_SelectorList` (818-831) and the part of
  `Out.append` / `Out.value` (200-315) they reach, at the default preferences, `helper.string` (helper.py:75-92).

Strings are lists of code points. The constant strings of `class Constants`, the dispatch table and the small
name tables are *generated* (`Gen/C16SelConst.lean`); the tests the code performs on them are real substring
tests (`'attrib' in 'prefix attribute'` is true) and the model performs the same tests (`isSub`).
Partial Python operations (`_names[val]`, `value[0]`, two-target unpacking of `split`, `context[-1]`,
`seq[index] = …`) are partial here (`Except PyErr`).

Not modelled (trusted / stated as assumptions in the harness): the tokenizer (both sides get the same token
lists); `str.lower()` beyond ASCII; line/column bookkeeping; logging.
-/
namespace CssVerif.Sel
open CssVerif.Proto
open CssVerif.Gen.C16

/-! ## Python string operations on code-point lists -/

/-- `p in s` for strings (substring test; `'' in s` is true) -/
def isSub (p : Cps) : Cps → Bool
  | [] => p.isEmpty
  | c :: t => p.isPrefixOf (c :: t) || isSub p t

def startsWith (s p : Cps) : Bool := p.isPrefixOf s
def endsWith (s p : Cps) : Bool := p.isSuffixOf s

/-- `x in (a, b, …)` for a tuple of strings -/
def elemOf (x : Cps) : List Cps → Bool
  | [] => false
  | y :: t => x == y || elemOf x t

/-- `c in s` for a single code point -/
def hasCp (c : Nat) (s : Cps) : Bool := s.contains c

/-- `s.split(sep)` for a one-character separator -/
def splitOn (sep : Nat) : Cps → List Cps
  | [] => [[]]
  | c :: t =>
    if c == sep then [] :: splitOn sep t
    else match splitOn sep t with
      | h :: r => (c :: h) :: r
      | [] => [[c]]

/-- `str.isspace` for one code point (CPython `_PyUnicode_IsWhitespace`) -/
def isPySpace (c : Nat) : Bool :=
  (9 ≤ c && c ≤ 13) || (28 ≤ c && c ≤ 32) || c == 133 || c == 160 || c == 5760 ||
  (8192 ≤ c && c ≤ 8202) || c == 8232 || c == 8233 || c == 8239 || c == 8287 || c == 12288

/-- `s.strip() == ''` -/
def isBlank (s : Cps) : Bool := s.all isPySpace

def lowerCp (c : Nat) : Nat := if 65 ≤ c && c ≤ 90 then c + 32 else c
/-- `str.lower()` on ASCII (assumption of the tie: the generated alphabets have no other cased letters) -/
def lower (s : Cps) : Cps := s.map lowerCp

def isHexCp (c : Nat) : Bool := (48 ≤ c && c ≤ 57) || (97 ≤ c && c ≤ 102) || (65 ≤ c && c ≤ 70)

/-- `re.sub(r'(\\[^0-9a-fA-F])', lambda m: m.group(0)[1:], x)` (helper.py:41-58).
The flag says that the previous character was a backslash that is still undecided. -/
def unescapeGo : Bool → Cps → Cps
  | false, [] => []
  | true, [] => [92]
  | false, c :: t => if c == 92 then unescapeGo true t else c :: unescapeGo false t
  | true, d :: t => if isHexCp d then 92 :: d :: unescapeGo false t else d :: unescapeGo false t

def unescape (x : Cps) : Cps := unescapeGo false x

/-- `helper.normalize` / `Base._normalize` (helper.py:44-61) -/
def normalize (x : Cps) : Cps := lower (unescape x)

/-- may stand unescaped anywhere in an identifier and is no hex digit: `[g-zG-Z_\u0080-\U0010ffff]` (selector.py `_unneeded_escape`) -/
def isNameCp (c : Nat) : Bool := (103 ≤ c && c ≤ 122) || (71 ≤ c && c ≤ 90) || c == 95 || 128 ≤ c

/-- `_escape(unescape, value)` of selector.py `_normalize_name`: `re.sub(r'\\(.)', …, flags=DOTALL)` scans pairs; the
backslash is dropped only before a name character (flag: an undecided backslash precedes) -/
def unescNameGo : Bool → Cps → Cps
  | false, [] => []
  | true, [] => [92]
  | false, c :: t => if c == 92 then unescNameGo true t else c :: unescNameGo false t
  | true, d :: t => if isNameCp d then d :: unescNameGo false t else 92 :: d :: unescNameGo false t

/-- selector.py `_normalize_name`: pseudo names are lower-cased and lose only unneeded backslashes -/
def normalizeName (x : Cps) : Cps := lower (unescNameGo false x)

/-- `value.replace('\\' + q, q)` (flag: an undecided backslash precedes) -/
def unquoteGo (q : Nat) : Bool → Cps → Cps
  | false, [] => []
  | true, [] => [92]
  | false, c :: t => if c == 92 then unquoteGo q true t else c :: unquoteGo q false t
  | true, d :: t =>
    if d == q then q :: unquoteGo q false t
    else if d == 92 then 92 :: unquoteGo q true t
    else 92 :: d :: unquoteGo q false t

def unquoteEsc (q : Nat) (v : Cps) : Cps := unquoteGo q false v

/-! ## Errors, tokens, items -/

inductive PyErr | keyError | indexError | valueError | typeError
deriving DecidableEq, Repr

abbrev M := Except PyErr

/-- token types: the tokenizer's productions that matter here, the six types synthesised by
`_prepare_tokens`, `EOF`, and everything else by name -/
inductive TT
  | ident | function | char | hash | string | number | dimension | s | comment | atkeyword
  | includes | dashmatch | prefixmatch | suffixmatch | substringmatch | eof
  | cls | pseudoClass | pseudoElement | negation | universal | nsPrefix
  | other (name : Cps)
deriving DecidableEq, Repr

def TT.name : TT → Cps
  | .ident => [73, 68, 69, 78, 84]                                      -- 'IDENT'
  | .function => [70, 85, 78, 67, 84, 73, 79, 78]                       -- 'FUNCTION'
  | .char => [67, 72, 65, 82]                                           -- 'CHAR'
  | .hash => [72, 65, 83, 72]                                           -- 'HASH'
  | .string => [83, 84, 82, 73, 78, 71]                                 -- 'STRING'
  | .number => [78, 85, 77, 66, 69, 82]                                 -- 'NUMBER'
  | .dimension => [68, 73, 77, 69, 78, 83, 73, 79, 78]                  -- 'DIMENSION'
  | .s => [83]                                                          -- 'S'
  | .comment => [67, 79, 77, 77, 69, 78, 84]                            -- 'COMMENT'
  | .atkeyword => [65, 84, 75, 69, 89, 87, 79, 82, 68]                  -- 'ATKEYWORD'
  | .includes => [73, 78, 67, 76, 85, 68, 69, 83]                       -- 'INCLUDES'
  | .dashmatch => [68, 65, 83, 72, 77, 65, 84, 67, 72]                  -- 'DASHMATCH'
  | .prefixmatch => [80, 82, 69, 70, 73, 88, 77, 65, 84, 67, 72]        -- 'PREFIXMATCH'
  | .suffixmatch => [83, 85, 70, 70, 73, 88, 77, 65, 84, 67, 72]        -- 'SUFFIXMATCH'
  | .substringmatch => [83, 85, 66, 83, 84, 82, 73, 78, 71, 77, 65, 84, 67, 72]  -- 'SUBSTRINGMATCH'
  | .eof => [69, 79, 70]                                                -- 'EOF'
  | .cls => [99, 108, 97, 115, 115]                                     -- 'class'
  | .pseudoClass => [112, 115, 101, 117, 100, 111, 45, 99, 108, 97, 115, 115]          -- 'pseudo-class'
  | .pseudoElement => [112, 115, 101, 117, 100, 111, 45, 101, 108, 101, 109, 101, 110, 116]  -- 'pseudo-element'
  | .negation => [110, 101, 103, 97, 116, 105, 111, 110]                -- 'negation'
  | .universal => [117, 110, 105, 118, 101, 114, 115, 97, 108]          -- 'universal'
  | .nsPrefix => [110, 97, 109, 101, 115, 112, 97, 99, 101, 95, 112, 114, 101, 102, 105, 120]  -- 'namespace_prefix'
  | .other n => n

def TT.known : List TT :=
  [.ident, .function, .char, .hash, .string, .number, .dimension, .s, .comment, .atkeyword, .includes,
   .dashmatch, .prefixmatch, .suffixmatch, .substringmatch, .eof, .cls, .pseudoClass, .pseudoElement,
   .negation, .universal, .nsPrefix]

/-- the token type with a given name (used by the driver; injective on names) -/
def TT.ofName (n : Cps) : TT :=
  match TT.known.find? (fun t => t.name == n) with
  | some t => t
  | none => .other n

structure Tok where
  typ : TT
  val : Cps
deriving DecidableEq, Repr

/-- namespace URI slot of a `(namespaceURI, name)` tuple: `None`, `cssutils._ANYNS` (-1) or a string -/
inductive Uri | none | any | uri (u : Cps)
deriving DecidableEq, Repr

/-- value of a `Seq` item: a string, a `CSSComment` (its text) or a `(namespaceURI, name)` tuple -/
inductive Val | str (s : Cps) | comment (text : Cps) | ns (u : Uri) (name : Cps)
deriving DecidableEq, Repr

structure Item where
  val : Val
  typ : Cps
deriving DecidableEq, Repr

/-! ## string literals of selector.py used by the control flow (spelling in the comment) -/
def tyPREFIX : Cps := [95, 80, 82, 69, 70, 73, 88]  -- '_PREFIX'
def tyCOMMENT : Cps := [67, 79, 77, 77, 69, 78, 84]  -- 'COMMENT'
def tyS : Cps := [83]  -- 'S'
def tyDescendant : Cps := [100, 101, 115, 99, 101, 110, 100, 97, 110, 116]  -- 'descendant'
def tyUniversal : Cps := [117, 110, 105, 118, 101, 114, 115, 97, 108]  -- 'universal'
def tyTypeSel : Cps := [116, 121, 112, 101, 45, 115, 101, 108, 101, 99, 116, 111, 114]  -- 'type-selector'
def tyNegTypeSel : Cps := [110, 101, 103, 97, 116, 105, 111, 110, 45, 116, 121, 112, 101, 45, 115, 101, 108, 101, 99, 116, 111, 114]  -- 'negation-type-selector'
def tyAttrSel : Cps := [97, 116, 116, 114, 105, 98, 117, 116, 101, 45, 115, 101, 108, 101, 99, 116, 111, 114]  -- 'attribute-selector'
def tyId : Cps := [105, 100]  -- 'id'
def tyClass : Cps := [99, 108, 97, 115, 115]  -- 'class'
def tyPseudoElement : Cps := [112, 115, 101, 117, 100, 111, 45, 101, 108, 101, 109, 101, 110, 116]  -- 'pseudo-element'
def tyNegStart : Cps := [110, 101, 103, 97, 116, 105, 111, 110, 45, 115, 116, 97, 114, 116]  -- 'negation-start'
def tyNegEnd : Cps := [110, 101, 103, 97, 116, 105, 111, 110, 45, 101, 110, 100]  -- 'negation-end'
def tyFuncEnd : Cps := [102, 117, 110, 99, 116, 105, 111, 110, 45, 101, 110, 100]  -- 'function-end'
def tyAttrStart : Cps := [97, 116, 116, 114, 105, 98, 117, 116, 101, 45, 115, 116, 97, 114, 116]  -- 'attribute-start'
def tyAttrEnd : Cps := [97, 116, 116, 114, 105, 98, 117, 116, 101, 45, 101, 110, 100]  -- 'attribute-end'
def tyAttrValue : Cps := [97, 116, 116, 114, 105, 98, 117, 116, 101, 45, 118, 97, 108, 117, 101]  -- 'attribute-value'
def tyEquals : Cps := [101, 113, 117, 97, 108, 115]  -- 'equals'
def tyPlus : Cps := [112, 108, 117, 115]  -- 'plus'
def tyMinus : Cps := [109, 105, 110, 117, 115]  -- 'minus'
def tySTRING : Cps := [83, 84, 82, 73, 78, 71]  -- 'STRING'
def cxRoot : Cps := []  -- ''
def cxAttrib : Cps := [97, 116, 116, 114, 105, 98]  -- 'attrib'
def cxNegation : Cps := [110, 101, 103, 97, 116, 105, 111, 110]  -- 'negation'
def cxPseudoDash : Cps := [112, 115, 101, 117, 100, 111, 45]  -- 'pseudo-'
def kwCombinator : Cps := [99, 111, 109, 98, 105, 110, 97, 116, 111, 114]  -- 'combinator'
def kwUniversal : Cps := [117, 110, 105, 118, 101, 114, 115, 97, 108]  -- 'universal'
def kwPrefix : Cps := [112, 114, 101, 102, 105, 120]  -- 'prefix'
def kwTypeSelector : Cps := [116, 121, 112, 101, 95, 115, 101, 108, 101, 99, 116, 111, 114]  -- 'type_selector'
def kwPseudo : Cps := [112, 115, 101, 117, 100, 111]  -- 'pseudo'
def kwValue : Cps := [118, 97, 108, 117, 101]  -- 'value'
def kwAttribute : Cps := [97, 116, 116, 114, 105, 98, 117, 116, 101]  -- 'attribute'
def kwClass : Cps := [99, 108, 97, 115, 115]  -- 'class'
def kwHASH : Cps := [72, 65, 83, 72]  -- 'HASH'
def kwAttrib : Cps := [97, 116, 116, 114, 105, 98]  -- 'attrib'
def kwNegation : Cps := [110, 101, 103, 97, 116, 105, 111, 110]  -- 'negation'
def kwEOF : Cps := [69, 79, 70]  -- 'EOF'
def sfxSelector : Cps := [45, 115, 101, 108, 101, 99, 116, 111, 114]  -- '-selector'
def sPlusMinus : Cps := [43, 45]  -- '+-'
def sCombChars : Cps := [43, 62, 126]  -- '+>~'
def sSerPunct : Cps := [43, 62, 126, 44, 58, 123, 59, 41, 93, 47, 61, 125]  -- '+>~,:{;)]/=}'
def sNotOpen : Cps := [110, 111, 116, 40]  -- 'not('

/-! the expected-strings built by concatenation in the callbacks -/
def eSSS : Cps := c_simple_selector_sequence
def eSSSC : Cps := c_simple_selector_sequence ++ c_combinator
def eSSS2C : Cps := c_simple_selector_sequence2 ++ c_combinator

/-! ## `Selector._prepare_tokens` (selector.py:765-854)

`out` is the list `tokens` built so far, **reversed** (head = `tokens[-1]`). -/
def prepStep (out : List Tok) (t : Tok) : List Tok :=
  match out with
  | [] =>
    -- every `… and tokens and …` branch is off
    if t.val == [42] then ⟨.universal, t.val⟩ :: out                      -- :830
    else if t.val == [124] then ⟨.nsPrefix, t.val⟩ :: out                 -- :847
    else t :: out                                                         -- :852
  | last :: rest =>
    let lv := last.val
    if t.val == [58] && lv == [58] then
      ⟨t.typ, [58, 58]⟩ :: rest                                           -- :778-780 "::"
    else if t.typ == .ident && lv == [46] then
      ⟨.cls, 46 :: t.val⟩ :: rest                                         -- :782-784
    else if t.typ == .ident && startsWith lv [58] && !(endsWith lv [40]) then   -- :785-796
      ⟨if startsWith lv [58, 58] then .pseudoElement else .pseudoClass, lv ++ t.val⟩ :: rest
    else if t.typ == .function && normalize t.val == sNotOpen && lv == [58] then  -- :798-804
      ⟨.negation, 58 :: t.val⟩ :: rest
    else if t.typ == .function && startsWith lv [58] then                 -- :805-815
      ⟨if startsWith lv [58, 58] then .pseudoElement else .pseudoClass, lv ++ t.val⟩ :: rest
    else if t.val == [42] && last.typ == .nsPrefix && endsWith lv [124] then    -- :817-829
      ⟨.universal, lv ++ t.val⟩ :: rest
    else if t.val == [42] then                                            -- :830-832
      ⟨.universal, t.val⟩ :: out
    else if t.val == [124] && (last.typ == .ident || last.typ == .universal) && !(hasCp 124 lv) then  -- :834-846
      ⟨.nsPrefix, lv ++ [124]⟩ :: rest
    else if t.val == [124] then                                           -- :847-849
      ⟨.nsPrefix, t.val⟩ :: out
    else t :: out                                                         -- :851-852

def prepAcc (out : List Tok) (toks : List Tok) : List Tok := toks.foldl prepStep out

def prepare (toks : List Tok) : List Tok := (prepAcc [] toks).reverse

/-! ## the `New` state -/

abbrev NsMap := List (Cps × Cps)

/-- `dict.get(k)` on an association list with unique keys -/
def nsGet (ns : NsMap) (k : Cps) : Option Cps := ns.lookup k

structure St where
  /-- `context` stack, head = `context[-1]` -/
  ctx : List Cps := [cxRoot]
  element : Option Val := none
  pfx : Option Cps := none
  /-- `specificity[1..3]` (`specificity[0]` is never written) -/
  b : Nat := 0
  c : Nat := 0
  d : Nat := 0
  /-- `new.wellformed and` the local `wellformed` of `_parse` (each is only ever set to False) -/
  wf : Bool := true
  /-- `seq`, reversed (head = `seq[-1]`) -/
  rseq : List Item := []
  expected : Cps := eSSS
deriving Repr

def top (st : St) : M Cps :=
  match st.ctx with
  | c :: _ => pure c
  | [] => throw .indexError        -- `self.context[-1]` on an empty list

/-- `'[' == val`, `seq[-1].value == Constants.S`: equality of an item value with a string -/
def Val.isStr (v : Val) (s : Cps) : Bool :=
  match v with
  | .str x => x == s
  | _ => false

/-! `New.append` (selector.py:66-147), in four parts -/

/-- :90-97 which prefix applies: the saved `_PREFIX`, or the part before `|` of a `universal` value -/
def takePrefix (pfx : Option Cps) (val : Val) (typ : Cps) : M (Option Cps × Val) :=
  match pfx with
  | some p => pure (some p, val)
  | none =>
    match val with
    | .str s =>
      if typ == tyUniversal && hasCp 124 s then
        match splitOn 124 s with
        | [p, v] => pure (some p, .str v)
        | _ => throw .valueError                                          -- `prefix, val = val.split('|')`
      else pure (none, val)
    | _ => pure (none, val)

/-- `not prefix` -/
def noPrefix (prefix? : Option Cps) : Bool :=
  match prefix? with
  | none => true
  | some p => p.isEmpty

/-- :100-102 does the value become a `(namespaceURI, name)` tuple? -/
def needsNs (typ : Cps) (prefix? : Option Cps) : Bool :=
  (endsWith typ sfxSelector || typ == tyUniversal) && !(typ == tyAttrSel && noPrefix prefix?)

/-- :104-117 the namespace URI for a prefix; `none` = the prefix is not declared (:119-126) -/
def resolveNs (ns : NsMap) (prefix? : Option Cps) : Option Uri :=
  match prefix? with
  | none => some (match nsGet ns [] with | some u => .uri u | none => .none)
  | some p =>
    if p == [42] then some .any
    else if p.isEmpty then some (.uri [])
    else match nsGet ns p with
      | some u => some (.uri u)
      | none => none

/-- :132 `not context or context == 'negation'` -/
def countsIn (context : Cps) : Bool := context.isEmpty || context == cxNegation

def incB (context typ : Cps) : Nat :=                                     -- :133-134
  if countsIn context && typ == tyId then 1 else 0
def incC (context typ : Cps) (val : Val) : Nat :=                         -- :135-136
  if countsIn context && !(typ == tyId) && (typ == tyClass || val.isStr [91]) then 1 else 0
def incD (context typ : Cps) (val : Val) : Nat :=                         -- :137-142
  if countsIn context && !(typ == tyId) && !(typ == tyClass || val.isStr [91]) && elemOf typ dTypes then 1 else 0

/-- :131-147 count, set `element`, append the item -/
def pushItem (context : Cps) (st : St) (val : Val) (typ : Cps) : St :=
  { st with
    b := st.b + incB context typ
    c := st.c + incC context typ val
    d := st.d + incD context typ val
    element := if context.isEmpty && (typ == tyTypeSel || typ == tyUniversal) then some val else st.element
    rseq := ⟨val, typ⟩ :: st.rseq }

/-- `New.append` (selector.py:66-147). `val` is a string except for comments. -/
def append (ns : NsMap) (st : St) (val : Val) (typ : Cps) : M St := do
  let context ← top st                                                    -- :78
  if typ == tyPREFIX then                                                 -- :84-88
    match val with
    | .str s => pure { st with pfx := some s.dropLast }
    | _ => throw .typeError
  else if typ == tyCOMMENT then                                           -- :108-111 the saved prefix stays
    pure { st with rseq := ⟨val, typ⟩ :: st.rseq }
  else do
    let pv ← takePrefix st.pfx val typ                                    -- :113-120
    let st := { st with pfx := none }
    if needsNs typ pv.1 then                                              -- :100-129
      match pv.2 with
      | .str name =>
        match resolveNs ns pv.1 with
        | some u => pure (pushItem context st (.ns u name) typ)
        | none => pure { st with wf := false }                            -- unknown prefix: `return`
      | v => pure (pushItem context st v typ)
    else pure (pushItem context st pv.2 typ)

def fail (st : St) : M St := pure { st with wf := false }

def has (kw : Cps) (st : St) : Bool := isSub kw st.expected

/-- `context.startswith('pseudo-')` -/
def isPseudoCtx (c : Cps) : Bool := startsWith c cxPseudoDash

/-- `seq[-1].value == Constants.S` (false on an empty seq) -/
def lastIsS (st : St) : Bool :=
  match st.rseq with
  | it :: _ => it.val.isStr c_S
  | [] => false

/-- `seq.replace(-1, val, typ)` -/
def replaceLast (st : St) (it : Item) : St := { st with rseq := it :: st.rseq.drop 1 }

def cbCOMMENT (ns : NsMap) (st : St) (t : Tok) : M St :=                  -- :149-152
  append ns st (.comment t.val) tyCOMMENT

def cbS (ns : NsMap) (st : St) (_t : Tok) : M St := do                    -- :154-168
  let context ← top st
  if isPseudoCtx context then
    match st.rseq with
    | it :: _ => if !(it.typ == tyPlus || it.typ == tyMinus) then append ns st (.str c_S) tyS else pure st
    | [] => pure st
  else if context != cxAttrib && has kwCombinator st then
    let st ← append ns st (.str c_S) tyDescendant
    pure { st with expected := eSSSC }
  else pure st

def cbUniversal (ns : NsMap) (st : St) (t : Tok) : M St := do             -- :170-185
  let context ← top st
  if has kwUniversal st then
    let st ← append ns st (.str t.val) tyUniversal
    if context == cxNegation then pure { st with expected := c_negationend }
    else pure { st with expected := eSSS2C }
  else fail st

def cbNsPrefix (ns : NsMap) (st : St) (t : Tok) : M St := do              -- :187-203
  let context ← top st
  if context == cxAttrib && has kwPrefix st then
    let st ← append ns st (.str t.val) tyPREFIX
    pure { st with expected := c_attname2 }
  else if has kwTypeSelector st then
    let st ← append ns st (.str t.val) tyPREFIX
    pure { st with expected := c_element_name }
  else fail st

def cbPseudo (ns : NsMap) (st : St) (t : Tok) : M St := do                -- :205-242
  let context ← top st
  let val := normalizeName t.val
  let typ := t.typ.name
  if has kwPseudo st then
    let typ := if elemOf val legacyPseudoElements then tyPseudoElement else typ
    let st ← append ns st (.str val) typ
    if endsWith val [40] then
      pure { st with ctx := typ :: st.ctx, expected := c_expressionstart }
    else if context == cxNegation then pure { st with expected := c_negationend }
    else if typ == tyPseudoElement then pure { st with expected := c_combinator }
    else pure { st with expected := eSSS2C }
  else fail st

def cbExpression (ns : NsMap) (st : St) (t : Tok) : M St := do            -- :244-254
  let context ← top st
  if isPseudoCtx context then
    let st ← append ns st (.str t.val) t.typ.name
    pure { st with expected := c_expression }
  else fail st

def cbAttcombinator (ns : NsMap) (st : St) (t : Tok) : M St := do         -- :256-269
  let context ← top st
  if context == cxAttrib && has kwCombinator st then
    let st ← append ns st (.str t.val) (lower t.typ.name)
    pure { st with expected := c_attvalue }
  else fail st

/-- `Base._stringtokenvalue` (util.py:241-252) -/
def stringTokenValue (v : Cps) : M Cps :=
  match v with
  | q :: _ => pure ((unquoteEsc q v).drop 1).dropLast
  | [] => throw .indexError                                               -- `value[0]`

def cbString (ns : NsMap) (st : St) (t : Tok) : M St := do                -- :271-291
  let context ← top st
  let val ← stringTokenValue t.val
  let typ := t.typ.name
  if context == cxAttrib && has kwValue st then
    let st ← append ns st (.str val) typ
    pure { st with expected := c_attend }
  else if isPseudoCtx context then
    let st ← append ns st (.str val) typ
    pure { st with expected := c_expression }
  else fail st

def cbIdent (ns : NsMap) (st : St) (t : Tok) : M St := do                 -- :293-329
  let context ← top st
  if context == cxAttrib && has kwAttribute st then
    let st ← append ns st (.str t.val) tyAttrSel
    pure { st with expected := c_attcombinator }
  else if context == cxAttrib && has kwValue st then
    let st ← append ns st (.str t.val) tyAttrValue
    pure { st with expected := c_attend }
  else if context == cxNegation then
    let st ← append ns st (.str t.val) tyNegTypeSel
    pure { st with expected := c_negationend }
  else if isPseudoCtx context then
    let st ← append ns st (.str t.val) t.typ.name
    pure { st with expected := c_expression }
  else if has kwTypeSelector st || st.expected == c_element_name then
    let st ← append ns st (.str t.val) tyTypeSel
    pure { st with expected := eSSS2C }
  else fail st

def cbClass (ns : NsMap) (st : St) (t : Tok) : M St := do                 -- :331-346
  let context ← top st
  if has kwClass st then
    let st ← append ns st (.str t.val) tyClass
    if context == cxNegation then pure { st with expected := c_negationend }
    else pure { st with expected := eSSS2C }
  else fail st

def cbHash (ns : NsMap) (st : St) (t : Tok) : M St := do                  -- :348-363
  let context ← top st
  if has kwHASH st then
    let st ← append ns st (.str t.val) tyId
    if context == cxNegation then pure { st with expected := c_negationend }
    else pure { st with expected := eSSS2C }
  else fail st

/-- `_names[val]` -/
def nameOf (tab : List (Cps × Cps)) (val : Cps) : M Cps :=
  match tab.lookup val with
  | some n => pure n
  | none => throw .keyError

def cbChar (ns : NsMap) (st : St) (t : Tok) : M St := do                  -- :365-449
  let context ← top st
  let val := t.val
  if val == [93] && context == cxAttrib && isSub [93] st.expected then    -- :371-379
    let st ← append ns st (.str val) tyAttrEnd
    let st := { st with ctx := st.ctx.drop 1 }
    let context ← top st
    if context == cxNegation then pure { st with expected := c_negationend }
    else pure { st with expected := eSSS2C }
  else if val == [61] && context == cxAttrib && has kwCombinator st then  -- :381-384
    let st ← append ns st (.str val) tyEquals
    pure { st with expected := c_attvalue }
  else if val == [41] && context == cxNegation && isSub [41] st.expected then  -- :387-392
    let st ← append ns st (.str val) tyNegEnd
    let st := { st with ctx := st.ctx.drop 1 }
    let _ ← top st
    pure { st with expected := eSSSC }
  else if isSub val sPlusMinus && isPseudoCtx context then                -- :395-402
    let name ← nameOf namesPlusMinus val
    if val == [43] && lastIsS st then
      pure { replaceLast st ⟨.str val, name⟩ with expected := c_expression }
    else
      let st ← append ns st (.str val) name
      pure { st with expected := c_expression }
  else if val == [41] && isPseudoCtx context && c_expression == st.expected then  -- :404-415
    let st ← append ns st (.str val) tyFuncEnd
    let st := { st with ctx := st.ctx.drop 1 }
    let below ← top st                                                    -- `self.context[-1]` after the pop
    if below == cxNegation then pure { st with expected := c_negationend }
    else if context == tyPseudoElement then pure { st with expected := c_combinator }
    else pure { st with expected := eSSSC }
  else if val == [91] && has kwAttrib st then                             -- :418-422
    let st ← append ns st (.str val) tyAttrStart
    pure { st with ctx := cxAttrib :: st.ctx, expected := c_attname }
  else if isSub val sCombChars && has kwCombinator st then                -- :424-435
    if lastIsS st then
      let name ← nameOf namesCombinator val
      pure { replaceLast st ⟨.str val, name⟩ with expected := eSSS }
    else
      let name ← nameOf namesCombinator val
      let st ← append ns st (.str val) name
      pure { st with expected := eSSS }
  else fail st                                                            -- :437-449 (',' and anything else)

def cbNegation (ns : NsMap) (st : St) (t : Tok) : M St := do              -- :451-461
  let val := normalizeName t.val
  if has kwNegation st then
    let st := { st with ctx := cxNegation :: st.ctx }
    let st ← append ns st (.str val) tyNegStart
    pure { st with expected := c_negation_arg }
  else fail st

def cbAtkeyword (_ns : NsMap) (st : St) (_t : Tok) : M St := fail st      -- :463-467

/-- callbacks of `New`, by method name -/
inductive Cb
  | char | cls | hash | string | ident | nsPrefix | negation | pseudo | universal | expression
  | attcombinator | s | comment | atkeyword
deriving DecidableEq, Repr

def Cb.methodName : Cb → Cps
  | .char => [95, 99, 104, 97, 114]                                       -- '_char'
  | .cls => [95, 99, 108, 97, 115, 115]                                   -- '_class'
  | .hash => [95, 104, 97, 115, 104]                                      -- '_hash'
  | .string => [95, 115, 116, 114, 105, 110, 103]                         -- '_string'
  | .ident => [95, 105, 100, 101, 110, 116]                               -- '_ident'
  | .nsPrefix => [95, 110, 97, 109, 101, 115, 112, 97, 99, 101, 95, 112, 114, 101, 102, 105, 120]  -- '_namespace_prefix'
  | .negation => [95, 110, 101, 103, 97, 116, 105, 111, 110]              -- '_negation'
  | .pseudo => [95, 112, 115, 101, 117, 100, 111]                         -- '_pseudo'
  | .universal => [95, 117, 110, 105, 118, 101, 114, 115, 97, 108]        -- '_universal'
  | .expression => [95, 101, 120, 112, 114, 101, 115, 115, 105, 111, 110] -- '_expression'
  | .attcombinator => [95, 97, 116, 116, 99, 111, 109, 98, 105, 110, 97, 116, 111, 114]  -- '_attcombinator'
  | .s => [95, 83]                                                        -- '_S'
  | .comment => [95, 67, 79, 77, 77, 69, 78, 84]                          -- '_COMMENT'
  | .atkeyword => [95, 97, 116, 107, 101, 121, 119, 111, 114, 100]        -- '_atkeyword'

def Cb.all : List Cb :=
  [.char, .cls, .hash, .string, .ident, .nsPrefix, .negation, .pseudo, .universal, .expression,
   .attcombinator, .s, .comment, .atkeyword]

/-- `prods.get(token[0])`: the generated `New.productions` table, by token-type name -/
def dispatch (typ : TT) : Option Cb :=
  match productions.lookup typ.name with
  | some m => Cb.all.find? (fun c => c.methodName == m)
  | none => none

def runCb (cb : Cb) (ns : NsMap) (st : St) (t : Tok) : M St :=
  match cb with
  | .char => cbChar ns st t
  | .cls => cbClass ns st t
  | .hash => cbHash ns st t
  | .string => cbString ns st t
  | .ident => cbIdent ns st t
  | .nsPrefix => cbNsPrefix ns st t
  | .negation => cbNegation ns st t
  | .pseudo => cbPseudo ns st t
  | .universal => cbUniversal ns st t
  | .expression => cbExpression ns st t
  | .attcombinator => cbAttcombinator ns st t
  | .s => cbS ns st t
  | .comment => cbCOMMENT ns st t
  | .atkeyword => cbAtkeyword ns st t

/-- one iteration of the loop of `Base._parse` (util.py:484-490) -/
def step (ns : NsMap) (st : St) (t : Tok) : M St :=
  match dispatch t.typ with
  | some cb => runCb cb ns st t
  | none =>
    if t.typ == .eof then pure { st with expected := kwEOF }              -- default production EOF (util.py:549)
    else fail st                                                          -- no production: wellformed = False

def run (ns : NsMap) (st : St) : List Tok → M St
  | [] => pure st
  | t :: ts => do
    let st ← step ns st t
    run ns st ts

/-! ## post-conditions and commit (selector.py:728-763) -/

/-- a committed selector: what `Selector` holds after a successful `_setSelectorText` -/
structure SelRec where
  b : Nat
  c : Nat
  d : Nat
  seq : List Item
  element : Option Val
  /-- `__namespaces` after the filter `_getUsedNamespaces` -/
  nsUsed : NsMap
deriving DecidableEq, Repr

/-- `_getUsedUris` (selector.py:625-637): the URI strings of the `*-selector` / `universal` items whose value is a
`(namespaceURI, name)` pair with a real URI (not `None`, not the any-namespace marker) -/
def usedUris : List Item → M (List Uri)
  | [] => pure []
  | it :: r => do
    let rest ← usedUris r
    if endsWith it.typ sfxSelector || it.typ == tyUniversal then
      match it.val with
      | .ns (.uri u) _ => pure (.uri u :: rest)
      | _ => pure rest
    else pure rest

def usedNamespaces (ns : NsMap) (seq : List Item) : M NsMap := do
  let uris ← usedUris seq
  pure (ns.filter fun pu => uris.contains (.uri pu.2))

/-- what the post-conditions (selector.py:728-754) let through: counts, `seq`, `element` -/
structure SelCore where
  b : Nat
  c : Nat
  d : Nat
  seq : List Item
  element : Option Val
deriving DecidableEq, Repr

/-- the four post-conditions and the removal of a trailing blank item; `none` = not wellformed -/
def finishCore (st : St) : Option SelCore :=
  let wf := st.wf
  let wf := if st.ctx.length > 1 || st.rseq.isEmpty then false else wf   -- :729
  let wf := if st.expected == c_element_name then false else wf          -- :736
  let wf := if st.expected == eSSS && !st.rseq.isEmpty then false else wf  -- :742
  let rseq :=                                                            -- :749-754
    match st.rseq with
    | it :: r => (match it.val with
        | .str s => if isBlank s then r else st.rseq
        | _ => st.rseq)
    | [] => []
  if wf then some { b := st.b, c := st.c, d := st.d, seq := rseq.reverse, element := st.element } else none

/-- `_prepare_tokens`, `_parse`, post-conditions -/
def parseCore (ns : NsMap) (toks : List Tok) : M (Option SelCore) := do
  let st ← run ns {} (prepare toks)
  pure (finishCore st)

/-- the commit (selector.py:757-763): `none` = rejected (nothing set) -/
def commit (ns : NsMap) (r : Option SelCore) : M (Option SelRec) :=
  match r with
  | some r => do
    let used ← usedNamespaces ns r.seq
    pure (some { b := r.b, c := r.c, d := r.d, seq := r.seq, element := r.element, nsUsed := used })
  | none => pure none

/-- `Selector((tokens, namespaces))` on a fresh selector.
An empty token list is "No selectorText given" (selector.py:709-711). -/
def parseSel (ns : NsMap) (toks : List Tok) : M (Option SelRec) :=
  if toks.isEmpty then pure none
  else do
    let r ← parseCore ns toks
    commit ns r

/-! ## serialisation of a selector (serialize.py:833-874, Out.append 200-307, Out.value 309-315)

default preferences: keepComments = True, spacer = ' ', selectorCombinatorSpacer = ' ', listItemSpacer = ' '.
`out` is `Out.out` reversed. -/

def removeLastIfS (out : List Cps) : List Cps :=                          -- :195-198
  match out with
  | h :: t => if isBlank h then t else out
  | [] => []

/-- `helper.string` (helper.py:75-92) -/
def helperString (v : Cps) : Cps :=
  let esc := v.flatMap fun c =>
    if c == 10 then [92, 97, 32] else if c == 13 then [92, 100, 32] else if c == 12 then [92, 99, 32]
    else if c == 34 then [92, 34] else [c]
  let esc := if endsWith esc [92] then esc ++ [92] else esc
  [34] ++ esc ++ [34]

def tyChild : Cps := [99, 104, 105, 108, 100]  -- 'child'
def tyAdjSibling : Cps := [97, 100, 106, 97, 99, 101, 110, 116, 45, 115, 105, 98, 108, 105, 110, 103]  -- 'adjacent-sibling'
def tyFolSibling : Cps := [102, 111, 108, 108, 111, 119, 105, 110, 103, 45, 115, 105, 98, 108, 105, 110, 103]  -- 'following-sibling'

/-- `Out.append(val, type_, space=False, keepS=keepS)` for a string / comment value -/
def outAppend (out : List Cps) (val : Cps) (isComment : Bool) (typ : Cps) (keepS : Bool) : List Cps :=
  if !(!val.isEmpty || isComment || typ == tySTRING) then out             -- :227 (`'URI'` never occurs here)
  else
    -- PRE :229-257
    let go (out : List Cps) (val : Cps) : List Cps :=
      -- APPEND :268-273
      let out := if endsWith val [32] && !(endsWith val [92, 32]) then removeLastIfS out else out   -- :271
      let out := val :: out
      -- POST :276-307 (space=False, alwaysS=False)
      if isSub val sCombChars then
        let sp : Cps := [32]    -- selectorCombinatorSpacer for the four types, ' ' otherwise: both ' ' at the defaults
        match out with
        | v :: r => sp :: v :: sp :: r                                    -- insert(-1, sp); append(sp)
        | [] => [sp]
      else if val == [41] && !keepS then [32] :: out
      else if val == [44] then [32] :: out                                -- listItemSpacer
      else if val == [58] then [32] :: out                                -- propertyNameSpacer ' ' (default)
      else if val == [123] then                                           -- paranthesisSpacer ' ', lineSeparator '\n'
        match out with
        | v :: r => [10] :: v :: [32] :: r
        | [] => [[10]]
      else if val == [59] then [10] :: out                                -- lineSeparator
      else out
    if typ == tyCOMMENT then go out val                                   -- keepComments: val.cssText
    else if typ == tyS && !keepS then out
    else if typ == tyS && keepS then go out [32]
    else if typ == tySTRING then go out (helperString val)                -- spacer ' ' is truthy: no _remove_last_if_S
    else
      let out := if isSub val sSerPunct then removeLastIfS out else out
      go out val

/-- `prefixForNamespaceURI` (util.py:848-855), `IndexError` → `''` -/
def prefixFor (ns : NsMap) (u : Cps) : Cps :=
  match ns.find? (fun pu => pu.2 == u) with
  | some pu => pu.1
  | none => []

/-- `do_css_Selector` with `selector._namespaces = ns` -/
def serItems (ns : NsMap) (seq : List Item) : Cps :=
  if seq.isEmpty then []
  else
    let dflt := nsGet ns []
    let out := seq.foldl (fun out it =>
      match it.val with
      | .ns u name =>
        let plain := match dflt, u with
          | none, .none => true
          | some x, .uri y => x == y
          | some x, .none => x.isEmpty
          | _, _ => false
        if plain then outAppend out name false it.typ false
        else
          let p := match u with
            | .any => [42]
            | .uri y => prefixFor ns y
            | .none => []                 -- no prefix has the URI `None`: IndexError → ''
          outAppend out (p ++ [124] ++ name) false it.typ false
      | .str s => outAppend out s false it.typ true
      | .comment s => outAppend out s true it.typ true) []
    (removeLastIfS out).reverse.flatten

def SelRec.text (r : SelRec) : Cps := serItems r.nsUsed r.seq

/-! ## SelectorList (selectorlist.py) -/

/-! `Base._tokensupto2(tokenizer, listseponly=True)` (util.py:270-388); the counters (util.py:353-365) -/
def cntBrace (brace : Int) (v : Cps) : Int :=
  if v == [123] then brace + 1 else if v == [125] then brace - 1 else brace
def cntBracket (bracket : Int) (v : Cps) : Int :=
  if v == [123] || v == [125] then bracket
  else if v == [91] then bracket + 1 else if v == [93] then bracket - 1 else bracket
def cntParant (parant : Int) (t : Tok) : Int :=
  if t.val == [123] || t.val == [125] || t.val == [91] || t.val == [93] then parant
  else if t.val == [40] || t.typ == .function then parant + 1
  else if t.val == [41] then parant - 1 else parant

/-- returns (chunk, rest) -/
def uptoComma (brace bracket parant : Int) (acc : List Tok) : List Tok → List Tok × List Tok
  | [] => (acc.reverse, [])
  | t :: ts =>
    if t.typ == .eof then ((t :: acc).reverse, ts)                        -- :349-351
    else if cntBrace brace t.val == 0 && cntBracket bracket t.val == 0 && cntParant parant t == 0
        && isSub t.val [44] then ((t :: acc).reverse, ts)                 -- :369-372
    else uptoComma (cntBrace brace t.val) (cntBracket bracket t.val) (cntParant parant t) (t :: acc) ts

/-- state of `expected` in `SelectorList._setSelectorText`: `True` initially, the popped comma token, or `None` -/
inductive ListExp | initial | comma | none
deriving DecidableEq, Repr

/-- `self._tokenvalue(selectortokens[-1]) == ','` (selectorlist.py:194) -/
def lastIsComma (chunk : List Tok) : Bool :=
  match chunk.getLast? with
  | some t => t.val == [44]
  | none => false

/-- the `while True` loop (selectorlist.py:190-209); `fuel` ≥ number of tokens + 1 is enough -/
def listLoop (ns : NsMap) : Nat → List Tok → ListExp → Bool → List SelRec → M (ListExp × Bool × List SelRec)
  | 0, _, e, wf, acc => pure (e, wf, acc.reverse)
  | fuel + 1, toks, e, wf, acc =>
    match uptoComma 0 0 0 [] toks with
    | ([], _) => pure (e, wf, acc.reverse)
    | (chunk, rest) =>
      let seltoks := if lastIsComma chunk then chunk.dropLast else chunk
      let e := if lastIsComma chunk then ListExp.comma else ListExp.none
      do
        let r ← parseSel ns seltoks
        match r with
        | some s => listLoop ns fuel rest e wf (s :: acc)
        | none => listLoop ns fuel rest e false acc

/-- `SelectorList._setSelectorText` on tokens: `none` = rejected (the list keeps its old value) -/
def parseList (ns : NsMap) (toks : List Tok) : M (Option (List SelRec)) := do
  let (e, wf, sels) ← listLoop ns (toks.length + 1) toks .initial true []
  -- `',' == expected` is never true (expected is a token tuple); any truthy `expected` is "Unknown Syntax"
  let wf := if e != .none then false else wf
  pure (if wf then some sels else none)

/-- `dict.update` on association lists with unique keys (insertion order kept) -/
def dictUpdate (d upd : NsMap) : NsMap :=
  upd.foldl (fun d kv =>
    if d.any (fun x => x.1 == kv.1) then d.map (fun x => if x.1 == kv.1 then kv else x) else d ++ [kv]) d

/-- `SelectorList._namespaces` when not attached to a sheet (selectorlist.py:89-92) -/
def listNamespaces (l : List SelRec) : NsMap := l.foldl (fun d s => dictUpdate d s.nsUsed) []

/-- `SelectorList.appendSelector((tokens, namespaces))` (selectorlist.py:113-154) -/
def appendSel (l : List SelRec) (ns : NsMap) (toks : List Tok) : M (List SelRec) := do
  let nsAll := dictUpdate (listNamespaces l) ns
  let r ← parseSel nsAll toks
  match r with
  | some s => pure (l.filter (fun x => x.text != s.text) ++ [s])
  | none => pure l

/-- Python list index normalisation for `seq[i] = x` / `del seq[i]` -/
def pyIndex (n : Nat) (i : Int) : M Nat :=
  if 0 ≤ i then (if i.toNat < n then pure i.toNat else throw .indexError)
  else if (-i).toNat ≤ n then pure (n - (-i).toNat) else throw .indexError

/-- `selectorList[i] = tokens` (selectorlist.py:62-69): given namespaces are `{}` -/
def setItem (l : List SelRec) (i : Int) (toks : List Tok) : M (List SelRec) := do
  let r ← parseSel [] toks
  match r with
  | some s => do
    let k ← pyIndex l.length i
    pure (l.set k s)
  | none => pure l

/-- `del selectorList[i]` -/
def delItem (l : List SelRec) (i : Int) : M (List SelRec) := do
  let k ← pyIndex l.length i
  pure (l.eraseIdx k)

/-- `do_css_SelectorList` (serialize.py:818-831) -/
def listText (l : List SelRec) : Cps :=
  match l with
  | [] => []
  | s :: r => r.foldl (fun acc x => acc ++ [44, 32] ++ x.text) s.text

end CssVerif.Sel
