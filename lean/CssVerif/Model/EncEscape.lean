/-!
# K6 — `escapecss` (serialize.py:13-27) and the tokenizer's `unicodesub` / `stringsub` (tokenize2.py:30-37, 117-133, 218-240)

* `escape rep text` — what `text.encode(enc, 'escapecss')` writes, seen before the inner codec turns characters
  into bytes: every character the encoding cannot represent (`rep c = false`) becomes
  backslash, upper-case hex digits of the code point without leading zeros, one space (`r'\%s ' % hex(ord(x))[2:].upper()`).
* `unescape text` — what `Tokenizer.unicodesub(_repl, text)` makes of a token text (current tree, i.e. with
  `\\` matched first as a unit and code point 5C resolved to `\\`): written here as an independent
  character-level scanner (a finite-state transducer), not as a regular-expression substitution.

Code points are `Nat`.
-/
namespace CssVerif.EncEscape

/-- `'0'..'9','A'..'F'` for a value < 16 -/
def hexDigit (d : Nat) : Nat := if d < 10 then 0x30 + d else 0x37 + d

/-- digits of `n` in base 16, most significant first; `fuel` bounds the number of divisions -/
def hexDigitsF : Nat → Nat → List Nat
  | 0, n => [hexDigit (n % 16)]
  | fuel + 1, n => if n < 16 then [hexDigit n] else hexDigitsF fuel (n / 16) ++ [hexDigit (n % 16)]

/-- `hex(n)[2:].upper()` (fuel `n` is always enough: `Lemmas/EncEscape.hexDigitsF_fuel`) -/
def hexDigits (n : Nat) : List Nat := hexDigitsF n n

/-- the replacement of one unencodable character (`serialize.py:22-24`) -/
def escChar (c : Nat) : List Nat := 0x5C :: hexDigits c ++ [0x20]

/-- `text.encode(enc, 'escapecss')` before the bytes: `rep` tells which characters `enc` can represent -/
def escape (rep : Nat → Bool) : List Nat → List Nat
  | [] => []
  | c :: t => if rep c then c :: escape rep t else escChar c ++ escape rep t

/-- value of a hex digit character (`[0-9a-fA-F]`) -/
def hexVal? (c : Nat) : Option Nat :=
  if 0x30 ≤ c ∧ c ≤ 0x39 then some (c - 0x30)
  else if 0x41 ≤ c ∧ c ≤ 0x46 then some (c - 0x37)
  else if 0x61 ≤ c ∧ c ≤ 0x66 then some (c - 0x57)
  else none

/-- `sys.maxunicode` -/
def maxUnicode : Nat := 0x10FFFF

/-- `_repl` for a hex escape with value `num` and matched text `raw` (`tokenize2.py:118-126`) -/
def repl (num : Nat) (raw : List Nat) : List Nat :=
  if num = 0x5C then [0x5C, 0x5C]
  else if num ≤ maxUnicode then [num]
  else raw

/-- scanner states -/
inductive St where
  | norm                                   -- between matches
  | bs                                     -- a backslash has been read, nothing decided yet
  | hex (num k : Nat) (raw : List Nat)     -- inside `\[0-9a-fA-F]{1,6}`: value, digits so far, text matched so far
  | cr (num : Nat) (raw : List Nat)        -- the escape was ended by CR: a directly following LF belongs to it too
  | cont                                   -- string mode: backslash CR read (a line continuation); a following LF belongs to it
deriving DecidableEq, Repr, Inhabited

/-- one character in state `norm` -/
def stepNorm (c : Nat) : St × List Nat :=
  if c = 0x5C then (.bs, []) else (.norm, [c])

/-- what a finished hex escape does with the character after its digits -/
def endHex (num : Nat) (raw : List Nat) (c : Nat) : St × List Nat :=
  if c = 0x0D then (.cr num raw, [])
  else if c = 0x20 ∨ c = 0x09 ∨ c = 0x0A ∨ c = 0x0C then (.norm, repl num (raw ++ [c]))
  else ((stepNorm c).1, repl num raw ++ (stepNorm c).2)

/-- one step of the scanner: new state and output. `str` = the pattern `stringsub` used for STRING, INVALID and URI
tokens (`tokenize2.py:32-37,231-235`): a line continuation (backslash + CRLF / LF / CR / FF) is removed in the same pass;
`str = false` is `unicodesub`, used for DIMENSION, IDENT, HASH, FUNCTION, UNICODE-RANGE. -/
def step (str : Bool) (s : St) (c : Nat) : St × List Nat :=
  match s with
  | .norm => stepNorm c
  | .bs =>
    if c = 0x5C then (.norm, [0x5C, 0x5C])                      -- `\\` is a unit and stays
    else if str && (c == 0x0A || c == 0x0C) then (.norm, [])   -- line continuation: removed
    else if str && c == 0x0D then (.cont, [])
    else match hexVal? c with
      | some v => (.hex v 1 [0x5C, c], [])
      | none => (.norm, [0x5C, c])                              -- a simple escape stays as it is
  | .hex num k raw =>
    match hexVal? c with
    | some v => if k < 6 then (.hex (num * 16 + v) (k + 1) (raw ++ [c]), []) else endHex num raw c
    | none => endHex num raw c
  | .cr num raw =>
    if c = 0x0A then (.norm, repl num (raw ++ [0x0D, 0x0A]))
    else ((stepNorm c).1, repl num (raw ++ [0x0D]) ++ (stepNorm c).2)
  | .cont =>
    if c = 0x0A then (.norm, []) else stepNorm c

/-- end of the text -/
def flush : St → List Nat
  | .norm => []
  | .bs => [0x5C]
  | .hex num _ raw => repl num raw
  | .cr num raw => repl num (raw ++ [0x0D])
  | .cont => []

/-- run the scanner from state `s` -/
def run (str : Bool) : St → List Nat → List Nat
  | s, [] => flush s
  | s, c :: t => (step str s c).2 ++ run str (step str s c).1 t

/-- `Tokenizer.unicodesub(_repl, text)`: the value of a DIMENSION, IDENT, HASH, FUNCTION, UNICODE-RANGE token -/
def unescape (text : List Nat) : List Nat := run false .norm text

/-- `Tokenizer.stringsub(_repl, text)`: the value of a STRING, INVALID, URI token -/
def unescapeStr (text : List Nat) : List Nat := run true .norm text

/-- the guard of the round-trip theorem, computed by the same scanner: no character that has to be escaped comes
directly after a backslash that is itself not escaped (scanner state `bs`) -/
def okFrom (rep : Nat → Bool) (str : Bool) : St → List Nat → Bool
  | _, [] => true
  | s, c :: t => (rep c || !(s == .bs)) && okFrom rep str (step str s c).1 t

def ok (rep : Nat → Bool) (text : List Nat) : Bool := okFrom rep false .norm text

def okStr (rep : Nat → Bool) (text : List Nat) : Bool := okFrom rep true .norm text

/-- how the tokenizer turns the text of a token into its value (`tokenize2.py:218-240`) -/
inductive TokKind where
  | name       -- DIMENSION, IDENT, HASH, FUNCTION, UNICODE-RANGE: `unicodesub`
  | str        -- STRING, INVALID, URI: `stringsub`
  | verbatim   -- COMMENT (since fix 975ab00), ATKEYWORD and every other token: the text as it is
deriving DecidableEq, Repr, Inhabited

/-- the value of a token of kind `k` with text `t` -/
def reads : TokKind → List Nat → List Nat
  | .name, t => unescape t
  | .str, t => unescapeStr t
  | .verbatim, t => t

/-- when escaping for an encoding with representability `rep` keeps the value of a token of kind `k` -/
def lossless (rep : Nat → Bool) : TokKind → List Nat → Bool
  | .name, t => ok rep t
  | .str, t => okStr rep t
  | .verbatim, t => t.all rep          -- nothing may need an escape: there are no escapes in comments

end CssVerif.EncEscape
