import CssVerif.Model.Css21Types
/-!
# Reference: the CSS 2.1 `<color>` grammar (and what CSS Color Level 3 adds) as templates

Typed from the Recommendations — NOT derived from cssutils:

* CSS 2.1 §4.3.6 `<color>`: one of the 17 colour keywords (the 16 of HTML 4 and `orange`), `#rgb`, `#rrggbb`,
  `rgb(` three `<integer>` `)`, `rgb(` three `<percentage>` `)` with optional white space around the numbers
  (§4.3.6: "White space characters are allowed around the numerical values"), or a system colour (§18.2, 28 keywords);
  white space is `[ \t\r\n\f]*` (G.2 `w`).
* CSS Color Module Level 3 §4.2-4.3: `rgba()`, `hsl()`, `hsla()` (hue `<number>`, alpha `<number>`), `transparent`,
  `currentColor`, and the 147 extended ([
  "aliceblue", "antiquewhite", "aqua", "aquamarine", "azure", "beige", "bisque", "black", "blanchedalmond",
  "blue", "blueviolet", "brown", "burlywood", "cadetblue", "chartreuse", "chocolate", "coral",
  "cornflowerblue", "cornsilk", "crimson", "cyan", "darkblue", "darkcyan", "darkgoldenrod", "darkgray",
  "darkgreen", "darkgrey", "darkkhaki", "darkmagenta", "darkolivegreen", "darkorange", "darkorchid", "darkred",
  "darksalmon", "darkseagreen", "darkslateblue", "darkslategray", "darkslategrey", "darkturquoise",
  "darkviolet", "deeppink", "deepskyblue", "dimgray", "dimgrey", "dodgerblue", "firebrick", "floralwhite",
  "forestgreen", "fuchsia", "gainsboro", "ghostwhite", "gold", "goldenrod", "gray", "green", "greenyellow",
  "grey", "honeydew", "hotpink", "indianred", "indigo", "ivory", "khaki", "lavender", "lavenderblush",
  "lawngreen", "lemonchiffon", "lightblue", "lightcoral", "lightcyan", "lightgoldenrodyellow", "lightgray",
  "lightgreen", "lightgrey", "lightpink", "lightsalmon", "lightseagreen", "lightskyblue", "lightslategray",
  "lightslategrey", "lightsteelblue", "lightyellow", "lime", "limegreen", "linen", "magenta", "maroon",
  "mediumaquamarine", "mediumblue", "mediumorchid", "mediumpurple", "mediumseagreen", "mediumslateblue",
  "mediumspringgreen", "mediumturquoise", "mediumvioletred", "midnightblue", "mintcream", "mistyrose",
  "moccasin", "navajowhite", "navy", "oldlace", "olive", "olivedrab", "orange", "orangered", "orchid",
  "palegoldenrod", "palegreen", "paleturquoise", "palevioletred", "papayawhip", "peachpuff", "peru", "pink",
  "plum", "powderblue", "purple", "red", "rosybrown", "royalblue", "saddlebrown", "salmon", "sandybrown",
  "seagreen", "seashell", "sienna", "silver", "skyblue", "slateblue", "slategray", "slategrey", "snow",
  "springgreen", "steelblue", "tan", "teal", "thistle", "tomato", "turquoise", "violet", "wheat", "white",
  "whitesmoke", "yellow", "yellowgreen"]/SVG) colour keywords (the table is the one of
  `tools/harness/c18_css3colors.py`, an independent copy of the specification's table).
* Appendix F: `color: <color> | inherit`; `background-color`, `border-*-color`: `<color> | transparent | inherit`;
  `outline-color`: `<color> | invert | inherit`.

Keyword templates are in ASCII lower case (`tmatch` folds the text). Core Lean only.
-/
namespace CssVerif.Css21

def hexdigits : List Nat := digits ++ [97, 98, 99, 100, 101, 102]

/-- CSS 2.1 G.2 `w`: `[ \t\r\n\f]*` -/
def wsCss : List Nat := [32, 9, 13, 10, 12]

/-- the white space of Python's ASCII `\s`: CSS white space and U+000B -/
def wsRe : List Nat := [32, 9, 13, 10, 12, 11]

def colorKeywords : List String :=
  ["maroon", "red", "orange", "yellow", "olive", "purple", "fuchsia", "white", "lime", "green", "navy", "blue",
   "aqua", "teal", "black", "silver", "gray"]

/-- §18.2, in lower case -/
def systemColors : List String :=
  ["activeborder", "activecaption", "appworkspace", "background", "buttonface", "buttonhighlight", "buttonshadow",
   "buttontext", "captiontext", "graytext", "highlight", "highlighttext", "inactiveborder", "inactivecaption",
   "inactivecaptiontext", "infobackground", "infotext", "menu", "menutext", "scrollbar", "threeddarkshadow",
   "threedface", "threedhighlight", "threedlightshadow", "threedshadow", "window", "windowframe", "windowtext"]

def hexColor : List Template :=
  [Seg.one [35] :: List.replicate 3 (Seg.one hexdigits), Seg.one [35] :: List.replicate 6 (Seg.one hexdigits)]

/-- `name(` w a1 w `,` w a2 w `,` … `)` for every choice of one template per argument -/
def funcT (ws : List Nat) (name : String) : List (List Template) → List Template
  | [] => []
  | [a] => a.map fun t => kw name ++ [Seg.many ws] ++ t ++ [Seg.many ws, Seg.one [41]]
  | a :: rest => a.flatMap fun t => (funcT ws "" rest).map fun r => kw name ++ [Seg.many ws] ++ t ++ [Seg.many ws, Seg.one [44]] ++ r

def rgbColor (ws : List Nat) : List Template :=
  funcT ws "rgb(" [integer, integer, integer] ++ funcT ws "rgb(" [percentage, percentage, percentage]

/-- CSS 2.1 `<color>` without the system colours -/
def colorBasic (ws : List Nat) : List Template := kws colorKeywords ++ hexColor ++ rgbColor ws

/-- CSS 2.1 `<color>` -/
def color21 (ws : List Nat) : List Template := colorBasic ws ++ kws systemColors

def x11Colors : List String := [
  "aliceblue", "antiquewhite", "aqua", "aquamarine", "azure", "beige", "bisque", "black", "blanchedalmond",
  "blue", "blueviolet", "brown", "burlywood", "cadetblue", "chartreuse", "chocolate", "coral",
  "cornflowerblue", "cornsilk", "crimson", "cyan", "darkblue", "darkcyan", "darkgoldenrod", "darkgray",
  "darkgreen", "darkgrey", "darkkhaki", "darkmagenta", "darkolivegreen", "darkorange", "darkorchid", "darkred",
  "darksalmon", "darkseagreen", "darkslateblue", "darkslategray", "darkslategrey", "darkturquoise",
  "darkviolet", "deeppink", "deepskyblue", "dimgray", "dimgrey", "dodgerblue", "firebrick", "floralwhite",
  "forestgreen", "fuchsia", "gainsboro", "ghostwhite", "gold", "goldenrod", "gray", "green", "greenyellow",
  "grey", "honeydew", "hotpink", "indianred", "indigo", "ivory", "khaki", "lavender", "lavenderblush",
  "lawngreen", "lemonchiffon", "lightblue", "lightcoral", "lightcyan", "lightgoldenrodyellow", "lightgray",
  "lightgreen", "lightgrey", "lightpink", "lightsalmon", "lightseagreen", "lightskyblue", "lightslategray",
  "lightslategrey", "lightsteelblue", "lightyellow", "lime", "limegreen", "linen", "magenta", "maroon",
  "mediumaquamarine", "mediumblue", "mediumorchid", "mediumpurple", "mediumseagreen", "mediumslateblue",
  "mediumspringgreen", "mediumturquoise", "mediumvioletred", "midnightblue", "mintcream", "mistyrose",
  "moccasin", "navajowhite", "navy", "oldlace", "olive", "olivedrab", "orange", "orangered", "orchid",
  "palegoldenrod", "palegreen", "paleturquoise", "palevioletred", "papayawhip", "peachpuff", "peru", "pink",
  "plum", "powderblue", "purple", "red", "rosybrown", "royalblue", "saddlebrown", "salmon", "sandybrown",
  "seagreen", "seashell", "sienna", "silver", "skyblue", "slateblue", "slategray", "slategrey", "snow",
  "springgreen", "steelblue", "tan", "teal", "thistle", "tomato", "turquoise", "violet", "wheat", "white",
  "whitesmoke", "yellow", "yellowgreen"]

/-- what CSS Color Level 3 adds to `<color>` -/
def color3Ext (ws : List Nat) : List Template :=
  funcT ws "rgba(" [integer, integer, integer, number] ++ funcT ws "rgba(" [percentage, percentage, percentage, number] ++
  funcT ws "hsl(" [number, percentage, percentage] ++ funcT ws "hsla(" [number, percentage, percentage, number] ++
  kws ["transparent", "currentcolor"] ++ kws x11Colors

/-- Appendix F: the colour properties (the ones cssutils registers as single values) and their extra keywords -/
def colorProps : List (String × List String) := [
  ("color", ["inherit"]),
  ("background-color", ["transparent", "inherit"]),
  ("border-top-color", ["transparent", "inherit"]),
  ("border-right-color", ["transparent", "inherit"]),
  ("border-bottom-color", ["transparent", "inherit"]),
  ("border-left-color", ["transparent", "inherit"]),
  ("outline-color", ["invert", "inherit"])
]

end CssVerif.Css21
