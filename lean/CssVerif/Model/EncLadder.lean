import CssVerif.Model.Codec
/-!
# K6 — the encoding precedence ladder and its hand-over to imported sheets

Hand transcription of
* `cssutils/util.py:887-974` `_readUrl` (the ladder: override / HTTP / BOM-or-@charset / parent / UTF-8),
* `cssutils/css/cssimportrule.py:273-346` `CSSImportRule._setHref` (recursion guard, the hand-over),
* `cssutils/css/cssstylesheet.py:370-390` `_resolveImport`, `:392-421` `_setCssTextWithEncodingOverride`,
  `:427-451` `_getEncoding` / `_setEncoding`, and the part of `_setCssText` (`:152-362`) that matters for
  encodings: the callbacks `S`, `COMMENT`, `charsetrule`, `importrule`, `ruleset` and the `expected` level,
* `cssutils/css/csscharsetrule.py:131-164` `_setEncoding` (which names are accepted),
* `cssutils/parse.py:112-158` `parseString`, `:201-226` `parseUrl`.

What is a parameter (a field of `World`), not modelled code:
* `fetch`  — the fetcher (`CSSParser(fetcher=…)`), a function of the URL;
* `dec`    — CPython's codecs: `codecs.getdecoder(name)(bytes)`, with the two ways it can fail;
* `known`  — the codec check of `CSSCharsetRule._setEncoding` passes (`csscharsetrule.py:156-163`: a text encoding
  of the runtime that works with the `escapecss` error handler, not the css codec itself);
* `view`   — what the sheet parser makes of a decoded text, reduced to the items that matter here
  (leading `@charset`, white space, comments, `@import` hrefs, other rules). The theorems hold for every `view`;
  the driver instantiates it with the small scanner `scanItems` below and the correspondence checks that
  scanner against the real parser on the generated sheets.

Import hrefs are taken to be absolute URLs (`urljoin(parentHref, href) = href`).
Bytes, code points: `Nat`. Python `None | str` is `Option (List Nat)`; truthiness is `truthy`.
-/
namespace CssVerif.EncLadder
open CssVerif.Codec

abbrev Name := List Nat
abbrev Text := List Nat
abbrev Bytes := List Nat
abbrev Url := List Nat

/-- `if x:` for `x : None | str` -/
def truthy : Option (List Nat) → Bool
  | some (_ :: _) => true
  | _ => false

inductive Content where
  | bytes (b : Bytes)
  | text (t : Text)
deriving DecidableEq, Repr, Inhabited

/-- what a fetcher may hand back (`util.py:925-926`: `if r and len(r) == 2 and r[1] is not None`) -/
inductive FetchRes where
  | none                                   -- `None`, `()` … anything falsy
  | badLen                                 -- a truthy sequence whose length is not 2
  | noContent (http : Option Name)         -- `(http, None)`
  | pair (http : Option Name) (c : Content)
deriving DecidableEq, Repr, Inhabited

inductive DecRes where
  | ok (t : Text)
  | unicodeError                           -- `UnicodeDecodeError`
  | lookupError                            -- `LookupError: unknown encoding`
deriving DecidableEq, Repr, Inhabited

/-- the ways the modelled code can end other than by returning -/
inductive Err where
  | lookupError          -- escapes from `parseString` for a root sheet given as bytes with an unknown `encoding=`
  | unicodeDecodeError   -- escapes from `parseString` for the root sheet (documented)
  | outOfFuel            -- not a Python outcome: the import chain is longer than the fuel
deriving DecidableEq, Repr, Inhabited

/-- items of a sheet as far as this property is concerned -/
inductive Item where
  | charset (name : Name)     -- `@charset "name";` (CHARSET_SYM STRING ';')
  | ws                        -- S, CDO, CDC
  | comment
  | imp (href : Url)          -- a well-formed `@import`
  | other                     -- a style rule (any rule whose callback returns 3)
deriving DecidableEq, Repr, Inhabited

structure World where
  fetch : Url → FetchRes
  dec : Name → Bytes → DecRes
  known : Name → Bool
  view : Text → List Item

/-! ## names -/

def utf8N : Name := [0x75, 0x74, 0x66, 0x2D, 0x38]
def utf8sigN : Name := [0x75, 0x74, 0x66, 0x2D, 0x38, 0x2D, 0x73, 0x69, 0x67]
def utf16N : Name := [0x75, 0x74, 0x66, 0x2D, 0x31, 0x36]
def utf16leN : Name := [0x75, 0x74, 0x66, 0x2D, 0x31, 0x36, 0x2D, 0x6C, 0x65]
def utf16beN : Name := [0x75, 0x74, 0x66, 0x2D, 0x31, 0x36, 0x2D, 0x62, 0x65]
def utf32N : Name := [0x75, 0x74, 0x66, 0x2D, 0x33, 0x32]
def utf32leN : Name := [0x75, 0x74, 0x66, 0x2D, 0x33, 0x32, 0x2D, 0x6C, 0x65]
def utf32beN : Name := [0x75, 0x74, 0x66, 0x2D, 0x33, 0x32, 0x2D, 0x62, 0x65]

/-- the strings `detectencoding_*` return (`codec.py:142-175`) -/
def encName : Enc → Name
  | .utf8 => utf8N | .utf8sig => utf8sigN | .utf16 => utf16N | .utf16le => utf16leN
  | .utf16be => utf16beN | .utf32 => utf32N | .utf32le => utf32leN | .utf32be => utf32beN
  | .named n => n

/-- `str.lower()` on ASCII -/
def lower (e : Name) : Name := e.map fun c => if 0x41 ≤ c ∧ c ≤ 0x5A then c + 32 else c

def isNmStart (c : Nat) : Bool :=
  (0x41 ≤ c && c ≤ 0x5A) || (0x61 ≤ c && c ≤ 0x7A) || c == 0x5F || c ≥ 0x80
def isNmChar (c : Nat) : Bool := isNmStart c || (0x30 ≤ c && c ≤ 0x39) || c == 0x2D

/-- the name tokenizes as exactly one IDENT (`csscharsetrule.py:144-152`); escapes are not modelled (rejected) -/
def isIdentName : Name → Bool
  | [] => false
  | 0x2D :: c :: t => isNmStart c && t.all isNmChar
  | c :: t => isNmStart c && t.all isNmChar

/-- `CSSCharsetRule._setEncoding` accepts the name (`csscharsetrule.py:148-164`) -/
def validName (w : World) (n : Name) : Bool := isIdentName n && w.known n

/-! ## `_readUrl` -/

structure Choice where
  encoding : Name
  enctype : Nat
deriving DecidableEq, Repr, Inhabited

/-- `codec.detectencoding_unicode(content, final=True)` / `codec.detectencoding_str(content, final=True)`
(`util.py:937-944`): the content is complete -/
def contentDetect : Content → Option (Enc × Bool)
  | .text t => detectUnicode t true
  | .bytes b => detect b true

/-- `util.py:929-953`, the ladder -/
def choose (override http parent : Option Name) (c : Content) : Choice :=
  if truthy override then ⟨override.getD [], 0⟩             -- 0. override encoding
  else if truthy http then ⟨http.getD [], 1⟩                 -- 1. HTTP
  else
    match contentDetect c with
    | some (e, true) => ⟨encName e, 2⟩                       -- 2. BOM/@charset: explicitly
    | _ =>
      if truthy parent then ⟨parent.getD [], 4⟩              -- 4. parent stylesheet or document
      else ⟨utf8N, 5⟩                                        -- 5. assume UTF-8

/-- `_fixencoding(text, enc, True)`; with `final` it always answers (`Lemmas/EncLadder.fix_final`) -/
def fixFinal (t : Text) (enc : Name) : Text :=
  match fixEncoding t enc true with
  | some r => r
  | none => t

structure ReadOk where
  encoding : Name
  enctype : Nat
  text : Option Text           -- `None` after a `UnicodeDecodeError` or `LookupError` (`util.py:972-975`)
deriving DecidableEq, Repr, Inhabited

/-- `util.py:959-975`: text is returned as it is; bytes go through the css codec with the chosen encoding; content
that does not decode, or an encoding the runtime does not know, gives `None` (a warning is logged, nothing raises) -/
def decodeContent (w : World) (c : Content) (enc : Name) : Option Text :=
  match c with
  | .text t => some t
  | .bytes b =>
    match w.dec enc b with
    | .ok t => some (fixFinal t enc)
    | .unicodeError => none
    | .lookupError => none

/-- `_readUrl(url, fetcher, overrideEncoding, parentEncoding)` given the fetcher's answer `r`;
`none` = `(None, None, None)`. It has no way to raise. -/
def readUrl (w : World) (r : FetchRes) (override parent : Option Name) : Option ReadOk :=
  match r with
  | .pair http c =>
    let ch := choose override http parent c
    some ⟨ch.encoding, ch.enctype, decodeContent w c ch.encoding⟩
  | _ => none

/-! ## sheets while they are being loaded -/

inductive RuleK where
  | charset (enc : Name)
  | comment
  | imp
  | other
deriving DecidableEq, Repr, Inhabited

structure Sheet where
  href : Option Url
  ancestors : List (Option Url)   -- `href` of the sheets this one is imported from, nearest first
  override : Option Name          -- `__encodingOverride`
  newEnc : Option Name            -- `__newEncoding`; `none` = the attribute does not exist
  rules : List RuleK              -- `_cssRules` as far as kinds matter here
deriving DecidableEq, Repr, Inhabited

/-- `_getEncoding` (`cssstylesheet.py:427-433`) -/
def reported (rules : List RuleK) : Name :=
  match rules with
  | .charset e :: _ => e
  | _ => utf8N

/-- the `parentEncoding` of `_resolveImport` (`cssstylesheet.py:373-383`) -/
def parentEncodingOf (s : Sheet) : Option Name :=
  match s.newEnc with
  | some e => some e
  | none =>
    match s.rules with
    | .charset e :: _ => some e
    | _ => none

/-- `sheet.encoding = e` for a truthy `e` while `log.raiseExceptions` is off (inside a parse):
`_setEncoding` (`cssstylesheet.py:435-451`) over `CSSCharsetRule._setEncoding` -/
def setEncodingRule (w : World) (rules : List RuleK) (e : Name) : Except Err (List RuleK) :=
  match rules with
  | .charset old :: rest =>
    if validName w e then .ok (.charset (lower e) :: rest) else .ok (.charset old :: rest)
  | _ =>
    -- `insertRule(CSSCharsetRule(encoding=e), 0)`: a rejected name leaves the new rule without encoding
    -- (since fix af18c46), it is not well-formed and `insertRule` only logs 'Invalid rules cannot be added.'
    if validName w e then .ok (.charset (lower e) :: rules) else .ok rules

/-- one line of the record: what became of one `@import` that is part of the DOM -/
structure Rec where
  depth : Nat
  url : Url
  found : Bool                 -- `rule.hrefFound`
  parentArg : Option Name      -- the `parentEncoding` handed to `_readUrl`
  enctype : Nat                -- 9 when nothing was loaded
  used : Name                  -- the encoding `_readUrl` chose
  text : Text                  -- the text handed to the parser
  ownCharset : Option Name     -- the sheet's own first rule if it is `@charset`, before the final `encoding =`
  reported : Name              -- `rule.styleSheet.encoding` afterwards
  rules : List RuleK           -- the kinds of `rule.styleSheet.cssRules` afterwards
deriving DecidableEq, Repr, Inhabited

structure Out where
  log : List Url               -- URLs the fetcher was asked for, in order
  recs : List Rec              -- pre-order
deriving DecidableEq, Repr, Inhabited

structure ImpRes where
  found : Bool
  out : Out
deriving DecidableEq, Repr, Inhabited

/-- `rule.href = href` for an import rule whose `parentStyleSheet` is the given sheet -/
abbrev ChildLoader := Sheet → Url → Except Err ImpRes

structure PState where
  sheet : Sheet
  out : Out
deriving DecidableEq, Repr, Inhabited

def failedRec (d : Nat) (u : Url) (p : Option Name) : Rec :=
  ⟨d, u, false, p, 9, [], [], none, utf8N, []⟩

/-- the token loop of `CSSStyleSheet._setCssText` (`cssstylesheet.py:171-351`) over the items; `exp` is `expected` -/
def parseItems (w : World) (child : ChildLoader) : List Item → Nat → PState → Except Err PState
  | [], _, st => .ok st
  | .charset n :: t, exp, st =>
    -- `charsetrule`: `if expected > 0: … return expected  elif rule.wellformed: insertRule(rule)  return 1`
    if exp > 0 then parseItems w child t exp st
    else if validName w n then
      parseItems w child t 1 ⟨{ st.sheet with rules := st.sheet.rules ++ [.charset (lower n)] }, st.out⟩
    else parseItems w child t 1 st
  | .ws :: t, exp, st => parseItems w child t (max 1 exp) st
  | .comment :: t, exp, st =>
    parseItems w child t (max 1 exp) ⟨{ st.sheet with rules := st.sheet.rules ++ [.comment] }, st.out⟩
  | .imp u :: t, exp, st =>
    -- `importrule`: `rule.cssText = …` loads the sheet first (`cssimportrule.py:265`), whatever `expected` is
    match child st.sheet u with
    | .error e => .error e
    | .ok r1 =>
      if exp > 1 then
        -- not allowed here: the rule is dropped, only the fetch is visible
        parseItems w child t exp ⟨st.sheet, ⟨st.out.log ++ r1.out.log, st.out.recs⟩⟩
      else if u = [] then
        -- `wellformed` needs an href
        parseItems w child t 1 ⟨st.sheet, ⟨st.out.log ++ r1.out.log, st.out.recs⟩⟩
      else
        let s' : Sheet := { st.sheet with rules := st.sheet.rules ++ [.imp] }
        -- `insertRule`: `if not rule.hrefFound: rule._loadHref(rule.href, retry=False)` (`cssstylesheet.py:941-944`): the URL
        -- that was tried is not fetched a second time (since ca7960c; before, a sheet that was not found was fetched twice)
        parseItems w child t 1 ⟨s', ⟨st.out.log ++ r1.out.log, st.out.recs ++ r1.out.recs⟩⟩
  | .other :: t, _, st =>
    parseItems w child t 3 ⟨{ st.sheet with rules := st.sheet.rules ++ [.other] }, st.out⟩

/-- `_setCssTextWithEncodingOverride`, first part (`cssstylesheet.py:400-406`): remember override / new encoding -/
def beginEO (s : Sheet) (eo en : Option Name) : Sheet :=
  let s1 : Sheet := if truthy eo then { s with override := eo } else s
  let s2 : Sheet := if truthy en then { s1 with newEnc := en } else s1
  { s2 with rules := [] }

/-- `_setCssTextWithEncodingOverride`, last part (`cssstylesheet.py:410-421`) -/
def finishEO (w : World) (st : PState) (eo en : Option Name) : Except Err PState :=
  if truthy eo then
    -- `self.encoding = self.__encodingOverride ; self.__encodingOverride = None`
    match setEncodingRule w st.sheet.rules (st.sheet.override.getD []) with
    | .error e => .error e
    | .ok rs => .ok ⟨{ st.sheet with rules := rs, override := none }, st.out⟩
  else if truthy en then
    -- `self.encoding = encoding ; del self.__newEncoding`
    match setEncodingRule w st.sheet.rules (en.getD []) with
    | .error e => .error e
    | .ok rs => .ok ⟨{ st.sheet with rules := rs, newEnc := none }, st.out⟩
  else .ok st

def ownCharsetOf (rules : List RuleK) : Option Name :=
  match rules with
  | .charset e :: _ => some e
  | _ => none

/-- `CSSImportRule._setHref` (`cssimportrule.py:273-346`) with `parentStyleSheet = s`; `d` = depth for the record -/
def loadChild (w : World) : Nat → Nat → ChildLoader
  | 0, _, _, _ => .error .outOfFuel
  | fuel + 1, d, s, u =>
    let p := parentEncodingOf s
    if u = [] then .ok ⟨false, ⟨[], [failedRec d u p]⟩⟩            -- `if href and self.parentStyleSheet`
    else if (s.href :: s.ancestors).contains (some u) then
      .ok ⟨false, ⟨[], [failedRec d u p]⟩⟩                          -- 'Recursive @import.' (no fetch)
    else
      match readUrl w (w.fetch u) s.override p with
      | none => .ok ⟨false, ⟨[u], [failedRec d u p]⟩⟩               -- 'Cannot read Stylesheet.'
      | some r =>
        match r.text with
        | none => .ok ⟨false, ⟨[u], [failedRec d u p]⟩⟩
        | some t =>
          let eo : Option Name := if r.enctype = 0 then some r.encoding else none
          let en : Option Name := if 0 < r.enctype ∧ r.enctype < 5 then some r.encoding else none
          let c0 : Sheet := ⟨some u, s.href :: s.ancestors, none, none, []⟩
          -- `importedSheet._setCssTextWithEncodingOverride(cssText, encodingOverride=eo, encoding=en)`
          match parseItems w (loadChild w fuel (d + 1)) (w.view t) 0 ⟨beginEO c0 eo en, ⟨[], []⟩⟩ with
          | .error e => .error e
          | .ok st =>
            match finishEO w st eo en with
            | .error e => .error e
            | .ok st' =>
              .ok ⟨true, ⟨u :: st'.out.log,
                ⟨d, u, true, p, r.enctype, r.encoding, t, ownCharsetOf st.sheet.rules,
                 reported st'.sheet.rules, st'.sheet.rules⟩ :: st'.out.recs⟩⟩

structure Parsed where
  text : Text                  -- what the tokenizer got
  encoding : Name              -- `sheet.encoding`
  ownCharset : Option Name
  rules : List RuleK           -- the kinds of `sheet.cssRules`
  out : Out
deriving DecidableEq, Repr, Inhabited

/-- `codecs.getdecoder('css')(bytes, encoding=enc)` for the root sheet (`parse.py:135-136`, `codec.py:224-241`) -/
def decodeRoot (w : World) (input : Content) (enc : Option Name) : Except Err Text :=
  match input with
  | .text t => .ok t
  | .bytes b =>
    let e : Name := match enc with
      | some e => e
      | none => match detect b true with
        | some (d, _) => encName d
        | none => utf8N                    -- unreachable: `detect_final_total`
    match w.dec e b with
    | .ok t => .ok (fixFinal t e)
    | .unicodeError => .error .unicodeDecodeError
    | .lookupError => .error .lookupError

/-- `CSSParser.__parseString(text, encodingOverride=eo, encoding=en, href, …)` after the decoding
(`parse.py:140-169`): `eo` was given by the caller and governs the imports too, `en` was found for this sheet only -/
def parseText (w : World) (fuel : Nat) (t : Text) (eo en : Option Name) (href : Option Url) : Except Err Parsed :=
  -- `sheet._setCssTextWithEncodingOverride(tokens, encodingOverride=eo, encoding=en)`
  match parseItems w (loadChild w fuel 1) (w.view t) 0 ⟨beginEO ⟨href, [], none, none, []⟩ eo en, ⟨[], []⟩⟩ with
  | .error e => .error e
  | .ok st =>
    match finishEO w st eo en with
    | .error e => .error e
    | .ok st' => .ok ⟨t, reported st'.sheet.rules, ownCharsetOf st.sheet.rules, st'.sheet.rules, st'.out⟩

/-- `CSSParser(fetcher).parseString(input, encoding=enc, href=href)` (`parse.py:112-138`) -/
def parseString (w : World) (fuel : Nat) (input : Content) (enc : Option Name) (href : Option Url) :
    Except Err Parsed :=
  match decodeRoot w input enc with
  | .error e => .error e
  | .ok t => parseText w fuel t enc none href

/-- `CSSParser(fetcher).parseUrl(href, encoding=enc)` (`parse.py:206-240`); `none` = returns `None` -/
def parseUrl (w : World) (fuel : Nat) (href : Url) (enc : Option Name) : Except Err (Option Parsed) :=
  match readUrl w (w.fetch href) enc none with
  | none => .ok none
  | some r =>
    match r.text with
    | none => .ok none
    | some t =>
      -- only an encoding given by the caller (enctype 0) is an override; one found for the sheet (1..4) is its own
      let eo : Option Name := if r.enctype = 0 then some r.encoding else none
      let en : Option Name := if 0 < r.enctype ∧ r.enctype < 5 then some r.encoding else none
      match parseText w fuel t eo en (some href) with
      | .error e => .error e
      | .ok p => .ok (some { p with out := ⟨href :: p.out.log, p.out.recs⟩ })

/-! ## the stand-in for the sheet parser used by the driver: a scanner for the sheets the harness writes

```
sheet := item*          item := S+ | '/*' … '*/' | '@charset "' name '";' | '@import ' S* ('"' url '"' | 'url(' url ')') … ';'
                               | anything-else up to and including the next '}'
```
-/

def isWs (c : Nat) : Bool := c == 0x20 || c == 0x0A || c == 0x09 || c == 0x0D || c == 0x0C

/-- the rest after the first `c` -/
def afterFirst (c : Nat) : List Nat → List Nat
  | [] => []
  | x :: t => if x = c then t else afterFirst c t

/-- up to the first `c` -/
def beforeFirst (c : Nat) : List Nat → List Nat
  | [] => []
  | x :: t => if x = c then [] else x :: beforeFirst c t

/-- the rest after the first `*/` -/
def afterCommentEnd : List Nat → List Nat
  | [] => []
  | 0x2A :: 0x2F :: t => t
  | _ :: t => afterCommentEnd t

def importKw : List Nat := [0x40, 0x69, 0x6D, 0x70, 0x6F, 0x72, 0x74, 0x20]      -- `@import `
def urlOpen : List Nat := [0x75, 0x72, 0x6C, 0x28]                                -- `url(`

def scanItems (fuel : Nat) (l : List Nat) : List Item :=
  match fuel with
  | 0 => []
  | fuel + 1 =>
    match l with
    | [] => []
    | c :: t =>
      if isWs c then .ws :: scanItems fuel (t.dropWhile isWs)
      else if c = 0x2F ∧ t.head? = some 0x2A then .comment :: scanItems fuel (afterCommentEnd (t.drop 1))
      else if prefix10.isPrefixOf l then
        let r := l.drop 10
        let name := beforeFirst 0x22 r
        let r2 := afterFirst 0x22 r
        if r2.head? = some 0x3B then .charset name :: scanItems fuel (r2.drop 1)
        else .other :: scanItems fuel (afterFirst 0x7D r2)
      else if importKw.isPrefixOf l then
        let r := (l.drop 8).dropWhile isWs
        if r.head? = some 0x22 then
          .imp (beforeFirst 0x22 (r.drop 1)) :: scanItems fuel (afterFirst 0x3B (afterFirst 0x22 (r.drop 1)))
        else if urlOpen.isPrefixOf r then
          .imp (beforeFirst 0x29 (r.drop 4)) :: scanItems fuel (afterFirst 0x3B (afterFirst 0x29 (r.drop 4)))
        else .other :: scanItems fuel (afterFirst 0x7D r)
      else .other :: scanItems fuel (afterFirst 0x7D t)

/-- the scanner with enough fuel (every step consumes at least one character) -/
def scan (l : List Nat) : List Item := scanItems (l.length + 1) l

end CssVerif.EncLadder
