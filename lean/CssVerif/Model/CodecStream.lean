import CssVerif.Model.CodecInc
/-!
# K6 — the stream classes of `cssutils/codec.py`: `StreamReader` (`:514-561`) and `StreamWriter` (`:456-511`)

The `codecs` stream API has no end-of-data signal: `StreamReader.decode(input, errors)` and
`StreamWriter.encode(input, errors)` take no `final`, so both classes behave like the incremental classes
called with `final=False` for ever.

`codecs.StreamReader.read()` (`Lib/codecs.py`) drives the reader: in a loop `newdata = self.stream.read(…)`,
`data = self.bytebuffer + newdata`, `if not data: break`, `newchars, decodedbytes = self.decode(data, errors)`,
`self.bytebuffer = data[decodedbytes:]`, `self.charbuffer += newchars`, until the stream is exhausted.
The CSS `StreamReader.decode` answers `("", 0)` — nothing consumed — until the encoding is detected and the
`@charset` rule is rewritten, *creating a new inner stream reader on every such call*, so everything is
decoded again from the start; then it keeps the inner reader. In the model the inner reader is the abstract
`Inner` (text produced for the bytes consumed so far), as for `IncrementalDecoder`.
-/
namespace CssVerif.Codec

/-- the encoding `StreamReader.decode` settles on for the data seen so far (`codec.py:524-533`), `enc` being
the current value of `self.encoding`; `none` = `return ("", 0)` ("no encoding determined yet") -/
def readerEnc (enc : Option Name) (force : Bool) (data : List Nat) : Option Name :=
  match enc, force with
  | some g, true => some g
  | _, _ => (detect data false).map (pick enc force)

inductive RSt where
  /-- `self.streamreader is None`; `enc` = `self.encoding` (assigned as soon as the detector answers, also
  when the call then gives up because the `@charset` rule is still open), `bb` = `bytebuffer` of
  `codecs.StreamReader` (nothing consumed yet) -/
  | waiting (enc : Option Name) (bb : List Nat)
  /-- inner stream reader kept; `consumed` = all bytes handed to it so far -/
  | reading (E : Name) (consumed : List Nat)

/-- one turn of the `read()` loop: `data = bytebuffer + newdata`, `self.decode(data)`; returns `newchars` -/
def rstep (I : Inner) (force : Bool) : RSt → List Nat → RSt × List Nat
  | .waiting enc bb, input =>
    match readerEnc enc force (bb ++ input) with
    | none => (.waiting enc (bb ++ input), [])
    | some E =>
      -- `self.encoding = encoding`; a fresh inner reader decodes the whole data (`codec.py:534-536`)
      match fixEncoding (I.out E (bb ++ input) false) E false with
      | none => (.waiting (some E) (bb ++ input), [])        -- `return ("", 0)`: a new reader next time
      | some t => (.reading E (bb ++ input), t)
  | .reading E c, input => (.reading E (c ++ input), feedInner I E c input false)

def rrunChunks (I : Inner) (force : Bool) : RSt → List (List Nat) → RSt × List Nat
  | s, [] => (s, [])
  | s, c :: cs =>
    let r := rstep I force s c
    let r' := rrunChunks I force r.1 cs
    (r'.1, r.2 ++ r'.2)

/-- `codecs.getreader("css")(stream, encoding=given, force=force).read()` on a stream that hands out `cs` -/
def readAll (I : Inner) (given : Option Name) (force : Bool) (cs : List (List Nat)) : List Nat :=
  (rrunChunks I force (.waiting given []) cs).2

/-- the data seen so far does not let the reader start: no encoding yet, or the `@charset` rule is open -/
def RUnd (I : Inner) (given : Option Name) (force : Bool) (a : List Nat) : Prop :=
  match readerEnc given force a with
  | none => True
  | some E => fixEncoding (I.out E a false) E false = none

instance (I : Inner) (given : Option Name) (force : Bool) (a : List Nat) : Decidable (RUnd I given force a) :=
  match h : readerEnc given force a with
  | none => isTrue (by unfold RUnd; rw [h]; trivial)
  | some E =>
    if h2 : fixEncoding (I.out E a false) E false = none then isTrue (by unfold RUnd; rw [h]; exact h2)
    else isFalse (by unfold RUnd; rw [h]; exact h2)

/-- `StreamWriter.encode(input, errors)` (`codec.py:464-494`), the bytes handed to `stream.write` -/
def wstep (I : InnerEnc) : ESt → List Nat → ESt × List Nat
  | .waiting (some g) buf, input =>
    match fixEncoding (buf ++ input) g false with
    | none => (.waiting (some g) (buf ++ input), [])
    | some t =>
      let t' := if isSig g then fixFinal t utf8Name else t
      (.encoding g t', feedEnc I g [] t' false)
  | .waiting none buf, input =>
    match detectUnicode (buf ++ input) false with
    | none => (.waiting none (buf ++ input), [])
    | some d =>
      let E := d.1.name
      let t' := if isSig E then fixFinal (buf ++ input) utf8Name else buf ++ input
      (.encoding E t', feedEnc I E [] t' false)
  | .encoding E c, input => (.encoding E (c ++ input), feedEnc I E c input false)

def wrunChunks (I : InnerEnc) : ESt → List (List Nat) → ESt × List Nat
  | s, [] => (s, [])
  | s, c :: cs =>
    let r := wstep I s c
    let r' := wrunChunks I r.1 cs
    (r'.1, r.2 ++ r'.2)

/-- everything written to the stream by `write(chunk)` for each chunk -/
def writeAll (I : InnerEnc) (given : Option Name) (cs : List (List Nat)) : List Nat :=
  (wrunChunks I (.waiting given []) cs).2

/-- the text seen so far does not let the writer start -/
def WUnd (given : Option Name) (a : List Nat) : Prop :=
  match given with
  | some g => fixEncoding a g false = none
  | none => detectUnicode a false = none

/-! ## `reset()` of the incremental classes (`codec.py:340-345`, `:437-441`)

`IncrementalDecoder.reset`: `self.decoder = None; self.encoding = self._initialencoding; self.buffer = b"";
self.headerfixed = False`. `decode` overwrites `self.encoding` with the detected encoding (`codec.py:309`);
`_initialencoding` is the constructor's `encoding` argument, kept since the fix "reset() of the incremental css
decoder and encoder forgets the encoding detected in the previous input".
`IncrementalEncoder.reset`: `self.encoder = None; self.encoding = self._initialencoding; self.buffer = ""`.
`initial` (`_initialencoding`) and `force` are constructor arguments that never change. -/

def DSt.reset (initial : Option Name) (force : Bool) : DSt → DSt
  | .waiting _ _ _ => .waiting initial force []
  | .decoding _ _ _ => .waiting initial force []
  | .streaming _ _ => .waiting initial force []

def ESt.reset (initial : Option Name) : ESt → ESt
  | .waiting _ _ => .waiting initial []
  | .encoding _ _ => .waiting initial []

instance (given : Option Name) (a : List Nat) : Decidable (WUnd given a) :=
  match given with
  | some g => inferInstanceAs (Decidable (fixEncoding a g false = none))
  | none => inferInstanceAs (Decidable (detectUnicode a false = none))

end CssVerif.Codec
