import CssVerif.Lib.Proto
/-!
# K4.Val — content codecs: how string / URL / identifier / comment *content* is read and written

Hand transcription (code points are `Nat`) of

* `cssutils/tokenize2.py:30-37,117-132,219-236` — `Tokenizer.unicodesub` / `Tokenizer.stringsub` with `_repl`,
  and which token types get which of the two,
* `cssutils/helper.py:41-62,75-131` — `normalize`, `string`, `stringvalue`, `_match_forbidden_in_uri`, `uri`, `urivalue`,
* `cssutils/util.py:241-266` — `_stringtokenvalue`, `_uritokenvalue`,
* hand recognisers for the `string1`/`string2`, `ident`, `comment` macros and for the plain `url(…)` form of the URI
  production of `cssutils/cssproductions.py` (checked against the generated productions `Gen/C03Productions.lean`
  and against CPython's compiled patterns by the correspondence of `tools/harness/c03.py`).

Core Lean only (the driver links this file).
-/
namespace CssVerif.StrCodec
open CssVerif.Proto

/-! ## character classes -/

/-- `[0-9a-fA-F]` -/
def isHex (c : Nat) : Bool := (48 ≤ c && c ≤ 57) || (65 ≤ c && c ≤ 70) || (97 ≤ c && c ≤ 102)

/-- value of one hex digit (`int(_, 16)`) -/
def hexVal (c : Nat) : Nat := if c ≤ 57 then c - 48 else if c ≤ 70 then c - 55 else c - 87

/-- `int(digits, 16)` -/
def hexNum (ds : Cps) : Nat := ds.foldl (fun a d => a * 16 + hexVal d) 0

/-- `[\n\r\f]` -/
def isNl (c : Nat) : Bool := c == 10 || c == 13 || c == 12

/-- `[\t\r\n\f\x20]` -/
def isTerm (c : Nat) : Bool := c == 9 || c == 13 || c == 10 || c == 12 || c == 32

/-- `str.isspace()` / `\s` of a `str` pattern (CPython `Py_UNICODE_ISSPACE`) -/
def isSpaceU (c : Nat) : Bool :=
  (9 ≤ c && c ≤ 13) || (28 ≤ c && c ≤ 32) || c == 133 || c == 160 || c == 5760 || (8192 ≤ c && c ≤ 8202) ||
  c == 8232 || c == 8233 || c == 8239 || c == 8287 || c == 12288

/-! ## `re.sub` with a matcher that never matches the empty string -/

/-- `pattern.sub(repl, s)`: `m s` = (length of the match at the start of `s`, replacement text).
The first argument counts characters of the current match that are still to be skipped. -/
def reSubAux (m : Cps → Option (Nat × Cps)) : Nat → Cps → Cps
  | _, [] => []
  | k + 1, _ :: t => reSubAux m k t
  | 0, c :: t => match m (c :: t) with
      | some r => r.2 ++ reSubAux m (r.1 - 1) t
      | none => c :: reSubAux m 0 t

def reSub (m : Cps → Option (Nat × Cps)) (s : Cps) : Cps := reSubAux m 0 s

/-! ## `Tokenizer.unicodesub(_repl, ·)` (`tokenize2.py:30, 111-125`) -/

/-- `[0-9a-fA-F]{1,6}` greedy: number of hex digits at the start of `s`, at most `n` -/
def hexRun : Nat → Cps → Nat
  | 0, _ => 0
  | _, [] => 0
  | n + 1, c :: t => if isHex c then hexRun n t + 1 else 0

/-- `(?:\r\n|[\t\r\n\f\x20])?` greedy -/
def termLen : Cps → Nat
  | [] => 0
  | c :: t =>
    if c = 13 then (match t with
      | [] => 1
      | d :: _ => if d = 10 then 2 else 1)
    else if isTerm c then 1 else 0

/-- one match of `r'\\\\|\\[0-9a-fA-F]{1,6}(?:\r\n|[\t\r\n\f\x20])?'` at the start of `s` and what `_repl`
returns for it: an escaped backslash stays (fix 907f5b2); U+005C written in hex becomes `\\` (fix 2eb78fc);
other code points ≤ `sys.maxunicode` are decoded; anything larger is left as written. -/
def escMatch (s : Cps) : Option (Nat × Cps) :=
  match s with
  | c :: d :: t =>
    if c = 0x5C then
      if d = 0x5C then some (2, [0x5C, 0x5C])
      else if isHex d then
        let n := hexRun 6 (d :: t)
        let tl := termLen ((d :: t).drop n)
        let num := hexNum ((d :: t).take n)
        some (1 + n + tl,
          if num = 0x5C then [0x5C, 0x5C] else if num ≤ 0x10FFFF then [num] else s.take (1 + n + tl))
      else none
    else none
  | _ => none

def usub (s : Cps) : Cps := reSub escMatch s

/-! ## `Tokenizer.stringsub(_repl, ·)` (`tokenize2.py:32-37`): one pass over the source text of a STRING / INVALID / URI
token — `r'\\\\|\\(?:\r\n|[\n\r\f])|\\[0-9a-fA-F]{1,6}(?:\r\n|[\t\r\n\f\x20])?'`; `_repl` returns `''` for a line continuation -/

def strMatch (s : Cps) : Option (Nat × Cps) :=
  match s with
  | c :: d :: t =>
    if c = 0x5C then
      if d = 0x5C then some (2, [0x5C, 0x5C])
      else if d = 13 then (match t with
        | [] => some (2, [])
        | e :: _ => if e = 10 then some (3, []) else some (2, []))
      else if isNl d then some (2, [])
      else escMatch s
    else none
  | _ => none

def ssub (s : Cps) : Cps := reSub strMatch s

/-- token value as computed in `tokenize2.py:219-253` -/
inductive TokKind where
  | string    -- STRING, INVALID, URI: stringsub (escapes decoded, line continuations removed, one pass)
  | other     -- DIMENSION IDENT HASH FUNCTION UNICODE-RANGE: unicodesub
  | raw       -- every other type (COMMENT, ATKEYWORD, …): the text as found
deriving DecidableEq, Repr

def tokValue (k : TokKind) (found : Cps) : Cps :=
  match k with
  | .string => ssub found
  | .other => usub found
  | .raw => found

/-! ## `helper.normalize` (`helper.py:41-62`) -/

/-- `_simpleescapes = r'(\\[^0-9a-fA-F])'`, replacement `group(0)[1:]` -/
def simpleEscMatch (s : Cps) : Option (Nat × Cps) :=
  match s with
  | c :: d :: _ => if c = 0x5C then (if isHex d then none else some (2, [d])) else none
  | _ => none

/-- `str.lower()` on the ASCII range (other cased letters are outside the modelled alphabet) -/
def lowerA (c : Nat) : Nat := if 65 ≤ c ∧ c ≤ 90 then c + 32 else c

def normalize (x : Cps) : Cps :=
  if x.isEmpty then x else (reSub simpleEscMatch x).map lowerA

/-! ## `helper.string` (`helper.py:75-92`) -/

/-- `s.replace(c, r)` for a one-character pattern -/
def replace1 (c : Nat) (r : Cps) (s : Cps) : Cps := s.flatMap fun x => if x = c then r else [x]

def helperString (value : Cps) : Cps :=
  let v := replace1 0x22 [0x5C, 0x22]
            (replace1 12 [0x5C, 0x63, 0x20]
              (replace1 13 [0x5C, 0x64, 0x20]
                (replace1 10 [0x5C, 0x61, 0x20] value)))
  -- `if (len(value) - len(value.rstrip('\\'))) % 2: value = value + '\\'`
  let v := if (v.reverse.takeWhile (· = 0x5C)).length % 2 = 1 then v ++ [0x5C] else v
  0x22 :: v ++ [0x22]

/-! ## `helper.stringvalue` / `Base._stringtokenvalue` (`helper.py:95-102`, `util.py:241-252`) -/

/-- `s.replace(a+b, r)` for a two-character pattern -/
def replace2 (a b : Nat) (r : Cps) : Cps → Cps
  | [] => []
  | [x] => [x]
  | x :: y :: t => if x = a ∧ y = b then r ++ replace2 a b r t else x :: replace2 a b r (y :: t)

/-- `s[1:-1]` -/
def inner (s : Cps) : Cps := (s.drop 1).dropLast

/-- `string.replace('\\' + string[0], string[0])[1:-1]`; `string[0]` raises IndexError on the empty string -/
def stringvalue (s : Cps) : Option Cps :=
  match s with
  | [] => none
  | q :: _ => some (inner (replace2 0x5C q [q] s))

/-! ## `helper.uri`, `helper.urivalue`, `Base._uritokenvalue` (`helper.py:105-131`, `util.py:254-266`) -/

/-- `[\(\)\s\;,'"\x00-\x08\x0e-\x1f\x7f]` (re.U) -/
def isForb (c : Nat) : Bool :=
  c == 0x28 || c == 0x29 || isSpaceU c || c == 0x3B || c == 0x2C || c == 0x27 || c == 0x22 ||
  c ≤ 8 || (14 ≤ c && c ≤ 31) || c == 127

/-- `_match_forbidden_in_uri = re.compile(r'''.*?[…]''', re.U | re.S).match`: lazy `.` (any character) up to the first
forbidden one -/
def forbMatch : Cps → Bool
  | [] => false
  | c :: t => if isForb c then true else forbMatch t

def helperUri (value : Cps) : Cps :=
  let v := if forbMatch value then helperString value else value
  [0x75, 0x72, 0x6C, 0x28] ++ v ++ [0x29]

/-- `str.find` of one character; −1 is `none` -/
def findIdx (c : Nat) : Cps → Option Nat
  | [] => none
  | x :: t => if x = c then some 0 else (findIdx c t).map (· + 1)

def lstrip : Cps → Cps
  | [] => []
  | c :: t => if isTerm c then lstrip t else c :: t

/-- `str.strip(' \t\r\n\f')`: CSS white space only -/
def strip (s : Cps) : Cps := (lstrip (lstrip s).reverse).reverse

/-- the common tail of `urivalue` / `_uritokenvalue`: quoted content goes through `stringvalue` -/
def unquoteUri (u : Cps) : Option Cps :=
  match u with
  | [] => some []
  | q :: _ => if (q = 0x27 ∨ q = 0x22) ∧ u.getLast? = some q then stringvalue u else some u

/-- `uri[uri.find('(') + 1 : -1].strip(' \t\r\n\f')` then unquote -/
def urivalue (u : Cps) : Option Cps :=
  let start := match findIdx 0x28 u with | some i => i + 1 | none => 0
  unquoteUri (strip ((u.dropLast).drop start))

/-- `token[1][token[1].find('(') + 1 : -1].strip(' \\t\\r\\n\\f')` then unquote (`util.py:254-268`; since 214ea2e the same
computation as `helper.urivalue`) -/
def uritokenvalue (u : Cps) : Option Cps :=
  let start := match findIdx 0x28 u with | some i => i + 1 | none => 0
  unquoteUri (strip ((u.dropLast).drop start))

/-! ## the codecs of property C03: what is written for a stored value, what is stored for a token text -/

/-- `E` for strings: the serializer writes a stored STRING value with `helper.string` -/
abbrev strE := helperString

/-- `D` for strings: the value the DOM stores for a STRING token text (`tokenize2.py:232-234` then `stringvalue`) -/
def strD (tokenText : Cps) : Option Cps := stringvalue (tokValue .string tokenText)

abbrev uriE := helperUri

/-- `D` for URI tokens in values (`prodparser.py:858`) -/
def uriD (tokenText : Cps) : Option Cps := urivalue (tokValue .string tokenText)

/-- `D` for URI tokens of `@import` / `@namespace` / unknown rules (`util.py:254`) -/
def uriDTok (tokenText : Cps) : Option Cps := uritokenvalue (tokValue .string tokenText)

/-! ## recognisers for the productions (prefix match: length of the token at the start of the input) -/

/-- body of `string1` / `string2` after the opening quote `q`: `([^\n\r\f\\q]|\\{nl}|{escape})*q`.
Returns the number of characters up to and including the closing quote. A backslash always pairs with what
follows it (`\\{nl}`, `{unicode}` and `\\[^\n\r\f0-9a-f]` together cover every next character); the hex digits and the
optional terminator of a unicode escape are taken greedily — every other way to split them covers the same
characters or fails on a raw line break — so the scan is deterministic.
The first argument counts characters of the current escape that are still to be skipped. -/
def strBodyAux (q : Nat) : Nat → Cps → Option Nat
  | _, [] => none
  | k + 1, _ :: t => (strBodyAux q k t).map (· + 1)
  | 0, c :: t =>
    if c = q then some 1
    else if c = 0x5C then
      match t with
      | [] => none
      | d :: t' =>
        let n := if isHex d then hexRun 6 t + termLen (t.drop (hexRun 6 t))
                 else if d = 13 ∧ t'.head? = some 10 then 2 else 1
        (strBodyAux q n t).map (· + 1)
    else if isNl c then none
    else (strBodyAux q 0 t).map (· + 1)

def strBody (q : Nat) (s : Cps) : Option Nat := strBodyAux q 0 s

/-- `{string}`: `string1|string2` -/
def lexString (s : Cps) : Option Nat :=
  match s with
  | [] => none
  | q :: t => if q = 0x22 ∨ q = 0x27 then (strBody q t).map (· + 1) else none

/-- `[_a-zA-Z]|{nonascii}` -/
def isNmStartChar (c : Nat) : Bool := c == 95 || (65 ≤ c && c ≤ 90) || (97 ≤ c && c ≤ 122) || 128 ≤ c

/-- `[-_a-zA-Z0-9]|{nonascii}` -/
def isNmChar (c : Nat) : Bool := isNmStartChar c || c == 45 || (48 ≤ c && c ≤ 57)

/-- `{escape}` at the start of `s`: `{unicode}|\\[^\n\r\f0-9a-f]`; length of the (greedy) match -/
def escapeLen (s : Cps) : Option Nat :=
  match s with
  | c :: d :: t =>
    if c = 0x5C then
      if isHex d then
        let n := hexRun 6 (d :: t)
        some (1 + n + termLen ((d :: t).drop n))
      else if isNl d then none else some 2
    else none
  | _ => none

/-- `{nmchar}*` greedy; first argument = characters of the current escape still to be skipped -/
def nmcharsAux : Nat → Cps → Nat
  | _, [] => 0
  | k + 1, _ :: t => nmcharsAux k t + 1
  | 0, c :: t =>
    if isNmChar c then nmcharsAux 0 t + 1
    else match escapeLen (c :: t) with
      | some n => nmcharsAux (n - 1) t + 1
      | none => 0

/-- `{ident}` = `[-]{0,2}{nmstart}{nmchar}*` -/
def lexIdent (s : Cps) : Option Nat :=
  let dashes := if s.take 2 = [45, 45] then 2 else if s.take 1 = [45] then 1 else 0
  let r := s.drop dashes
  match r with
  | [] => none
  | c :: t =>
    if isNmStartChar c then some (dashes + 1 + nmcharsAux 0 t)
    else match escapeLen r with
      | some n => some (dashes + n + nmcharsAux 0 (r.drop n))
      | none => none

/-- index just past the first `*/` -/
def findCommentEnd : Cps → Option Nat
  | [] => none
  | [_] => none
  | c :: d :: t => if c = 0x2A ∧ d = 0x2F then some 2 else (findCommentEnd (d :: t)).map (· + 1)

/-- `{comment}` = `\/\*[^*]*\*+([^/*][^*]*\*+)*\/` : `/*` … up to the first `*/` -/
def lexComment (s : Cps) : Option Nat :=
  match s with
  | c :: d :: t => if c = 0x2F ∧ d = 0x2A then (findCommentEnd t).map (· + 2) else none
  | _ => none

/-- `[\x09\x21\x23-\x26\x28\x2a-\x7E]|{nonascii}` — the characters `{url}` accepts without looking further
(a backslash is one of them) -/
def isUrlChar (c : Nat) : Bool :=
  c == 9 || c == 0x21 || (0x23 ≤ c && c ≤ 0x26) || c == 0x28 || (0x2A ≤ c && c ≤ 0x7E) || 128 ≤ c

/-- `{w}\)` -/
def wsClose : Cps → Option Nat
  | [] => none
  | c :: t => if c = 0x29 then some 1 else if isTerm c then (wsClose t).map (· + 1) else none

/-- `{url}*{w}\)` for the inputs on which the backtracking matcher has an obvious first success: a character is
taken by the first two alternatives of `{url}` whenever possible (a backslash is such a character); a backslash
is used as `{escape}` only when the next character is not a `{url}` character, may be escaped this way, and does
not start the closing `{w}\)`. `none` = "this scan does not apply" (the production may still match). -/
def urlBody : Cps → Option Nat
  | [] => none
  | [c] => if isUrlChar c then none else wsClose [c]
  | c :: d :: t' =>
    if isUrlChar c then
      if c = 0x5C ∧ !isUrlChar d ∧ !isNl d ∧ wsClose (d :: t') = none then (urlBody t').map (· + 2)
      else (urlBody (d :: t')).map (· + 1)
    else wsClose (c :: d :: t')

/-- the URI production restricted to the literal prefix `url(` and the non-backtracking cases:
`url(` `{w}` ( `{string}` | `{url}*` ) `{w}` `)` -/
def lexUriPlain (s : Cps) : Option Nat :=
  if s.take 4 = [0x75, 0x72, 0x6C, 0x28] then
    let r := s.drop 4
    let w := (r.takeWhile isTerm).length
    let r' := r.drop w
    match lexString r' with
    | some n => (wsClose (r'.drop n)).map (· + (4 + w + n))
    | none => (urlBody r').map (· + (4 + w))
  else none

end CssVerif.StrCodec
