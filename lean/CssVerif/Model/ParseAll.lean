import CssVerif.Model.Tok
import CssVerif.Model.Struct
import CssVerif.Model.Sel
import CssVerif.Model.Media
/-!
# `ParseAll` — the parser kernels composed: text → tokens → sheet dispatcher → selector machine / media engine

`CSSParser.parseString(text)` (`parse.py:96-139`) hands the text to `CSSStyleSheet._setCssTextWithEncodingOverride`
→ `_setCssText` (`cssstylesheet.py:152-362`), which tokenizes it in full-sheet mode (`tokenize2.py:93`, model `Tok`)
and runs the statement dispatcher over the ONE token iterator (model `Struct`). The dispatcher hands

* the prelude of every ruleset to `SelectorList.selectorText = (tokens, namespaces)` (`cssstylerule.py:134-147` →
  `selectorlist.py:160-223`, model `Sel.parseList`),
* the prelude of every `@media` to `MediaList.mediaText = tokens` (`cssmediarule.py:109-115` →
  `medialist.py:77-152`, model `Media.parseL` with `fromText = false`),
* every block to the declaration-block parser (`cssstyledeclaration.py:287-360`, part of `Struct`).

Each kernel has its own token type (they were built independently). This file supplies the conversions — the token
tuple `(type, value, line, col)` is the same Python object in all of them — and plugs the selector machine and the
media engine into the dispatcher's `Oracle` slots, so that the composition is ONE function of the text. The value
parser, the bodies of the other at-rules and `@namespace` stay opaque (`ext`), as in `Struct`.

A token of the dispatcher carries its index in the token stream (`Struct.Tok.pos`); the sub-parsers look the full
token up by that index (the dispatcher's token type forgets HASH / NUMBER / DIMENSION / INCLUDES …).

Outcomes are explicit: `raised` = a Python exception value came out of the selector machine (`Except.error`),
`unsupported` = the media model left its token domain / ran out of fuel. The totality theorems say these two never
occur (for the media engine: on the domain `mediaDom`).
-/
namespace CssVerif.ParseAll
open CssVerif.Proto (Cps)

/-! ## token conversions -/

/-- the token types the dispatcher tells apart (as `Drv/C04.ttOfName`); everything else is `other` -/
def structTT (s : String) : Struct.TT :=
  match s with
  | "IDENT" => .ident | "FUNCTION" => .function | "CHAR" => .char | "S" => .s
  | "COMMENT" => .comment | "EOF" => .eof | "ATKEYWORD" => .atkeyword
  | "STRING" => .string | "URI" => .uri | "INVALID" => .invalid
  | "CDO" => .cdo | "CDC" => .cdc
  | "CHARSET_SYM" => .charsetSym | "IMPORT_SYM" => .importSym
  | "NAMESPACE_SYM" => .namespaceSym | "PAGE_SYM" => .pageSym | "MEDIA_SYM" => .mediaSym
  | "FONT_FACE_SYM" => .fontFaceSym | "VARIABLES_SYM" => .variablesSym
  | _ => .other

/-- the token types the media engine tells apart (as `Drv/C17.ttOf`) -/
def mediaTT (s : String) : Media.TT :=
  match s with
  | "IDENT" => .ident | "S" => .s | "COMMENT" => .comment | "CHAR" => .char | "NUMBER" => .number
  | "DIMENSION" => .dimension | "PERCENTAGE" => .percentage | "HASH" => .hash | "FUNCTION" => .function
  | "STRING" => .string | "UNICODE-RANGE" => .unicodeRange | "INVALID" => .invalid | "EOF" => .eof
  | n => .other (CssVerif.Proto.cps n)

/-- the selector machine dispatches on the type NAME (`New.productions`, a dict keyed by name) -/
def selTT (s : String) : Sel.TT := Sel.TT.ofName (CssVerif.Proto.cps s)

def structTok (i : Nat) (it : Tok.Item) : Struct.Tok := ⟨structTT it.typ, it.value, i⟩
def selTok (it : Tok.Item) : Sel.Tok := ⟨selTT it.typ, it.value⟩
def mediaTok (it : Tok.Item) : Media.Tok := { typ := mediaTT it.typ, val := it.value }

/-- the dispatcher's view of the token stream; `pos` = index -/
def structFrom : Nat → List Tok.Item → List Struct.Tok
  | _, [] => []
  | i, it :: r => structTok i it :: structFrom (i + 1) r

def structToks (items : List Tok.Item) : List Struct.Tok := structFrom 0 items

/-- the yielded tuples of `Tokenizer(doComments).tokenize(text, fullsheet=True)` -/
def stream (text : Cps) (doC : Bool) : List Tok.Item := (Tok.tokenize text true doC).tokens

/-- the sub-parsers get the very tuples the dispatcher collected -/
def lookup (items : List Tok.Item) (l : List Struct.Tok) : List Tok.Item := l.filterMap fun t => items[t.pos]?

/-! ## token domains of the two machines -/

/-- what the selector machine relies on (tokenizer facts, `Lemmas/TokDom`): the six type names synthesised by
`_prepare_tokens` do not come out of the tokenizer (only `universal` / `namespace_prefix` matter for exceptions),
a CHAR is one character (`_names[val]`, selector.py:395-435), a STRING has its quote (`value[0]`, util.py:241-252) -/
def selDom (t : Sel.Tok) : Bool :=
  t.typ.name != Sel.TT.universal.name && t.typ.name != Sel.TT.nsPrefix.name
  && (t.typ.name != Sel.TT.char.name || t.val.length == 1)
  && (t.typ.name != Sel.TT.string.name || !t.val.isEmpty)

/-- the token domain of the `Media` model (`Model/Media.lean` header): no EOF inside the prelude, no colour FUNCTION
(its nested value parser is not part of that model), and the four punctuation values only as CHAR tokens (an IDENT
spelled `\28` has the value `(`) -/
def mediaDom (t : Media.Tok) : Bool :=
  t.typ != .eof
  && !(t.typ == .function && Media.colorFunctions.contains (Media.normalize t.val))
  && (!(t.val == Media.cOpen || t.val == Media.cClose || t.val == Media.cColon || t.val == Media.cComma)
      || t.typ == .char)

/-! ## the kernels as sub-parsers of the dispatcher -/

inductive Outcome
  /-- returned; `wf` = the object's `wellformed` -/
  | ok (wf : Bool)
  /-- a Python exception (`Except.error` of the selector model) -/
  | raised
  /-- the media model left its token domain -/
  | unsupported
  deriving DecidableEq, Repr

def Outcome.wf : Outcome → Bool
  | .ok b => b
  | _ => false

/-- `SelectorList.selectorText = (tokens, namespaces)`; `.wellformed` -/
def selRun (ns : List (Cps × Cps)) (toks : List Sel.Tok) : Outcome :=
  match Sel.parseList ns toks with
  | .ok (some _) => .ok true
  | .ok none => .ok false
  | .error _ => .raised

/-- `MediaList.mediaText = tokens`; `.wellformed` (`medialist.py:109-127`: a list without a query is refused) -/
def mediaRun (toks : List Media.Tok) : Outcome :=
  match Media.parseL true false {} toks with
  | .ok items => .ok (!(Media.queries items).isEmpty)
  | .bad => .ok false
  | .unsupported => .unsupported

def selCall (items : List Tok.Item) (ns : List (Cps × Cps)) (l : List Struct.Tok) : Outcome :=
  selRun ns ((lookup items l).map selTok)

def mediaCall (items : List Tok.Item) (l : List Struct.Tok) : Outcome :=
  mediaRun ((lookup items l).map mediaTok)

/-- the dispatcher's oracle with the two machines plugged in; `ext` answers for what stays opaque -/
def kernelOracle (items : List Tok.Item) (ext : Struct.Oracle) : Struct.Oracle :=
  { ext with
    selOk := fun ns l => (selCall items ns l).wf
    mediaOk := fun l => (mediaCall items l).wf }

/-- text → `cssRules` -/
def parseText (ext : Struct.Oracle) (margins : List Cps) (text : Cps) (doC : Bool) : List Struct.Rule :=
  Struct.parseSheet (kernelOracle (stream text doC) ext) margins (structToks (stream text doC))

end CssVerif.ParseAll
