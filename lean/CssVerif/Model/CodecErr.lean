import CssVerif.Model.CodecInner
import CssVerif.Model.CodecStream
/-!
# K6 — `IncrementalDecoder.decode` / `decode` with the exception of the inner decoder (`errors="strict"`)

`codec.py:312`, `:316`: `self.decoder.decode(input, final)` raises `UnicodeDecodeError` (or `UnicodeError`
"stream does not start with BOM") when the inner decoder object meets ill-formed data; the exception leaves
`IncrementalDecoder.decode` before any output is returned. The inner decoder object has by then been fed
all bytes the machine records as `consumed`, so (chunking invariance of the inner decoders,
`inner_decoder_chunking`) the call raises exactly when the incremental decoder raises on those bytes at once.
`none` = the call raises. One-shot `decode` (`codec.py:258`) is modelled with the same decoder at end of data;
it is the stateless `codecs.getdecoder` on `Agree` (`Lemmas/CodecAgree.lean`).
-/
namespace CssVerif.Codec

/-- the inner decoder of encoding `E` raises on the data `d` (fed as a whole; `f` = final) -/
def errAt (E : Name) (d : List Nat) (f : Bool) : Bool :=
  match lookupName E with
  | some c => (incOut c d f).err
  | none => false

/-- the inner call of the step that led to this state raised -/
def DSt.raised : DSt → Bool → Bool
  | .waiting _ _ _, _ => false
  | .decoding E c _, f => errAt E c f
  | .streaming E c, f => errAt E c f

def stepE (I : Inner) (s : DSt) (x : List Nat) (f : Bool) : Option (DSt × List Nat) :=
  let r := step I s x f
  if r.1.raised f then none else some r

def runChunksE (I : Inner) : DSt → List (List Nat) → Option (DSt × List Nat)
  | s, [] => some (s, [])
  | s, c :: cs =>
    match stepE I s c false with
    | none => none
    | some r =>
      match runChunksE I r.1 cs with
      | none => none
      | some r' => some (r'.1, r.2 ++ r'.2)

/-- `iterdecode`: every chunk non-final, then `decode(b"", True)`; `none` = some call raises -/
def runAllE (I : Inner) (given : Option Name) (force : Bool) (cs : List (List Nat)) : Option (List Nat) :=
  match runChunksE I (.waiting given force []) cs with
  | none => none
  | some r =>
    match stepE I r.1 [] true with
    | none => none
    | some r' => some (r.2 ++ r'.2)

/-- one-shot `decode(input, encoding=given, force=force)`; `none` = raises -/
def oneShotE (I : Inner) (given : Option Name) (force : Bool) (d : List Nat) : Option (List Nat) :=
  if errAt (finalEnc given force d) d true then none else some (oneShot I given force d)

/-! ## the encoder side: `UnicodeEncodeError` of the inner encoder (`codec.py:423`, `:262`) -/

/-- the inner encoder of encoding `E` refuses the text `t` (a surrogate; a character outside latin-1 / ASCII) -/
def encErrAt (E : Name) (t : List Nat) : Bool :=
  match lookupName E with
  | some c => !(encScan c.kind t).2
  | none => false

def ESt.raised : ESt → Bool
  | .waiting _ _ => false
  | .encoding E c => encErrAt E c

def estepE (I : InnerEnc) (s : ESt) (x : List Nat) (f : Bool) : Option (ESt × List Nat) :=
  let r := estep I s x f
  if r.1.raised then none else some r

def erunChunksE (I : InnerEnc) : ESt → List (List Nat) → Option (ESt × List Nat)
  | s, [] => some (s, [])
  | s, c :: cs =>
    match estepE I s c false with
    | none => none
    | some r =>
      match erunChunksE I r.1 cs with
      | none => none
      | some r' => some (r'.1, r.2 ++ r'.2)

def erunAllE (I : InnerEnc) (given : Option Name) (cs : List (List Nat)) : Option (List Nat) :=
  match erunChunksE I (.waiting given []) cs with
  | none => none
  | some r =>
    match estepE I r.1 [] true with
    | none => none
    | some r' => some (r.2 ++ r'.2)

/-- one-shot `encode(input, encoding=given)`; `none` = raises -/
def encodeOneShotE (I : InnerEnc) (given : Option Name) (input : List Nat) : Option (List Nat) :=
  match given with
  | some g => if encErrAt g (fixFinal input g) then none else some (encodeOneShot I given input)
  | none =>
    let E := detUFinal input
    if encErrAt E (if isSig E then fixFinal input utf8Name else input) then none
    else some (encodeOneShot I given input)

/-! ## the stream reader with the exception of the inner stream reader (`codec.py:536`, `:548`)

`streamreader.decode(input, errors)` raises on ill-formed data — also on the calls whose result the CSS reader then
throws away because the `@charset` rule is still open. No `final`: data that merely ends inside a character never raises. -/

def rstepE (I : Inner) (force : Bool) : RSt → List Nat → Option (RSt × List Nat)
  | .waiting enc bb, input =>
    match readerEnc enc force (bb ++ input) with
    | none => some (rstep I force (.waiting enc bb) input)
    | some E => if errAt E (bb ++ input) false then none else some (rstep I force (.waiting enc bb) input)
  | .reading E c, input =>
    if errAt E (c ++ input) false then none else some (rstep I force (.reading E c) input)

def rrunChunksE (I : Inner) (force : Bool) : RSt → List (List Nat) → Option (RSt × List Nat)
  | s, [] => some (s, [])
  | s, c :: cs =>
    match rstepE I force s c with
    | none => none
    | some r =>
      match rrunChunksE I force r.1 cs with
      | none => none
      | some r' => some (r'.1, r.2 ++ r'.2)

def readAllE (I : Inner) (given : Option Name) (force : Bool) (cs : List (List Nat)) : Option (List Nat) :=
  (rrunChunksE I force (.waiting given []) cs).map (·.2)

/-- `StreamWriter.write` with the exception of the inner stream writer (`codec.py:494`) -/
def wrunChunksE (I : InnerEnc) : ESt → List (List Nat) → Option (ESt × List Nat)
  | s, [] => some (s, [])
  | s, c :: cs =>
    match estepE I s c false with
    | none => none
    | some r =>
      match wrunChunksE I r.1 cs with
      | none => none
      | some r' => some (r'.1, r.2 ++ r'.2)

def writeAllE (I : InnerEnc) (given : Option Name) (cs : List (List Nat)) : Option (List Nat) :=
  (wrunChunksE I (.waiting given []) cs).map (·.2)

/-- the inner decoder of the encoding the reader settles on raises on the data `d` (non-final) -/
def rerr (given : Option Name) (force : Bool) (d : List Nat) : Bool :=
  match readerEnc given force d with
  | none => false
  | some E => errAt E d false

end CssVerif.Codec
