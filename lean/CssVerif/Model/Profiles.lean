import CssVerif.Lib.Proto
/-!
# K5 — model of the profile registry `cssutils/profiles.py` (`_atomic` and class `Profiles`, lines 23-501)

Hand transcription, statement by statement, of the code as it is NOW — after the fixes 86e5da6 (re-adding an
existing name keeps the name listed once), 8a9e974 (remove-all resets the macro cache; re-adding a registered name
with macros and bulk-adding over registered profiles re-expand from the raw values) and fb19e57 (`_atomic`: a
mutator that raises restores the registry). Strings are `List Nat` (code points). Python `dict`s are association lists
with Python's update discipline (`dset`: replace the value in place, else append), because the order of
`_profilesProperties` is observable through `knownNames`.

State (`profiles.py:133-145`): `_usedMacros`, `_profileNames`, `_rawProfiles`, `_profilesProperties`,
`_defaultProfiles`, `_knownNames`. A Python method that raises half way keeps the assignments it has already made —
every function here returns the new state *and* the exception, if any; `atomic` is the decorator that undoes them.

Regular-expression acceptance is not modelled: `accepts : CVal → Str → Bool` is a parameter (a callable that
raises counts as `false`, which is what `validate` does when `log.raiseExceptions` is off). What *is* modelled is
the macro expansion as real string substitution (`_expand_macros`, `profiles.py:182-194`).
-/
namespace CssVerif.Profiles
open CssVerif.Proto

abbrev Str := List Nat

/-! ## Python dicts -/
abbrev Dict (α : Type) := List (Str × α)

/-- `d.get(k)` / `d[k]` (`none` = `KeyError`) -/
def dget {α : Type} : Dict α → Str → Option α
  | [], _ => none
  | (k, v) :: t, x => if k = x then some v else dget t x

/-- `d[k] = v`: an existing key keeps its position -/
def dset {α : Type} : Dict α → Str → α → Dict α
  | [], k, v => [(k, v)]
  | (k', v') :: t, k, v => if k' = k then (k, v) :: t else (k', v') :: dset t k v

/-- `d.update(n)` -/
def dupdate {α : Type} (d n : Dict α) : Dict α := n.foldl (fun acc kv => dset acc kv.1 kv.2) d

/-- `del d[k]` (the caller has checked that the key exists; Python keys are unique) -/
def derase {α : Type} (d : Dict α) (x : Str) : Dict α := d.filter fun kv => kv.1 ≠ x

def dkeys {α : Type} (d : Dict α) : List Str := d.map (·.1)

/-- a dict literal with possibly repeated keys, normalised as Python would build it -/
def dnorm {α : Type} (l : List (Str × α)) : Dict α := dupdate [] l

/-! ## values -/

/-- a property definition: a regular-expression text with `{macro}` placeholders, or a callable -/
inductive PVal
  | pat (s : Str)
  | fn (id : Nat)
  deriving DecidableEq, Repr

/-- a compiled property: `LazyRegex('^(?:%s)$' % value, re.I)` or the callable itself -/
inductive CVal
  | re (s : Str)
  | fn (id : Nat)
  deriving DecidableEq, Repr

inductive Exc
  | keyError (k : Str)      -- undefined macro / unknown profile / missing 'properties'
  | noSuchProfile
  | valueError              -- `list.index` of a missing name
  | diverges                -- the `while re.search(...)` loop is still running when the fuel ends
  deriving DecidableEq, Repr

/-- `_rawProfiles[name]`: `addProfiles` first stores `{'macros': …}` only (`profiles.py:288`) -/
structure Raw where
  props : Option (Dict PVal)
  macros : Dict Str
  deriving DecidableEq, Repr

structure Reg where
  used : Dict Str                    -- `_usedMacros`
  names : List Str                   -- `_profileNames`
  raw : Dict Raw                     -- `_rawProfiles`
  compiled : Dict (Dict CVal)        -- `_profilesProperties`
  default : Option (List Str)        -- `_defaultProfiles` (`None`, or the sequence assigned)
  known : List Str                   -- `_knownNames`
  deriving DecidableEq, Repr

/-- class-level data and the bound on the expansion loop -/
structure Cfg where
  base : Dict Str                    -- `_TOKEN_MACROS.copy()` updated with `_MACROS`
  fuel : Nat

/-! ## `_expand_macros` (`profiles.py:182-194`) -/

def isLower (c : Nat) : Bool := 97 ≤ c && c ≤ 122
def isNameCh (c : Nat) : Bool := isLower c || (48 ≤ c && c ≤ 57) || c == 45

inductive Seg
  | ch (c : Nat)
  | ph (name : Str)
  deriving DecidableEq, Repr

def Seg.isPh : Seg → Bool
  | .ph _ => true
  | .ch _ => false

/-- All non-overlapping matches of `{[a-z][a-z0-9-]*}` (no flags: ASCII, case-sensitive), leftmost first, as
`re.sub`/`re.search` find them. `some acc`: a `{` followed by the reversed text `acc` has been read, and `acc` is
empty or consists of a lower-case letter followed by name characters. A match cannot contain `{`, so a failed
attempt is resumed at the character that broke it. -/
def toks : Option Str → Str → List Seg
  | none, [] => []
  | some acc, [] => (123 :: acc.reverse).map .ch
  | none, c :: t => if c = 123 then toks (some []) t else .ch c :: toks none t
  | some acc, c :: t =>
    if acc = [] then
      if isLower c then toks (some [c]) t
      else if c = 123 then .ch 123 :: toks (some []) t
      else .ch 123 :: .ch c :: toks none t
    else
      if isNameCh c then toks (some (c :: acc)) t
      else if c = 125 then .ph acc.reverse :: toks none t
      else if c = 123 then (123 :: acc.reverse).map .ch ++ toks (some []) t
      else (123 :: acc.reverse).map .ch ++ .ch c :: toks none t

/-- `re.search(r'{[a-z][a-z0-9-]*}', value)` -/
def hasPh (s : Str) : Bool := (toks none s).any Seg.isPh

/-- `re.sub(r'{(?P<macro>…)}', macro_value, value)` with `macro_value = '(?:%s)' % macros[name]`;
the first undefined macro from the left raises `KeyError` -/
def substSegs (m : Dict Str) : List Seg → Except Exc Str
  | [] => .ok []
  | .ch c :: t => match substSegs m t with
      | .ok r => .ok (c :: r)
      | .error e => .error e
  | .ph n :: t => match dget m n with
      | none => .error (.keyError n)
      | some body => match substSegs m t with
          | .ok r => .ok (40 :: 63 :: 58 :: (body ++ 41 :: r))
          | .error e => .error e

def subPass (m : Dict Str) (s : Str) : Except Exc Str := substSegs m (toks none s)

/-- the `while` loop of line 190; Python has no bound — `fuel` passes, then `diverges` -/
def expandValue (m : Dict Str) : Nat → Str → Except Exc Str
  | 0, v => if hasPh v then .error .diverges else .ok v
  | f + 1, v =>
    if hasPh v then
      match subPass m v with
      | .ok v' => expandValue m f v'
      | .error e => .error e
    else .ok v

/-- `_expand_macros(dictionary, macros)`: in dictionary order; callables are kept -/
def expandDict (fuel : Nat) (m : Dict Str) : Dict PVal → Except Exc (Dict PVal)
  | [] => .ok []
  | (k, .fn i) :: t => match expandDict fuel m t with
      | .ok r => .ok ((k, .fn i) :: r)
      | .error e => .error e
  | (k, .pat s) :: t => match expandValue m fuel s with
      | .error e => .error e
      | .ok s' => match expandDict fuel m t with
          | .ok r => .ok ((k, .pat s') :: r)
          | .error e => .error e

/-- `'^(?:%s)$' % value` -/
def wrapRe (s : Str) : Str := 94 :: 40 :: 63 :: 58 :: (s ++ [41, 36])

/-- `_compile_regexes` (`profiles.py:196-207`) -/
def compileVal : PVal → CVal
  | .pat s => .re (wrapRe s)
  | .fn i => .fn i

def compileDict (d : Dict PVal) : Dict CVal := d.map fun kv => (kv.1, compileVal kv.2)

/-- `__update_knownNames` (`profiles.py:209-212`) -/
def knownOf (compiled : Dict (Dict CVal)) : List Str := compiled.flatMap fun kv => dkeys kv.2

def updateKnown (r : Reg) : Reg := { r with known := knownOf r.compiled }

/-! ## `_resetProperties` (`profiles.py:247-272`) -/

/-- lines 254-255: `for profile in self._profileNames: macros.update(self._rawProfiles[profile]['macros'])` -/
def gatherMacros (raw : Dict Raw) : Dict Str → List Str → Except Exc (Dict Str)
  | m, [] => .ok m
  | m, p :: ps => match dget raw p with
      | none => .error (.keyError p)
      | some e => gatherMacros raw (dupdate m e.macros) ps

/-- lines 263-269: rebuild `_profilesProperties` profile by profile; a failure keeps what has been rebuilt -/
def rebuild (fuel : Nat) (raw : Dict Raw) (m : Dict Str) :
    Dict (Dict CVal) → List Str → Dict (Dict CVal) × Option Exc
  | acc, [] => (acc, none)
  | acc, p :: ps => match dget raw p with
      | none => (acc, some (.keyError p))
      | some e => match e.props with
          | none => (acc, some (.keyError (cps "properties")))
          | some props => match expandDict fuel m props with
              | .error x => (acc, some x)
              | .ok ex => rebuild fuel raw m (dset acc p (compileDict ex)) ps

/-- Python truthiness of an optional dict argument -/
def truthy {α : Type} : Option (List α) → Bool
  | some (_ :: _) => true
  | _ => false

def resetProperties (cfg : Cfg) (r : Reg) (newMacros : Option (Dict Str)) : Reg × Option Exc :=
  match gatherMacros r.raw cfg.base r.names with
  | .error e => (r, some e)
  | .ok m0 =>
    let m := if truthy newMacros then dupdate m0 (newMacros.getD []) else m0
    let res := rebuild cfg.fuel r.raw m [] r.names
    match res.2 with
    | some e => ({ r with compiled := res.1 }, some e)
    | none => ({ r with compiled := res.1, used := m }, none)

/-! ## `addProfile` (`profiles.py:298-358`) and `_atomic` (`profiles.py:23-48`) -/

/-- lines 327-340: the macro environment (not on the `replaced` path); returns the registry and the macros stored for the profile -/
def addMacros (cfg : Cfg) (r : Reg) (profile : Str) (macros : Option (Dict Str)) : (Reg × Dict Str) × Option Exc :=
  if truthy macros then
    let ms := macros.getD []
    -- line 329: would a known macro change?
    if (dkeys ms).any (fun k => (dget r.used k).isSome) then
      let res := resetProperties cfg r (some ms)
      ((res.1, ms), res.2)
    else (({ r with used := dupdate r.used ms }, ms), none)
  else
    -- lines 336-340: "might have been set by addProfiles before"
    ((r, match dget r.raw profile with
         | some e => e.macros
         | none => []), none)

/-- lines 343-358 (not `replaced`): save name and raw definitions, expand with `_usedMacros`, compile, refresh the
known names -/
def addStore (cfg : Cfg) (r1 : Reg) (profile : Str) (properties : Dict PVal) (ms : Dict Str) : Reg × Option Exc :=
  let r2 : Reg := { r1 with
    names := if profile ∈ r1.names then r1.names else r1.names ++ [profile],
    raw := dset r1.raw profile { props := some properties, macros := ms } }
  match expandDict cfg.fuel r2.used properties with
  | .error e => (r2, some e)
  | .ok ex => (updateKnown { r2 with compiled := dset r2.compiled profile (compileDict ex) }, none)

/-- `_atomic` (`profiles.py:23-48`): if the wrapped method raises, `_usedMacros`, `_profileNames`, `_rawProfiles`,
`_profilesProperties` and `_knownNames` are put back as they were on entry (`_defaultProfiles` is not saved: no
wrapped method assigns it) -/
def atomic (f : Reg → Reg × Option Exc) (r : Reg) : Reg × Option Exc :=
  let res := f r
  match res.2 with
  | none => res
  | some e => ({ res.1 with used := r.used, names := r.names, raw := r.raw, compiled := r.compiled,
                            known := r.known }, some e)

/-- the path `replaced` of `addProfile`: the name is registered and macros are given — no incremental macro
handling; the raw values are stored and everything is re-expanded from the raw values -/
def addReplace (cfg : Cfg) (r : Reg) (profile : Str) (properties : Dict PVal) (ms : Dict Str) : Reg × Option Exc :=
  let r2 : Reg := { r with
    names := if profile ∈ r.names then r.names else r.names ++ [profile],
    raw := dset r.raw profile { props := some properties, macros := ms } }
  let res := resetProperties cfg r2 none
  match res.2 with
  | some e => (res.1, some e)
  | none => (updateKnown res.1, none)

/-- the other path: macros first (lines 324-340), then store and expand incrementally -/
def addPlain (cfg : Cfg) (r : Reg) (profile : Str) (properties : Dict PVal) (macros : Option (Dict Str)) :
    Reg × Option Exc :=
  let s := addMacros cfg r profile macros
  match s.2 with
  | some e => (s.1.1, some e)
  | none => addStore cfg s.1.1 profile properties s.1.2

/-- the body of `addProfile`; `replaced = profile in self._profileNames and bool(macros)` -/
def addProfileRaw (cfg : Cfg) (r : Reg) (profile : Str) (properties : Dict PVal) (macros : Option (Dict Str)) :
    Reg × Option Exc :=
  if profile ∈ r.names ∧ truthy macros = true then addReplace cfg r profile properties (macros.getD [])
  else addPlain cfg r profile properties macros

def addProfile (cfg : Cfg) (r : Reg) (profile : Str) (properties : Dict PVal) (macros : Option (Dict Str)) :
    Reg × Option Exc :=
  atomic (fun r => addProfileRaw cfg r profile properties macros) r

/-! ## `addProfiles` (`profiles.py:274-296`) -/

structure ProfileDef where
  name : Str
  props : Dict PVal
  macros : Option (Dict Str)
  deriving DecidableEq, Repr

/-- lines 284-288 -/
def preloadMacros (r : Reg) : List ProfileDef → Reg
  | [] => r
  | d :: ds =>
    if truthy d.macros then
      let ms := d.macros.getD []
      preloadMacros { r with used := dupdate r.used ms, raw := dset r.raw d.name { props := none, macros := ms } } ds
    else preloadMacros r ds

/-- lines 290-292 -/
def addEach (cfg : Cfg) (r : Reg) : List ProfileDef → Reg × Option Exc
  | [] => (r, none)
  | d :: ds =>
    let res := addProfile cfg r d.name d.props none
    match res.2 with
    | some e => (res.1, some e)
    | none => addEach cfg res.1 ds

/-- the body of `addProfiles`; `reset`: profiles were registered before, or a name occurs twice — then everything
is re-expanded from the raw values at the end -/
def addProfilesRaw (cfg : Cfg) (r : Reg) (l : List ProfileDef) : Reg × Option Exc :=
  let reset := !r.names.isEmpty || !decide ((l.map (·.name)).Nodup)
  let res := addEach cfg (preloadMacros r l) l
  match res.2 with
  | some e => (res.1, some e)
  | none =>
    if reset then
      let rr := resetProperties cfg res.1 none
      match rr.2 with
      | some e => (rr.1, some e)
      | none => (updateKnown rr.1, none)
    else res

def addProfiles (cfg : Cfg) (r : Reg) (l : List ProfileDef) : Reg × Option Exc :=
  atomic (fun r => addProfilesRaw cfg r l) r

/-! ## `removeProfile` (`profiles.py:360-400`) -/

/-- `removeProfile(all=True)`: clears the tables and puts the macro cache back to the base macros -/
def removeAll (cfg : Cfg) (r : Reg) : Reg :=
  updateKnown { r with compiled := [], raw := [], names := [], used := cfg.base }

/-- the body of `removeProfile(profile)` -/
def removeProfileRaw (cfg : Cfg) (r : Reg) (profile : Option Str) : Reg × Option Exc :=
  match profile with
  | none => (r, some .noSuchProfile)                      -- `_rawProfiles[None]`
  | some p =>
    match dget r.raw p with
    | none => (r, some .noSuchProfile)
    | some e =>
      let reset := !e.macros.isEmpty
      match dget r.compiled p with
      | none => (r, some .noSuchProfile)
      | some _ =>
        let r1 : Reg := { r with compiled := derase r.compiled p, raw := derase r.raw p }
        if p ∈ r1.names then
          let r2 : Reg := { r1 with names := r1.names.erase p }
          if reset then
            let res := resetProperties cfg r2 none
            match res.2 with
            | some x => (res.1, some x)
            | none => (updateKnown res.1, none)
          else (updateKnown r2, none)
        else (r1, some .valueError)

def removeProfile (cfg : Cfg) (r : Reg) (profile : Option Str) : Reg × Option Exc :=
  atomic (fun r => removeProfileRaw cfg r profile) r

/-! ## `defaultProfiles` (`profiles.py:214-235`) -/

def setDefault (r : Reg) (d : Option (List Str)) : Reg := { r with default := d }

def getDefault (r : Reg) : List Str :=
  match r.default with
  | some (a :: l) => a :: l
  | _ => r.names

/-! ## queries -/

def strLe : Str → Str → Bool
  | [], _ => true
  | _ :: _, [] => false
  | a :: s, b :: t => a < b || (a == b && strLe s t)

def insertSorted (x : Str) : List Str → List Str
  | [] => [x]
  | y :: t => if strLe x y then x :: y :: t else y :: insertSorted x t

/-- `sorted(...)` on strings (code-point order) -/
def sortStrs (l : List Str) : List Str := l.foldr insertSorted []

/-- `propertiesByProfile` (`profiles.py:402-417`), consumed completely -/
def propsOfProfiles (compiled : Dict (Dict CVal)) : List Str → Except Exc (List Str)
  | [] => .ok []
  | p :: ps => match dget compiled p with
      | none => .error .noSuchProfile
      | some d => match propsOfProfiles compiled ps with
          | .ok r => .ok (sortStrs (dkeys d) ++ r)
          | .error e => .error e

def propertiesByProfile (r : Reg) (profiles : Option (List Str)) : Except Exc (List Str) :=
  propsOfProfiles r.compiled (sortStrs (if truthy profiles then profiles.getD [] else r.names))

/-- the loop of `validate` (`profiles.py:431-443`) -/
def validateLoop (accepts : CVal → Str → Bool) (compiled : Dict (Dict CVal)) (name value : Str) :
    List Str → Except Exc Bool
  | [] => .ok false
  | p :: ps => match dget compiled p with
      | none => .error (.keyError p)
      | some d => match dget d name with
          | some c => if accepts c value then .ok true else validateLoop accepts compiled name value ps
          | none => validateLoop accepts compiled name value ps

def validate (accepts : CVal → Str → Bool) (r : Reg) (name value : Str) : Except Exc Bool :=
  validateLoop accepts r.compiled name value r.names

/-- the two search loops of `validateWithProfile` (`profiles.py:475-493`): first profile that defines the
name and accepts the value -/
def firstAccepting (accepts : CVal → Str → Bool) (compiled : Dict (Dict CVal)) (name value : Str) :
    List Str → Except Exc (Option Str)
  | [] => .ok none
  | p :: ps => match dget compiled p with
      | none => .error (.keyError p)
      | some d => match dget d name with
          | some c => if accepts c value then .ok (some p) else firstAccepting accepts compiled name value ps
          | none => firstAccepting accepts compiled name value ps

structure Verdict where
  valid : Bool
  matching : Bool
  profiles : List Str
  deriving DecidableEq, Repr

def validateWithProfile (accepts : CVal → Str → Bool) (r : Reg) (name value : Str)
    (profiles : Option (List Str)) : Except Exc Verdict :=
  if name ∉ r.known then .ok ⟨false, false, []⟩
  else
    let ps := if truthy profiles then profiles.getD [] else getDefault r
    match firstAccepting accepts r.compiled name value ps.reverse with
    | .error e => .error e
    | .ok (some p) => .ok ⟨true, true, [p]⟩
    | .ok none =>
      match firstAccepting accepts r.compiled name value (r.names.filter (fun p => p ∉ ps)) with
      | .error e => .error e
      | .ok (some p) => .ok ⟨true, false, [p]⟩
      | .ok none =>
        .ok ⟨false, false, sortStrs (dkeys (r.compiled.filter fun kv => (dget kv.2 name).isSome))⟩

/-! ## `__init__` (`profiles.py:129-180`) -/

def empty (cfg : Cfg) : Reg :=
  { used := cfg.base, names := [], raw := [], compiled := [], default := none, known := [] }

def init (cfg : Cfg) (builtins : List ProfileDef) : Reg × Option Exc :=
  let res := addProfiles cfg (empty cfg) builtins
  match res.2 with
  | some e => (res.1, some e)
  | none => (updateKnown res.1, none)

/-! ## operations as data (histories) -/

inductive Op
  | add (name : Str) (props : Dict PVal) (macros : Option (Dict Str))
  | addMany (l : List ProfileDef)
  | remove (name : Option Str)
  | removeAll
  | setDefault (d : Option (List Str))
  deriving DecidableEq, Repr

def step (cfg : Cfg) (r : Reg) : Op → Reg × Option Exc
  | .add n ps ms => addProfile cfg r n ps ms
  | .addMany l => addProfiles cfg r l
  | .remove n => removeProfile cfg r n
  | .removeAll => (removeAll cfg r, none)
  | .setDefault d => (setDefault r d, none)

/-- a history; exceptions are caught by the caller (the registry is as the failed call left it: unchanged) -/
def run (cfg : Cfg) (r : Reg) : List Op → Reg
  | [] => r
  | op :: ops => run cfg (step cfg r op).1 ops

end CssVerif.Profiles
