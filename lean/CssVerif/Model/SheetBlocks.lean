import CssVerif.Model.SheetValid
import CssVerif.Model.SheetRaw
/-!
# C09 — declaration blocks and properties as objects

The rule objects of `Model/SheetEdit.lean` each hold (for the kinds style, @page, @font-face, margin) one
`CSSStyleDeclaration` object (`rule._style`), which holds `Property` objects (the `Property` items of `seq`). Both
have a raw back pointer: `CSSStyleDeclaration._parentRule` and `Property._parent`. Objects are shared and mutated in
Python, so here they live in a heap: object identities (`BId`, `PId`) and maps from identities to fields.

| model | source |
|---|---|
| `newStyle` (`rule.style = CSSStyleDeclaration(cssText=…)`, `rule.style = 'text'`, `rule.cssText = …` of a style / @font-face / margin rule) | `_setStyle` of `CSSStyleRule` `cssstylerule.py:247-261`, `CSSPageRule` `csspagerule.py:408-422`, `CSSFontFaceRule` `cssfontfacerule.py:155-169`, `MarginRule` `marginrule.py:212-226` |
| `shareStyle` (`rule.style = otherRule.style`: an object that is already contained) | the same lines, `style._parentRule = self` |
| `blockText` (`style.cssText = text`) | `CSSStyleDeclaration._setCssText` `cssstyledeclaration.py:304-381` |
| `setProp` (`style.setProperty(name, value, replace=…)`, `style[name] = value`) | `setProperty` `cssstyledeclaration.py:621-696`, `__setitem__` `:150-160` |
| `setPropObj` (`style.setProperty(Property(name, value))`) | `:664-666`, `:672-693` |
| `sharePropObj` (`style.setProperty(p)` with a Property object that a block holds) | `:664-666`, `:688-693` |
| `removeProp` (`style.removeProperty(name)`, `del style[name]`) | `removeProperty` `:567-619`, `__delitem__` `:162-169` |
| `parseItems` | the `ident` production `:319-335`: a property that is not well-formed is a SyntaxErr in raise mode and dropped in log-only mode |

The block a rule object is created with (by its constructor or by the parser) is `BId.init <rule id>`; it names the
rule and holds one property (every text / constructor call of the harness gives a rule exactly one declaration)
whose name is outside the pool of names the operations use (rendered as the empty name; an operation with the empty
name is not an operation of the model). That a fresh rule comes with such a block is checked by the correspondence
on every dump, not proved. Operations on the sheet (`Op`) do not touch blocks or properties — a rule object that is
moved, removed or refused keeps its block — with one exception: an accepted `page.cssText = …` replaces the block of
the @page rule (`csspagerule.py:357-360`).
-/
namespace CssVerif.SheetEdit
open CssVerif.Proto (Cps)

/-- identity of a `CSSStyleDeclaration` object -/
inductive BId where
  /-- the block the rule object with this id was created with -/
  | init (rid : Nat)
  /-- created by an operation on declaration blocks -/
  | made (n : Nat)
  deriving DecidableEq, Repr

/-- identity of a `Property` object -/
inductive PId where
  /-- the `i`-th property of a block at creation of its rule -/
  | init (b : BId) (i : Nat)
  | made (n : Nat)
  deriving DecidableEq, Repr

/-- `f[a] = v` -/
def upd {α β : Type} [DecidableEq α] (f : α → β) (a : α) (v : β) : α → β := fun x => if x = a then v else f x

/-- the `Property` objects: `_parent` (a block object or `None`), `name`, the next fresh identity -/
structure PHeap where
  parent : PId → Option BId
  name : PId → Cps
  next : Nat

/-- `Property(name, value, priority, parent=b)` for every name, in order -/
def PHeap.alloc (h : PHeap) (b : Option BId) : List Cps → PHeap × List PId
  | [] => (h, [])
  | n :: ns =>
    let p := PId.made h.next
    let r := PHeap.alloc { parent := upd h.parent p b, name := upd h.name p n, next := h.next + 1 } b ns
    (r.1, p :: r.2)

structure DSt where
  st : St
  /-- `rule._style` by rule id -/
  style : Nat → BId
  /-- `block._parentRule` (id of a rule object) -/
  bprule : BId → Option Nat
  /-- the `Property` items of `block.seq`, in order -/
  bprops : BId → List PId
  ph : PHeap
  /-- block objects the caller has seen that were replaced -/
  goneB : List BId
  /-- property objects the caller has seen / handed in that are in no block -/
  goneP : List PId
  nextB : Nat

def initParent : PId → Option BId
  | .init (.init r) 0 => some (.init r)
  | _ => none

def initBprule : BId → Option Nat
  | .init r => some r
  | .made _ => none

def initBprops : BId → List PId
  | .init r => [.init (.init r) 0]
  | .made _ => []

def DSt.init (st : St) : DSt :=
  { st := st, style := .init, bprule := initBprule, bprops := initBprops,
    ph := { parent := initParent, name := fun _ => [], next := 0 }, goneB := [], goneP := [], nextB := 0 }

/-- kinds whose rule objects have a `style` -/
def styled (k : Kind) : Bool := k = .style || k = .page || k = .fontface || k = .margin

/-- the rule object a declaration operation addresses: the rule at `path`, if it has a `style` -/
def styledAt (st : St) (path : List Nat) : Option Nat :=
  match atPath st.rules path with
  | some r => if styled r.kind then some r.id else none
  | none => none

/-- the properties a declaration text denotes: (name, well-formed) per declaration. `none`: SyntaxErr (raise mode,
`cssstyledeclaration.py:329-333`); in log-only mode the declaration is dropped -/
def parseItems (raising : Bool) (items : List (Cps × Bool)) : Option (List Cps) :=
  if raising && items.any (fun i => !i.2) then none else some ((items.filter (·.2)).map (·.1))

/-! ## the edits, on an addressed rule id -/

/-- a fresh block object with fresh properties becomes `rule._style`: `CSSStyleDeclaration(cssText=…)` (its
properties name it, `_parentRule = None`), then `_setStyle`: `style._parentRule = self`, `self._style = style`,
`oldStyle._parentRule = None` unless it is the same object -/
def newStyleAt (ds : DSt) (rid : Nat) (names : List Cps) : DSt :=
  let b := BId.made ds.nextB
  let a := ds.ph.alloc (some b) names
  let old := ds.style rid
  let bprule1 := upd ds.bprule b (some rid)
  { ds with
    style := upd ds.style rid b,
    bprule := if old ≠ b then upd bprule1 old none else bprule1,
    bprops := upd ds.bprops b a.2,
    ph := a.1,
    goneB := ds.goneB ++ [old],
    nextB := ds.nextB + 1 }

/-- `rule.style = other.style`: the block object of the rule `src` is handed to the rule `rid` -/
def shareStyleAt (ds : DSt) (rid src : Nat) : DSt :=
  let b := ds.style src
  let old := ds.style rid
  let bprule1 := upd ds.bprule b (some rid)
  { ds with
    style := upd ds.style rid b,
    bprule := if old ≠ b then upd bprule1 old none else bprule1,
    goneB := if old ≠ b then ds.goneB ++ [old] else ds.goneB }

/-- `style.cssText = text` (accepted): the new properties name the block, the replaced ones nothing -/
def blockTextAt (ds : DSt) (rid : Nat) (names : List Cps) : DSt :=
  let b := ds.style rid
  let a := ds.ph.alloc (some b) names
  let old := ds.bprops b
  { ds with
    ph := { a.1 with parent := fun p => if p ∈ old then none else a.1.parent p },
    bprops := upd ds.bprops b a.2,
    goneP := ds.goneP ++ old }

/-- a new `Property` appended to the block: `newp.parent = self; self.seq.append(newp)` -/
def appendPropAt (ds : DSt) (rid : Nat) (name : Cps) : DSt :=
  let b := ds.style rid
  let a := ds.ph.alloc (some b) [name]
  { ds with ph := a.1, bprops := upd ds.bprops b (ds.bprops b ++ a.2) }

/-- a `Property` object the caller made that stays outside every block -/
def loosePropAt (ds : DSt) (name : Cps) : DSt :=
  let a := ds.ph.alloc none [name]
  { ds with ph := a.1, goneP := ds.goneP ++ a.2 }

/-- `removeProperty(name)`: every property with this name leaves the block and names nothing -/
def removePropAt (ds : DSt) (rid : Nat) (name : Cps) : DSt :=
  let b := ds.style rid
  let rem := (ds.bprops b).filter (fun p => ds.ph.name p == name)
  let keep := (ds.bprops b).filter (fun p => !(ds.ph.name p == name))
  { ds with
    ph := { ds.ph with parent := fun p => if p ∈ rem then none else ds.ph.parent p },
    bprops := upd ds.bprops b keep,
    goneP := ds.goneP ++ rem }

/-- `style.setProperty(p)` with a Property object that another block holds: `newp.parent = self`, appended -/
def sharePropAt (ds : DSt) (rid : Nat) (p : PId) : DSt :=
  let b := ds.style rid
  { ds with ph := { ds.ph with parent := upd ds.ph.parent p (some b) }, bprops := upd ds.bprops b (ds.bprops b ++ [p]) }

/-- is there a property with this name in the block of `rid` -/
def hasProp (ds : DSt) (rid : Nat) (name : Cps) : Bool :=
  (ds.bprops (ds.style rid)).any (fun p => ds.ph.name p == name)

/-! ## operations -/

inductive DOp where
  | sheet (op : Op)
  /-- `rule.style = CSSStyleDeclaration(cssText=text)` (`form = 0`), `rule.style = text` (1),
  `rule.cssText = <same prelude>{text}` (2): the three ways to give a rule a new block object -/
  | newStyle (path : List Nat) (items : List (Cps × Bool)) (form : Nat)
  /-- `rule.style = other.style`, both rules addressed by path -/
  | shareStyle (path src : List Nat)
  /-- `rule.style.cssText = text` -/
  | blockText (path : List Nat) (items : List (Cps × Bool))
  /-- `rule.style.setProperty(name, value, replace=replace)` / `rule.style[name] = value`;
  `wf`: the value is well-formed, `empty`: the value is `''` / `None` -/
  | setProp (path : List Nat) (name : Cps) (wf empty replace : Bool)
  /-- `rule.style.setProperty(Property(name, value))` with a fresh well-formed Property object -/
  | setPropObj (path : List Nat) (name : Cps)
  /-- `rule.style.removeProperty(name)` / `del rule.style[name]` -/
  | removeProp (path : List Nat) (name : Cps)
  /-- `rule.style.setProperty(p)` where `p` is the `i`-th Property object of the block of the rule at `src` -/
  | sharePropObj (path src : List Nat) (i : Nat)
  /-- `del sheet.cssRules[i]` (`path = []`) / `del rule.cssRules[i]` (`Model/SheetRaw.lean`) -/
  | rawDelete (path : List Nat) (i : Int)
  /-- `sheet.cssRules.insert(i, rule)` -/
  | rawInsert (s : Spec) (i : Int)
  /-- `sheet.insertRule(rule, index)` with the rule object standing at `path` -/
  | reinsert (path : List Nat) (index : Option Int)

def dstep (ds : DSt) : DOp → DSt × Outcome
  | .sheet op =>
    let r := step ds.st op
    match op with
    | .nSetText path _ =>
      -- an accepted `page.cssText = …` also gives the @page rule a new block object (`self.style = newStyle`,
      -- `csspagerule.py:357-360`), with the one declaration every generated @page text has
      match atPath ds.st.rules path with
      | some c =>
        if c.kind = .page && r.2 == .none then (newStyleAt { ds with st := r.1 } c.id [[]], r.2)
        else ({ ds with st := r.1 }, r.2)
      | none => ({ ds with st := r.1 }, r.2)
    | _ => ({ ds with st := r.1 }, r.2)
  | .newStyle path items _ =>
    match styledAt ds.st path with
    | none => (ds, .badOp)
    | some rid =>
      match parseItems ds.st.raising items with
      | none => (ds, .err .syntaxErr)          -- the constructor / the rule's parser raises before `_setStyle`
      | some names => (newStyleAt ds rid names, .none)
  | .shareStyle path src =>
    match styledAt ds.st path, styledAt ds.st src with
    | some rid, some sid => (shareStyleAt ds rid sid, .none)
    | _, _ => (ds, .badOp)
  | .blockText path items =>
    match styledAt ds.st path with
    | none => (ds, .badOp)
    | some rid =>
      match parseItems ds.st.raising items with
      | none => (ds, .err .syntaxErr)          -- `_parse` raises before the loops, `:360-381`
      | some names => (blockTextAt ds rid names, .none)
  | .setProp path name wf empty replace =>
    if name.isEmpty then (ds, .badOp) else
    match styledAt ds.st path with
    | none => (ds, .badOp)
    | some rid =>
      if empty then (removePropAt ds rid name, .none)                          -- `:667-669`
      else if !wf then (ds, logError ds.st.raising .syntaxErr)                 -- `Property(...)` raises / `:695-696`
      else if replace && hasProp ds rid name then (ds, .none)                  -- updated in place, `:674-686`
      else (appendPropAt ds rid name, .none)                                   -- `:688-693`
  | .setPropObj path name =>
    if name.isEmpty then (ds, .badOp) else
    match styledAt ds.st path with
    | none => (ds, .badOp)
    | some rid =>
      if hasProp ds rid name then (loosePropAt ds name, .none)                 -- the object handed in is not taken
      else (appendPropAt ds rid name, .none)
  | .removeProp path name =>
    if name.isEmpty then (ds, .badOp) else
    match styledAt ds.st path with
    | none => (ds, .badOp)
    | some rid => (removePropAt ds rid name, .none)

  | .sharePropObj path src i =>
    match styledAt ds.st path, styledAt ds.st src with
    | some rid, some sid =>
      match (ds.bprops (ds.style sid))[i]? with
      | none => (ds, .badOp)
      | some p =>
        if (ds.ph.name p).isEmpty then (ds, .badOp)
        else if hasProp ds rid (ds.ph.name p) then (ds, .none)                 -- updated in place (also: the same block)
        else (sharePropAt ds rid p, .none)                                     -- `:688-693`
    | _, _ => (ds, .badOp)

  | .rawDelete path i =>
    let r := if path.isEmpty then rawDelete ds.st i else nRawDelete ds.st path i
    ({ ds with st := r.1 }, r.2)
  | .rawInsert s i => let r := rawInsert ds.st s i; ({ ds with st := r.1 }, r.2)
  | .reinsert path index => let r := reinsert ds.st path index; ({ ds with st := r.1 }, r.2)

def drun (ds : DSt) : List DOp → DSt
  | [] => ds
  | op :: ops => drun (dstep ds op).1 ops

/-! ## the specification -/

/-- back pointers of declaration blocks and properties mirror containment, for EVERY object:
a block that is the `style` of a rule object names that rule, and a block names only a rule that holds it (so a
block that was replaced names none); a property in a block names that block, and a property names only a block that
holds it (so a property that was removed names none). The last two fields are bookkeeping of the model (identities
not yet given out belong to no object). -/
structure DLinks (ds : DSt) : Prop where
  blockUp : ∀ rid, ds.bprule (ds.style rid) = some rid
  blockOnly : ∀ b rid, ds.bprule b = some rid → ds.style rid = b
  propUp : ∀ b p, p ∈ ds.bprops b → ds.ph.parent p = some b
  propOnly : ∀ p b, ds.ph.parent p = some b → p ∈ ds.bprops b
  freshB : ∀ n, ds.nextB ≤ n → ds.bprule (.made n) = none ∧ ds.bprops (.made n) = []
  freshP : ∀ n, ds.ph.next ≤ n → ds.ph.parent (.made n) = none

/-- the whole object graph is valid: rules (`Valid`), declaration blocks and properties -/
structure DValid (ds : DSt) : Prop where
  sheet : Valid ds.st
  links : DLinks ds

/-- operations that hand in objects: rule objects well nested (`OpOK`); a declaration block handed to a rule is
not the block of another rule (`shareStyle` hands in a contained object: see `share_style_breaks_links`), a Property
object handed to a block is not held by a block (`sharePropObj`: see `share_property_breaks_links`), a rule object
handed in is not contained (`reinsert`), and the rule lists are edited through the DOM methods (`rawDelete`,
`rawInsert`) -/
def DOpOK : DOp → Prop
  | .sheet op => OpOK op
  | .shareStyle path src => path = src
  | .sharePropObj _ _ _ => False
  | .rawDelete _ _ => False
  | .rawInsert _ _ => False
  | .reinsert _ _ => False
  | _ => True

end CssVerif.SheetEdit
