import CssVerif.Model.Struct
/-!
# The at-rules that are opaque in K2 `Struct`: what their `cssText` setters build

Hand transcription (statement by statement, `file.py:line` cited), in the style of `Model/Struct.lean`, of

* `cssutils/util.py`                  `_stringtokenvalue` (:241-252), `_uritokenvalue` (:254-268)
* `cssutils/css/csscharsetrule.py`    `_setCssText` (:70-128)  — the encoding string only
* `cssutils/css/cssimportrule.py`     `_setCssText` (:98-270)
* `cssutils/css/cssnamespacerule.py`  `_setCssText` (:105-230)
* `cssutils/css/cssfontfacerule.py`   `_setCssText` (:66-150)
* `cssutils/css/cssvariablesrule.py`  `_setCssText` (:87-183); `cssvariablesdeclaration.py` `_setCssText` (:95-197)
                                      — a `ProdParser` run, modelled on a fragment (see there)
* `cssutils/css/csspagerule.py`       `__parseSelectorText` (:148-245), `__parseMarginAndStyle` (:247-277),
                                      `_setCssText` (:283-355)
* `cssutils/css/marginrule.py`        `_setCssText` (:133-200) — a `ProdParser` run; modelled on the fragment
                                      `@margin {S|COMMENT}* "{" (token ≠ "}", no ATKEYWORD / INVALID / EOF)* "}"`,
                                      `none` outside of it (not modelled)

`Struct.parseSheet` keeps these rules as their token lists (`Rule.at_ kind toks`) and asks its `Oracle` whether
they are wellformed; the functions here say what is IN such a rule, from the same token list.
-/
namespace CssVerif.AtRules
open CssVerif.Proto (Cps)
open CssVerif.Struct

/-! ## string and URI token values -/

/-- `s.replace('\\' + q, q)` (left to right, non-overlapping) -/
def unescQuote (q : Nat) : Cps → Cps
  | [] => []
  | [c] => [c]
  | c :: d :: rest =>
    if c = 0x5C ∧ d = q then q :: unescQuote q rest else c :: unescQuote q (d :: rest)

/-- `_stringtokenvalue` (`util.py:241-252`): `value.replace('\\' + value[0], value[0])[1:-1]` -/
def stringValue (v : Cps) : Cps :=
  match v with
  | [] => []                                   -- `value[0]` raises on an empty value: no STRING token is empty
  | q :: _ => ((unescQuote q v).drop 1).dropLast

def isWsCp (c : Nat) : Bool := c = 0x20 || c = 0x09 || c = 0x0A || c = 0x0D || c = 0x0C

/-- `str.strip(' \t\r\n\f')`: CSS white space only -/
def stripWs (v : Cps) : Cps := ((v.dropWhile isWsCp).reverse.dropWhile isWsCp).reverse

/-- `_uritokenvalue` (`util.py:254-270`): the text after the first `(` (the name before it may be longer than
`url` when it is written with simple escapes), without the closing `)`.  (A URI token always has a `(`.) -/
def uriValue (v : Cps) : Cps :=
  let value := stripWs (((v.dropWhile (fun c => c != 0x28)).drop 1).dropLast)
  match value with
  | [] => []
  | q :: _ =>
    if (q = 0x22 ∨ q = 0x27) ∧ value.getLast? = some q then ((unescQuote q value).drop 1).dropLast
    else value

/-- the `name` setters of `CSSImportRule` (`cssimportrule.py:405-414`) and `CSSMediaRule`
(`cssmediarule.py:276-284`): `if not name: name = None` — an empty name is no name -/
def storedName : Option Cps → Option Cps
  | some [] => none
  | n => n

/-! ## `@charset` — the encoding (`csscharsetrule.py:99-105`); whether the rule is accepted (a known codec …)
stays with the oracle -/

def charsetEncoding (ts : List Tok) : Option Cps :=
  match ts with
  | _ :: enc :: _ => if enc.typ = .string then some (stringValue enc.val) else none
  | _ => none

/-! ## `@import` (`cssimportrule.py:98-270`) -/

inductive ImpExp where | href | mediaNameSemi | semi | eof
  deriving DecidableEq, Repr

structure ImpSt where
  exp : ImpExp := .href
  href : Option Cps := none
  media : Option (List Tok) := none
  mediaOk : Bool := true
  name : Option Cps := none
  wf : Bool := true
  deriving Repr

/-- `_ident` (:165-206), also called by `_char` for `(` -/
def impIdent (O : Oracle) (s : ImpSt) (t : Tok) (rest : List Tok) : ImpSt × List Tok :=
  if s.exp = .mediaNameSemi then
    let r := upto .importmq (some t) rest
    match r.1.getLast? with
    | none => (s, r.2)                                   -- unreachable: the start token is in the list
    | some last =>
      let mediatoks := r.1.dropLast
      let wf1 := !(last.val ≠ vSemi ∧ last.typ ≠ .eof ∧ last.typ ≠ .string)
      let mok := O.mediaOk mediatoks
      let s1 : ImpSt := { s with wf := s.wf && wf1 && mok, media := if mok then some mediatoks else s.media }
      if last.typ = .string then ({ s1 with name := some (stringValue last.val), exp := .semi }, r.2)
      else ({ s1 with exp := .eof }, r.2)
  else ({ s with wf := false }, rest)

def impStep (O : Oracle) (s : ImpSt) (t : Tok) (rest : List Tok) : ImpSt × List Tok :=
  match t.typ with
  | .string =>                                            -- _string :137-151
    if s.exp = .href then ({ s with href := some (stringValue t.val), exp := .mediaNameSemi }, rest)
    else if s.exp = .mediaNameSemi then ({ s with name := some (stringValue t.val), exp := .semi }, rest)
    else ({ s with wf := false }, rest)
  | .uri =>                                               -- _uri :153-163
    if s.exp = .href then ({ s with href := some (uriValue t.val), exp := .mediaNameSemi }, rest)
    else ({ s with wf := false }, rest)
  | .ident => impIdent O s t rest
  | .char =>                                              -- _char :208-220
    if (s.exp = .mediaNameSemi ∨ s.exp = .semi) ∧ t.val = vSemi then ({ s with exp := .eof }, rest)
    else if s.exp = .mediaNameSemi ∧ t.val = vLParen then impIdent O s t rest
    else ({ s with wf := false }, rest)
  | .s => if s.exp = .eof then ({ s with wf := false }, rest) else (s, rest)        -- util.py:540-545
  | .comment => if s.exp = .eof then ({ s with wf := false }, rest) else (s, rest)  -- util.py:533-539
  | .atkeyword =>                                         -- util.py:515-531
    if s.exp = .eof then ({ s with wf := false }, rest) else (s, (upto .default (some t) rest).2)
  | .eof => ({ s with exp := .eof }, rest)
  | _ => ({ s with wf := false }, rest)                   -- no production: util.py:489

structure Import where
  href : Cps
  /-- the tokens given to `MediaList.mediaText`; `none`: no media list, the rule has `all` -/
  media : Option (List Tok)
  name : Option Cps
  deriving Repr

/-- `CSSImportRule.cssText = tokens`: what is set when `ok` (:222-262) -/
def importRule (O : Oracle) (ts : List Tok) : Option Import :=
  match ts with
  | [] => none
  | at_ :: body =>
    if at_.typ ≠ .importSym then none
    else
      let s := parseLoop (impStep O) {} body
      match s.href with
      | none => none
      | some h =>
        if s.wf ∧ h ≠ [] ∧ s.exp = .eof then some ⟨h, s.media, s.name⟩ else none

/-! ## `@namespace` (`cssnamespacerule.py:105-230`) -/

inductive NsExp where | prefixOrUri | uri | semi | eof
  deriving DecidableEq, Repr

structure NsSt where
  exp : NsExp := .prefixOrUri
  pfx : Cps := []
  uri : Option Cps := none
  wf : Bool := true
  deriving Repr

def nsStep (s : NsSt) (t : Tok) (rest : List Tok) : NsSt × List Tok :=
  match t.typ with
  | .ident =>                                             -- :137-146
    if s.exp = .prefixOrUri then ({ s with pfx := t.val, exp := .uri }, rest)
    else ({ s with wf := false }, rest)
  | .string =>                                            -- :148-158
    if s.exp = .prefixOrUri ∨ s.exp = .uri then ({ s with uri := some (stringValue t.val), exp := .semi }, rest)
    else ({ s with wf := false }, rest)
  | .uri =>                                               -- :160-170
    if s.exp = .prefixOrUri ∨ s.exp = .uri then ({ s with uri := some (uriValue t.val), exp := .semi }, rest)
    else ({ s with wf := false }, rest)
  | .char =>                                              -- :172-180
    if s.exp = .semi ∧ t.val = vSemi then ({ s with exp := .eof }, rest)
    else ({ s with wf := false }, rest)
  | .s => if s.exp = .eof then ({ s with wf := false }, rest) else (s, rest)
  | .comment => if s.exp = .eof then ({ s with wf := false }, rest) else (s, rest)
  | .atkeyword =>
    if s.exp = .eof then ({ s with wf := false }, rest) else (s, (upto .default (some t) rest).2)
  | .eof => ({ s with exp := .eof }, rest)
  | _ => ({ s with wf := false }, rest)

/-- `CSSNamespaceRule(cssText=tokens)`: `(prefix, namespaceURI)` when wellformed -/
def nsRule (ts : List Tok) : Option (Cps × Cps) :=
  match ts with
  | [] => none
  | at_ :: body =>
    if at_.typ ≠ .namespaceSym then none
    else
      let s := parseLoop nsStep {} body
      match s.uri with
      | none => none
      | some u => if s.wf ∧ s.exp = .eof then some (s.pfx, u) else none

/-! ## a `_parse` run with no productions of its own (`cssfontfacerule.py:104-112`, Base2 defaults only) -/

structure BareSt where
  expEOF : Bool := false
  wf : Bool := true

def bareStep (s : BareSt) (t : Tok) (rest : List Tok) : BareSt × List Tok :=
  match t.typ with
  | .s => if s.expEOF then ({ s with wf := false }, rest) else (s, rest)
  | .comment => if s.expEOF then ({ s with wf := false }, rest) else (s, rest)
  | .atkeyword =>
    if s.expEOF then ({ s with wf := false }, rest) else (s, (upto .default (some t) rest).2)
  | .eof => ({ s with expEOF := true }, rest)
  | _ => ({ s with wf := false }, rest)

def bareOk (ts : List Tok) : Bool := (parseLoop bareStep {} ts).wf

/-! ## `@font-face` (`cssfontfacerule.py:66-150`) -/

/-- `CSSFontFaceRule.cssText = tokens`: the `seq` of the new style when `ok`, `none` when the rule keeps its
empty default style (the rule itself is always `wellformed`) -/
def fontFaceRule (O : Oracle) (ts : List Tok) : Option (List Item) :=
  match ts with
  | [] => none
  | at_ :: rest0 =>
    if at_.typ ≠ .fontFaceSym then none                                  -- :88-93
    else
      let r1 := upto .blockstart none rest0                              -- :98-100
      let ok1 := ((sepEnd r1.1).2.map (·.val)) = some vLBrace             -- :101-107
      let okBefore := bareOk (sepEnd r1.1).1                             -- :109-118
      let r2 := upto .blockend none r1.2                                 -- :120-122
      match (sepEnd r2.1).2 with
      | none => none                                                     -- :124-130
      | some last =>
        if last.val ≠ vRBrace ∧ last.typ ≠ .eof then none
        else if r2.2 ≠ [] then none                                      -- trailing content :132-137
        else
          let body := if last.typ = .eof then r2.1 else (sepEnd r2.1).1  -- :139-141
          if ok1 ∧ okBefore then some (parseDecls O body) else none

/-! ## `@page` -/

inductive PgExp where | page | colonOrEof | eof
  deriving DecidableEq, Repr

structure PgSt where
  exp : PgExp := .page
  lastS : Bool := false
  wf : Bool := true
  name : Option Cps := none
  pseudo : Option Cps := none
  deriving Repr

/-- `('first', 'left', 'right')` (`csspagerule.py:176`) -/
def knownPseudo : List Cps :=
  [CssVerif.Proto.cps "first", CssVerif.Proto.cps "left", CssVerif.Proto.cps "right"]

/-- the pseudo-page name that is stored: the three known names in their normalised form, any other as written
(`csspagerule.py:175-178`) -/
def pagePseudo (v : Cps) : Cps := if knownPseudo.contains (normalize v) then normalize v else v

/-- `__parseSelectorText` (`csspagerule.py:148-248`) -/
def pgStep (s : PgSt) (t : Tok) (rest : List Tok) : PgSt × List Tok :=
  match t.typ with
  | .char =>                                              -- _char :158-194
    if !s.lastS ∧ (s.exp = .page ∨ s.exp = .colonOrEof) ∧ t.val = vColon then
      match rest with
      | [] => (s, rest)                                   -- no IDENT found (logged)
      | i :: rest' =>
        if i.typ ≠ .ident then (s, rest')                 -- expected IDENT (logged), the token is gone
        else ({ s with pseudo := some (pagePseudo i.val), exp := .eof }, rest')
    else ({ s with wf := false }, rest)
  | .s => (if s.exp = .colonOrEof then { s with lastS := true } else s, rest)          -- S :196-201
  | .ident =>                                             -- IDENT :203-222
    if s.exp = .page then
      (if normalize t.val = CssVerif.Proto.cps "auto" then { s with exp := .colonOrEof }
       else { s with name := some t.val, exp := .colonOrEof }, rest)
    else ({ s with wf := false }, rest)
  | .comment => (s, rest)                                 -- COMMENT :224-227
  | .atkeyword =>
    if s.exp = .eof then ({ s with wf := false }, rest) else (s, (upto .default (some t) rest).2)
  | .eof => ({ s with exp := .eof }, rest)
  | _ => ({ s with wf := false }, rest)

/-- the page selector: page name as written, pseudo-page name (`pagePseudo`) -/
structure PageSel where
  name : Option Cps
  pseudo : Option Cps
  deriving DecidableEq, Repr

def pageSelector (ts : List Tok) : Option PageSel :=
  let s := parseLoop pgStep {} ts
  if s.wf then some ⟨s.name, s.pseudo⟩ else none

def isMarginKw (margins : List Cps) (t : Tok) : Bool :=
  t.typ == .atkeyword && margins.contains (normalize t.val)

/-- the body of a margin rule, from the tokens after its at-keyword: (the tokens stored as `styletokens`,
the tokens left in the shared iterator).  `none`: outside the modelled fragment (see the file header). -/
def marginBody : Bool → List Tok → Option (List Tok × List Tok)
  | _, [] => none                                         -- missing "}" (or "{")
  | false, t :: ts =>                                     -- before "{"
    if t.typ = .s ∨ t.typ = .comment then marginBody false ts
    else if t.typ = .invalid ∨ t.typ = .eof then none
    else if t.val = vLBrace then marginBody true ts
    else none
  | true, t :: ts =>                                      -- inside the block
    if t.typ = .s ∨ t.typ = .comment then marginBody true ts      -- S is dropped, COMMENT goes to the rule's seq
    else if t.typ = .invalid ∨ t.typ = .eof ∨ t.typ = .atkeyword then none
    else if t.val = vRBrace then some ([], ts)
    else match marginBody true ts with
      | some (st, rest) => some (t :: st, rest)
      | none => none

theorem marginBody_rest_le (b : Bool) (ts : List Tok) (st rest : List Tok)
    (h : marginBody b ts = some (st, rest)) : rest.length ≤ ts.length := by
  induction ts generalizing b st with
  | nil => cases b <;> simp [marginBody] at h
  | cons t ts ih =>
    cases b with
    | false =>
      simp only [marginBody] at h
      split at h
      · have := ih _ _ h; simp; omega
      · split at h
        · simp at h
        · split at h
          · have := ih _ _ h; simp; omega
          · simp at h
    | true =>
      simp only [marginBody] at h
      split at h
      · have := ih _ _ h; simp; omega
      · split at h
        · simp at h
        · split at h
          · simp at h; obtain ⟨_, rfl⟩ := h; simp
          · split at h
            · next st' rest' hm =>
              simp at h; obtain ⟨_, rfl⟩ := h
              have := ih _ _ hm; simp; omega
            · simp at h

/-- a margin box: the normalised at-keyword and the `seq` of its style -/
structure Margin where
  name : Cps
  items : List Item
  deriving Repr

/-- `__parseMarginAndStyle` (`csspagerule.py:247-277`): (margin rules, style tokens); `none`: a margin rule
outside the modelled fragment, or one margin written twice (merging is not modelled) -/
def splitMargins (O : Oracle) (margins : List Cps) : Nat → List Tok → Option (List Margin × List Tok)
  | 0, _ => none
  | _, [] => some ([], [])
  | fuel + 1, t :: ts =>
    if isMarginKw margins t then
      match marginBody false ts with
      | none => none
      | some (st, rest) =>
        match splitMargins O margins fuel rest with
        | none => none
        | some (ms, style) =>
          if ms.any (fun m => m.name = normalize t.val) then none
          else some (⟨normalize t.val, parseDecls O st⟩ :: ms, style)
    else
      match splitMargins O margins fuel ts with
      | none => none
      | some (ms, style) => some (ms, t :: style)

structure Page where
  sel : PageSel
  items : List Item
  margins : List Margin
  deriving Repr

inductive PageResult where
  /-- `ok`: selector, style and margin rules are set -/
  | parsed (p : Page)
  /-- not `ok`: the rule keeps the defaults of its constructor (no selector, empty style, no margin rules) -/
  | stub
  /-- outside the modelled fragment of `MarginRule` -/
  | unmodelled
  deriving Repr

/-- `CSSPageRule.cssText = tokens` (`csspagerule.py:283-355`) -/
def pageRule (O : Oracle) (margins : List Cps) (ts : List Tok) : PageResult :=
  match ts with
  | [] => .stub
  | at_ :: rest0 =>
    if at_.typ ≠ .pageSym then .stub                                      -- :300-305
    else
      let r1 := upto .blockstart none rest0                               -- :309-311
      let r2 := upto .blockend none r1.2                                  -- :312-314
      let okBrace := ((sepEnd r1.1).2.map (·.val)) = some vLBrace ∧ r2.2 = []   -- :316-325
      let sel := pageSelector (sepEnd r1.1).1                             -- :327-328
      match (sepEnd r2.1).2 with
      | none => .stub                                                     -- :330-337
      | some last =>
        if last.val ≠ vRBrace ∧ last.typ ≠ .eof then .stub
        else
          let body := if last.typ = .eof then r2.1 else (sepEnd r2.1).1   -- :339-341
          match splitMargins O margins (body.length + 1) body with       -- :344
          | none => .unmodelled
          | some (ms, style) =>
            match sel with
            | some s => if okBrace then .parsed ⟨s, parseDecls O style, ms⟩ else .stub    -- :347-355
            | none => .stub

/-! ## `@variables` (`cssvariablesrule.py:87-183`, `cssvariablesdeclaration.py:95-197`)

The rule has the shape of `@font-face`.  Its block is read by a `ProdParser` run
(`vardeclaration [S? ';'? S? vardeclaration]* S? ';'?`, `vardeclaration = IDENT ':'? term`) whose `term`
hands the shared token iterator to a `PropertyValue`, which stops before the next `;` it sees at its own level
(`value.py:160-163`, the production `END`).  Modelled on the fragment
`{S|COMMENT}* [ IDENT {S|COMMENT}* ":" {S|COMMENT}* value ( ";" | end ) {S|COMMENT}* ]*` where `value` is the non-empty
stretch up to the next `;` outside brackets and the value parser accepts it; `none` outside of it (not
modelled: stand-alone `;`, a missing `:`, a rejected value, nested at-rules). -/

/-- `ProdParser` skips S tokens and moves COMMENT tokens to the `seq` (`prodparser.py:520-545`) -/
def skipGap : List Tok → List Tok
  | [] => []
  | t :: ts => if t.typ = .s ∨ t.typ = .comment then skipGap ts else t :: ts

theorem skipGap_le (ts : List Tok) : (skipGap ts).length ≤ ts.length := by
  induction ts with
  | nil => simp [skipGap]
  | cons t ts ih => unfold skipGap; split <;> simp <;> omega

/-- a variable: the name IDENT as written, the tokens of its value -/
abbrev Var := Tok × List Tok

/-- `cssvariablesdeclaration.py:166-190`: a name (compared in normalised form) that is already there is replaced
in place (name as written now, new value), a new one is appended -/
def varsAdd (acc : List Var) (v : Var) : List Var :=
  if acc.any (fun e => normalize e.1.val = normalize v.1.val) then
    acc.map (fun e => if normalize e.1.val = normalize v.1.val then v else e)
  else acc ++ [v]

/-- `CSSVariablesDeclaration.cssText = tokens`: the `var` items of the new `seq` (`none`: not modelled) -/
def varsLoop (O : Oracle) : Nat → List Var → List Tok → Option (List Var)
  | 0, _, _ => none
  | fuel + 1, acc, ts =>
    match skipGap ts with
    | [] => some acc
    | n :: r0 =>
      if n.typ ≠ .ident then none
      else
        match skipGap r0 with
        | [] => none
        | c :: r1 =>
          if ¬ (c.typ = .char ∧ c.val = vColon) then none
          else
            let r := upto .semicolon none (skipGap r1)
            let value := if (r.1.getLast?.map (·.val)) = some vSemi then r.1.dropLast else r.1
            if value = [] then none
            else if O.valueOk value then varsLoop O fuel (varsAdd acc (n, value)) r.2
            else none

def varsDecl (O : Oracle) (ts : List Tok) : Option (List Var) := varsLoop O (ts.length + 1) [] ts

inductive VarsResult where
  /-- `ok`: the rule has the new declaration -/
  | parsed (vars : List Var)
  /-- not `ok`: the rule keeps the empty declaration of its constructor -/
  | stub
  /-- the block is outside the modelled fragment -/
  | unmodelled
  deriving Repr

/-- `CSSVariablesRule.cssText = tokens` (`cssvariablesrule.py:113-183`; the rule itself is always `wellformed`) -/
def variablesRule (O : Oracle) (ts : List Tok) : VarsResult :=
  match ts with
  | [] => .stub
  | at_ :: rest0 =>
    if at_.typ ≠ .variablesSym then .stub                                -- :116-121
    else
      let r1 := upto .blockstart none rest0                              -- :126-128
      let ok1 := ((sepEnd r1.1).2.map (·.val)) = some vLBrace             -- :129-135
      let okBefore := bareOk (sepEnd r1.1).1                             -- :137-147
      let r2 := upto .blockend none r1.2                                 -- :149-151
      match (sepEnd r2.1).2 with
      | none => .stub                                                    -- :153-159
      | some last =>
        if last.val ≠ vRBrace ∧ last.typ ≠ .eof then .stub
        else if r2.2 ≠ [] then .stub                                     -- trailing content :161-166
        else
          let body := if last.typ = .eof then r2.1 else (sepEnd r2.1).1  -- :168-170
          if ok1 ∧ okBefore then
            match varsDecl O body with                                   -- :172
            | some vs => .parsed vs
            | none => .unmodelled
          else .stub

/-! ## the at-rule part of the oracle -/

/-- an oracle whose at-rule verdicts are the functions of this file (selector / value / media query verdicts
are taken from `O`; `@charset` and top-level margin rules stay with `O`) -/
def withAtRules (O : Oracle) : Oracle :=
  { O with
    atOk := fun t im ts =>
      match t with
      | .importSym => (importRule O ts).isSome
      | .pageSym => true                                  -- `wellformed = property(lambda self: True)`
      | .fontFaceSym => true
      | .variablesSym => true                             -- `cssvariablesrule.py:219`
      | _ => O.atOk t im ts
    nsInfo := nsRule }

end CssVerif.AtRules
