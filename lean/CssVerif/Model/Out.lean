import CssVerif.Lib.Proto
/-!
# K4 `Out` — the serializer core of `cssutils/serialize.py` (model for C06)

* `Prefs`            — the preference record (`serialize.py:32-186`)
* text helpers       — the Python string operations the serializer uses (`strip`, `in`, `split`, `join`, …)
* `append`, `value`  — `Out.append` (`serialize.py:200-307`) and `Out.value` (`:309-315`), statement by statement
* `Obj`/`Val`/`Item` — the model DOM below the declaration level (values, selectors, media lists) and its `do_*` methods

Conventions. Text is `List Nat` (code points). `Out.out` (a Python list of strings, appended at the end) is kept
**reversed**: the head of the list is `out[-1]`. `self._level` is the parameter `lv`; `Out.append` reads it only as
`self.ser._level + 1`. Item types are strings; the non-string types that occur in the DOM are encoded as
`<None>`, `<CSSComment>` (the class object used as type inside `PropertyValue`) and `<0>` (`CSSRule.UNKNOWN_RULE`).
-/
namespace CssVerif.Out
open CssVerif.Proto (Cps)

/-! ## Preferences (`serialize.py:135-161`) -/

structure Prefs where
  defaultAtKeyword : Bool
  defaultPropertyName : Bool
  defaultPropertyPriority : Bool
  importHrefFormat : Option Cps
  indent : Cps
  indentClosingBrace : Bool
  indentSpecificities : Bool
  keepAllProperties : Bool
  keepComments : Bool
  keepEmptyRules : Bool
  keepUnknownAtRules : Bool
  keepUsedNamespaceRulesOnly : Bool
  lineNumbers : Bool
  lineSeparator : Cps
  listItemSpacer : Cps
  minimizeColorHash : Bool
  normalizedVarNames : Bool
  omitLastSemicolon : Bool
  omitLeadingZero : Bool
  paranthesisSpacer : Cps
  propertyNameSpacer : Cps
  resolveVariables : Bool
  selectorCombinatorSpacer : Cps
  spacer : Cps
  validOnly : Bool
  deriving DecidableEq, Repr

/-! ## constants -/
def t_COMMENT : Cps := [67, 79, 77, 77, 69, 78, 84]
def t_S : Cps := [83]
def t_STRING : Cps := [83, 84, 82, 73, 78, 71]
def t_URI : Cps := [85, 82, 73]
def t_HASH : Cps := [72, 65, 83, 72]
def t_FUNCTION : Cps := [70, 85, 78, 67, 84, 73, 79, 78]
def t_adjacent_sibling : Cps := [97, 100, 106, 97, 99, 101, 110, 116, 45, 115, 105, 98, 108, 105, 110, 103]
def t_child : Cps := [99, 104, 105, 108, 100]
def t_following_sibling : Cps := [102, 111, 108, 108, 111, 119, 105, 110, 103, 45, 115, 105, 98, 108, 105, 110, 103]
def t_plus : Cps := [112, 108, 117, 115]
def t_styletext : Cps := [115, 116, 121, 108, 101, 116, 101, 120, 116]
def t_href : Cps := [104, 114, 101, 102]
def t_media : Cps := [109, 101, 100, 105, 97]
def t_name : Cps := [110, 97, 109, 101]
def t_namespaceURI : Cps := [110, 97, 109, 101, 115, 112, 97, 99, 101, 85, 82, 73]
def t_MediaQuery : Cps := [77, 101, 100, 105, 97, 81, 117, 101, 114, 121]
def t_IDENT : Cps := [73, 68, 69, 78, 84]
def t_CHAR : Cps := [67, 72, 65, 82]
def t_COMMA : Cps := [67, 79, 77, 77, 65]
def t_ATKEYWORD : Cps := [65, 84, 75, 69, 89, 87, 79, 82, 68]
def t_COLOR_VALUE : Cps := [67, 79, 76, 79, 82, 95, 86, 65, 76, 85, 69]
/-- Python `None` used as a type -/
def t_None : Cps := [60, 78, 111, 110, 101, 62]
/-- the class `cssutils.css.CSSComment` used as a type (`value.py`, comments inside values) -/
def t_CSSComment : Cps := [60, 67, 83, 83, 67, 111, 109, 109, 101, 110, 116, 62]
/-- `CSSRule.UNKNOWN_RULE == 0` used as a type -/
def t_0 : Cps := [60, 48, 62]
def s_all : Cps := [97, 108, 108]
def s_varP : Cps := [118, 97, 114, 40]
/-- `'+>~,:{;)]/=}'` (`serialize.py:256`) -/
def c_punctPre : Cps := [43, 62, 126, 44, 58, 123, 59, 41, 93, 47, 61, 125]
/-- `'-+*/'` (`:276`) -/
def c_calcOps : Cps := [45, 43, 42, 47]
/-- `'+>~'` (`:278`) -/
def c_comb : Cps := [43, 62, 126]
/-- `'}[]()/='` (`:299`) -/
def c_noSpace : Cps := [125, 91, 93, 40, 41, 47, 61]

/-! ## Python string operations -/

/-- `str.isspace` on one code point — the characters `str.strip()` removes and `\s` (str pattern) matches -/
def isWs (c : Nat) : Bool :=
  (9 ≤ c && c ≤ 13) || (28 ≤ c && c ≤ 32) || c == 133 || c == 160 || c == 5760 || (8192 ≤ c && c ≤ 8202)
    || c == 8232 || c == 8233 || c == 8239 || c == 8287 || c == 12288

/-- `not s.strip()` -/
def allWs (s : Cps) : Bool := s.all isWs

/-- the text with every whitespace character deleted (used by the layout theorems only) -/
def stripWs (s : Cps) : Cps := s.filter (fun c => !isWs c)

/-- `s.strip()` -/
def strip (s : Cps) : Cps := ((s.dropWhile isWs).reverse.dropWhile isWs).reverse

/-- `s.lstrip()` -/
def lstrip (s : Cps) : Cps := s.dropWhile isWs

/-- `s.rstrip()` -/
def rstrip (s : Cps) : Cps := (s.reverse.dropWhile isWs).reverse

/-- `len(s) - len(s.rstrip('\\'))` -/
def trailingBackslashes (s : Cps) : Nat := (s.reverse.takeWhile (· == 92)).length

/-- end of `do_css_CSSVariablesDeclaration` since 1bbf955 (`serialize.py:913-919`): strip both ends, but when what
is left ends in an odd run of backslashes and something was stripped behind it, the first stripped character is
the escaped blank that ends the last value and is put back -/
def stripKeepEsc (s : Cps) : Cps :=
  let text := lstrip s
  let stripped := rstrip text
  if trailingBackslashes stripped % 2 == 1 && stripped.length < text.length then
    stripped ++ (text.drop stripped.length).take 1
  else stripped

/-- `s.endswith(' ')` -/
def endsSp (s : Cps) : Bool := s.getLast? == some 32

/-- `s.endswith('\\ ')`: the text ends with a backslash-escaped space (part of a name, not white space) -/
def endsEscSp : Cps → Bool
  | [] => false
  | [_] => false
  | [a, b] => a == 92 && b == 32
  | _ :: t => endsEscSp t

/-- Python `a in b` for strings -/
def isInfix (a : Cps) : Cps → Bool
  | [] => a.isEmpty
  | c :: t => a.isPrefixOf (c :: t) || isInfix a t

/-- `s.split(sep)` for a non-empty `sep`: non-overlapping occurrences, left to right.
`skip` counts the characters of a matched separator that are still to be skipped; `cur` is the current field, reversed. -/
def splitGo (sep : Cps) : Cps → Nat → Cps → List Cps
  | [], _, cur => [cur.reverse]
  | c :: t, skip + 1, cur => splitGo sep t skip cur
  | c :: t, 0, cur =>
    if sep.isPrefixOf (c :: t) then cur.reverse :: splitGo sep t (sep.length - 1) []
    else splitGo sep t 0 (c :: cur)

def splitOn (sep s : Cps) : List Cps := splitGo sep s 0 []

/-- `sep.join(parts)` -/
def joinWith (sep : Cps) : List Cps → Cps
  | [] => []
  | [x] => x
  | x :: y :: t => x ++ sep ++ joinWith sep (y :: t)

/-- `n * s` -/
def rep (n : Nat) (s : Cps) : Cps := (List.replicate n s).flatten

/-- `helper.string` (`helper.py:75-91`): the four `replace` calls do not feed each other, so one pass is the same -/
def pyString (v : Cps) : Cps :=
  let e := v.flatMap fun c =>
    if c == 10 then [92, 97, 32] else if c == 13 then [92, 100, 32] else if c == 12 then [92, 99, 32]
    else if c == 34 then [92, 34] else [c]
  -- `if (len(value) - len(value.rstrip('\\'))) % 2: value = value + '\\'` (`helper.py:89-93`): only an odd run of
  -- trailing backslashes would escape the closing quote
  let e := if (e.reverse.takeWhile (· == 92)).length % 2 == 1 then e ++ [92] else e
  [34] ++ e ++ [34]

/-- `_match_forbidden_in_uri` (`helper.py:104`): `.*?[\(\)\s\;,'"]` matches iff some character is forbidden
(a line break, which `.` does not cross, is itself `\s`) -/
def uriForbidden (c : Nat) : Bool :=
  c == 40 || c == 41 || isWs c || c == 59 || c == 44 || c == 39 || c == 34 || c ≤ 8 || (14 ≤ c && c ≤ 31) || c == 127

/-- `helper.uri` (`helper.py:107-115`) -/
def pyUri (v : Cps) : Cps :=
  [117, 114, 108, 40] ++ (if v.any uriForbidden then pyString v else v) ++ [41]

/-! ## `CSSSerializer` helpers -/

/-- `_indentblock` (`serialize.py:346-356`) -/
def indentblock (p : Prefs) (text : Cps) (level : Nat) : Cps :=
  if p.lineSeparator.isEmpty then text
  else joinWith p.lineSeparator ((splitOn p.lineSeparator text).map fun l => rep level p.indent ++ l)

/-- `_hash` (`serialize.py:378-390`) -/
def hash (p : Prefs) (v : Cps) : Cps :=
  match v with
  | [_, a, b, c, d, e, f] => if p.minimizeColorHash && a == b && c == d && e == f then [35, a, c, e] else v
  | _ => v

/-- `do_CSSComment` (`serialize.py:423-430`); `t` is `rule._cssText` (`None` ↦ empty) -/
def doComment (p : Prefs) (t : Cps) : Cps := if !t.isEmpty && p.keepComments then t else []

/-! ## `Out` (`serialize.py:188-315`) -/

/-- `Out.out`, reversed -/
abbrev O := List Cps

/-- CSS white space: space, tab, CR, LF, FF -/
def isCssWs (c : Nat) : Bool := c == 32 || c == 9 || c == 13 || c == 10 || c == 12

/-- `not s.strip(' \t\r\n\f')` -/
def allCssWs (s : Cps) : Bool := s.all isCssWs

/-- `_remove_last_if_S` (`:195-198`): only a piece of CSS white space is removed (since "the serializer removes only
CSS white space before a separator, not a name made of other blank characters") -/
def removeLastIfS : O → O
  | [] => []
  | x :: r => if allCssWs x then r else x :: r

/-- `self.out.insert(-1, s)` -/
def insertBeforeLast (o : O) (s : Cps) : O :=
  match o with
  | [] => [s]
  | x :: r => x :: s :: r

/-- what is passed as `val`: a string, an object with `cssText`/`mediaText` (its text under the current
preferences, computed by the caller), or `None` -/
inductive AVal where
  | str (s : Cps) | obj (text : Cps) | none
  deriving DecidableEq, Repr

def AVal.text : AVal → Cps
  | .str s => s | .obj t => t | .none => []

def AVal.truthy : AVal → Bool
  | .str s => !s.isEmpty | .obj _ => true | .none => false

/-- keyword arguments of `Out.append` -/
structure Fl where
  space : Bool := true
  keepS : Bool := false
  indent : Bool := false
  alwaysS : Bool := false
  deriving DecidableEq, Repr

def isCombTy (ty : Cps) : Bool :=
  ty == t_adjacent_sibling || ty == t_child || ty == t_following_sibling || ty == t_plus

/-- PRE phase (`:228-257`): `none` = return without appending; otherwise the value to append and the list -/
def appendPre (p : Prefs) (o : O) (v : AVal) (ty : Cps) (f : Fl) : Option (Cps × O) :=
  if ty == t_COMMENT then (if p.keepComments then some (v.text, o) else none)
  else if ty == t_S then (if f.keepS then some ([32], o) else none)
  else if ty == t_STRING then
    match v with
    | .none => none
    | _ => some (pyString v.text, if p.spacer.isEmpty then removeLastIfS o else o)
  else if ty == t_URI then some (pyUri v.text, o)
  else if ty == t_HASH then some (hash p v.text, o)
  else
    match v with
    | .obj t => some (t, o)
    | _ => some (v.text, if isInfix v.text c_punctPre && !f.alwaysS then removeLastIfS o else o)

/-- `last = next((s for s in reversed(self.out) if s), '')`: the last piece written, an empty spacer is not one -/
def lastPiece (o : O) : Option Cps := o.find? (fun s => !s.isEmpty)

/-- the test of d39f9c4 / 77b59e6 (`:274-278`): `(val.startswith('*') and last == '/') or (val == '=' and last in
('*', '~', '|', '^', '$'))` — written without white space `/` + `*…` would open a comment and `*` + `=` would be the
single token `*=` -/
def wouldFuse (o : O) (val : Cps) : Bool :=
  match lastPiece o with
  | none => false
  | some x =>
    (val.head? == some 42 && x == [47])
      || (val == [61] && (x == [42] || x == [126] || x == [124] || x == [94] || x == [36]))

/-- APPEND phase (`:268-281`) -/
def appendMid (p : Prefs) (il : Nat) (o : O) (val : Cps) (f : Fl) : O :=
  if f.indent || (val == [125] && p.indentClosingBrace) then indentblock p val il :: o
  else
    let o1 := if endsSp val && !endsEscSp val then removeLastIfS o else o
    val :: (if wouldFuse o1 val then [32] :: o1 else o1)

/-- POST phase (`:275-307`) -/
def appendPost (p : Prefs) (o : O) (val : Cps) (ty : Cps) (f : Fl) : O :=
  if f.alwaysS && isInfix val c_calcOps then [32] :: o
  else if isInfix val c_comb then
    let cs := if isCombTy ty then p.selectorCombinatorSpacer else [32]
    cs :: insertBeforeLast o cs
  else if val == [41] && !f.keepS then [32] :: o
  else if val == [44] then p.listItemSpacer :: o
  else if val == [58] then p.propertyNameSpacer :: o
  else if val == [123] then p.lineSeparator :: insertBeforeLast o p.paranthesisSpacer
  else if val == [59] || ty == t_styletext then p.lineSeparator :: o
  else if !isInfix val c_noSpace && f.space && ty != t_FUNCTION then
    let o1 := p.spacer :: o
    if ty != t_STRING && p.spacer.isEmpty && !(match o1 with | [] => true | x :: _ => endsSp x) then [32] :: o1
    else o1
  else o

/-- `Out.append(val, type_, space, keepS, indent, alwaysS)`; `il` is `self.ser._level + 1` -/
def append (p : Prefs) (il : Nat) (o : O) (v : AVal) (ty : Cps) (f : Fl := {}) : O :=
  if !(v.truthy || ty == t_STRING || ty == t_URI) then o
  else
    match appendPre p o v ty f with
    | none => o
    | some r => appendPost p (appendMid p il r.2 r.1 f) r.1 ty f

/-- `Out.value(delim='', end, keepS)` (`:309-315`) -/
def value (o : O) (endS : Cps := []) (keepS : Bool := false) : Cps :=
  let o1 := if keepS then o else removeLastIfS o
  let o2 := if endS.isEmpty then o1 else endS :: o1
  o2.reverse.flatten

/-- one `out.append(...)` call -/
structure Call where
  v : AVal
  ty : Cps
  f : Fl := {}
  deriving DecidableEq, Repr

/-- a sequence of `append` calls on one `Out` -/
def runCalls (p : Prefs) (il : Nat) (cs : List Call) (o : O := []) : O :=
  cs.foldl (fun o c => append p il o c.v c.ty c.f) o

/-! ## numbers (`do_css_Value`, `serialize.py:1057-1103`)

The float `value.value` enters the model through the facts the code asks of it: `== 0`, `== int(value)` with
`str(int(value))`, `-1 < value < 1`, and the text `'%f' % value`. -/

structure Num where
  sign : Cps            -- `value._sign` (`None` ↦ empty)
  zero : Bool           -- `value.value == 0`
  intText : Option Cps  -- `str(int(value.value))` when `value.value == int(value.value)`
  small : Bool          -- `-1 < value.value < 1`
  ftext : Cps           -- `'%f' % value.value`
  dim : Option Cps      -- `value.dimension`
  deriving DecidableEq, Repr

/-- `_strip_zeros` (`:1057-1061`); a text without `.` is returned unchanged (Python: ValueError; `%f` of a finite
float always has a `.`, and `DimensionValue` rejects infinities) -/
def stripZeros (s : Cps) : Cps :=
  let i := s.findIdx (· == 46) + 2
  s.take i ++ ((s.drop i).reverse.dropWhile (· == 48)).reverse

def lengthUnits : List Cps := [[99, 109], [109, 109], [105, 110], [112, 120], [112, 99], [112, 116], [101, 109], [101, 120]]

def numText (p : Prefs) (n : Num) : Cps :=
  let dim0 := n.dim.getD []
  let val : Cps :=
    if n.zero then [48]
    else match n.intText with
      | some t => t
      | none =>
        if p.omitLeadingZero && n.small then
          let v := stripZeros n.ftext
          if n.sign == [45] then v.take 1 ++ v.drop 2 else v.drop 1
        else stripZeros n.ftext
  let dim : Cps :=
    if n.zero then (match n.dim with | some d => if lengthUnits.contains d then [] else d | none => []) else dim0
  let sign : Cps := if !n.zero && n.sign == [43] then [43] else []
  sign ++ val ++ dim

/-! ## the model DOM below declarations -/

mutual
inductive Obj where
  /-- `CSSComment` (`_cssText`) -/
  | comment (text : Cps)
  /-- `PropertyValue`; `nonEmpty` is `len(value) > 0` (number of `Value` items) -/
  | pvalue (nonEmpty : Bool) (items : List Item)
  /-- `Value` / `URIValue` whose `type` is not numeric: `out.append(value.value, value.type)` -/
  | value (ty : Cps) (v : Cps)
  /-- `DimensionValue` -/
  | num (ty : Cps) (n : Num)
  /-- `ColorValue` (`colorType`, `seq`) -/
  | color (ctype : Cps) (items : List Item)
  | func (items : List Item)
  | calc (items : List Item)
  | ms (items : List Item)
  /-- `CSSVariable`: name, the `PropertyValue` found in `sheet.variables` (or `none`), the fallback value -/
  | var (name : Cps) (resolved : Val) (fallback : Val)
  | selector (wf : Bool) (items : List Item)
  | mquery (wf : Bool) (items : List Item)
  | mlist (items : List Item)
inductive Val where
  | str (s : Cps)
  /-- `(namespaceURI, name)` of a selector item, with the prefix already resolved against the sheet's namespaces -/
  | tup (s : Cps)
  | none
  | obj (o : Obj)
inductive Item where
  | mk (ty : Cps) (v : Val)
end

/-- an item whose nested object has been serialised -/
inductive EVal where
  | str (s : Cps) | tup (s : Cps) | none | obj (text : Cps)
  deriving DecidableEq, Repr

def EVal.aval : EVal → AVal
  | .str s => .str s | .tup s => .str s | .none => .none | .obj t => .obj t

/-- `out.append(cssText, type_)` after `cssText = getattr(val, 'cssText', None)`: the object's text as a *string* -/
def EVal.avalText : EVal → AVal
  | .str s => .str s | .tup s => .str s | .none => .none | .obj t => .str t

abbrev EItem := Cps × EVal

/-- `do_css_PropertyValue` (`:1034-1055`): re-quote a quoted string item -/
def requote (s : Cps) : Cps :=
  match s with
  | [] => s
  | c :: _ => if s.getLast? == some c && (c == 39 || c == 34) then pyString ((s.drop 1).dropLast) else s

def pvalueCalls (its : List EItem) : List Call :=
  its.map fun it => match it.2 with
    | .obj t => { v := .str t, ty := it.1 }
    | .str s => { v := .str (requote s), ty := it.1 }
    | .tup s => { v := .str (requote s), ty := it.1 }
    | .none => { v := .none, ty := it.1 }

/-- `do_css_CSSFunction` (`:1122-1133`) -/
def funcCalls (valuesOnly : Bool) (its : List EItem) : List Call :=
  (its.filter fun it => !(valuesOnly && it.1 == t_CSSComment)).map fun it => { v := it.2.aval, ty := it.1 }

/-- `do_css_CSSCalc` (`:1135-1156`) -/
def calcCalls (its : List EItem) : List Call :=
  its.map fun it => match it.2 with
    | .obj t => { v := .str t, ty := it.1 }
    | .none => { v := .none, ty := it.1 }
    | ev => if it.1 == t_CHAR && isInfix ev.aval.text c_calcOps then { v := ev.aval, ty := it.1, f := { alwaysS := true } }
            else { v := ev.aval, ty := it.1 }

/-- `do_css_MSValue` (`:1158-1172`) -/
def msCalls (its : List EItem) : List Call :=
  its.map fun it => { v := it.2.aval, ty := t_None, f := { space := false } }

/-- `do_css_Selector` (`:833-874`) -/
def selectorCalls (its : List EItem) : List Call :=
  its.map fun it => match it.2 with
    | .tup s => { v := .str s, ty := it.1, f := { space := false } }
    | ev => { v := ev.aval, ty := it.1, f := { space := false, keepS := true } }

/-- `do_stylesheets_medialist` (`:1196-1219`); the flag is `firstdone` -/
def mlistCalls : Bool → List EItem → List Call
  | _, [] => []
  | fd, it :: t =>
    let isMq := it.1 == t_MediaQuery
    (if isMq && fd then [({ v := .str [44], ty := t_CHAR } : Call)] else [])
      ++ ({ v := it.2.aval, ty := it.1 } : Call) :: mlistCalls (fd || isMq) t

/-- `do_stylesheets_mediaquery` (`:1221-1251`); the flag is `nextmq` -/
def mqueryCalls : Bool → List EItem → List Call
  | _, [] => []
  | nm, it :: t =>
    if it.1 == t_MediaQuery && nm then
      ({ v := .str [44], ty := t_CHAR } : Call) :: ({ v := it.2.aval, ty := it.1 } : Call) :: mqueryCalls false t
    else ({ v := it.2.aval, ty := it.1 } : Call) :: mqueryCalls true t

/-- `do_css_CSSVariable` (`:1174-1194`) given the evaluated `variable.value` and `variable.fallback` -/
def varText (p : Prefs) (il : Nat) (name : Cps) (res fb : EVal) : Cps :=
  if name.isEmpty then []
  else
    let v := res.aval.text
    if p.resolveVariables && !v.isEmpty then value (append p il [] (.str v) t_None)
    else
      let cs : List Call :=
        [{ v := .str s_varP, ty := t_FUNCTION }, { v := .str name, ty := t_IDENT }]
        ++ (match fb with
            | .none => []
            | _ => [{ v := .str [44], ty := t_COMMA }, { v := .str fb.aval.text, ty := t_None }])
        ++ [{ v := .str [41], ty := t_None }]
      value (runCalls p il cs)

/-- `do_css_ColorValue` (`:1111-1120`) -/
def colorText (p : Prefs) (il : Nat) (ctype : Cps) (its : List EItem) : Cps :=
  if ctype == t_FUNCTION then value (runCalls p il (funcCalls false its))
  else if ctype == t_HASH || ctype == t_IDENT then
    -- `do_css_Value`: `value.type` is COLOR_VALUE, `value.value` is `do_css_CSSFunction(self, True)`
    value (append p il [] (.str (value (runCalls p il (funcCalls true its)))) t_COLOR_VALUE)
  else []

mutual
/-- `obj.cssText` / `obj.mediaText` under preferences `p` at nesting level `lv` -/
def serObj (p : Prefs) (lv : Nat) : Obj → Cps
  | .comment t => doComment p t
  | .pvalue ne items => if !ne then [] else value (runCalls p (lv + 1) (pvalueCalls (evalItems p lv items)))
  | .value ty v => value (append p (lv + 1) [] (.str v) ty)
  | .num ty n => value (append p (lv + 1) [] (.str (numText p n)) ty)
  | .color ct items => colorText p (lv + 1) ct (evalItems p lv items)
  | .func items => value (runCalls p (lv + 1) (funcCalls false (evalItems p lv items)))
  | .calc items => value (runCalls p (lv + 1) (calcCalls (evalItems p lv items)))
  | .ms items => value (runCalls p (lv + 1) (msCalls (evalItems p lv items)))
  | .var name res fb => varText p (lv + 1) name (evalVal p lv res) (evalVal p lv fb)
  | .selector wf items => if wf then value (runCalls p (lv + 1) (selectorCalls (evalItems p lv items))) else []
  | .mquery wf items => if wf then value (runCalls p (lv + 1) (mqueryCalls false (evalItems p lv items))) else []
  | .mlist items =>
    if items.isEmpty then s_all else value (runCalls p (lv + 1) (mlistCalls false (evalItems p lv items)))
def evalVal (p : Prefs) (lv : Nat) : Val → EVal
  | .str s => .str s
  | .tup s => .tup s
  | .none => .none
  | .obj o => .obj (serObj p lv o)
def evalItems (p : Prefs) (lv : Nat) : List Item → List EItem
  | [] => []
  | .mk ty v :: t => (ty, evalVal p lv v) :: evalItems p lv t
end

end CssVerif.Out
