import CssVerif.Model.Codec
/-!
# K6 — `codec.IncrementalDecoder` as a state machine over an abstract inner codec, and one-shot `decode`

`cssutils/codec.py:248-345` (IncrementalDecoder) and `:241-262` (decode).

The inner codec (CPython's decoder for the chosen encoding) is a parameter. It is described by the
total text it has produced after consuming a byte prefix, `out enc bytes final`; its law — more input
only appends to what was produced for a prefix — is the chunk-invariance of CPython's incremental
decoders and is an explicit hypothesis field, not an axiom.

Abstraction of the Python object: `decoder is None` ↦ `waiting` (buffer holds bytes);
decoder present and `headerfixed = False` ↦ `decoding` (buffer holds decoded text);
`headerfixed = True` ↦ `streaming`. The rejection of the encoding name "css" (same test in both
paths) is not modelled.
-/
namespace CssVerif.Codec

abbrev Name := List Nat

/-- the name under which an answer of the detector is looked up (`codec.py:142-175` return values) -/
def Enc.name : Enc → Name
  | .utf8 => [0x75, 0x74, 0x66, 0x2D, 0x38]
  | .utf8sig => [0x75, 0x74, 0x66, 0x2D, 0x38, 0x2D, 0x73, 0x69, 0x67]
  | .utf16 => [0x75, 0x74, 0x66, 0x2D, 0x31, 0x36]
  | .utf16le => [0x75, 0x74, 0x66, 0x2D, 0x31, 0x36, 0x2D, 0x6C, 0x65]
  | .utf16be => [0x75, 0x74, 0x66, 0x2D, 0x31, 0x36, 0x2D, 0x62, 0x65]
  | .utf32 => [0x75, 0x74, 0x66, 0x2D, 0x33, 0x32]
  | .utf32le => [0x75, 0x74, 0x66, 0x2D, 0x33, 0x32, 0x2D, 0x6C, 0x65]
  | .utf32be => [0x75, 0x74, 0x66, 0x2D, 0x33, 0x32, 0x2D, 0x62, 0x65]
  | .named n => n

structure Inner where
  /-- all text produced after consuming `bytes` with encoding `enc` (`final` = no more input) -/
  out : Name → List Nat → Bool → List Nat
  /-- chunk invariance of the inner incremental decoder -/
  mono : ∀ e a b f, ∃ ext, out e (a ++ b) f = out e a false ++ ext
  /-- nothing consumed, not final: nothing produced -/
  out_nil : ∀ e, out e [] false = []

/-- `if (explicit and not force) or encoding is None: encoding = _encoding` -/
def pick (given : Option Name) (force : Bool) (d : Enc × Bool) : Name :=
  match given with
  | none => d.1.name
  | some g => if !force && d.2 then d.1.name else g

/-- the detector with `final=True`, as a total function -/
def detectFinal (l : List Nat) : Enc × Bool :=
  match core l true with
  | .ans e x => (e, x)
  | .scan =>
    match charsetName l with
    | some n => (.named n, true)
    | none => (.utf8, false)
  | .dflt => (.utf8, false)

/-- `_fixencoding(…, final=True)`, as a total function -/
def fixFinal (l enc : List Nat) : List Nat :=
  if l.length > 10 then
    if prefix10.isPrefixOf l then
      match findQuote (l.drop 10) with
      | some k => prefix10 ++ (if normName enc = utf8sigName then utf8Name else enc) ++ (l.drop 10).drop k
      | none => l
    else l
  else l

/-- the encoding one-shot `decode` ends up using (`codec.py:249-256`) -/
def finalEnc (given : Option Name) (force : Bool) (input : List Nat) : Name :=
  match given, force with
  | some g, true => g
  | _, _ => pick given force (detectFinal input)

/-- one-shot `decode(input, encoding=given, force=force)` -/
def oneShot (I : Inner) (given : Option Name) (force : Bool) (input : List Nat) : List Nat :=
  fixFinal (I.out (finalEnc given force input) input true) (finalEnc given force input)

inductive DSt where
  | waiting (given : Option Name) (force : Bool) (bufB : List Nat)
  | decoding (E : Name) (consumed : List Nat) (bufT : List Nat)
  | streaming (E : Name) (consumed : List Nat)

/-- `self.decoder.decode(input, final)`: the text newly produced -/
def feedInner (I : Inner) (E : Name) (consumed input : List Nat) (final : Bool) : List Nat :=
  (I.out E (consumed ++ input) final).drop (I.out E consumed false).length

/-- `codec.py:312-325`: header not fixed yet -/
def stepDecoding (I : Inner) (E : Name) (consumed bufT input : List Nat) (final : Bool) : DSt × List Nat :=
  let output := bufT ++ feedInner I E consumed input final
  match fixEncoding output E final with
  | none => (.decoding E (consumed ++ input) output, [])
  | some t => (.streaming E (consumed ++ input), t)

/-- `codec.py:296-309`: no decoder yet and the encoding has to be detected from `inp = buffer + input` -/
def stepDetect (I : Inner) (given : Option Name) (force : Bool) (inp : List Nat) (final : Bool) : DSt × List Nat :=
  match detect inp final with
  | none => (.waiting given force inp, [])
  | some d => stepDecoding I (pick given force d) [] [] inp final

/-- `IncrementalDecoder.decode(input, final)` (`codec.py:289-325`) -/
def step (I : Inner) : DSt → List Nat → Bool → DSt × List Nat
  | .waiting (some g) true bufB, input, final => stepDecoding I g [] [] (bufB ++ input) final
  | .waiting given force bufB, input, final => stepDetect I given force (bufB ++ input) final
  | .decoding E c bufT, input, final => stepDecoding I E c bufT input final
  | .streaming E c, input, final => (.streaming E (c ++ input), feedInner I E c input final)

/-- feed chunks with `final=False`, collecting the output -/
def runChunks (I : Inner) : DSt → List (List Nat) → DSt × List Nat
  | s, [] => (s, [])
  | s, c :: cs =>
    let r := step I s c false
    let r' := runChunks I r.1 cs
    (r'.1, r.2 ++ r'.2)

/-- `iterdecode`: all chunks non-final, then `decode(b"", True)` -/
def runAll (I : Inner) (given : Option Name) (force : Bool) (cs : List (List Nat)) : List Nat :=
  let r := runChunks I (.waiting given force []) cs
  r.2 ++ (step I r.1 [] true).2

end CssVerif.Codec

/-! ## `codec.IncrementalEncoder` (`codec.py:348-424`) and one-shot `encode` (`:265-276`) -/
namespace CssVerif.Codec

structure InnerEnc where
  /-- all bytes produced after consuming `text` with encoding `enc` -/
  out : Name → List Nat → Bool → List Nat
  mono : ∀ e a b f, ∃ ext, out e (a ++ b) f = out e a false ++ ext
  out_nil : ∀ e, out e [] false = []

/-- `encoding.replace("_", "-").lower() == "utf-8-sig"` -/
def isSig (e : Name) : Bool := normName e = utf8sigName

/-- the encoding the encoders take from the text: `detectencoding_unicode(input, final)[0]`, and since
fix 6ff2a72 `"utf-8"` when that is `None` at the end of the data (`codec.py` encode / IncrementalEncoder.encode) -/
def detU (l : List Nat) (final : Bool) : Option Name :=
  match detectUnicode l final with
  | some d => some d.1.name
  | none => if final then some utf8Name else none

/-- `detU l true` as a total function -/
def detUFinal (l : List Nat) : Name :=
  match detectUnicode l true with
  | some d => d.1.name
  | none => utf8Name

/-- one-shot `encode(input, encoding=given)` -/
def encodeOneShot (I : InnerEnc) (given : Option Name) (input : List Nat) : List Nat :=
  match given with
  | some g => I.out g (fixFinal input g) true
  | none =>
    let E := detUFinal input
    I.out E (if isSig E then fixFinal input utf8Name else input) true

inductive ESt where
  | waiting (given : Option Name) (buf : List Nat)
  | encoding (E : Name) (consumed : List Nat)

def feedEnc (I : InnerEnc) (E : Name) (consumed input : List Nat) (final : Bool) : List Nat :=
  (I.out E (consumed ++ input) final).drop (I.out E consumed false).length

/-- `IncrementalEncoder.encode(input, final)` -/
def estep (I : InnerEnc) : ESt → List Nat → Bool → ESt × List Nat
  | .waiting (some g) buf, input, final =>
    match fixEncoding (buf ++ input) g final with
    | none => (.waiting (some g) (buf ++ input), [])
    | some t =>
      let t' := if isSig g then fixFinal t utf8Name else t
      (.encoding g t', feedEnc I g [] t' final)
  | .waiting none buf, input, final =>
    match detU (buf ++ input) final with
    | none => (.waiting none (buf ++ input), [])
    | some E =>
      let t' := if isSig E then fixFinal (buf ++ input) utf8Name else buf ++ input
      (.encoding E t', feedEnc I E [] t' final)
  | .encoding E c, input, final => (.encoding E (c ++ input), feedEnc I E c input final)

def erunChunks (I : InnerEnc) : ESt → List (List Nat) → ESt × List Nat
  | s, [] => (s, [])
  | s, c :: cs =>
    let r := estep I s c false
    let r' := erunChunks I r.1 cs
    (r'.1, r.2 ++ r'.2)

/-- `iterencode`: all chunks non-final, then `encode("", True)` -/
def erunAll (I : InnerEnc) (given : Option Name) (cs : List (List Nat)) : List Nat :=
  let r := erunChunks I (.waiting given []) cs
  r.2 ++ (estep I r.1 [] true).2

end CssVerif.Codec
