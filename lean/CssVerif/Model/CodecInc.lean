import CssVerif.Model.Codec
/-!
# K6 — `codec.IncrementalDecoder` as a state machine over an abstract inner codec, and one-shot `decode`

`cssutils/codec.py:248-345` (IncrementalDecoder) and `:241-262` (decode).

The inner codec (CPython's decoder for the chosen encoding) is a parameter. It is described by the
total text it has produced after consuming a byte prefix, `out enc bytes final`; its law — more input
only appends to what was produced for a prefix — is the chunk-invariance of CPython's incremental
decoders and is an explicit hypothesis field, not an axiom.

Abstraction of the Python object: `decoder is None` ↦ `waiting` (buffer holds bytes);
decoder present and `headerfixed = False` ↦ `decoding` (buffer holds decoded text);
`headerfixed = True` ↦ `streaming`. The rejection of the encoding name "css" (same test in both
paths) is not modelled.
-/
namespace CssVerif.Codec

abbrev Name := List Nat

/-- the name under which an answer of the detector is looked up (`codec.py:142-175` return values) -/
def Enc.name : Enc → Name
  | .utf8 => [0x75, 0x74, 0x66, 0x2D, 0x38]
  | .utf8sig => [0x75, 0x74, 0x66, 0x2D, 0x38, 0x2D, 0x73, 0x69, 0x67]
  | .utf16 => [0x75, 0x74, 0x66, 0x2D, 0x31, 0x36]
  | .utf16le => [0x75, 0x74, 0x66, 0x2D, 0x31, 0x36, 0x2D, 0x6C, 0x65]
  | .utf16be => [0x75, 0x74, 0x66, 0x2D, 0x31, 0x36, 0x2D, 0x62, 0x65]
  | .utf32 => [0x75, 0x74, 0x66, 0x2D, 0x33, 0x32]
  | .utf32le => [0x75, 0x74, 0x66, 0x2D, 0x33, 0x32, 0x2D, 0x6C, 0x65]
  | .utf32be => [0x75, 0x74, 0x66, 0x2D, 0x33, 0x32, 0x2D, 0x62, 0x65]
  | .named n => n

structure Inner where
  /-- all text produced after consuming `bytes` with encoding `enc` (`final` = no more input) -/
  out : Name → List Nat → Bool → List Nat
  /-- chunk invariance of the inner incremental decoder -/
  mono : ∀ e a b f, ∃ ext, out e (a ++ b) f = out e a false ++ ext
  /-- nothing consumed, not final: nothing produced -/
  out_nil : ∀ e, out e [] false = []

/-- `if (explicit and not force) or encoding is None: encoding = _encoding` -/
def pick (given : Option Name) (force : Bool) (d : Enc × Bool) : Name :=
  match given with
  | none => d.1.name
  | some g => if !force && d.2 then d.1.name else g

/-- the detector with `final=True`, as a total function -/
def detectFinal (l : List Nat) : Enc × Bool :=
  match core l true with
  | .ans e x => (e, x)
  | .scan =>
    match charsetName l with
    | some n => (.named n, true)
    | none => (.utf8, false)
  | .dflt => (.utf8, false)

/-- `_fixencoding(…, final=True)`, as a total function -/
def fixFinal (l enc : List Nat) : List Nat :=
  if l.length > 10 then
    if prefix10.isPrefixOf l then
      match findQuote (l.drop 10) with
      | some k => prefix10 ++ (if normName enc = utf8sigName then utf8Name else enc) ++ (l.drop 10).drop k
      | none => l
    else l
  else l

/-- the encoding one-shot `decode` ends up using (`codec.py:249-256`) -/
def finalEnc (given : Option Name) (force : Bool) (input : List Nat) : Name :=
  match given, force with
  | some g, true => g
  | _, _ => pick given force (detectFinal input)

/-- one-shot `decode(input, encoding=given, force=force)` -/
def oneShot (I : Inner) (given : Option Name) (force : Bool) (input : List Nat) : List Nat :=
  fixFinal (I.out (finalEnc given force input) input true) (finalEnc given force input)

inductive DSt where
  | waiting (given : Option Name) (force : Bool) (bufB : List Nat)
  | decoding (E : Name) (consumed : List Nat) (bufT : List Nat)
  | streaming (E : Name) (consumed : List Nat)

/-- `self.decoder.decode(input, final)`: the text newly produced -/
def feedInner (I : Inner) (E : Name) (consumed input : List Nat) (final : Bool) : List Nat :=
  (I.out E (consumed ++ input) final).drop (I.out E consumed false).length

/-- `codec.py:312-325`: header not fixed yet -/
def stepDecoding (I : Inner) (E : Name) (consumed bufT input : List Nat) (final : Bool) : DSt × List Nat :=
  let output := bufT ++ feedInner I E consumed input final
  match fixEncoding output E final with
  | none => (.decoding E (consumed ++ input) output, [])
  | some t => (.streaming E (consumed ++ input), t)

/-- `codec.py:296-309`: no decoder yet and the encoding has to be detected from `inp = buffer + input` -/
def stepDetect (I : Inner) (given : Option Name) (force : Bool) (inp : List Nat) (final : Bool) : DSt × List Nat :=
  match detect inp final with
  | none => (.waiting given force inp, [])
  | some d => stepDecoding I (pick given force d) [] [] inp final

/-- `IncrementalDecoder.decode(input, final)` (`codec.py:289-325`) -/
def step (I : Inner) : DSt → List Nat → Bool → DSt × List Nat
  | .waiting (some g) true bufB, input, final => stepDecoding I g [] [] (bufB ++ input) final
  | .waiting given force bufB, input, final => stepDetect I given force (bufB ++ input) final
  | .decoding E c bufT, input, final => stepDecoding I E c bufT input final
  | .streaming E c, input, final => (.streaming E (c ++ input), feedInner I E c input final)

/-- feed chunks with `final=False`, collecting the output -/
def runChunks (I : Inner) : DSt → List (List Nat) → DSt × List Nat
  | s, [] => (s, [])
  | s, c :: cs =>
    let r := step I s c false
    let r' := runChunks I r.1 cs
    (r'.1, r.2 ++ r'.2)

/-- `iterdecode`: all chunks non-final, then `decode(b"", True)` -/
def runAll (I : Inner) (given : Option Name) (force : Bool) (cs : List (List Nat)) : List Nat :=
  let r := runChunks I (.waiting given force []) cs
  r.2 ++ (step I r.1 [] true).2

end CssVerif.Codec
