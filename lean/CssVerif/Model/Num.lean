import CssVerif.Lib.Proto
import CssVerif.Gen.C18Tables
/-!
# K4 `Val`/`Out`, numeric part — model of number parsing and number formatting (C18)

Hand transcription, statement by statement, of

* `cssutils/helper.py:41-61`        `_simpleescapes`, `normalize`
* `cssutils/css/value.py:544-608`   `DimensionValue.__reUnNumDim`, `DimensionValue._setCssText`
* `cssutils/serialize.py:1057-1109` `_strip_zeros`, `do_css_Value` (numeric branch)
* `cssutils/serialize.py:188-314`   `Out._remove_last_if_S`, `Out.append`, `Out.value` on the path of a value item

Strings are lists of code points. A number is kept as the **digit strings** of its literal
(`ip`, `fp`), i.e. as an exact decimal; the Python `int`/`float` operations used by the serializer
(`== 0`, `== int(v)`, `-1 < v < 1`, `str(int(v))`, `'%f' % v`) are defined here *exactly* on those
digit strings (`E.*`, "exact layer").  `Model/NumF64.lean` defines the same operations on IEEE-754
binary64 (what CPython computes) and `Lemmas/NumF64.lean` proves that the two layers agree on the
domain `Exact` — outside it the implementation is lossy (known finding `C18-float-digits`).
-/
namespace CssVerif.Num
open CssVerif.Proto

/-! ## characters -/

def isDigit (c : Nat) : Bool := 0x30 ≤ c && c ≤ 0x39
def isHexDigit (c : Nat) : Bool :=
  (0x30 ≤ c && c ≤ 0x39) || (0x41 ≤ c && c ≤ 0x46) || (0x61 ≤ c && c ≤ 0x66)
/-- `str.lower()` on ASCII (assumption for non-ASCII cased letters: they are not generated) -/
def lowerAscii (c : Nat) : Nat := if 0x41 ≤ c ∧ c ≤ 0x5A then c + 32 else c

def cPlus : Nat := 0x2B
def cMinus : Nat := 0x2D
def cDot : Nat := 0x2E
def cZero : Nat := 0x30
def cBackslash : Nat := 0x5C

/-! ## `helper.normalize` (`helper.py:41-61`) -/

/-- `_simpleescapes(removeescape, x)`: every non-overlapping `\\[^0-9a-fA-F]`, scanning from the left,
loses its backslash (`helper.py:41,55-58`). The negated class also matches a line feed. -/
def unescSimple : Cps → Cps
  | [] => []
  | [c] => [c]
  | c :: d :: t =>
    if c = cBackslash then
      if isHexDigit d then c :: unescSimple (d :: t) else d :: unescSimple t
    else c :: unescSimple (d :: t)

/-- `normalize(x)`: `if x:` … `x.lower()` else `x` -/
def normalize (x : Cps) : Cps :=
  if x.isEmpty then x else (unescSimple x).map lowerAscii

/-! ## `__reUnNumDim = ^([+-]?)([0-9]*\.[0-9]+|[0-9]+)(.*)$` with `re.S` (`value.py:544-546`) -/

/-- group 1, `[+-]?` -/
def signOf (s : Cps) : Cps :=
  match s with
  | c :: _ => if c = cPlus ∨ c = cMinus then [c] else []
  | [] => []

/-- groups 2 and 3 on the text after the sign -/
def splitAfterSign (sign r : Cps) : Option (Cps × Cps × Cps) :=
  let ds := r.takeWhile isDigit
  let r1 := r.dropWhile isDigit
  -- second alternative `[0-9]+`
  let alt2 : Option (Cps × Cps × Cps) := if ds.isEmpty then none else some (sign, ds, r1)
  match r1 with
  | [] => alt2
  | c :: r2 =>
    if c = cDot then
      let fs := r2.takeWhile isDigit
      -- first alternative `[0-9]*\.[0-9]+`
      if fs.isEmpty then alt2 else some (sign, ds ++ cDot :: fs, r2.dropWhile isDigit)
    else alt2

/-- the three groups of the first (only) match; `none` ⇒ `findall(...)[0]` raises `IndexError`.
With `re.S` the third group takes everything that is left (`$` then matches at the very end). -/
def splitNum (s : Cps) : Option (Cps × Cps × Cps) :=
  splitAfterSign (signOf s) (s.drop (signOf s).length)

/-! ## `DimensionValue` after `_setCssText` (`value.py:563-608`) -/

inductive NumType where
  | dimension | number | percentage
deriving DecidableEq, Repr, Inhabited

/-- the attributes `_sign`, `_value`, `_dimension`, `_type`. `_value` is `int(sign+v)` when `fp = none`
and `float(sign+v)` otherwise; it is represented by the literal's digits. `dim = []` stands for `None`. -/
structure DimVal where
  sign : Cps
  ip : Cps
  fp : Option Cps
  dim : Cps
  typ : NumType
deriving DecidableEq, Repr, Inhabited

inductive Err where
  | indexError | valueError
  | protocol        -- ill-formed driver request (unbalanced nesting), never an implementation outcome
  | tooLarge        -- not an exception: logged error 'Number too large', `wellformed = False` (`value.py:578-595`)
deriving DecidableEq, Repr, Inhabited

/-- value of a digit string -/
def natOfDigits (ds : Cps) : Nat := ds.foldl (fun a c => a * 10 + (c - cZero)) 0

/-- `float(sign + v)` is `±inf` exactly when `|v| ≥ 2^1024 − 2^970` (round to nearest, ties to even);
the bound is an integer, so only the integer digits matter -/
def floatOverflows (ip : Cps) : Bool := natOfDigits ip ≥ 2 ^ 1024 - 2 ^ 970

/-- `value.py:575-605`; `tokval` is `item.value` of the first sequence item: the token value, already
normalised once by `PreDef.dimension`'s `toSeq` for DIMENSION tokens (`prodparser.py:757-760`). -/
def parseDim (typ : NumType) (tokval : Cps) : Except Err DimVal :=
  let item := if typ = .dimension then normalize tokval else tokval
  match splitNum (normalize item) with
  | none => .error .indexError
  | some g =>
    let v := g.2.1
    -- `if '.' in v`
    if v.contains cDot then
      if floatOverflows (v.takeWhile (· != cDot)) then .error .tooLarge else
      .ok { sign := g.1, ip := v.takeWhile (· != cDot), fp := some ((v.dropWhile (· != cDot)).drop 1),
            dim := g.2.2, typ := typ }
    else
      -- `int(sign + v)` raises ValueError beyond `sys.int_info.default_max_str_digits` digits: logged error
      if v.length > Gen.C18.maxStrDigits then .error .tooLarge else
      .ok { sign := g.1, ip := v, fp := none, dim := g.2.2, typ := typ }

/-! ## exact layer: the Python number operations on exact decimals -/
namespace E

def allZero (ds : Cps) : Bool := ds.all (· == cZero)
def stripLZ (ds : Cps) : Cps := ds.dropWhile (· == cZero)

/-- `value.value == 0` -/
def isZero (v : DimVal) : Bool := allZero v.ip && allZero (v.fp.getD [])
/-- `value.value == int(value.value)` -/
def isIntegral (v : DimVal) : Bool := allZero (v.fp.getD [])
/-- `-1 < value.value < 1` -/
def absLtOne (v : DimVal) : Bool := allZero v.ip
/-- the number is negative (`-` sign and not zero) -/
def isNeg (v : DimVal) : Bool := v.sign == [cMinus] && !isZero v

/-- `str(int(value.value))` for an integral, non-zero value -/
def strInt (v : DimVal) : Cps :=
  (if isNeg v then [cMinus] else []) ++ (if (stripLZ v.ip).isEmpty then [cZero] else stripLZ v.ip)

/-- the first six fraction digits, padded with `0` -/
def pad6 (fs : Cps) : Cps := (fs ++ List.replicate 6 cZero).take 6

/-- `'%f' % value.value` for a literal with at most six fraction digits (for more digits the exact layer
truncates; the binary64 layer rounds, and the theorems do not speak about such literals) -/
def pctF (v : DimVal) : Cps :=
  (if isNeg v then [cMinus] else []) ++ (if (stripLZ v.ip).isEmpty then [cZero] else stripLZ v.ip)
    ++ cDot :: pad6 (v.fp.getD [])

end E

/-! ## the serializer (`serialize.py`) -/

structure Prefs where
  omitLeadingZero : Bool
  minimizeColorHash : Bool
  spacer : Cps
  listItemSpacer : Cps
deriving DecidableEq, Repr, Inhabited

/-- `useDefaults` for the fields used here (cross-checked by the harness against `Preferences()`) -/
def Prefs.default : Prefs := { omitLeadingZero := false, minimizeColorHash := true, spacer := [0x20],
                               listItemSpacer := [0x20] }

/-- `str.rstrip('0')` -/
def rstripZeros (s : Cps) : Cps := (s.reverse.dropWhile (· == cZero)).reverse

/-- `s.index('.')`; `none` = `ValueError` -/
def indexOfDot : Cps → Option Nat
  | [] => none
  | c :: t => if c = cDot then some 0 else (indexOfDot t).map (· + 1)

/-- `_strip_zeros` (`serialize.py:1057-1061`) -/
def stripZeros (s : Cps) : Except Err Cps :=
  match indexOfDot s with
  | none => .error .valueError
  | some k =>
    let i := k + 2
    .ok (s.take i ++ rstripZeros (s.drop i))

/-- the units after which a zero loses its unit (`serialize.py:1072-1084`): the tuple is regenerated from the
source on every run (`Gen/C18Tables.lean`); `Props/C18.lean` pins it to the eight CSS 2.1 length units -/
def zeroLenUnits : List Cps := Gen.C18.zeroLenUnits

/-- the number operations the serializer uses; instantiated by the exact layer and by binary64 -/
structure NumOps where
  isZero : DimVal → Bool
  isIntegral : DimVal → Bool
  absLtOne : DimVal → Bool
  strInt : DimVal → Cps
  pctF : DimVal → Cps

def exactOps : NumOps :=
  { isZero := E.isZero, isIntegral := E.isIntegral, absLtOne := E.absLtOne,
    strInt := E.strInt, pctF := E.pctF }

/-- the text `sign + val + dim` built by `do_css_Value` for DIMENSION/NUMBER/PERCENTAGE
(`serialize.py:1069-1105`) -/
def numText (ops : NumOps) (p : Prefs) (v : DimVal) : Except Err Cps := do
  let dim0 := v.dim                                   -- `value.dimension or ''`
  let zero := ops.isZero v
  let r ← (if zero then
      -- `val = '0'`, and the unit goes for the eight length units
      pure (([cZero] : Cps), (if zeroLenUnits.contains v.dim then ([] : Cps) else dim0))
    else do
      if ops.isIntegral v then
        pure (ops.strInt v, dim0)
      else if p.omitLeadingZero && ops.absLtOne v then do
        let s ← stripZeros (ops.pctF v)
        if v.sign = [cMinus] then
          match s with
          | [] => throw Err.indexError             -- `v[0]`
          | c :: _ => pure (c :: s.drop 2, dim0)   -- `v[0] + v[2:]`
        else
          pure (s.drop 1, dim0)                    -- `v[1:]`
      else do
        let s ← stripZeros (ops.pctF v)
        pure (s, dim0) : Except Err (Cps × Cps))
  -- keep '+' if given
  let sign : Cps := if !zero && v.sign = [cPlus] then [cPlus] else []
  pure (sign ++ r.1 ++ r.2)

/-! ### `helper.string`, `stringvalue`, `uri`, `urivalue` (`helper.py:75-132`) -/

def cQuote : Nat := 0x22
def cApos : Nat := 0x27

/-- `str.isspace` / regex `\s` (unicode): the table of the running interpreter, regenerated into
`Gen/C18Tables.lean` on every run -/
def isSpaceChar (c : Nat) : Bool := Gen.C18.spaceChars.contains c

/-- the four chained `.replace` calls of `helper.string` (they do not interact: none produces a character
another one looks for) -/
def escStringChars : Cps → Cps
  | [] => []
  | c :: t =>
    (if c = 0x0A then cps "\\a "
     else if c = 0x0D then cps "\\d "
     else if c = 0x0C then cps "\\c "
     else if c = cQuote then [cBackslash, cQuote]
     else [c]) ++ escStringChars t

/-- `helper.string(value)` (`helper.py:75-92`) -/
def helperString (value : Cps) : Cps :=
  let v := escStringChars value
  -- `if (len(value) - len(value.rstrip('\\'))) % 2: value = value + '\\'` (`helper.py:89-93`): only an odd run of trailing
  -- backslashes would escape the closing quote
  let v := if (v.reverse.takeWhile (· = cBackslash)).length % 2 = 1 then v ++ [cBackslash] else v
  cQuote :: v ++ [cQuote]

/-- `s.replace('\\' + q, q)`: non-overlapping, from the left -/
def unescQuote (q : Nat) : Cps → Cps
  | [] => []
  | [c] => [c]
  | c :: d :: t => if c = cBackslash ∧ d = q then q :: unescQuote q t else c :: unescQuote q (d :: t)

/-- `helper.stringvalue(string)` (`helper.py:95-102`); `string[0]` raises `IndexError` on `''` -/
def stringValue (s : Cps) : Except Err Cps :=
  match s with
  | [] => .error .indexError
  | q :: _ => .ok (((unescQuote q s).drop 1).dropLast)

/-- `_match_forbidden_in_uri = re.compile(r""".*?[\(\)\s\;,'"\x00-\x08\x0e-\x1f\x7f]""", re.U | re.S).match`
(`helper.py:105-107`): the value contains one of the listed characters -/
def forbiddenInUri (c : Nat) : Bool :=
  c = 0x28 || c = 0x29 || isSpaceChar c || c = 0x3B || c = 0x2C || c = cApos || c = cQuote ||
  c ≤ 0x08 || (0x0E ≤ c && c ≤ 0x1F) || c = 0x7F

/-- `helper.uri(value)` (`helper.py:108-116`) -/
def helperUri (value : Cps) : Cps :=
  let v := if value.any forbiddenInUri then helperString value else value
  cps "url(" ++ v ++ [0x29]

/-- CSS white space: space, tab, LF, CR, FF -/
def isCssSpace (c : Nat) : Bool := c = 0x20 || c = 0x09 || c = 0x0A || c = 0x0D || c = 0x0C

/-- `str.strip(' \t\r\n\f')` -/
def strip (s : Cps) : Cps := ((s.dropWhile isCssSpace).reverse.dropWhile isCssSpace).reverse

/-- `s.find('(')`: index or -1; here: number of characters to drop for `uri[uri.find('(') + 1 : -1]` -/
def afterParen : Cps → Option Cps
  | [] => none
  | c :: t => if c = 0x28 then some t else afterParen t

/-- `helper.urivalue(uri)` (`helper.py:119-132`) -/
def uriValue (u : Cps) : Except Err Cps :=
  -- `find` returns -1 when there is no `(`: the slice is then `uri[0:-1]`
  let inner := strip (match afterParen u with | some t => t.dropLast | none => u.dropLast)
  match inner with
  | [] => .ok inner
  | q :: _ =>
    if (q = cApos ∨ q = cQuote) ∧ inner.getLast? = some q then stringValue inner else .ok inner

/-! ### `_hash` (`serialize.py:378-390`) -/

/-- `val[i]`; `none` = IndexError (not reachable: guarded by `len(val) == 7`) -/
def hashShort (p : Prefs) (val : Cps) : Cps :=
  match val with
  | [_, a, b, c, d, e, f] =>
    if p.minimizeColorHash ∧ a = b ∧ c = d ∧ e = f then [0x23, a, c, e] else val
  | _ => val

/-! ### `Out.append` / `Out.value` (`serialize.py:200-314`) -/

/-- `type_` values that `Out.append` distinguishes on the paths modelled here -/
inductive ItemType where
  | char | function | ident | string | uri | hash | number | dimension | percentage | unicodeRange | s
  | other      -- any other type string, e.g. 'COLOR_VALUE'
deriving DecidableEq, Repr, Inhabited

def NumType.toItem : NumType → ItemType
  | .dimension => .dimension | .number => .number | .percentage => .percentage

/-- `needle in hay` for strings -/
def isSubstr (needle : Cps) : Cps → Bool
  | [] => needle.isEmpty
  | c :: t => needle.isPrefixOf (c :: t) || isSubstr needle t

/-- `not s.strip()` -/
def isBlank (s : Cps) : Bool := s.all isSpaceChar

/-- `not s.strip(' \t\r\n\f')` -/
def isCssBlank (s : Cps) : Bool := s.all isCssSpace

/-- `_remove_last_if_S` (`serialize.py:195-198`): a piece of CSS white space only (since 5c3733f) -/
def removeLastIfS (out : List Cps) : List Cps :=
  match out.getLast? with
  | some l => if isCssBlank l then out.dropLast else out
  | none => out

/-- `val.endswith(' ') and not val.endswith('\\ ')` (`serialize.py:271`; a name may end with an escaped space) -/
def endsWithRawSpace (val : Cps) : Bool :=
  match val.reverse with
  | 0x20 :: 0x5C :: _ => false
  | 0x20 :: _ => true
  | _ => false

/-- `serialize.py:274-277`: written without white space `/` + `*…` would open a comment and `*` `~` `|` `^` `$`
followed by `=` would become one token (`self.out and (…)`) -/
def wouldFuse (out : List Cps) (val : Cps) : Bool :=
  -- `last = next((s for s in reversed(self.out) if s), '')`: the last non-empty piece (since 77b59e6)
  match out.reverse.find? (fun s => !s.isEmpty) with
  | none => false
  | some l =>
    (val.head? = some 0x2A && l = [0x2F])
      || (val = [0x3D] && (l = [0x2A] || l = [0x7E] || l = [0x7C] || l = [0x5E] || l = [0x24]))

/-- the APPEND step of `Out.append` (`serialize.py:271-281`, not `indent`) -/
def outPush (out : List Cps) (val : Cps) : List Cps :=
  let out := if endsWithRawSpace val then removeLastIfS out else out
  let out := if wouldFuse out val then out ++ [[0x20]] else out
  out ++ [val]

/-- `Out.append(val, type_)` with the default keyword arguments (`space=True, keepS=False, indent=False,
alwaysS=False`). `isObj`: `val` is an object with a `cssText` (then `val` here is that text).
Not modelled (never passed by the callers modelled here): items of type `'COMMENT'` (a comment inside a value has
the class `CSSComment` as its type and takes the `cssText` path), objects with `mediaText`, `val == '}'` with
`indentClosingBrace`, the selector combinator types. -/
def outAppend (p : Prefs) (out : List Cps) (val : Cps) (isObj : Bool) (t : ItemType) : List Cps :=
  -- `if val or type_ in ('STRING', 'URI')` — an object is truthy
  if val.isEmpty && !isObj && t ≠ .string && t ≠ .uri then out else
  if t = .s then out else                                   -- `'S' == type_ and not keepS: return`
  -- PRE
  let pre : List Cps × Cps :=
    if t = .string then
      let v := helperString val
      (if p.spacer.isEmpty then removeLastIfS out else out, v)
    else if t = .uri then (out, helperUri val)
    else if t = .hash then (out, hashShort p val)
    else if isObj then (out, val)
    else if isSubstr val (cps "+>~,:{;)]/=}") then (removeLastIfS out, val)
    else (out, val)
  let val := pre.2
  -- APPEND
  let out := outPush pre.1 val
  -- POST
  if isSubstr val (cps "+>~") then
    -- `self.out.insert(-1, ' ')`, `self.out.append(' ')` (not a selector combinator type here)
    out.dropLast ++ [[0x20], val, [0x20]]
  else if val = cps ")" then out ++ [[0x20]]
  else if val = cps "," then out ++ [p.listItemSpacer]
  else if val = cps ":" ∨ val = cps "{" ∨ val = cps ";" then out     -- not produced by the modelled callers
  else if !isSubstr val (cps "}[]()/=") && t ≠ .function then
    let out := out ++ [p.spacer]
    if t ≠ .string && p.spacer.isEmpty && !((out.getLast?.getD []).getLast? = some 0x20) then
      out ++ [[0x20]]
    else out
  else out

/-- `Out.value()` with the defaults -/
def outValue (out : List Cps) : Cps := (removeLastIfS out).flatten

/-- `do_css_Value` for a numeric value: `out.append(sign + val + dim, value.type); return out.value()` -/
def fmtNum (ops : NumOps) (p : Prefs) (v : DimVal) : Except Err Cps := do
  let t ← numText ops p v
  pure (outValue (outAppend p [] t false v.typ.toItem))

/-- `do_css_Value` for the other simple values (`out.append(value.value, value.type)`): IDENT, STRING,
URI, HASH, UNICODE-RANGE; `if not value` — a `Value` object is truthy -/
def fmtSimple (p : Prefs) (t : ItemType) (value : Cps) : Cps :=
  outValue (outAppend p [] value false t)

/-- `DimensionValue(tokval).cssText` on the exact layer -/
def roundTrip (p : Prefs) (typ : NumType) (tokval : Cps) : Except Err Cps := do
  let v ← parseDim typ tokval
  fmtNum exactOps p v

/-! ## what a numeric literal denotes (specification side, independent of `splitNum`) -/

/-- an exact decimal with a unit: `(-1)^neg · mant / 10^scale`, unit in lower case -/
structure Den where
  neg : Bool
  mant : Nat
  scale : Nat
  unit : Cps
deriving DecidableEq, Repr, Inhabited

/-- the same real number -/
def Den.sameValue (a b : Den) : Bool :=
  a.mant * 10 ^ b.scale == b.mant * 10 ^ a.scale && (a.mant == 0 || a.neg == b.neg)

/-- digits, an optional fraction (a dot followed by at least one digit), and the rest is the unit -/
def denoteAfterSign (neg : Bool) (r : Cps) : Option Den :=
  let ip := r.takeWhile isDigit
  let r1 := r.dropWhile isDigit
  let plain : Option Den :=
    if ip.isEmpty then none
    else some { neg := neg, mant := natOfDigits ip, scale := 0, unit := r1.map lowerAscii }
  match r1 with
  | d :: e :: r2 =>
    if d = cDot ∧ isDigit e then
      let fp := (e :: r2).takeWhile isDigit
      some { neg := neg, mant := natOfDigits (ip ++ fp), scale := fp.length,
             unit := ((e :: r2).dropWhile isDigit).map lowerAscii }
    else plain
  | _ => plain

/-- CSS `num` followed by a unit: `[+-]? ( [0-9]* '.' [0-9]+ | [0-9]+ ) unit`. -/
def denote (s : Cps) : Option Den :=
  match s with
  | [] => none
  | c :: t =>
    if c = cPlus then denoteAfterSign false t
    else if c = cMinus then denoteAfterSign true t
    else denoteAfterSign false s


/-! ## what a written string / URL denotes (specification side: CSS 2.1 §4.1.3, §4.3.4, §4.3.7) -/

def hexDigitVal (c : Nat) : Nat :=
  if 0x30 ≤ c ∧ c ≤ 0x39 then c - 0x30 else if 0x41 ≤ c ∧ c ≤ 0x46 then c - 0x41 + 10 else c - 0x61 + 10

/-- up to `k` hex digits at the front: (value so far, rest) -/
def takeHex : Nat → Nat → Cps → Nat × Cps
  | 0, acc, s => (acc, s)
  | k + 1, acc, c :: t => if isHexDigit c then takeHex k (acc * 16 + hexDigitVal c) t else (acc, c :: t)
  | _ + 1, acc, [] => (acc, [])

/-- one optional white space after a hex escape (CR LF counts as one) -/
def skipEscSpace : Cps → Cps
  | 0x0D :: 0x0A :: t => t
  | c :: t => if isCssSpace c then t else c :: t
  | [] => []

/-- the characters between the quotes of a string token whose quote is `q`; the closing quote must be the last
character. `none`: not one complete string (early closing quote, raw line break, unterminated). -/
def stringBodyDenote (q : Nat) : Nat → Cps → Option Cps
  | 0, _ => none
  | _ + 1, [] => none
  | fuel + 1, c :: t =>
    if c = q then (if t.isEmpty then some [] else none)
    else if c = 0x0A ∨ c = 0x0D ∨ c = 0x0C then none
    else if c = cBackslash then
      match t with
      | [] => none
      | d :: t' =>
        if isHexDigit d then
          let r := takeHex 6 0 t
          (stringBodyDenote q fuel (skipEscSpace r.2)).map (r.1 :: ·)
        else if d = 0x0D then        -- line continuation
          stringBodyDenote q fuel (match t' with | 0x0A :: t'' => t'' | _ => t')
        else if d = 0x0A ∨ d = 0x0C then stringBodyDenote q fuel t'
        else (stringBodyDenote q fuel t').map (d :: ·)
    else (stringBodyDenote q fuel t).map (c :: ·)

/-- what a string token text denotes -/
def cssStringDenote (s : Cps) : Option Cps :=
  match s with
  | q :: t => if q = cQuote ∨ q = cApos then stringBodyDenote q (t.length + 1) t else none
  | [] => none

/-- what a stored value (token value: hex escapes resolved, simple escapes kept) stands for -/
def storedDenote : Cps → Cps
  | [] => []
  | [c] => [c]
  | c :: d :: t => if c = cBackslash then d :: storedDenote t else c :: storedDenote (d :: t)

/-- characters the tokenizer accepts raw in an unquoted `url()` (`cssproductions.py` macro `url`) -/
def isUrlChar (c : Nat) : Bool :=
  c = 0x09 || c = 0x21 || (0x23 ≤ c && c ≤ 0x26) || c = 0x28 || (0x2A ≤ c && c ≤ 0x7E) || c ≥ 0x80

/-- a written `url(...)` is readable: quoted with a complete string inside, or unquoted with URL characters only -/
def writtenUrlDenote (s : Cps) : Option Cps :=
  if (cps "url(").isPrefixOf s ∧ s.getLast? = some 0x29 then
    let inner := (s.drop 4).dropLast
    match inner with
    | q :: _ => if q = cQuote then cssStringDenote inner
                else if inner.all isUrlChar then some (storedDenote inner) else none
    | [] => some []
  else none

end CssVerif.Num
