import CssVerif.Lib.Proto
/-!
# K2 `Struct` — token structure: `_tokensupto2`, `_parse`, declaration block, style / media /
unknown rule, sheet dispatcher

Hand transcription (statement by statement, `file.py:line` cited) of

* `cssutils/util.py`            `Base._tokensupto2` (:270-388), `Base._parse` (:437-491),
                                `Base(2)._adddefaultproductions` (:390-435, :503-560)
* `cssutils/css/cssstyledeclaration.py` `_setCssText` (:287-360)
* `cssutils/css/property.py`    `_setCssText` (:101-200), `_setName` (:202-262), `priority` setter (:311-400)
* `cssutils/css/cssunknownrule.py` `_setCssText` (:46-212)
* `cssutils/css/cssstylerule.py`  `_setCssText` (:80-177)
* `cssutils/css/cssmediarule.py`  `_setCssText` (:61-258), `insertRule` (:317-341)
* `cssutils/css/cssstylesheet.py` `_setCssText` (:152-362), the append case of `insertRule` (:586-870)

Tokens are what the tokenizer hands over: `(type, value)` plus a position that the model never looks at
(it stands for `(line, col)` and lets the driver name a token).  Python shares ONE token iterator between
`_parse` and the callbacks; here every callback receives the remaining list and returns what it left.

Opaque at this level (K3/K4 interpret them): whether a selector, a property value, a media query list or
the body of a charset/import/namespace/page/font-face/variables/margin rule is well formed — the `Oracle`
record.  All theorems quantify over every oracle; the driver instantiates it with the answers the real
sub-parsers give on exactly the token lists the model asks about.

Domain (checked by the driver, `TokWF`): an `EOF` token occurs only as the last token (tokenizer invariant)
and `CHAR` tokens are single characters.
-/
namespace CssVerif.Struct
open CssVerif.Proto (Cps)

/-- token types the code dispatches on; everything else is `other` -/
inductive TT where
  | ident | function | char | s | comment | eof | atkeyword | string | uri | invalid
  | cdo | cdc | charsetSym | importSym | namespaceSym | pageSym | mediaSym | fontFaceSym | variablesSym
  | other
  deriving DecidableEq, Repr, Inhabited

structure Tok where
  typ : TT
  val : Cps
  pos : Nat := 0
  deriving DecidableEq, Repr, Inhabited

/-! ## characters -/
abbrev vLBrace : Cps := [0x7B]   -- {
abbrev vRBrace : Cps := [0x7D]   -- }
abbrev vLBrack : Cps := [0x5B]   -- [
abbrev vRBrack : Cps := [0x5D]   -- ]
abbrev vLParen : Cps := [0x28]   -- (
abbrev vRParen : Cps := [0x29]   -- )
abbrev vSemi : Cps := [0x3B]     -- ;
abbrev vColon : Cps := [0x3A]    -- :
abbrev vBang : Cps := [0x21]     -- !

/-- Python `a in b` for strings: `a` is a contiguous substring of `b` -/
def isInfixOf (p : Cps) : Cps → Bool
  | [] => p.isEmpty
  | c :: cs => p.isPrefixOf (c :: cs) || isInfixOf p cs

/-! ## `_tokensupto2` (`util.py:270-388`) -/

/-- the three nesting counters `brace`, `bracket`, `parant` -/
structure Cnt where
  brace : Int
  bracket : Int
  parant : Int
  deriving DecidableEq, Repr

/-- the keyword flags of `_tokensupto2`; every call site sets at most one -/
inductive Mode where
  | default | blockstart | blockend | mediaend | importmq | mq | semicolon
  | propname | propvalue | propprio | selatt | funcend | listsep
  deriving DecidableEq, Repr

/-- `ends` (`util.py:295-338`) -/
def Mode.ends : Mode → Cps
  | .default => [0x3B, 0x7D]
  | .blockstart => [0x7B]
  | .blockend => [0x7D]
  | .mediaend => [0x7D]
  | .importmq => [0x3B]
  | .mq => [0x7B]
  | .semicolon => [0x3B]
  | .propname => [0x3A, 0x3B]
  | .propvalue => [0x3B, 0x21]
  | .propprio => [0x3B]
  | .selatt => [0x5D]
  | .funcend => [0x29]
  | .listsep => [0x2C]

/-- `endtypes = ('STRING',)` for the two media-query modes -/
def Mode.endString : Mode → Bool
  | .importmq => true
  | .mq => true
  | _ => false

/-- initial counters (`util.py:297-338`); `selatt` looks at the start token -/
def Mode.init (m : Mode) (start : Option Tok) : Cnt :=
  match m with
  | .blockstart => ⟨-1, 0, 0⟩
  | .blockend => ⟨1, 0, 0⟩
  | .mediaend => ⟨1, 0, 0⟩
  | .mq => ⟨-1, 0, 0⟩
  | .selatt =>
    match start with
    | some st => if st.val = vLBrack then ⟨0, 1, 0⟩ else ⟨0, 0, 0⟩
    | none => ⟨0, 0, 0⟩
  | .funcend => ⟨0, 0, 1⟩
  | _ => ⟨0, 0, 0⟩

/-- the start token only ever opens (`util.py:341-349`) -/
def bumpStart (c : Cnt) (t : Tok) : Cnt :=
  if t.val = vLBrack then { c with bracket := c.bracket + 1 }
  else if t.val = vLBrace then { c with brace := c.brace + 1 }
  else if t.val = vLParen ∨ t.typ = .function then { c with parant := c.parant + 1 }
  else c

/-- a token read from the tokenizer (`util.py:358-370`): decided by VALUE, then by type FUNCTION -/
def bump (c : Cnt) (t : Tok) : Cnt :=
  if t.val = vLBrace then { c with brace := c.brace + 1 }
  else if t.val = vRBrace then { c with brace := c.brace - 1 }
  else if t.val = vLBrack then { c with bracket := c.bracket + 1 }
  else if t.val = vRBrack then { c with bracket := c.bracket - 1 }
  else if t.val = vLParen ∨ t.typ = .function then { c with parant := c.parant + 1 }
  else if t.val = vRParen then { c with parant := c.parant - 1 }
  else c

def Cnt.isZero (c : Cnt) : Bool := c.brace == 0 && c.bracket == 0 && c.parant == 0

/-- `val in ends or typ in endtypes` -/
def endTok (m : Mode) (t : Tok) : Bool :=
  isInfixOf t.val m.ends || (m.endString && t.typ == .string)

/-- the two `break` conditions after a token has been appended (`util.py:374-385`) -/
def stop (m : Mode) (c : Cnt) (t : Tok) : Bool :=
  (c.isZero && endTok m t)
  || (m == .mq && c.brace == -1 && c.bracket == 0 && c.parant == 0 && t.typ == .string)

/-- the `for token in tokenizer` loop; returns (tokens appended, tokens left in the iterator) -/
def uptoLoop (m : Mode) (c : Cnt) : List Tok → List Tok × List Tok
  | [] => ([], [])
  | t :: ts =>
    if t.typ = .eof then ([t], ts)
    else if stop m (bump c t) t then ([t], ts)
    else
      let r := uptoLoop m (bump c t) ts
      (t :: r.1, r.2)

/-- `_tokensupto2(tokenizer, starttoken, <mode>=True)`: (resulttokens, rest of the iterator) -/
def upto (m : Mode) (start : Option Tok) (ts : List Tok) : List Tok × List Tok :=
  match start with
  | none => uptoLoop m (m.init none) ts
  | some st =>
    let r := uptoLoop m (bumpStart (m.init (some st)) st) ts
    (st :: r.1, r.2)

/-- `separateEnd=True`: `(resulttokens[:-1], resulttokens[-1])`, or `([], None)` -/
def sepEnd (l : List Tok) : List Tok × Option Tok := (l.dropLast, l.getLast?)

theorem uptoLoop_append (m : Mode) (c : Cnt) (ts : List Tok) :
    (uptoLoop m c ts).1 ++ (uptoLoop m c ts).2 = ts := by
  induction ts generalizing c with
  | nil => simp [uptoLoop]
  | cons t ts ih =>
    unfold uptoLoop
    split
    · simp
    · split
      · simp
      · simp [ih]

theorem uptoLoop_rest_le (m : Mode) (c : Cnt) (ts : List Tok) :
    (uptoLoop m c ts).2.length ≤ ts.length := by
  have h := congrArg List.length (uptoLoop_append m c ts)
  simp at h; omega

theorem uptoLoop_taken_le (m : Mode) (c : Cnt) (ts : List Tok) :
    (uptoLoop m c ts).1.length ≤ ts.length := by
  have h := congrArg List.length (uptoLoop_append m c ts)
  simp at h; omega

theorem upto_rest_le (m : Mode) (st : Option Tok) (ts : List Tok) :
    (upto m st ts).2.length ≤ ts.length := by
  unfold upto; cases st <;> simp [uptoLoop_rest_le]

theorem upto_taken_le (m : Mode) (st : Option Tok) (ts : List Tok) :
    (upto m st ts).1.length ≤ ts.length + 1 := by
  unfold upto; cases st
  · have := uptoLoop_taken_le m (m.init none) ts; simp; omega
  · simp [uptoLoop_taken_le]

/-! ## `_parse` (`util.py:437-491`)

`for token in fulltokenizer: expected = p(expected, seq, token, tokenizer)`.  A production may pull more
tokens out of the shared iterator; in the model it returns the rest.  `_tokensupto2` never gives tokens
back, so the rest is never longer (guard below; `parseLoop_eq` removes it for such steps). -/

def parseLoop {σ : Type} (step : σ → Tok → List Tok → σ × List Tok) (s : σ) : List Tok → σ
  | [] => s
  | t :: ts =>
    if _h : (step s t ts).2.length ≤ ts.length then parseLoop step (step s t ts).1 (step s t ts).2
    else (step s t ts).1
termination_by ts => ts.length
decreasing_by simp; omega

/-! ## CSSUnknownRule (`cssunknownrule.py:46-212`) -/

structure UnkSt where
  expEOF : Bool := false          -- expected == 'EOF'
  nesting : List Cps := []        -- new['nesting'], top of the stack first
  wf : Bool := true               -- new['wellformed'] (and `_parse`'s own flag)
  deriving Repr, DecidableEq

def openerOf (v : Cps) : Option Cps :=
  if v = vRBrace then some vLBrace else if v = vRBrack then some vLBrack
  else if v = vRParen then some vLParen else none

def isOpener (v : Cps) : Bool := v = vLBrace || v = vLBrack || v = vLParen

/-- one token of the unknown rule's body; returns the state and the rest of the iterator -/
def unkStep (s : UnkSt) (t : Tok) (rest : List Tok) : UnkSt × List Tok :=
  match t.typ with
  | .char =>                                              -- CHAR (:73-102)
    if s.expEOF then ({ s with wf := false }, rest)
    else
      let s1 : UnkSt :=
        if isOpener t.val then { s with nesting := t.val :: s.nesting }
        else match openerOf t.val with
          | some o =>
            match s.nesting with
            | top :: more => if top = o then { s with nesting := more } else { s with wf := false }
            | [] => { s with wf := false }
          | none => s
      let s2 : UnkSt :=
        if (t.val = vRBrace ∨ t.val = vSemi) ∧ s1.nesting = [] then { s1 with expEOF := true } else s1
      (s2, rest)
  | .function =>                                          -- FUNCTION (:104-117)
    if s.expEOF then ({ s with wf := false }, rest)
    else ({ s with nesting := vLParen :: s.nesting }, rest)
  | .eof => ({ s with nesting := [], expEOF := true }, rest)   -- EOF (:119-125)
  | .invalid => ({ s with wf := false }, rest)            -- INVALID (:127-133)
  | .comment =>                                           -- Base2 default COMMENT (util.py:533-539)
    if s.expEOF then ({ s with wf := false }, rest) else (s, rest)
  | .atkeyword =>                                         -- Base2 default ATKEYWORD (util.py:515-531)
    if s.expEOF then ({ s with wf := false }, rest)
    else (s, (upto .default (some t) rest).2)             -- a nested unknown rule swallows its statement
  | _ =>                                                  -- STRING, URI, S, default (:135-172)
    if s.expEOF then ({ s with wf := false }, rest) else (s, rest)

def isHexDigit (c : Nat) : Bool :=
  (0x30 ≤ c && c ≤ 0x39) || (0x41 ≤ c && c ≤ 0x46) || (0x61 ≤ c && c ≤ 0x66)

def lowerAscii (c : Nat) : Nat := if 0x41 ≤ c ∧ c ≤ 0x5A then c + 32 else c

/-- `helper.normalize` (`helper.py:44-61`): drop a backslash that stands before a non-hex character
(`re.sub(r'(\\[^0-9a-fA-F])', …)`, leftmost, non-overlapping), then `lower()` (ASCII fold: assumption) -/
def normalize : Cps → Cps
  | [] => []
  | [c] => [lowerAscii c]
  | c :: d :: rest =>
    if c = 0x5C ∧ !isHexDigit d then lowerAscii d :: normalize rest
    else lowerAscii c :: normalize (d :: rest)

def atCharset : Cps := CssVerif.Proto.cps "@charset"

/-- `rule.cssText = tokens; rule.wellformed` for a `CSSUnknownRule` (`wellformed = bool(atkeyword)`) -/
def unknownOk (ts : List Tok) : Bool :=
  match ts with
  | [] => false
  | at_ :: body =>
    if at_.typ ≠ .atkeyword then false
    else
      let s := parseLoop unkStep {} body
      -- post conditions (:196-216); the last one since fix 10b6992: "@charset" without its space
      s.wf && s.expEOF && s.nesting.isEmpty && normalize at_.val != atCharset

/-! ## Property (`property.py`) -/

/-- what the enclosing K3/K4 parsers decide; see the file header -/
structure Oracle where
  /-- `PropertyValue.cssText = tokens; .wellformed` -/
  valueOk : List Tok → Bool
  /-- `SelectorList.selectorText = (tokens, namespaces); .wellformed` -/
  selOk : List (Cps × Cps) → List Tok → Bool
  /-- `MediaList.mediaText = tokens; .wellformed` -/
  mediaOk : List Tok → Bool
  /-- `rule.cssText = tokens; rule.wellformed` for charset / import / page / font-face / variables / margin -/
  atOk : TT → Bool → List Tok → Bool
  /-- `CSSNamespaceRule(cssText=tokens)`: `(prefix, namespaceURI)` when wellformed -/
  nsInfo : List Tok → Option (Cps × Cps)

inductive NameExp where | name | eof deriving DecidableEq, Repr

structure NameSt where
  exp : NameExp := .name
  lit : Option Tok := none
  wf : Bool := true

/-- `_setName` (`property.py:202-262`): productions IDENT + the `Base` defaults -/
def nameStep (s : NameSt) (t : Tok) (rest : List Tok) : NameSt × List Tok :=
  match t.typ with
  | .ident =>
    if s.exp = .name then ({ s with lit := some t, exp := .eof }, rest)
    else ({ s with wf := false }, rest)
  | .atkeyword =>                                         -- util.py:403-416
    if s.exp = .eof then ({ s with wf := false }, rest)
    else (s, (upto .default (some t) rest).2)
  | .comment => (s, rest)
  | .s => (s, rest)
  | .eof => ({ s with exp := .eof }, rest)
  | _ => ({ s with wf := false }, rest)                   -- no production, no default: util.py:489

/-- the IDENT that becomes `literalname`, or `none` when the name is rejected -/
def parseName (ts : List Tok) : Option Tok :=
  let s := parseLoop nameStep {} ts
  if s.wf then s.lit else none

inductive PrioExp where | bang | important | eof deriving DecidableEq, Repr

structure PrioSt where
  exp : PrioExp := .bang
  lit : Option Tok := none
  wf : Bool := true

/-- the priority setter (`property.py:311-400`) -/
def prioStep (s : PrioSt) (t : Tok) (rest : List Tok) : PrioSt × List Tok :=
  match t.typ with
  | .char =>
    if s.exp = .bang ∧ t.val = vBang then ({ s with exp := .important }, rest)
    else ({ s with wf := false }, rest)
  | .ident =>
    if s.exp = .important then ({ s with lit := some t, exp := .eof }, rest)
    else ({ s with wf := false }, rest)
  | .atkeyword =>
    if s.exp = .eof then ({ s with wf := false }, rest)
    else (s, (upto .default (some t) rest).2)
  | .comment => (s, rest)
  | .s => (s, rest)
  | .eof => ({ s with exp := .eof }, rest)
  | _ => ({ s with wf := false }, rest)

/-- the IDENT that becomes `literalpriority`; `none` = no priority is set (empty, or rejected: the
setter then leaves `_priority = ''` and does NOT clear `Property.wellformed`, :389-398) -/
def parsePrio (ts : List Tok) : Option Tok :=
  let s := parseLoop prioStep {} ts
  if s.wf && (ts.isEmpty || s.lit.isSome) then s.lit else none

/-- an accepted declaration: the name IDENT, the value tokens, the priority IDENT -/
structure Decl where
  name : Tok
  value : List Tok
  prio : Option Tok
  deriving DecidableEq, Repr

/-- `Property.cssText = tokens; wellformed` (`property.py:101-200`) -/
def parseProperty (O : Oracle) (ts : List Tok) : Option Decl :=
  let rn := upto .propname none ts
  match rn.1.getLast? with
  | none => none                                          -- `if nametokens:` fails (:197)
  | some colon =>
    let rv := upto .propvalue none rn.2
    let rp := upto .propprio none rv.2
    let nametoks := rn.1.dropLast
    let wf1 := colon.val = vColon ∧ nametoks ≠ []         -- :126-138
    match rv.1.getLast? with
    | none => none                                        -- no value (:145-150)
    | some vlast =>
      let value := if vlast.val = vBang then rv.1.dropLast else rv.1
      let prio := if vlast.val = vBang then vlast :: rp.1 else rp.1
      if wf1 then
        match parseName nametoks with
        | none => none
        | some n => if O.valueOk value then some ⟨n, value, parsePrio prio⟩ else none
      else none

/-! ## CSSStyleDeclaration (`cssstyledeclaration.py:287-360`) -/

/-- what one step of the block parser did; `dropped` is the `log.error` branch (nothing appended) -/
inductive Item where
  | decl (d : Decl)
  | unknown (toks : List Tok)
  | comment (t : Tok)
  | dropped (toks : List Tok)
  deriving DecidableEq, Repr

def Item.kept : Item → Bool
  | .dropped _ => false
  | _ => true

/-- one token of the block: productions IDENT → `ident`, CHAR → `char`, default `unexpected`, plus the
`Base2` defaults ATKEYWORD / COMMENT / S / EOF.  (`expected` only changes at EOF, after which the domain
has no further token, so it is not carried.) -/
def declStep (O : Oracle) (acc : List Item) (t : Tok) (rest : List Tok) : List Item × List Tok :=
  match t.typ with
  | .ident =>                                             -- ident() :291-308
    let r := upto .semicolon (some t) rest
    let toks := if (r.1.getLast?.map (·.val)) = some vSemi then r.1.dropLast else r.1
    match parseProperty O toks with
    | some d => (acc ++ [.decl d], r.2)
    | none => (acc ++ [.dropped toks], r.2)
  | .s => (acc, rest)
  | .eof => (acc, rest)
  | .comment => (acc ++ [.comment t], rest)
  | .atkeyword =>                                         -- util.py:515-531
    let r := upto .default (some t) rest
    if unknownOk r.1 then (acc ++ [.unknown r.1], r.2) else (acc ++ [.dropped r.1], r.2)
  | _ =>
    if t.typ = .char ∧ t.val = vSemi then (acc, rest)      -- char() :335-345
    else                                                  -- unexpected() :320-331
      let r := upto .semicolon (some t) rest
      (acc ++ [.dropped r.1], r.2)

/-- every step of `CSSStyleDeclaration.cssText = tokens`, in order -/
def declTrace (O : Oracle) (ts : List Tok) : List Item := parseLoop (declStep O) [] ts

/-- the resulting `seq` -/
def parseDecls (O : Oracle) (ts : List Tok) : List Item := (declTrace O ts).filter Item.kept

/-! ## rules -/

inductive Kind where
  | comment | charset | import_ | namespace_ | variables | fontface | page | margin | media | style | unknown
  deriving DecidableEq, Repr

/-- a rule as it sits in `cssRules`; opaque at-rules keep their tokens -/
inductive Rule where
  | comment (t : Tok)
  | at_ (k : Kind) (toks : List Tok)
  | ns (pfx uri : Cps) (toks : List Tok)
  | unknown (toks : List Tok)
  /-- `ns`: the namespaces the selector list was resolved with (`SelectorList._namespaces`) -/
  | style (ns : List (Cps × Cps)) (sel : List Tok) (items : List Item)
  /-- `parsed = none`: the stub left by a failed parse (media `all`, no rules) -/
  | media (parsed : Option (List Tok × Option Tok)) (rules : List Rule)

def Rule.kind : Rule → Kind
  | .comment _ => .comment
  | .at_ k _ => k
  | .ns .. => .namespace_
  | .unknown _ => .unknown
  | .style .. => .style
  | .media .. => .media

/-! ### CSSStyleRule (`cssstylerule.py:80-177`) -/

/-- `rule.cssText = tokens`: `some (selector tokens, seq of the style)` iff `rule.wellformed` -/
def styleRule (O : Oracle) (ns : List (Cps × Cps)) (ts : List Tok) : Option (List Tok × List Item) :=
  let r1 := upto .blockstart none ts
  let r2 := upto .blockend none r1.2
  match r2.2 with
  | _ :: _ => none                                        -- trailing content (:114-119)
  | [] =>
    match r1.1.head?, r1.1.getLast? with
    | some first, some brace =>
      if (first.val.head? = some 0x40) then none          -- startswith('@') (:124-128)
      else
        let sel := r1.1.dropLast
        let ok1 := brace.val = vLBrace ∧ sel ≠ []          -- :134-147
        match r2.1.getLast? with
        | none => none                                    -- :152-157
        | some last =>
          if last.val ≠ vRBrace ∧ last.typ ≠ .eof then none     -- :163-168
          else
            let body := if last.typ = .eof then r2.1 else r2.1.dropLast   -- EOF is added again (:170-172)
            if ok1 ∧ O.selOk ns sel then some (sel, parseDecls O body) else none
    | _, _ => none                                        -- no selector (:120-123)

/-! ### CSSMediaRule (`cssmediarule.py:61-258`) -/

/-- the optional name part: `_parse(None, nameseq, nametokens, {})` — only the Base2 defaults exist -/
def mediaNameOk (ts : List Tok) : Bool :=
  ts.all fun t => t.typ = .s || t.typ = .comment || t.typ = .atkeyword || t.typ = .eof

/-- `CSSMediaRule.insertRule` at parse time: every kind built by the inner productions is accepted -/
def mediaInsert (rules : List Rule) (r : Rule) : List Rule := rules ++ [r]

def atPage : Cps := CssVerif.Proto.cps "@page"
def atMedia : Cps := CssVerif.Proto.cps "@media"
/-- `('@charset ', '@font-face', '@import', '@namespace', '@variables')` (`cssmediarule.py:190-196`) -/
def mediaForbidden : List Cps :=
  [CssVerif.Proto.cps "@charset ", CssVerif.Proto.cps "@font-face", CssVerif.Proto.cps "@import",
   CssVerif.Proto.cps "@namespace", CssVerif.Proto.cps "@variables"]

/-- what `atrule` / `ruleset` of the `@media` block do with the collected statement `stmt`
(`cssmediarule.py:171-220`); `nested` parses an `@media` inside `@media` -/
def mediaStmtEffect (O : Oracle) (ns : List (Cps × Cps)) (nested : List Tok → Option Rule)
    (acc : List Rule) (t : Tok) (stmt : List Tok) : List Rule :=
  match t.typ with
  | .charsetSym | .fontFaceSym | .importSym | .namespaceSym | .pageSym | .mediaSym | .atkeyword =>
    -- atrule() :181-221 decides by the normalised VALUE of the at-keyword (fix 6caae8a)
    if mediaForbidden.contains (normalize t.val) then acc          -- not allowed here (:191-204)
    else if normalize t.val = atPage then                           -- factories (:205-211)
      (if O.atOk .pageSym true stmt then mediaInsert acc (.at_ .page stmt) else acc)
    else if normalize t.val = atMedia then
      (match nested stmt with
       | some m => mediaInsert acc m
       | none => acc)
    else                                                            -- CSSUnknownRule (:211-218)
      (if unknownOk stmt then mediaInsert acc (.unknown stmt) else acc)
  | _ =>                                                            -- ruleset (:171-179)
    match styleRule O ns stmt with
    | some (sel, items) => mediaInsert acc (.style ns sel items)
    | none => acc

/-- one token of the block of an `@media` rule: default S / EOF, COMMENT, and the statement productions,
each of which starts with `self._tokensupto2(tokenizer, token)` (`cssmediarule.py:163-245`) -/
def mediaStep (O : Oracle) (ns : List (Cps × Cps)) (nested : List Tok → Option Rule)
    (acc : List Rule) (t : Tok) (rest : List Tok) : List Rule × List Tok :=
  match t.typ with
  | .s => (acc, rest)
  | .eof => (acc, rest)
  | .comment => (mediaInsert acc (.comment t), rest)
  | _ =>
    let r := upto .default (some t) rest
    (mediaStmtEffect O ns nested acc t r.1, r.2)

/-- the rules of the block of an `@media` rule, from the tokens after its `{` (`cssmediarule.py:141-250`) -/
def mediaBlock (O : Oracle) (ns : List (Cps × Cps)) (nested : List Tok → Option Rule)
    (rest2 : List Tok) : List Rule :=
  let r3 := upto .mediaend none rest2                    -- :141-143
  -- no "}" (:156-157) or trailing content (:158-161): logged, `cssRules` stays empty
  match (sepEnd r3.1).2 with
  | none => []
  | some last =>
    if (last.typ ≠ .eof ∧ last.val ≠ vRBrace) ∨ r3.2 ≠ [] then []
    else
      -- EOF hack (:145-154): the EOF goes back to the rules' tokens
      let inner := if last.typ = .eof then r3.1 else (sepEnd r3.1).1
      parseLoop (mediaStep O ns nested) [] inner

/-- `rule.cssText = tokens` for a `CSSMediaRule`.  `fuel` bounds the nesting depth of `@media` inside
`@media` (each level eats at least its at-keyword; `ts.length + 1` is enough).  A media rule is always
`wellformed` (`self.media.wellformed` of the constructor default `all` when the parse failed), so the
result is the rule the caller inserts: the parsed one, or the stub `media none []`. -/
def mediaRule (O : Oracle) (ns : List (Cps × Cps)) : Nat → List Tok → Option Rule
  | 0, _ => none                                          -- out of fuel (never reached, see Lemmas)
  | fuel + 1, ts =>
    match ts with
    | [] => some (.media none [])
    | at_ :: rest0 =>
      if at_.typ ≠ .mediaSym then some (.media none [])     -- :92-97
      else
        let r1 := upto .mq none rest0                      -- :106-108
        let mediatoks := (sepEnd r1.1).1
        match (sepEnd r1.1).2 with
        | none => some (.media none [])                    -- `end` is None: no "{" (:133-138)
        | some end1 =>
          let ok1 := (end1.val = vLBrace ∨ end1.typ = .string) ∧ O.mediaOk mediatoks   -- :109-115
          -- name (:117-130)
          let r2 := if end1.typ = .string then upto .blockstart none r1.2 else ([], r1.2)
          let nameOk := if end1.typ = .string then mediaNameOk (sepEnd r2.1).1 else true
          let end2 : Option Tok := if end1.typ = .string then (sepEnd r2.1).2 else some end1
          let name : Option Tok := if end1.typ = .string then some end1 else none
          if (end2.map (·.val)) ≠ some vLBrace then some (.media none [])   -- :133-138
          else
            let rules := mediaBlock O ns (fun l => mediaRule O ns fuel l) r2.2
            if ok1 ∧ nameOk then some (.media (some (mediatoks, name)) rules)
            else some (.media none [])

/-! ### CSSStyleSheet (`cssstylesheet.py:152-362`) -/

structure SheetSt where
  expected : Nat := 0
  rules : List Rule := []
  /-- `self._namespaces` while parsing (a dict: later value wins, insertion order kept) -/
  nsmap : List (Cps × Cps) := []

def nsLookup (m : List (Cps × Cps)) (p : Cps) : Option Cps := (m.find? (·.1 = p)).map (·.2)

def nsSet (m : List (Cps × Cps)) (p u : Cps) : List (Cps × Cps) :=
  if m.any (·.1 = p) then m.map (fun e => if e.1 = p then (p, u) else e) else m ++ [(p, u)]

def Kind.isBody : Kind → Bool          -- MEDIA_RULE, PAGE_RULE, STYLE_RULE, FONT_FACE_RULE
  | .media | .page | .style | .fontface => true
  | _ => false

/-- `insertRule(rule)` with `index=None` (append) and `inOrder=False` (`cssstylesheet.py:586-870`):
the hierarchy checks that can reject an appended rule -/
def sheetInsert (st : SheetSt) (r : Rule) : SheetSt :=
  match r.kind with
  | .charset =>                                           -- :649-665
    if st.rules ≠ [] then st else { st with rules := [r] }
  | .import_ =>                                           -- :700-727
    if st.rules.any (fun x => x.kind.isBody || x.kind = .namespace_ || x.kind = .variables) then st
    else { st with rules := st.rules ++ [r] }
  | .namespace_ =>                                        -- :758-800
    if st.rules.any (fun x => x.kind.isBody || x.kind = .variables) then st
    else
      match r with
      | .ns p u _ =>
        if nsLookup st.nsmap p = some u then st              -- no doublettes
        else { st with rules := st.rules ++ [r] }
      | _ => st
  | .variables =>                                         -- :818-842
    if st.rules.any (fun x => x.kind.isBody) then st else { st with rules := st.rules ++ [r] }
  | _ => { st with rules := st.rules ++ [r] }              -- :847-864 (nothing follows the end)

/-- `r._replaceNamespaceURI(uri)` on every namespace rule with this prefix (:262-265) -/
def replaceNsUri (rules : List Rule) (p u : Cps) : List Rule :=
  rules.map fun r => match r with
    | .ns p' u' toks => if p' = p then .ns p' u toks else .ns p' u' toks
    | r => r

/-- is the at-keyword one of `MarginRule.margins` (table passed in: generated from marginrule.py) -/
def isMargin (margins : List Cps) (t : Tok) : Bool := margins.contains t.val

/-- what a statement production does once `self._tokensupto2(tokenizer, token)` has collected the
statement `stmt` (which starts with `t`): parse it, check the order level, insert, return the new level
(`cssstylesheet.py:182-316`) -/
def stmtEffect (O : Oracle) (margins : List Cps) (st : SheetSt) (t : Tok) (stmt : List Tok) : SheetSt :=
  match t.typ with
  | .charsetSym =>                                                             -- :182-198
    if st.expected > 0 then st
    else if O.atOk .charsetSym false stmt then { sheetInsert st (.at_ .charset stmt) with expected := 1 }
    else { st with expected := 1 }
  | .importSym =>                                                              -- :200-215
    if st.expected > 1 then st
    else if O.atOk .importSym false stmt then { sheetInsert st (.at_ .import_ stmt) with expected := 1 }
    else { st with expected := 1 }
  | .namespaceSym =>                                                           -- :217-246
    if st.expected > 2 then st
    else
      match O.nsInfo stmt with
      | some (p, u) =>
        let st1 : SheetSt :=
          if (nsLookup st.nsmap p).isNone then sheetInsert st (.ns p u stmt)
          else { st with rules := replaceNsUri st.rules p u }
        { st1 with nsmap := nsSet st1.nsmap p u, expected := 2 }
      | none => st                         -- an ignored @namespace keeps `expected`
  | .variablesSym =>                                                           -- :248-264
    if st.expected > 2 then st
    else if O.atOk .variablesSym false stmt then { sheetInsert st (.at_ .variables stmt) with expected := 2 }
    else { st with expected := 2 }
  | .fontFaceSym =>                                                            -- :266-272
    if O.atOk .fontFaceSym false stmt then { sheetInsert st (.at_ .fontface stmt) with expected := 3 }
    else { st with expected := 3 }
  | .mediaSym =>                                                               -- :274-280
    match mediaRule O st.nsmap (stmt.length + 1) stmt with
    | some m => { sheetInsert st m with expected := 3 }
    | none => { st with expected := 3 }
  | .pageSym =>                                                                -- :282-288
    if O.atOk .pageSym false stmt then { sheetInsert st (.at_ .page stmt) with expected := 3 }
    else { st with expected := 3 }
  | .atkeyword =>                                                              -- unknownrule :290-308
    let st1 : SheetSt :=
      if isMargin margins t then
        (if O.atOk .atkeyword false stmt then sheetInsert st (.at_ .margin stmt) else st)
      else (if unknownOk stmt then sheetInsert st (.unknown stmt) else st)
    { st1 with expected := max 1 st.expected }
  | _ =>                                                                       -- ruleset :310-319
    match styleRule O st.nsmap stmt with
    | some (sel, items) => { sheetInsert st (.style st.nsmap sel items) with expected := 3 }
    | none => st                           -- an ignored ruleset keeps `expected`

/-- one token at sheet level: the productions of `_setCssText` (:171-319).  Every statement production
starts with `self._tokensupto2(tokenizer, token)`. -/
def sheetStep (O : Oracle) (margins : List Cps) (st : SheetSt) (t : Tok) (rest : List Tok) :
    SheetSt × List Tok :=
  match t.typ with
  | .s | .cdo | .cdc => ({ st with expected := max 1 st.expected }, rest)      -- S :171-174
  | .comment =>                                                                -- COMMENT :176-180
    ({ sheetInsert st (.comment t) with expected := max 1 st.expected }, rest)
  | .eof => (st, rest)                                                         -- default EOF
  | _ =>
    let r := upto .default (some t) rest
    (stmtEffect O margins st t r.1, r.2)

/-- the state after `_parse` -/
def sheetLoop (O : Oracle) (margins : List Cps) (st : SheetSt) (ts : List Tok) : SheetSt :=
  parseLoop (sheetStep O margins) st ts

/-- `_Namespaces.namespaces` (`util.py:817-831`): over the namespace rules, last first, one per URI -/
def effectiveNs (rules : List Rule) : List (Cps × Cps) :=
  let nsr := rules.reverse.filterMap fun r => match r with
    | .ns p u _ => some (p, u)
    | _ => none
  -- unique_everseen by namespaceURI, then a dict keyed by prefix (later entries overwrite)
  let uniq := nsr.foldl (fun acc e => if acc.any (·.2 = e.2) then acc else acc ++ [e]) []
  uniq.foldl (fun acc e => nsSet acc e.1 e.2) []

/-- `_cleanNamespaces` (`cssstylesheet.py:104-117`) -/
def cleanNamespaces (rules : List Rule) : List Rule :=
  let eff := effectiveNs rules
  rules.filter fun r => match r with
    | .ns p u _ => eff.contains (p, u)
    | _ => true

/-- `sheet.cssText = tokens` on a fresh sheet: the final `cssRules` -/
def parseSheet (O : Oracle) (margins : List Cps) (ts : List Tok) : List Rule :=
  cleanNamespaces (sheetLoop O margins {} ts).rules

/-! ## domain -/

/-- the tokenizer invariants the transcription relies on -/
def tokWF : List Tok → Bool
  | [] => true
  | [t] => t.typ ≠ .char || t.val.length = 1
  | t :: ts => t.typ ≠ .eof && (t.typ ≠ .char || t.val.length = 1) && tokWF ts

end CssVerif.Struct
