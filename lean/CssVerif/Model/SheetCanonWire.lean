import CssVerif.Model.Normalize
import CssVerif.Model.SheetSpec
/-!
# wire form of spelled sheets for the C03 driver

The s-expression reader and the JSON writer of `Drv/C02.lean` (lines 23-416), copied because a driver root cannot be
imported by another driver; tools/harness/c02_struct.py `sx` writes this form.  No model content here.
-/
namespace CssVerif.SheetCanonWire
open CssVerif.Proto CssVerif.Struct CssVerif.SheetSpec CssVerif.AtRules

def ttOfName (s : String) : Option TT :=
  match s with
  | "IDENT" => some .ident | "FUNCTION" => some .function | "CHAR" => some .char | "S" => some .s
  | "COMMENT" => some .comment | "EOF" => some .eof | "ATKEYWORD" => some .atkeyword
  | "STRING" => some .string | "URI" => some .uri | "INVALID" => some .invalid
  | "CDO" => some .cdo | "CDC" => some .cdc
  | "CHARSET_SYM" => some .charsetSym | "IMPORT_SYM" => some .importSym
  | "NAMESPACE_SYM" => some .namespaceSym | "PAGE_SYM" => some .pageSym | "MEDIA_SYM" => some .mediaSym
  | "FONT_FACE_SYM" => some .fontFaceSym | "VARIABLES_SYM" => some .variablesSym
  | "BOM" | "UNICODE-RANGE" | "DIMENSION" | "PERCENTAGE" | "NUMBER" | "HASH" | "INCLUDES" | "DASHMATCH"
  | "PREFIXMATCH" | "SUFFIXMATCH" | "SUBSTRINGMATCH" | "OTHER" => some .other
  | _ => none

def nameOfTT : TT → String
  | .ident => "IDENT" | .function => "FUNCTION" | .char => "CHAR" | .s => "S" | .comment => "COMMENT"
  | .eof => "EOF" | .atkeyword => "ATKEYWORD" | .string => "STRING" | .uri => "URI" | .invalid => "INVALID"
  | .cdo => "CDO" | .cdc => "CDC" | .charsetSym => "CHARSET_SYM" | .importSym => "IMPORT_SYM"
  | .namespaceSym => "NAMESPACE_SYM" | .pageSym => "PAGE_SYM" | .mediaSym => "MEDIA_SYM"
  | .fontFaceSym => "FONT_FACE_SYM" | .variablesSym => "VARIABLES_SYM" | .other => "OTHER"

def decTok (pos : Nat) (w : String) : Option Tok :=
  match w.splitOn ":" with
  | [ty, v] => match ttOfName ty, decCps v with
    | some t, some l => some ⟨t, l, pos⟩
    | _, _ => none
  | _ => none

def decToksFrom (i : Nat) : List String → Option (List Tok)
  | [] => some []
  | x :: xs => match decTok i x, decToksFrom (i + 1) xs with
    | some t, some l => some (t :: l)
    | _, _ => none

def decToks (w : String) : Option (List Tok) :=
  if w == "-" then some [] else decToksFrom 0 (w.splitOn ",")

def encTok (t : Tok) : String := nameOfTT t.typ ++ ":" ++ encCps t.val
def encToks (l : List Tok) : String := if l.isEmpty then "-" else ",".intercalate (l.map encTok)

/-- the oracle of the correspondence: every opaque part is accepted -/
def yes : Oracle := ⟨fun _ => true, fun _ _ => true, fun _ => true, fun _ _ _ => true, fun _ => none⟩

def q (s : String) : String := "\"" ++ s ++ "\""
def jList (l : List String) : String := "[" ++ ",".intercalate l ++ "]"

/-- `byPos = true`: tokens are named by their position in the request -/
def jTok (byPos : Bool) (t : Tok) : String :=
  if byPos then toString t.pos else jList [q (nameOfTT t.typ), q (encCps t.val)]
def jToks (byPos : Bool) (l : List Tok) : String := jList (l.map (jTok byPos))

def jOptCps : Option Cps → String
  | none => "null"
  | some c => q (encCps c)

def kindName : Kind → String
  | .comment => "comment" | .charset => "charset" | .import_ => "import" | .namespace_ => "namespace"
  | .variables => "variables" | .fontface => "fontface" | .page => "page" | .margin => "margin"
  | .media => "media" | .style => "style" | .unknown => "unknown"

def jAItem (bp : Bool) : AItem → String
  | .decl n v p => "{\"k\":\"decl\",\"name\":" ++ q (encCps n) ++ ",\"value\":" ++ jToks bp v ++ ",\"prio\":"
      ++ jOptCps p ++ "}"
  | .comment b => "{\"k\":\"comment\",\"body\":" ++ q (encCps b) ++ "}"
  | .unknown l => "{\"k\":\"unknown\",\"toks\":" ++ jToks bp l ++ "}"

def jItems (bp : Bool) (l : List AItem) : String := jList (l.map (jAItem bp))

def jOptToks (bp : Bool) : Option (List Tok) → String
  | none => "null"
  | some l => jToks bp l

mutual
def jARule (bp : Bool) : ARule → String
  | .comment b => "{\"k\":\"comment\",\"body\":" ++ q (encCps b) ++ "}"
  | .style sels items => "{\"k\":\"style\",\"sels\":" ++ jList (sels.map (jToks bp)) ++ ",\"items\":"
      ++ jItems bp items ++ "}"
  | .unknown l => "{\"k\":\"unknown\",\"toks\":" ++ jToks bp l ++ "}"
  | .media mq name rules => "{\"k\":\"media\",\"mq\":" ++ jToks bp mq ++ ",\"name\":" ++ jOptCps name
      ++ ",\"rules\":[" ++ jARules bp rules ++ "]}"
  | .fontface items => "{\"k\":\"fontface\",\"items\":" ++ jItems bp items ++ "}"
  | .page name pseudo items margins => "{\"k\":\"page\",\"name\":" ++ jOptCps name ++ ",\"pseudo\":"
      ++ jOptCps pseudo ++ ",\"items\":" ++ jItems bp items ++ ",\"margins\":"
      ++ jList (margins.map fun m => "{\"name\":" ++ q (encCps m.name) ++ ",\"items\":" ++ jItems bp m.items ++ "}")
      ++ "}"
  | .import_ href mq name => "{\"k\":\"import\",\"href\":" ++ q (encCps href) ++ ",\"mq\":" ++ jOptToks bp mq
      ++ ",\"name\":" ++ jOptCps name ++ "}"
  | .namespace_ p u => "{\"k\":\"namespace\",\"pfx\":" ++ q (encCps p) ++ ",\"uri\":" ++ q (encCps u) ++ "}"
  | .charset e => "{\"k\":\"charset\",\"enc\":" ++ q (encCps e) ++ "}"
  | .variables vs => "{\"k\":\"variables\",\"vars\":"
      ++ jList (vs.map fun v => "{\"name\":" ++ q (encCps v.1) ++ ",\"value\":" ++ jToks bp v.2 ++ "}") ++ "}"
  | .other k => "{\"k\":\"other\",\"kind\":" ++ q (kindName k) ++ "}"
def jARules (bp : Bool) : List ARule → String
  | [] => ""
  | [r] => jARule bp r
  | r :: rs => jARule bp r ++ "," ++ jARules bp rs
end

def jASheet (bp : Bool) (a : ASheet) : String := "[" ++ jARules bp a ++ "]"

/-! ### s-expressions (the wire form of a spelled sheet) -/

inductive SX where
  | atom (s : String)
  | list (l : List SX)
  deriving Inhabited

def sxStep (stk : Option (List (List SX))) (w : String) : Option (List (List SX)) :=
  match stk with
  | none => none
  | some stk =>
    if w == "(" then some ([] :: stk)
    else if w == ")" then
      match stk with
      | top :: nxt :: rest => some ((SX.list top.reverse :: nxt) :: rest)
      | _ => none
    else
      match stk with
      | top :: rest => some ((SX.atom w :: top) :: rest)
      | [] => none

/-- the words of one line as ONE s-expression list -/
def parseSX (ws : List String) : Option (List SX) :=
  match ws.foldl sxStep (some [[]]) with
  | some [top] => some top.reverse
  | _ => none

def mapM? {α β : Type} (f : α → Option β) : List α → Option (List β)
  | [] => some []
  | x :: xs => match f x, mapM? f xs with
    | some y, some ys => some (y :: ys)
    | _, _ => none

def sxCps : SX → Option Cps
  | .atom s => decCps s
  | _ => none

def sxTok : SX → Option Tok
  | .atom s => decTok 0 s
  | _ => none

def sxToks : SX → Option (List Tok)
  | .list l => mapM? sxTok l
  | _ => none

def wsChar? (s : String) : Option WsChar :=
  match s with
  | "sp" => some .space | "tab" => some .tab | "lf" => some .lf | "cr" => some .cr | "ff" => some .ff
  | _ => none

def sxWs : SX → Option Ws
  | .list (.atom c :: cs) =>
    match wsChar? c, mapM? (fun x => match x with | SX.atom s => wsChar? s | _ => none) cs with
    | some c, some cs => some ⟨c, cs⟩
    | _, _ => none
  | _ => none

def sxGapTok : SX → Option GapTok
  | .list [.atom "cm", b] => (sxCps b).map GapTok.cm
  | x => (sxWs x).map GapTok.ws

def sxGap : SX → Option Gap
  | .list l => mapM? sxGapTok l
  | _ => none

def sxWGap : SX → Option WGap
  | .list l => mapM? sxWs l
  | _ => none

def sxMask : SX → Option (List (Bool × Bool))
  | .list l => mapM? (fun x => match x with
      | SX.atom "00" => some (false, false) | SX.atom "10" => some (true, false)
      | SX.atom "01" => some (false, true) | SX.atom "11" => some (true, true)
      | _ => none) l
  | _ => none

def sxPrio : SX → Option (Option (Gap × Cps × List (Bool × Bool) × Gap))
  | .atom "none" => some none
  | .list [g4, n, sp, g5] =>
    match sxGap g4, sxCps n, sxMask sp, sxGap g5 with
    | some g4, some n, some sp, some g5 => some (some (g4, n, sp, g5))
    | _, _, _, _ => none
  | _ => none

def sxDecl : SX → Option SDecl
  | .list [n, sp, g1, g2, v, g3, p] =>
    match sxCps n, sxMask sp, sxGap g1, sxGap g2, sxToks v, sxGap g3, sxPrio p with
    | some n, some sp, some g1, some g2, some v, some g3, some p => some ⟨n, sp, g1, g2, v, g3, p⟩
    | _, _, _, _, _, _, _ => none
  | _ => none

def sxItem : SX → Option (SItem × WGap)
  | .list [.atom "decl", d, w] => match sxDecl d, sxWGap w with
    | some d, some w => some (.decl d, w)
    | _, _ => none
  | .list [.atom "comment", b, w] => match sxCps b, sxWGap w with
    | some b, some w => some (.comment b, w)
    | _, _ => none
  | .list [.atom "unknown", t, w] => match sxToks t, sxWGap w with
    | some t, some w => some (.unknown t, w)
    | _, _ => none
  | .list [.atom "semi", w] => (sxWGap w).map fun w => (.semi, w)
  | _ => none

def sxBlock : SX → Option SBlock
  | .list [lead, .list items, last] =>
    match sxWGap lead, mapM? sxItem items, (match last with
      | .atom "none" => some none
      | d => (sxDecl d).map some) with
    | some lead, some items, some last => some ⟨lead, items, last⟩
    | _, _, _ => none
  | _ => none

def sxSel : SX → Option SSel
  | .list [first, post, .list more] =>
    match sxToks first, sxGap post, mapM? (fun x => match x with
      | SX.list [pre, c, post] => (match sxGap pre, sxToks c, sxGap post with
        | some pre, some c, some post => some (pre, c, post)
        | _, _, _ => none)
      | _ => none) more with
    | some first, some post, some more => some ⟨first, post, more⟩
    | _, _, _ => none
  | _ => none

def sxQuote : SX → Option Quote
  | .atom "dq" => some .dq
  | .atom "sq" => some .sq
  | _ => none

def sxWsChars : SX → Option (List WsChar)
  | .list l => mapM? (fun x => match x with | SX.atom s => wsChar? s | _ => none) l
  | _ => none

def sxHref : SX → Option SHref
  | .list [.atom "str", qq, h] => match sxQuote qq, sxCps h with
    | some qq, some h => some (.str qq h)
    | _, _ => none
  | .list [.atom "url", up, pre, post, qq, h] =>
    match sxMask up, sxWsChars pre, sxWsChars post, sxCps h with
    | some up, some pre, some post, some h =>
      (match qq with
        | .atom "none" => some (.url up pre post none h)
        | qq => (sxQuote qq).map fun qq => .url up pre post (some qq) h)
    | _, _, _, _ => none
  | _ => none

def sxOptCps : SX → Option (Option Cps)
  | .atom "none" => some none
  | x => (sxCps x).map some

def sxName : SX → Option SName
  | .atom "none" => some none
  | .list [qq, n, g] => match sxQuote qq, sxCps n, sxGap g with
    | some qq, some n, some g => some (some (qq, n, g))
    | _, _, _ => none
  | _ => none

def sxPageItem : SX → Option (SPageItem × WGap)
  | .list [.atom "margin", n, kw, g, blk, w] =>
    match sxCps n, sxMask kw, sxGap g, sxBlock blk, sxWGap w with
    | some n, some kw, some g, some blk, some w => some (.margin n kw g blk, w)
    | _, _, _, _, _ => none
  | x => (sxItem x).map fun p => (.item p.1, p.2)

def sxPageBlock : SX → Option SPageBlock
  | .list [lead, .list items, last] =>
    match sxWGap lead, mapM? sxPageItem items, (match last with
      | .atom "none" => some none
      | d => (sxDecl d).map some) with
    | some lead, some items, some last => some ⟨lead, items, last⟩
    | _, _, _ => none
  | _ => none

def sxPageSel : SX → Option SPageSel
  | .list [n, .list mid, p, sp] =>
    match sxOptCps n, mapM? sxCps mid, sxOptCps p, sxMask sp with
    | some n, some mid, some p, some sp => some ⟨n, mid, p, sp⟩
    | _, _, _, _ => none
  | _ => none

mutual
def sxRule : SX → Option (SRule × WGap)
  | .list [.atom "comment", b, w] => match sxCps b, sxWGap w with
    | some b, some w => some (.comment b, w)
    | _, _ => none
  | .list [.atom "style", sel, blk, w] => match sxSel sel, sxBlock blk, sxWGap w with
    | some sel, some blk, some w => some (.style sel blk, w)
    | _, _, _ => none
  | .list [.atom "unknown", t, w] => match sxToks t, sxWGap w with
    | some t, some w => some (.unknown t, w)
    | _, _ => none
  | .list [.atom "media", kw, g1, mq, g2, nm, lead, .list rules, w] =>
    match sxMask kw, sxGap g1, sxToks mq, sxGap g2, sxName nm, sxWGap lead, sxRules rules, sxWGap w with
    | some kw, some g1, some mq, some g2, some nm, some lead, some rules, some w =>
      some (.media kw g1 mq g2 nm lead rules, w)
    | _, _, _, _, _, _, _, _ => none
  | .list [.atom "fontface", kw, g1, blk, w] =>
    match sxMask kw, sxGap g1, sxBlock blk, sxWGap w with
    | some kw, some g1, some blk, some w => some (.fontface kw g1 blk, w)
    | _, _, _, _ => none
  | .list [.atom "page", kw, g0, sel, g1, blk, w] =>
    match sxMask kw, sxGap g0, sxPageSel sel, sxGap g1, sxPageBlock blk, sxWGap w with
    | some kw, some g0, some sel, some g1, some blk, some w => some (.page kw g0 sel g1 blk, w)
    | _, _, _, _, _, _ => none
  | _ => none
def sxRules : List SX → Option SRules
  | [] => some .nil
  | x :: xs => match sxRule x, sxRules xs with
    | some (r, w), some rest => some (.cons r w rest)
    | _, _ => none
end

def sxImp : SX → Option (SImp × WGap)
  | .list [.atom "comment", b, w] => match sxCps b, sxWGap w with
    | some b, some w => some (.comment b, w)
    | _, _ => none
  | .list [.atom "unknown", t, w] => match sxToks t, sxWGap w with
    | some t, some w => some (.unknown t, w)
    | _, _ => none
  | .list [.atom "import", kw, g1, href, g2, mq, nm, w] =>
    match sxMask kw, sxGap g1, sxHref href, sxGap g2, (match mq with
      | .atom "none" => some none
      | .list [m, g3] => (match sxToks m, sxGap g3 with
        | some m, some g3 => some (some (m, g3))
        | _, _ => none)
      | _ => none), sxName nm, sxWGap w with
    | some kw, some g1, some href, some g2, some mq, some nm, some w => some (.import_ kw g1 href g2 mq nm, w)
    | _, _, _, _, _, _, _ => none
  | _ => none

def sxNs : SX → Option (SNs × WGap)
  | .list [.atom "comment", b, w] => match sxCps b, sxWGap w with
    | some b, some w => some (.comment b, w)
    | _, _ => none
  | .list [.atom "unknown", t, w] => match sxToks t, sxWGap w with
    | some t, some w => some (.unknown t, w)
    | _, _ => none
  | .list [.atom "namespace", kw, g1, pfx, uri, g2, w] =>
    match sxMask kw, sxGap g1, (match pfx with
      | .atom "none" => some none
      | .list [p, g] => (match sxCps p, sxGap g with
        | some p, some g => some (some (p, g))
        | _, _ => none)
      | _ => none), sxHref uri, sxGap g2, sxWGap w with
    | some kw, some g1, some pfx, some uri, some g2, some w => some (.namespace_ kw g1 pfx uri g2, w)
    | _, _, _, _, _, _ => none
  | _ => none

def sxVarDecl : SX → Option SVarDecl
  | .list [n, sp, g1, g2, v, g3] =>
    match sxCps n, sxMask sp, sxGap g1, sxGap g2, sxToks v, sxGap g3 with
    | some n, some sp, some g1, some g2, some v, some g3 => some ⟨n, sp, g1, g2, v, g3⟩
    | _, _, _, _, _, _ => none
  | _ => none

def sxVarBlock : SX → Option SVarBlock
  | .list [lead, .list items, last] =>
    match sxGap lead, mapM? (fun x => match x with
      | SX.list [d, g] => (match sxVarDecl d, sxGap g with
        | some d, some g => some (d, g)
        | _, _ => none)
      | _ => none) items, (match last with
      | .atom "none" => some none
      | d => (sxVarDecl d).map some) with
    | some lead, some items, some last => some ⟨lead, items, last⟩
    | _, _, _ => none
  | _ => none

def sxVar : SX → Option (SVar × WGap)
  | .list [.atom "comment", b, w] => match sxCps b, sxWGap w with
    | some b, some w => some (.comment b, w)
    | _, _ => none
  | .list [.atom "unknown", t, w] => match sxToks t, sxWGap w with
    | some t, some w => some (.unknown t, w)
    | _, _ => none
  | .list [.atom "variables", kw, g0, blk, w] =>
    match sxMask kw, sxGap g0, sxVarBlock blk, sxWGap w with
    | some kw, some g0, some blk, some w => some (.variables kw g0 blk, w)
    | _, _, _, _ => none
  | _ => none

def sxSheet : List SX → Option SSheet
  | [cs, lead, .list imps, .list nss, .list vars, .list rules] =>
    match (match cs with
      | .atom "none" => some none
      | .list [qq, e] => (match sxQuote qq, sxCps e with
        | some qq, some e => some (some (qq, e))
        | _, _ => none)
      | _ => none), sxWGap lead, mapM? sxImp imps, mapM? sxNs nss, mapM? sxVar vars, sxRules rules with
    | some cs, some lead, some imps, some nss, some vars, some rules => some ⟨cs, lead, imps, nss, vars, rules⟩
    | _, _, _, _, _, _ => none
  | _ => none

/-- the oracle of the correspondence: selectors / values / media queries accepted, at-rules by their models -/
def orc : Oracle := CssVerif.AtRules.withAtRules yes

end CssVerif.SheetCanonWire
