import CssVerif.Lib.Proto
/-!
# K5 — model of the declaration block (`cssutils/css/cssstyledeclaration.py`, `property.py`,
# the declaration part of `serialize.py`, `helper.normalize`) and of the DOM-name converters
# (`cssutils/css/cssproperties.py`)

Hand transcription, statement by statement (`file.py:line` in the comments). The style-declaration line numbers
below `:225` are those before `__effective` was inserted (add 15-17 for the current file: `getProperties :410`,
`getProperty :449`, `removeProperty :562`, `setProperty :610`, `item :687`).
Strings are lists of code points (`Nat`).

What is *outside* this kernel is a parameter (`Env`), never a guess:
* the tokenizer (`Tokenizer.tokenize`, kernel K1 / property C05) — `Env.tokenize`;
* the value grammar (`PropertyValue.cssText = …`, kernel K4 / C02, C18) — `Env.parseValue`;
* the error mode `cssutils.log.raiseExceptions` — `Env.raising`.
All theorems hold for every `Env`. The driver instantiates `Env` with tables the harness fills from the
real tokenizer / `PropertyValue`.

Python objects that are mutated in place (`Property` inside `seq`) are addressed by their index in `seq`.
Operations return the new state *and* the outcome (`Res`), so a raising operation that had already
mutated something is visible as such.
-/
namespace CssVerif.Decl
open CssVerif.Proto

/-! ## `helper.normalize` (`helper.py:41-61`) -/

def isHex (c : Nat) : Bool := (48 ≤ c && c ≤ 57) || (65 ≤ c && c ≤ 70) || (97 ≤ c && c ≤ 102)
def isUpper (c : Nat) : Bool := 65 ≤ c && c ≤ 90
def isLower (c : Nat) : Bool := 97 ≤ c && c ≤ 122
def isLetter (c : Nat) : Bool := isUpper c || isLower c
/-- `str.lower()` on one code point — ASCII fold (assumption of DESIGN §5: generated alphabets have no
non-ASCII cased letters) -/
def lowerCp (c : Nat) : Nat := if isUpper c then c + 32 else c
def upperCp (c : Nat) : Nat := if isLower c then c - 32 else c
def lower (s : Cps) : Cps := s.map lowerCp

/-- `_simpleescapes(removeescape, x)`: `re.compile(r'(\\[^0-9a-fA-F])').sub` with the backslash dropped
(`helper.py:41,55-58`); non-overlapping, left to right; the class is negated, so it matches newlines too -/
def unesc : Cps → Cps
  | [] => []
  | [c] => [c]
  | c :: d :: rest => if c == 92 && !isHex d then d :: unesc rest else c :: unesc (d :: rest)

/-- `normalize(x)` (`helper.py:44-61`): `if x:` remove simple escapes, lower; else `x` -/
def normalize (x : Cps) : Cps := lower (unesc x)

/-! ## tokens, values, environment -/

/-- token types that the name / priority parsers distinguish; `other` = any type without a production
there (DIMENSION, NUMBER, STRING, HASH, FUNCTION, …); `atkw` = ATKEYWORD, whose default production
(`util.py:397-409`) builds a `CSSUnknownRule` and is not modelled (the operation answers `unmodelled`) -/
inductive TT | ident | char | s | comment | other | atkw
deriving DecidableEq, Repr

structure Tok where
  typ : TT
  val : Cps
deriving DecidableEq, Repr

/-- a parsed `PropertyValue`: `cssText` and `value` (the text without comments) -/
structure Val where
  css : Cps
  value : Cps
deriving DecidableEq, Repr

inductive Err
  | syntaxErr      -- xml.dom.SyntaxErr raised by a log call in raising mode
  | noModification -- xml.dom.NoModificationAllowedErr
  | pyCrash        -- a partial Python operation failed (AttributeError on None, …)
  | unmodelled     -- input outside the modelled token vocabulary (ATKEYWORD in a name or priority)
deriving DecidableEq, Repr

structure Env where
  /-- `cssutils.log.raiseExceptions` -/
  raising : Bool
  /-- `Tokenizer().tokenize(text)` (types and values) -/
  tokenize : Cps → List Tok
  /-- `PropertyValue(cssText=text)`: `none` = not well-formed (an error is logged, `value.py:184-192`) -/
  parseValue : Cps → Option Val
  /-- `ProdParser().parse(text, 'variableName', Sequence(PreDef.ident()))` is well-formed -/
  isIdent : Cps → Bool

/-- any `self._log.<level>(msg)` without `neverraise` (`errorhandler.py:79-109`): raises `SyntaxErr`
in raising mode — for *every* level, `__handle` does not look at the level -/
def logCall (env : Env) : Except Err Unit :=
  if env.raising then .error .syntaxErr else .ok ()

/-- an entry of `Property.seqs[0]` / `seqs[2]`: a string or a `CSSComment` -/
inductive Part
  | str (v : Cps)
  | comment (v : Cps)
deriving DecidableEq, Repr

/-! ## `Property` (`property.py`) -/

structure Pty where
  wf : Bool              -- wellformed
  nameSeq : List Part    -- seqs[0]
  lit : Cps              -- _literalname
  name : Cps             -- _name
  val : Val              -- seqs[1] (cssText, value)
  prioSeq : List Part    -- seqs[2]
  litPrio : Cps          -- _literalpriority
  prio : Cps             -- _priority
deriving DecidableEq, Repr

/-- the fields after `Property.__init__` before any setter ran (`property.py:66-81`) -/
def Pty.empty : Pty :=
  { wf := false, nameSeq := [], lit := [], name := [], val := ⟨[], []⟩, prioSeq := [], litPrio := [], prio := [] }

structure NameAcc where
  expName : Bool := true       -- expected == 'name'
  lit : Option Cps := none     -- new['literalname']
  seq : List Part := []
  wf : Bool := true            -- wellformed and new['wellformed']

/-- one token of `_setName`'s `_parse` loop (`property.py:207-224`, `util.py:482-490`, defaults `util.py:411-427`) -/
def nameStep (env : Env) (a : NameAcc) (t : Tok) : Except Err NameAcc :=
  match t.typ with
  | .ident =>
    if a.expName then
      .ok { a with expName := false, lit := some (lower t.val), seq := a.seq ++ [.str (lower t.val)] }
    else do
      logCall env
      .ok { a with wf := false }
  | .comment => .ok { a with seq := a.seq ++ [.comment t.val] }
  | .s => .ok a
  | .atkw => .error .unmodelled
  | .char => do logCall env; .ok { a with wf := false }
  | .other => do logCall env; .ok { a with wf := false }

def litNonEmpty : Option Cps → Bool
  | some (_ :: _) => true
  | _ => false

/-- `Property._setName` on a token list (`property.py:197-260`) -/
def setName (env : Env) (p : Pty) (toks : List Tok) : Except Err Pty := do
  let a ← toks.foldlM (nameStep env) {}
  if !litNonEmpty a.lit then logCall env          -- 'Property: No name found' (:235-239)
  if a.wf && litNonEmpty a.lit then
    let l := a.lit.getD []
    .ok { p with wf := true, lit := l, name := normalize l, nameSeq := a.seq }   -- :241-245
  else
    .ok { p with wf := false }                                                -- :260

/-- `Property._setPropertyValue(text)` (`property.py:269-285`) with `PropertyValue._setCssText`
(`value.py:176-192`): on failure the old value sequence is kept and an error is logged -/
def setValue (env : Env) (p : Pty) (text : Cps) : Except Err Pty :=
  match env.parseValue text with
  | some v => .ok { p with val := v }               -- wellformed and True
  | none => do
    logCall env
    .ok { p with wf := false }

structure PrioAcc where
  exp : Nat := 0               -- 0: '!' expected, 1: 'important', 2: 'EOF'
  lit : Cps := []              -- new['literalpriority']
  seq : List Part := []
  wf : Bool := true

/-- one token of the priority setter's `_parse` loop (`property.py:351-380`) -/
def prioStep (env : Env) (a : PrioAcc) (t : Tok) : Except Err PrioAcc :=
  match t.typ with
  | .char =>
    if a.exp == 0 && t.val == [33] then .ok { a with exp := 1, seq := a.seq ++ [.str t.val] }
    else do logCall env; .ok { a with wf := false }
  | .ident =>
    if a.exp == 1 then .ok { a with exp := 2, lit := t.val, seq := a.seq ++ [.str t.val] }
    else do logCall env; .ok { a with wf := false }
  | .comment => .ok { a with seq := a.seq ++ [.comment t.val] }
  | .s => .ok a
  | .atkw => .error .unmodelled
  | .other => do logCall env; .ok { a with wf := false }

def important : Cps := cps "important"

/-- the priority setter after tokenisation (`property.py:374-396`); `given` = `bool(priority)`.
Nothing is assigned before the last possible raise. -/
def setPriorityToks (env : Env) (p : Pty) (toks : List Tok) (given : Bool) : Except Err Pty := do
  let a ← toks.foldlM (prioStep env) {}
  if given && a.lit == [] then logCall env          -- 'Invalid priority' (:384-386), log.info raises too
  if a.wf && !(given && a.lit == []) then
    let np := normalize a.lit
    if !(np == [] || np == important) then logCall env   -- 'No CSS priority value' (:391-392)
    .ok { p with prioSeq := a.seq, litPrio := a.lit, prio := np }   -- wellformed stays (and True)
  else
    .ok p

/-- `property.priority = <str>` (`property.py:345-346`, then the above); `_tokenize2('')` is `None` -/
def setPriorityStr (env : Env) (p : Pty) (prio : Cps) : Except Err Pty :=
  let pr := if normalize prio == important then 33 :: prio else prio
  setPriorityToks env p (if pr == [] then [] else env.tokenize pr) (pr != [])

/-- `Property(name, value, priority)` (`property.py:49-83`), `value` a non-empty string -/
def mkProperty (env : Env) (name value prio : Cps) : Except Err Pty := do
  let p1 ← if name != [] then (do
      let a ← setName env Pty.empty (env.tokenize name)
      setValue env a value)
    else pure Pty.empty
  if prio != [] then setPriorityStr env p1 prio else pure p1

/-- `Property.cssText = tokens` for a declaration `name : value prio` found by the block parser
(`property.py:103-191`), at item level: the three token groups are given by their source text.
`name` is the text before the colon, `prio` the text from `!` on (empty if none). -/
def propFromDecl (env : Env) (name value prio : Cps) : Except Err Pty := do
  let nt := env.tokenize name
  let vt := env.tokenize value
  if nt == [] then logCall env        -- 'No property name found' (:136-141)
  if vt == [] then logCall env        -- 'No property value found' (:147-152)
  if nt != [] && vt != [] then
    let p1 ← setName env { Pty.empty with wf := true } nt
    let p2 ← setValue env p1 value
    setPriorityToks env p2 (if prio == [] then [] else env.tokenize prio) (prio != [] && env.tokenize prio != [])
  else
    pure Pty.empty

/-! ## the declaration block -/

inductive Item
  | prop (p : Pty)
  | comment (text : Cps)     -- CSSComment, its cssText
  | other (text : Cps)       -- CSSUnknownRule, its cssText
deriving DecidableEq, Repr

structure Decl where
  seq : List Item
  readonly : Bool := false
deriving DecidableEq, Repr

/-- an operation's effect: the state afterwards (also when it raised) and the outcome -/
structure Res (α : Type) where
  st : Decl
  out : Except Err α

def propAt (seq : List Item) (i : Nat) : Option Pty :=
  match seq[i]? with
  | some (.prop p) => some p
  | _ => none

def isPropNamed (nname : Cps) : Item → Bool
  | .prop p => p.name == nname
  | _ => false

def isPropLit (name : Cps) : Item → Bool
  | .prop p => p.lit == name
  | _ => false

/-- the loop shared by `getProperty` (`cssstyledeclaration.py:462-472`) and `__effective` (`:232-240`) over
`reversed(self.seq)`, `m` being the name test of the loop; the list is the reversed `seq`, so its head is
`seq[rest.length]`; the result is the index of the `Property` object in `seq` -/
def scanBy (m : Pty → Bool) : List Item → Option Nat → Option Nat
  | [], found => found
  | .prop p :: rest, found =>
    if m p then
      if p.prio != [] then some rest.length
      else match found with
        | none => scanBy m rest (some rest.length)
        | some f => scanBy m rest (some f)
    else scanBy m rest found
  | _ :: rest, found => scanBy m rest found

/-- `getProperty`: `(normalize and nname == val.name) or name == val.literalname` -/
def getPropertyIdx (seq : List Item) (name : Cps) (norm : Bool) : Option Nat :=
  scanBy (fun p => (norm && normalize name == p.name) || name == p.lit) seq.reverse none

/-- `__effective(nname)`: `val.name == nname`, the argument is NOT normalised again (`:225-240`) -/
def effectiveIdx (seq : List Item) (nname : Cps) : Option Nat :=
  scanBy (fun p => p.name == nname) seq.reverse none

def effectiveOf (seq : List Item) (nname : Cps) : Option Pty :=
  (effectiveIdx seq nname).bind (propAt seq)

/-- `getProperty(name, normalize)` -/
def getProperty (seq : List Item) (name : Cps) (norm : Bool) : Option Pty :=
  (getPropertyIdx seq name norm).bind (propAt seq)

/-- `getPropertyValue(name, normalize)` with the default `default=''` (`:503-524`) -/
def getPropertyValue (seq : List Item) (name : Cps) (norm : Bool) : Cps :=
  match getProperty seq name norm with
  | some p => p.val.value
  | none => []

/-- `getPropertyPriority` (`:526-545`) -/
def getPropertyPriority (seq : List Item) (name : Cps) (norm : Bool) : Cps :=
  match getProperty seq name norm with
  | some p => p.prio
  | none => []

/-- the loop of `__nnames` over `reversed(self.seq)` (`:218-222`) -/
def nnScan : List Item → List Cps → List Cps
  | [], names => names
  | .prop p :: rest, names =>
    if names.contains p.name then nnScan rest names else nnScan rest (names ++ [p.name])
  | _ :: rest, names => nnScan rest names

/-- `__nnames()` (`:214-223`) -/
def nnames (seq : List Item) : List Cps := (nnScan seq.reverse []).reverse

/-- Python list indexing `l[i]`, `none` = IndexError -/
def pyIndex {α : Type} (l : List α) (i : Int) : Option α :=
  if 0 ≤ i then l[i.toNat]?
  else if (-i).toNat ≤ l.length then l[l.length - (-i).toNat]?
  else none

/-- `item(index)` (`:672-698`) -/
def item (seq : List Item) (i : Int) : Cps := (pyIndex (nnames seq) i).getD []
/-- `length` (`:700`) -/
def length (seq : List Item) : Nat := (nnames seq).length
/-- `keys()` (`:138-141`) -/
def keys (seq : List Item) : List Cps := nnames seq
/-- `__iter__` (`:129-136`) -/
def iter (seq : List Item) : List (Option Pty) := (nnames seq).map (effectiveOf seq)
/-- `__contains__` with a string (`:117-127`) -/
def contains (seq : List Item) (name : Cps) : Bool := (nnames seq).contains (normalize name)

/-- indices of all `Property` items satisfying `q`, in order (`:427-432`) -/
def propIdxs (q : Pty → Bool) : List Item → Nat → List Nat
  | [], _ => []
  | .prop p :: rest, i => if q p then i :: propIdxs q rest (i + 1) else propIdxs q rest (i + 1)
  | _ :: rest, i => propIdxs q rest (i + 1)

/-- `getProperties(name, all)` (`:395-432`) as indices into `seq`; `none` entries are `None`s -/
def getPropertiesIdx (seq : List Item) (name : Cps) (all : Bool) : List (Option Nat) :=
  if name != [] && !all then
    match getPropertyIdx seq name true with
    | some i => [some i]
    | none => []
  else if !all then
    (nnames seq).map (effectiveIdx seq)
  else
    let nname := normalize name
    (propIdxs (fun p => nname == [] || p.name == nname) seq 0).map some

def getProperties (seq : List Item) (name : Cps) (all : Bool) : List (Option Pty) :=
  (getPropertiesIdx seq name all).map (fun oi => oi.bind (propAt seq))

/-- `removeProperty(name, normalize)` (`:547-593`) -/
def removeProperty (d : Decl) (name : Cps) (norm : Bool) : Res Cps :=
  if d.readonly then ⟨d, .error .noModification⟩
  else
    let r := getPropertyValue d.seq name norm
    let newseq :=
      if norm then d.seq.filter (fun it => !isPropNamed (normalize name) it)
      else d.seq.filter (fun it => !isPropLit name it)
    ⟨{ d with seq := newseq }, .ok r⟩

/-- the loop `for property in reversed(properties)` of `setProperty` (`:653-661`): index of the `Property`
that is updated -/
def updTarget (seq : List Item) (nname name : Cps) (norm : Bool) : List (Option Nat) → Except Err (Option Nat)
  | [] => .ok none
  | none :: _ => .error .pyCrash
  | some i :: rest =>
    match propAt seq i with
    | none => .error .pyCrash
    | some p =>
      if (norm && p.name == nname) || p.lit == name then .ok (some i)
      else updTarget seq nname name norm rest

structure Upd where
  p : Pty
  err : Option Err

/-- `property.propertyValue = newp.propertyValue.cssText; property.priority = newp.priority` (`:655-656`) -/
def updateProp (env : Env) (p newp : Pty) : Upd :=
  match setValue env p newp.val.css with
  | .error e => ⟨p, some e⟩
  | .ok p1 =>
    match setPriorityStr env p1 newp.prio with
    | .error e => ⟨p1, some e⟩
    | .ok p2 => ⟨p2, none⟩

/-- `setProperty(name, value, priority, normalize, replace)` with `name` a string (`:595-670`);
`value = none` is Python `None`. Returns what the method returns (`None`, or `removeProperty`'s result). -/
def setProperty (env : Env) (d : Decl) (name : Cps) (value : Option Cps) (prio : Cps) (norm repl : Bool) :
    Res (Option Cps) :=
  if d.readonly then ⟨d, .error .noModification⟩
  else
    match value with
    | none => let r := removeProperty d name true; ⟨r.st, r.out.map some⟩
    | some [] => let r := removeProperty d name true; ⟨r.st, r.out.map some⟩
    | some v =>
      match mkProperty env name v prio with
      | .error e => ⟨d, .error e⟩
      | .ok newp =>
        if newp.wf then
          let target : Except Err (Option Nat) :=
            if repl then
              updTarget d.seq (normalize name) name norm (getPropertiesIdx d.seq name (!norm)).reverse
            else .ok none
          match target with
          | .error e => ⟨d, .error e⟩
          | .ok (some i) =>
            match propAt d.seq i with
            | none => ⟨d, .error .pyCrash⟩
            | some p =>
              let u := updateProp env p newp
              ⟨{ d with seq := d.seq.set i (.prop u.p) },
               match u.err with | some e => .error e | none => .ok none⟩
          | .ok none => ⟨{ d with seq := d.seq ++ [.prop newp] }, .ok none⟩
        else
          match logCall env with            -- log.warn('Invalid Property…') (:670)
          | .error e => ⟨d, .error e⟩
          | .ok _ => ⟨d, .ok none⟩

/-- `style[name] = value` / `style[name] = (value, priority)` (`:150-160`): priority `None` is falsy like `''` -/
def setItem (env : Env) (d : Decl) (name : Cps) (value : Option Cps) (prio : Option Cps) : Res (Option Cps) :=
  setProperty env d name value (prio.getD []) true true

/-- `del style[name]` (`:162-169`) -/
def delItem (d : Decl) (name : Cps) : Res Cps := removeProperty d name true

/-- one source item of a declaration block text, as the block parser sees it (`:302-354`) -/
inductive SrcItem
  | decl (name value prio : Cps)    -- IDENT … up to `;` : `Property.cssText = tokens`
  | comment (text : Cps)            -- COMMENT (default production, `util.py:533-538`)
  | semicolon                       -- standalone `;` (`:334-342`, info with neverraise)
deriving DecidableEq, Repr

def srcStep (env : Env) (acc : List Item) : SrcItem → Except Err (List Item)
  | .decl n v p => do
    let pr ← propFromDecl env n v p
    if pr.wf then .ok (acc ++ [.prop pr])
    else do
      logCall env                      -- 'Syntax Error in Property' (:313-316)
      .ok acc
  | .comment t => .ok (acc ++ [.comment t])
  | .semicolon => .ok acc

/-- `style.cssText = text` at item level (`:287-361`) -/
def setCssText (env : Env) (d : Decl) (items : List SrcItem) : Res Unit :=
  if d.readonly then ⟨d, .error .noModification⟩
  else
    match items.foldlM (srcStep env) [] with
    | .error e => ⟨d, .error e⟩
    | .ok newseq => ⟨{ d with seq := newseq }, .ok ()⟩

/-! The serialisation of a property and of the block (`cssText`) is in `Model/DeclText.lean`, under every serializer
preference. -/

/-! ## DOM names (`cssproperties.py:89-114`) -/

/-- `_toDOMname`: `re.compile('-[a-z]', re.I).sub(lambda m: m.group(0)[1].capitalize(), name)` -/
def toDOM : Cps → Cps
  | [] => []
  | [c] => [c]
  | c :: d :: rest =>
    if c == 45 && isLetter d then upperCp d :: toDOM rest else c :: toDOM (d :: rest)

def headIsUpper : Cps → Bool
  | c :: _ => isUpper c
  | [] => false
def headIsLower : Cps → Bool
  | c :: _ => isLower c
  | [] => false

/-- `_toCSSname`: `re.compile('([A-Z])[a-z]+|(?<![A-Z])[A-Z](?![A-Z])').sub(lambda m: '-' + m.group(0).lower(), name)`
as a scanner: lower-case letters are copied whether or not they belong to a match of the first alternative, so only
capitals decide; `prevUp` = the preceding code point is in `[A-Z]` (look-behind sees consumed text too) -/
def toCSSgo (prevUp : Bool) : Cps → Cps
  | [] => []
  | c :: rest =>
    if isUpper c then
      if headIsLower rest then 45 :: lowerCp c :: toCSSgo true rest
      else if !prevUp && !headIsUpper rest then 45 :: lowerCp c :: toCSSgo true rest
      else c :: toCSSgo true rest
    else c :: toCSSgo false rest

def toCSS (s : Cps) : Cps := toCSSgo false s

/-! ## the variables block (`cssutils/css/cssvariablesdeclaration.py`) -/

inductive VItem
  | var (name : Cps) (v : Val)      -- ('var', (name, PropertyValue))
  | other (text : Cps)              -- comment etc.
deriving DecidableEq, Repr

structure Vars where
  vars : List (Cps × Val)      -- `_vars`, a dict: keys in insertion order
  seq : List VItem
  readonly : Bool := false
deriving DecidableEq, Repr

structure VRes (α : Type) where
  st : Vars
  out : Except Err α

def dictGet (d : List (Cps × Val)) (k : Cps) : Option Val :=
  match d.find? (fun e => e.1 == k) with
  | some e => some e.2
  | none => none

/-- `d[k] = v`: an existing key keeps its position -/
def dictSet : List (Cps × Val) → Cps → Val → List (Cps × Val)
  | [], k, v => [(k, v)]
  | e :: rest, k, v => if e.1 == k then (k, v) :: rest else e :: dictSet rest k v

def dictDel (d : List (Cps × Val)) (k : Cps) : List (Cps × Val) := d.filter (fun e => !(e.1 == k))

def isVarNamed (nname : Cps) : VItem → Bool
  | .var n _ => normalize n == nname
  | _ => false

def vKeys (s : Vars) : List Cps := s.vars.map (·.1)
def vLength (s : Vars) : Nat := s.vars.length
def vItem (s : Vars) (i : Int) : Cps := (pyIndex (vKeys s) i).getD []
def vContains (s : Vars) (name : Cps) : Bool := (vKeys s).contains (normalize name)
/-- `getVariableValue` (`:216-230`) -/
def vGet (s : Vars) (name : Cps) : Cps :=
  match dictGet s.vars (normalize name) with
  | some v => v.css
  | none => []

/-- `for i, x in enumerate(self.seq): if …: del self.seq[i]` (`:255-257`): deleting while iterating — the list
iterator keeps its index, so the element after a deleted one is skipped; `fuel` = initial length -/
def delLoop (nname : Cps) : Nat → Nat → List VItem → List VItem
  | 0, _, seq => seq
  | fuel + 1, i, seq =>
    match seq[i]? with
    | none => seq
    | some x => if isVarNamed nname x then delLoop nname fuel (i + 1) (seq.eraseIdx i)
                else delLoop nname fuel (i + 1) seq

/-- `removeVariable` (`:232-262`) -/
def vRemove (s : Vars) (name : Cps) : VRes Cps :=
  if s.readonly then ⟨s, .error .noModification⟩
  else
    match dictGet s.vars (normalize name) with
    | none => ⟨s, .ok []⟩
    | some r =>
      ⟨{ s with seq := delLoop (normalize name) s.seq.length 0 s.seq, vars := dictDel s.vars (normalize name) },
       .ok r.css⟩

/-- `for i, x in enumerate(self.seq): if …: self.seq.replace(i, …); break` (`:303-308`) -/
def replaceFirst (nname : Cps) (new : VItem) : List VItem → List VItem
  | [] => []
  | x :: rest => if isVarNamed nname x then new :: rest else x :: replaceFirst nname new rest

/-- `[x.value for x in seq if 'IDENT' == x.type][0]` on the result of the name grammar: the value of the first IDENT
token (`none` = IndexError) -/
def firstIdent : List Tok → Option Cps
  | [] => none
  | t :: rest => if t.typ == .ident then some t.val else firstIdent rest

/-- `setVariable(name, value)` with a string value (`:264-320`): the name is checked by the grammar on the raw string;
the stored name is the identifier the grammar accepted, the key its normal form -/
def vSet (env : Env) (s : Vars) (name value : Cps) : VRes Unit :=
  if s.readonly then ⟨s, .error .noModification⟩
  else
    if !env.isIdent name then
      match logCall env with
      | .error e => ⟨s, .error e⟩
      | .ok _ => ⟨s, .ok ()⟩
    else
      match env.parseValue value with
      | none =>
        -- PropertyValue(cssText=value) logs (raises) itself, then 'Invalid variable value'
        match logCall env with
        | .error e => ⟨s, .error e⟩
        | .ok _ => ⟨s, .ok ()⟩
      | some v =>
        match firstIdent (env.tokenize name) with
        | none => ⟨s, .error .pyCrash⟩
        | some lit =>
          let seq' :=
            if (vKeys s).contains (normalize lit) then replaceFirst (normalize lit) (.var lit v) s.seq
            else s.seq ++ [.var lit v]
          ⟨{ s with seq := seq', vars := dictSet s.vars (normalize lit) v }, .ok ()⟩

/-- an item of the sequence `ProdParser.parse` returns for a well-formed variables text (`:151-153`) -/
inductive VSrc
  | ident (name : Cps)
  | value (v : Val)
  | other (text : Cps)
deriving DecidableEq, Repr

structure VAcc where
  nameitem : Option Cps := none
  seq : List VItem := []
  vars : List (Cps × Val) := []

/-- `newseq.replace(i, …)` for every matching item, no `break` (`:167-175`) -/
def replaceAll (nname : Cps) (new : VItem) (l : List VItem) : List VItem :=
  l.map (fun x => if isVarNamed nname x then new else x)

/-- one item of the loop `:160-192` -/
def vSrcStep (a : VAcc) : VSrc → Except Err VAcc
  | .ident n => .ok { a with nameitem := some n }
  | .value v =>
    match a.nameitem with
    | none => .error .pyCrash                       -- `None.value`
    | some n =>
      let nn := normalize n
      let seq' := if (a.vars.map (·.1)).contains nn then replaceAll nn (.var n v) a.seq
                  else a.seq ++ [.var n v]
      .ok { a with seq := seq', vars := dictSet a.vars nn v }
  | .other t => .ok { a with seq := a.seq ++ [.other t] }

/-- `cssText = text` for a text the grammar accepted, at item level (`:92-196`) -/
def vSetCssText (s : Vars) (items : List VSrc) : VRes Unit :=
  if s.readonly then ⟨s, .error .noModification⟩
  else
    match items.foldlM vSrcStep {} with
    | .error e => ⟨s, .error e⟩
    | .ok a => ⟨{ s with seq := a.seq, vars := a.vars }, .ok ()⟩

/-- what `do_css_CSSVariablesDeclaration` lists (`serialize.py:876-895`, `normalizedVarNames` on):
name and value text of every `'var'` item, in order -/
def vSerialized (s : Vars) : List (Cps × Cps) :=
  s.seq.filterMap (fun x => match x with | .var n v => some (normalize n, v.css) | _ => none)

/-- what the API reports: `[(k, getVariableValue(k)) for k in keys()]` -/
def vReported (s : Vars) : List (Cps × Cps) := (vKeys s).map (fun k => (k, vGet s k))

/-- a literal spelling of a normalised name: every backslash doubled (`c10_gen.requote` of the harness) -/
def requote : Cps → Cps
  | [] => []
  | c :: t => if c == 92 then 92 :: 92 :: requote t else c :: requote t

/-- what the API reports when every listed key is looked up by a literal spelling of it:
`[(k, getVariableValue(requote(k))) for k in keys()]` -/
def vReportedQ (s : Vars) : List (Cps × Cps) := (vKeys s).map (fun k => (k, vGet s (requote k)))

end CssVerif.Decl
