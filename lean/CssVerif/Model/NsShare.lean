import CssVerif.Model.Ns
/-!
# K7 `Ns`, two sheets: one style rule OBJECT in the rule lists of two sheets

`B.insertRule(A.cssRules[i])` does not take the rule out of `A`: the "all other" branch of `insertRule`
(`cssstylesheet.py:861-889`) puts the object into `B._cssRules` and sets `rule._parentStyleSheet = B`; `A._cssRules`
keeps it. From then on the ONE object

* is counted by `_getUsedURIs` of both sheets (`cssstylesheet.py:119-132` walks the rule list),
* resolves a new `selectorText` and writes its selectors with the namespaces of `rule.parentStyleSheet`
  (`selector.py:673-678`, `:727-731`, `selectorlist.py:82-92`, `cssstylerule.py:185-191`) — the sheet it was
  inserted into LAST, whichever list it is read through,
* is detached (`_parentStyleSheet = None`) by `deleteRule` of EITHER sheet (`cssstylesheet.py:546-547`), although
  the other list still holds it; a detached selector uses its private copy `Selector.__namespaces`, taken when
  its text was set (`selector.py:783-788`: the entries of the then current mapping whose URI the selector uses),
  and a new `selectorText` resolves against the empty dict.

The world is two sheets of the one-sheet model plus at most one followed object. Both rule lists contain the
object's selectors (`Rule.style o.sels`) at the positions the object records; a position is the RANK among the
non-@namespace rules of the list, which no namespace operation changes.
Sides: `false` = sheet A, `true` = sheet B.
-/
namespace CssVerif.Ns
open CssVerif.Proto

/-- the followed style rule object -/
structure Obj where
  sels : List Sel
  /-- `rule._parentStyleSheet` -/
  owner : Option Bool
  /-- per selector its `Selector.__namespaces` -/
  own : List Dict
  /-- rank among the non-@namespace rules of A's / B's list at which the object sits (`none`: not in that list) -/
  posA : Option Nat
  posB : Option Nat
  deriving DecidableEq, Repr

structure World where
  a : Sheet
  b : Sheet
  obj : Option Obj
  deriving Repr

def World.sheet (w : World) : Bool → Sheet
  | false => w.a
  | true => w.b

def World.setSheet (w : World) (side : Bool) (s : Sheet) : World :=
  match side with
  | false => { w with a := s }
  | true => { w with b := s }

def Obj.pos (o : Obj) : Bool → Option Nat
  | false => o.posA
  | true => o.posB

def Obj.setPos (o : Obj) (side : Bool) (p : Option Nat) : Obj :=
  match side with
  | false => { o with posA := p }
  | true => { o with posB := p }

/-- number of non-@namespace rules before index `i` -/
def bodyRank (s : Sheet) (i : Nat) : Nat := ((s.take i).filter fun r => !r.isNs).length

/-- index of the `k`-th non-@namespace rule -/
def bodyIndex : Sheet → Nat → Option Nat
  | [], _ => none
  | r :: t, k =>
    if r.isNs then (bodyIndex t k).map (· + 1)
    else match k with
      | 0 => some 0
      | k + 1 => (bodyIndex t k).map (· + 1)

/-- index in `side`'s list at which the followed object sits -/
def World.objIndex (w : World) (side : Bool) : Option Nat :=
  match w.obj with
  | none => none
  | some o => match o.pos side with
    | none => none
    | some k => bodyIndex (w.sheet side) k

/-- `Selector._getUsedNamespaces` (`selector.py:664-671`): the entries of the mapping whose URI the selector uses -/
def snapshot (d : Dict) (sel : Sel) : Dict :=
  d.filter fun e => decide (e.2 ∈ (sel.map itemUsed).flatten)

/-- the mapping the object resolves a new selector text with: its sheet's, or nothing -/
def World.objDict (w : World) (o : Obj) : Dict :=
  match o.owner with
  | some side => view (w.sheet side)
  | none => []

/-- replace the rule at the object's position of one list -/
def setAtRank (s : Sheet) (k : Option Nat) (r : Rule) : Sheet :=
  match k with
  | none => s
  | some k => match bodyIndex s k with
    | none => s
    | some i => s.set i r

/-- `rule.selectorText = …` on the followed object (through whichever list it was reached) -/
def objSetSel (w : World) (o : Obj) (sels : List SSel) : World × Outcome :=
  if sels.isEmpty then (w, .err .badTarget) else
  match resolveSels (w.objDict o) sels with
  | .error e => (w, .err e)
  | .ok x =>
    let o' : Obj := { o with sels := x, own := x.map (snapshot (w.objDict o)) }
    ({ a := setAtRank w.a o.posA (.style x), b := setAtRank w.b o.posB (.style x), obj := some o' }, .ok none)

/-- position bookkeeping: a non-@namespace rule was inserted at rank `k` of one list -/
def Obj.shiftIns (o : Obj) (side : Bool) (k : Nat) : Obj :=
  match o.pos side with
  | some p => if k ≤ p then o.setPos side (some (p + 1)) else o
  | none => o

/-- … or removed from rank `k` (not the object itself) -/
def Obj.shiftDel (o : Obj) (side : Bool) (k : Nat) : Obj :=
  match o.pos side with
  | some p => if k < p then o.setPos side (some (p - 1)) else o
  | none => o

/-- the roll-back of a rejected @namespace insert ran (`cssstylesheet.py:827-840`): `_cleanNamespaces` raised
after the new rule had been put into the list -/
def insertNsRolledBack (s : Sheet) (r : NsRule) (idx : Option Nat) (inOrder : Bool) : Bool :=
  match nsPosition s idx inOrder with
  | .error _ => false
  | .ok index =>
    if (view s).get r.pfx = some r.uri then false else (cleanNamespaces (insertAt s index (.ns r))).2

/-- which operations of the one-sheet model end in that roll-back (the conditions in front are those of `step`
and `setNs`) -/
def rolledBack (s : Sheet) : Op → Bool
  | .insNs p u idx io =>
    if idx.getD s.length > s.length then false else if u = [] then false
    else insertNsRolledBack s (mkNs p u) idx io
  | .insNsText p u c0 c1 c2 idx io =>
    if idx.getD s.length > s.length then false else if (view s).get p ≠ none then false
    else insertNsRolledBack s (mkNsText p u c0 c1 c2) idx io
  | .setNs p u => match findLastNs p s with
    | none => if u = [] then false else insertNsRolledBack s (mkNs p u) none true
    | some _ => false
  | _ => false

inductive WOp
  /-- an operation of the one-sheet model on one of the sheets -/
  | on (side : Bool) (op : Op)
  /-- `r = side.cssRules[i]; r.selectorText = …;` and `r` is followed from now on -/
  | grab (side : Bool) (i : Nat) (sels : List SSel)
  /-- `to.insertRule(r, idx, inOrder)` with the followed object -/
  | share (to : Bool) (idx : Option Nat) (inOrder : Bool)
  /-- `r.selectorText = …` on the followed object -/
  | objSel (sels : List SSel)
  deriving Repr

def wstep (w : World) : WOp → World × Outcome
  | .on side op =>
    let s := w.sheet side
    match op with
    -- a new sheet object: only while no object is followed
    | .parse _ _ => match w.obj with
      | none => let r := step s op; (w.setSheet side r.1, r.2)
      | some _ => (w, .err .badTarget)
    | .insStyleObj _ _ _ | .rawDel _ => (w, .err .badTarget)
    | .setSelText i sels =>
      if w.objIndex side = some i then
        match w.obj with
        | some o => objSetSel w o sels
        | none => (w, .err .badTarget)
      else let r := step s op; (w.setSheet side r.1, r.2)
    | .delRule i =>
      let r := step s op
      match r.2, s[i]? with
      | .ok _, some x =>
        if x.isNs then (w.setSheet side r.1, r.2)
        else
          let w' := w.setSheet side r.1
          match w.obj with
          | none => (w', r.2)
          | some o =>
            if w.objIndex side = some i then
              -- `rule._parentStyleSheet = None` whoever the parent was (`cssstylesheet.py:546`)
              ({ w' with obj := some { (o.setPos side none) with owner := none } }, r.2)
            else ({ w' with obj := some (o.shiftDel side (bodyRank s i)) }, r.2)
      | _, _ => (w.setSheet side r.1, r.2)
    | .insStyleText _ _ _ =>
      let r := step s op
      match r.2 with
      | .ok (some j) =>
        let w' := w.setSheet side r.1
        (match w.obj with
          | none => w'
          | some o => { w' with obj := some (o.shiftIns side (bodyRank r.1 j)) }, r.2)
      | _ => (w.setSheet side r.1, r.2)
    -- the namespace operations: no non-@namespace rule moves
    | _ =>
      let r := step s op
      let w' := w.setSheet side r.1
      -- the roll-back of a rejected @namespace insert makes this sheet the parent of every rule of its list
      -- (`for r in oldCssRules: r._parentStyleSheet = self`, `cssstylesheet.py:834-836`)
      match w.obj with
      | some o =>
        if rolledBack s op ∧ o.pos side ≠ none then ({ w' with obj := some { o with owner := some side } }, r.2)
        else (w', r.2)
      | none => (w', r.2)
  | .grab side i sels =>
    let s := w.sheet side
    match w.obj, s[i]? with
    | none, some (.style _) =>
      if sels.isEmpty then (w, .err .badTarget) else
      match resolveSels (view s) sels with
      | .error e => (w, .err e)
      | .ok x =>
        let o : Obj := { sels := x, owner := some side, own := x.map (snapshot (view s)),
                         posA := none, posB := none }
        ({ (w.setSheet side (s.set i (.style x))) with obj := some (o.setPos side (some (bodyRank s i))) },
          .ok none)
    | _, _ => (w, .err .badTarget)
  | .share to idx io =>
    match w.obj with
    | none => (w, .err .badTarget)
    | some o =>
      match o.pos to with
      | some _ => (w, .err .badTarget)        -- twice in one list: not modelled
      | none =>
        let s := w.sheet to
        let r := insertStyle s (.style o.sels) idx io
        match r.2 with
        | .ok (some j) =>
          -- `rule._parentStyleSheet = self` (`cssstylesheet.py:887`)
          ({ (w.setSheet to r.1) with obj := some { (o.setPos to (some (bodyRank r.1 j))) with owner := some to } },
            r.2)
        | _ => (w, r.2)
  | .objSel sels =>
    match w.obj with
    | none => (w, .err .badTarget)
    | some o => objSetSel w o sels

def wrun (w : World) : List WOp → World
  | [] => w
  | op :: t => wrun (wstep w op).1 t

/-- the dict that the serializer uses for selector number `k` of the followed object (`serialize.py:833-874`
through `Selector._namespaces`) -/
def World.objSerDict (w : World) (o : Obj) (k : Nat) : Dict :=
  match o.owner with
  | some side => view (w.sheet side)
  | none => o.own.getD k []

/-- `selectorText` of the selectors of the followed object -/
def World.objTexts (w : World) (o : Obj) : List Cps :=
  (List.range o.sels.length).map fun k => serSel (w.objSerDict o k) (o.sels.getD k [])

end CssVerif.Ns
