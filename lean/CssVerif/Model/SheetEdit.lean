import CssVerif.Lib.Proto
import CssVerif.Gen.C09RuleKinds
/-!
# K2 — the rule-list edit machine (property C09)

Executable model of the DOM edit operations that change the *structure* of a style sheet:

| model                      | source                                                                  |
|----------------------------|-------------------------------------------------------------------------|
| `place`, `insertCore`, `insertRule` | `CSSStyleSheet.insertRule` / `add`, `css/cssstylesheet.py:552-887` (all branches) |
| `deleteRule`               | `CSSStyleSheet.deleteRule`, `css/cssstylesheet.py:496-550`              |
| `cleanLoop`                | `CSSStyleSheet._cleanNamespaces`, `css/cssstylesheet.py:104-117`        |
| `usedUris`, `usedOf`       | `CSSStyleSheet._getUsedURIs` (recursive into nested @media), `css/cssstylesheet.py:119-133` |
| `setEncoding`              | `CSSStyleSheet._setEncoding`, `css/cssstylesheet.py:438-454`            |
| `setText`, `parseTop`      | `CSSStyleSheet._setCssText`, `css/cssstylesheet.py:152-365` (dispatcher levels, reset, final clean) |
| `nsDict`, `nsSet`, `nsDel` | `util._Namespaces.namespaces / __setitem__ / __delitem__ / __findrule`, `util.py:745-830` |
| `cInsert`, `cDelete`       | `CSSRuleRules._prepareInsertRule / _finishInsertRule / deleteRule`, `css/cssrule.py:191-279`; `CSSMediaRule.insertRule` `css/cssmediarule.py:317-340`; `CSSPageRule.insertRule` `css/csspagerule.py:420-444` |
| `parseMediaKids`, `parsePageKids`, `cSetText` | `CSSMediaRule._setCssText` `css/cssmediarule.py:61-257`, `CSSPageRule._setCssText` / `__parseMarginAndStyle` `css/csspagerule.py:246-356` (rule-list part) |

Rule objects are values: kind, id, the fields the edit code reads (`prefix`, `namespaceURI`, `encoding`, the namespace
URIs a style rule's selectors use, the nested rule list) and the two raw back pointers `_parentStyleSheet` (`pss`: is it
this sheet) and `_parentRule` (`prule`: id of that rule). Mutation of shared objects becomes returned state: `St.rules`
is `sheet.cssRules`, `St.gone` the rule objects the caller has seen or handed in that are not in the sheet's tree any
more (removed, refused, replaced) — needed for "removed objects name no parent".

Every operation returns the new state and an `Outcome`: the value returned (`ok index` / `none`) or the DOM exception
that escapes (`err`). `St.raising` is `cssutils.log.raiseExceptions`: with it off, `log.error(…, error=X)` only logs and
the code falls through to its `return`. Python `raise` statements raise in both modes.
The kind tuples tested by the code are generated from the source (`Gen/C09RuleKinds.lean`).
-/
namespace CssVerif.SheetEdit
open CssVerif.Proto (Cps)

/-! ## objects -/

/-- a rule object (`kids` = its own `cssRules` for @media / @page) -/
structure Rule where
  id : Nat
  kind : Kind
  /-- `@namespace` prefix; for a margin rule: its margin name -/
  pre : Cps
  /-- `@namespace` URI -/
  uri : Cps
  /-- `@charset` encoding -/
  enc : Cps
  /-- namespace URIs used by the selectors of a style rule (`selectorList._getUsedUris()`) -/
  used : List Cps
  /-- raw `_parentStyleSheet is sheet` -/
  pss : Bool
  /-- raw `_parentRule` (id of that rule object) -/
  prule : Option Nat
  kids : List Rule
  deriving Repr, Inhabited

/-- description of a fresh, well-formed rule object handed to an operation (or of a rule in a text to parse) -/
structure Spec where
  kind : Kind
  pre : Cps
  uri : Cps
  enc : Cps
  used : List Cps
  kids : List Spec
  deriving Repr, Inhabited

inductive Err where
  | indexSize | hierarchy | noMod | syntaxErr | namespaceErr | invalidMod
  deriving DecidableEq, Repr

inductive Outcome where
  /-- returned an index -/
  | ok (i : Nat)
  /-- returned `None` (setters; refused in log-only mode; a @namespace rule that was not kept) -/
  | none
  /-- exception escaped -/
  | err (e : Err)
  /-- not an operation of the modelled API (ill-formed request) -/
  | badOp
  deriving DecidableEq, Repr

structure St where
  rules : List Rule
  gone : List Rule
  /-- next fresh object id -/
  next : Nat
  /-- `cssutils.log.raiseExceptions` -/
  raising : Bool
  deriving Repr, Inhabited

def St.empty (raising : Bool := true) : St := { rules := [], gone := [], next := 0, raising := raising }

/-- `self._log.error(msg, error=e)` followed by `return`: raises in raise mode, else logs and returns `None` -/
def logError (raising : Bool) (e : Err) : Outcome := if raising then .err e else .none

/-! ## creating objects: fresh ids, children name their container (`_finishInsertRule` / the parser) -/

mutual
/-- object for `s` with parent rule `parent`, ids from `n` in preorder; returns the object and the next free id -/
def Spec.inst (parent : Option Nat) (n : Nat) : Spec → Rule × Nat
  | ⟨k, pre, uri, enc, used, kids⟩ =>
    let ks := Spec.instList (some n) (n + 1) kids
    (⟨n, k, pre, uri, enc, used, false, parent, ks.1⟩, ks.2)
def Spec.instList (parent : Option Nat) (n : Nat) : List Spec → List Rule × Nat
  | [] => ([], n)
  | s :: ss =>
    let r := Spec.inst parent n s
    let rs := Spec.instList parent r.2 ss
    (r.1 :: rs.1, rs.2)
end

mutual
/-- description of an existing rule object (what a serialisation of it denotes) -/
def Rule.toSpec : Rule → Spec
  | ⟨_, k, pre, uri, enc, used, _, _, kids⟩ => ⟨k, pre, uri, enc, used, Rule.toSpecs kids⟩
def Rule.toSpecs : List Rule → List Spec
  | [] => []
  | r :: rs => r.toSpec :: Rule.toSpecs rs
end

/-- `rule.wellformed` for the kinds where the harness can build an ill-formed object through the modelled API
(`CSSNamespaceRule(namespaceURI='')`, `cssnamespacerule.py:327`) -/
def Spec.wellformed (s : Spec) : Bool :=
  if s.kind = .ns then !s.uri.isEmpty else if s.kind = .charset then !s.enc.isEmpty else true

/-! ## list helpers (Python list semantics) -/

/-- `l.insert(i, x)`: beyond the end appends -/
def pyInsert (l : List Rule) (i : Nat) (x : Rule) : List Rule := l.take i ++ x :: l.drop i

/-- `l[i]` for a Python index (negative counts from the end); `none` = IndexError -/
def pyIndex (len : Nat) (i : Int) : Option Nat :=
  if 0 ≤ i then (if i.toNat < len then some i.toNat else none)
  else (if (-i).toNat ≤ len then some (len - (-i).toNat) else none)

/-- the index check of `insertRule` (`cssstylesheet.py:592-599`, `cssrule.py:240-248`): `None` means "append";
`none` = IndexSizeErr -/
def idxOf (index : Option Int) (len : Nat) : Option Nat :=
  match index with
  | none => some len
  | some i => if i < 0 || i > (len : Int) then none else some i.toNat

/-- `[r.type for r in l]`: the position checks of `insertRule` read nothing else of the rules -/
def kindsOf (l : List Rule) : List Kind := l.map (·.kind)

/-- some rule of the list has a kind in `ks` -/
def hasKind (ks : List Kind) (l : List Kind) : Bool := l.any (fun k => ks.contains k)

/-- `l and l[0].type in ks` -/
def firstIs (ks : List Kind) : List Kind → Bool
  | [] => false
  | k :: _ => ks.contains k

/-- index after the last rule whose kind is in `ks` (0 if there is none) —
`for i, r in enumerate(l): if r.type in ks: start = i + 1`, and for a single kind
`for i, r in enumerate(reversed(l)): if r.type == k: index = len(l) - i; break` -/
def afterLastOf (ks : List Kind) : List Kind → Nat
  | [] => 0
  | k :: rs => if hasKind ks rs then afterLastOf ks rs + 1 else if ks.contains k then 1 else 0

/-- index of the first rule whose kind is in `ks` -/
def firstIdx (ks : List Kind) : List Kind → Option Nat
  | [] => none
  | k :: rs => if ks.contains k then some 0 else (firstIdx ks rs).map (· + 1)

/-! ## namespaces: `util._Namespaces` -/

/-- an insertion-ordered Python dict prefix → URI -/
abbrev Dict := List (Cps × Cps)

def Dict.hasKey (d : Dict) (k : Cps) : Bool := d.any (fun e => e.1 == k)
def Dict.get? (d : Dict) (k : Cps) : Option Cps := (d.find? (fun e => e.1 == k)).map (·.2)
def Dict.set (d : Dict) (k v : Cps) : Dict :=
  if d.hasKey k then d.map (fun e => if e.1 == k then (k, v) else e) else d ++ [(k, v)]
def Dict.hasItem (d : Dict) (k v : Cps) : Bool := d.any (fun e => e.1 == k && e.2 == v)
def Dict.hasValue (d : Dict) (v : Cps) : Bool := d.any (fun e => e.2 == v)

/-- `unique_everseen(rules, key=namespaceURI)` -/
def uniqueByUri : List Rule → List Cps → List Rule
  | [], _ => []
  | r :: rs, seen => if seen.contains r.uri then uniqueByUri rs seen else r :: uniqueByUri rs (r.uri :: seen)

/-- `_Namespaces.namespaces` (`util.py:812-825`): the @namespace rules in reverse document order, the first seen per
URI kept, then `{rule.prefix: rule.namespaceURI …}` (a later entry overwrites an earlier one with the same prefix) -/
def nsDict (rules : List Rule) : Dict :=
  (uniqueByUri (rules.reverse.filter (fun r => r.kind = .ns)) []).foldl (fun d r => d.set r.pre r.uri) []

/-- `[r.namespaceURI for r in self if r.type == r.NAMESPACE_RULE]` -/
def nsUris (rules : List Rule) : List Cps := (rules.filter (fun r => r.kind = .ns)).map (·.uri)

mutual
/-- `_getUsedURIs` (`cssstylesheet.py:119-133`): the URIs used by the selectors of the style rules of the sheet and,
recursively, of the style rules inside its @media rules at any depth (@media rules may be nested) -/
def usedOf : Rule → List Cps
  | ⟨_, k, _, _, _, used, _, _, kids⟩ => if k = .style then used else if k = .media then usedOfL kids else []
def usedOfL : List Rule → List Cps
  | [] => []
  | r :: rs => usedOf r ++ usedOfL rs
end

def usedUris (rules : List Rule) : List Cps := usedOfL rules

/-- `__findrule(prefix)` (`util.py:802-809`): index of the last @namespace rule with this prefix -/
def findNsIdx (p : Cps) : List Rule → Option Nat
  | [] => none
  | r :: rs => match findNsIdx p rs with
    | some i => some (i + 1)
    | none => if r.kind = .ns ∧ r.pre = p then some 0 else none

/-! ## `deleteRule` -/

/-- `rule._parentStyleSheet = None` -/
def Rule.detach (r : Rule) : Rule := { r with pss := false }
/-- `rule._parentStyleSheet = self` -/
def Rule.adopt (r : Rule) : Rule := { r with pss := true }

/-- the refusal test of `deleteRule` (`cssstylesheet.py:541-549`): a @namespace rule whose URI is used and declared once -/
def deleteRefused (rules : List Rule) (r : Rule) : Bool :=
  r.kind = .ns && (usedUris rules).contains r.uri && (nsUris rules).count r.uri == 1

/-- `CSSStyleSheet.deleteRule(index)` with an integer index -/
def deleteRule (st : St) (i : Int) : St × Outcome :=
  match pyIndex st.rules.length i with
  | none => (st, .err .indexSize)
  | some n =>
    match st.rules[n]? with
    | none => (st, .err .indexSize)
    | some r =>
      if deleteRefused st.rules r then (st, .err .noMod)
      else ({ st with rules := st.rules.eraseIdx n, gone := st.gone ++ [r.detach] }, .none)

/-! ## `_cleanNamespaces` -/

/-- the `while i < len(rules)` loop with `items` computed once before it; `done` = rules already passed.
Returns the rule list, the objects removed, and the exception of a refused `deleteRule` (the loop stops there). -/
def cleanLoop (items : Dict) (done : List Rule) : List Rule → List Rule → List Rule × List Rule × Option Err
  | [], removed => (done, removed, none)
  | r :: rest, removed =>
    if r.kind = .ns && !items.hasItem r.pre r.uri then
      if deleteRefused (done ++ r :: rest) r then (done ++ r :: rest, removed, some .noMod)
      else cleanLoop items done rest (removed ++ [r.detach])
    else cleanLoop items (done ++ [r]) rest removed

def cleanNamespaces (rules : List Rule) : List Rule × List Rule × Option Err :=
  cleanLoop (nsDict rules) [] rules []

/-! ## `insertRule`: the position checks -/

inductive Place where
  | reject (e : Err)
  | at (i : Nat)
  /-- ordered add of @charset onto an existing @charset: only the encoding is copied (`cssstylesheet.py:656-657`) -/
  | mergeCharset
  deriving DecidableEq, Repr

/-- the `# CHECK HIERARCHY` ladder of `insertRule` (`cssstylesheet.py:650-879`); `index` is already range-checked
(`len` when the caller gave none) -/
def place (l : List Kind) (k : Kind) (index : Nat) (inOrder : Bool) : Place :=
  if k = .charset then                                                       -- :652
    if inOrder then
      if firstIs [.charset] l then .mergeCharset else .at 0                  -- :656-659
    else if index ≠ 0 || firstIs [.charset] l then .reject .hierarchy        -- :660-668
    else .at index
  else if Gen.commentKinds.contains k && !inOrder then                       -- :673
    if index = 0 && firstIs [.charset] l then .reject .hierarchy             -- :674-683
    else .at index
  else if k = .imp then                                                      -- :688
    if inOrder then
      if hasKind [.imp] l then .at (afterLastOf [.imp] l)                    -- :691-696
      else if firstIs Gen.importFirstSkip l then .at 1 else .at 0            -- :699-705
    else if index = 0 && firstIs [.charset] l then .reject .hierarchy        -- :708-717
    else if hasKind Gen.importBefore (l.take index) then .reject .hierarchy  -- :719-734
    else .at index
  else if k = .ns then                                                       -- :739
    if inOrder then
      if hasKind [.ns] l then .at (afterLastOf [.ns] l)                      -- :741-746
      else
        let start := afterLastOf Gen.nsStartAfter l
        match firstIdx Gen.nsFirstBefore (l.drop start) with
        | some j => .at (start + j)
        | none => .at l.length                                               -- `index = len(self._cssRules)`
    else if hasKind Gen.nsAfter (l.drop index) then .reject .hierarchy       -- :767-774
    else if hasKind Gen.nsBefore (l.take index) then .reject .hierarchy      -- :776-790
    else .at index
  else if k = .vars then                                                     -- :806
    if inOrder then
      if hasKind [.vars] l then .at (afterLastOf [.vars] l)
      else
        let start := afterLastOf Gen.varsStartAfter l                        -- after @charset, @import, @namespace
        match firstIdx Gen.varsFirstBefore (l.drop start) with
        | some j => .at (start + j)
        | none => .at l.length
    else if hasKind Gen.varsAfter (l.drop index) then .reject .hierarchy     -- :829-837
    else if hasKind Gen.varsBefore (l.take index) then .reject .hierarchy    -- :839-852
    else .at index
  else                                                                       -- :858
    if inOrder then .at l.length                                             -- :861-862
    else if hasKind Gen.otherAfter (l.drop index) then .reject .hierarchy    -- :864-877
    else .at index

/-- `self._cssRules[0].encoding = rule.encoding` -/
def setEnc0 (e : Cps) : List Rule → List Rule
  | [] => []
  | r :: rs => { r with enc := e } :: rs

/-- set `_parentStyleSheet = self` on the object with this id in the list -/
def adoptId (i : Nat) (l : List Rule) : List Rule := l.map (fun r => if r.id = i then r.adopt else r)

/-- `insertRule` after the index check, the optional string parse and the `wellformed` test, for the rule object `r`.
`dict` is `self.namespaces` at the time of the call (the sheet's own view, or the parser's plain dict while a text is
being parsed); `clean` the `_clean` argument; `track`: the caller holds a reference to `r` (it was not parsed from a
string inside the call). -/
def insertCore (st : St) (dict : Dict) (r : Rule) (index : Nat) (inOrder clean track : Bool) : St × Outcome :=
  match place (kindsOf st.rules) r.kind index inOrder with
  | .reject e => ({ st with gone := st.gone ++ (if track then [r] else []) }, logError st.raising e)
  | .mergeCharset =>
    -- the encoding is copied, the rule object itself is not part of the sheet: `return index` before the post settings
    ({ st with rules := setEnc0 r.enc st.rules, gone := st.gone ++ (if track then [r] else []) }, .ok 0)
  | .at i =>
    if r.kind = .ns then
      if dict.hasKey r.pre && dict.get? r.pre == some r.uri then             -- :792-795 doublette: not inserted
        ({ st with gone := st.gone ++ (if track then [r] else []) }, .none)  -- :801-803
      else
        let rules1 := pyInsert st.rules i r                                  -- :797
        if clean then
          let c := cleanNamespaces rules1                                    -- :798-799
          let removed := c.2.1.filter (fun g => track || g.id ≠ r.id)
          match c.2.2 with
          | some e =>
            -- `deleteRule` raised inside the clean-up: the whole rule list is put back (rules the clean-up had
            -- already detached get the sheet as parent again) and the exception goes on (`:815-829`)
            ({ st with gone := st.gone ++ (if track then [r] else []) }, .err e)
          | none =>
            if c.1.any (fun x => x.id = r.id) then                           -- :801 `rule not in self._cssRules`
              -- the index is looked up again: the clean-up may have removed rules in front of the new one
              ({ st with rules := adoptId r.id c.1, gone := st.gone ++ removed },
                .ok (c.1.findIdx (fun x => x.id = r.id)))
            else ({ st with rules := c.1, gone := st.gone ++ removed }, .none)
        else ({ st with rules := pyInsert st.rules i r.adopt }, .ok i)
    else ({ st with rules := pyInsert st.rules i r.adopt }, .ok i)

/-- effective namespace declarations contain every URI in `used` -/
def usesDeclared (d : Dict) (used : List Cps) : Bool := used.all (fun u => d.hasValue u)

/-! ## nested rule lists: @media and @page -/

/-- does `container.insertRule` refuse this kind (the isinstance chains) -/
def containerRejects (ck k : Kind) : Bool :=
  if ck = .media then Gen.mediaRejects k
  else if ck = .page then Gen.pageRejects k
  else true

/-- `container.insertRule(rule, index)` / `add(rule)` on the container object `c` (`cssrule.py:235-279`).
Returns the container with its new list, objects dropped, outcome. -/
def cInsert (raising : Bool) (c : Rule) (r : Rule) (index : Option Int) (viaStr : Bool) :
    Rule × List Rule × Outcome :=
  let held := if viaStr then [] else [r]
  match idxOf index c.kids.length with
  | none => (c, held, .err .indexSize)                                       -- cssrule.py:243-248 (raise)
  | some idx =>
    if containerRejects c.kind r.kind then (c, held, logError raising .hierarchy)
    else                                                                     -- _finishInsertRule, :274-279
      ({ c with kids := pyInsert c.kids idx { r with prule := some c.id, pss := false } }, [], .ok idx)

/-- `container.deleteRule(index)` (`cssrule.py:223-233`) -/
def cDelete (c : Rule) (i : Int) : Rule × List Rule × Outcome :=
  match pyIndex c.kids.length i with
  | none => (c, [], .err .indexSize)
  | some n =>
    match c.kids[n]? with
    | none => (c, [], .err .indexSize)
    | some k => ({ c with kids := c.kids.eraseIdx n }, [{ k with prule := none }], .none)

/-- is this margin name already in the list (`r.margin == m.margin`, `csspagerule.py:264-268`) -/
def hasMargin (name : Cps) (l : List Rule) : Bool := l.any (fun r => r.pre == name)

/-- the margin rules an @page text denotes (`csspagerule.py:246-277`, `:345-356`): a repeated margin is merged into
the first; comments and unknown at-rules stay in the declaration block; anything else is a syntax error there -/
def parsePageKids (raising : Bool) (cid : Nat) : Nat → List Spec → Except Err (List Rule × Nat)
  | n, [] => .ok ([], n)
  | n, s :: ss =>
    if s.kind = .margin then
      match parsePageKids raising cid (n + 1) ss with
      | .error e => .error e
      | .ok rest =>
        .ok (⟨n, .margin, s.pre, [], [], [], false, some cid, []⟩ :: rest.1.filter (fun r => r.pre != s.pre), rest.2)
    else if s.kind = .comment || s.kind = .unknown then parsePageKids raising cid n ss
    else if raising then .error .syntaxErr else parsePageKids raising cid n ss

mutual
/-- one statement of an @media text (`cssmediarule.py:163-219`): `.ok none` = refused and skipped (log-only mode) -/
def parseMediaKid (raising : Bool) (d : Dict) (cid : Nat) (n : Nat) : Spec → Except Err (Option (Rule × Nat))
  | ⟨k, pre, uri, enc, used, kids⟩ =>
    if k = .vars then (if raising then .error .invalidMod else .ok none)  -- VARIABLES_SYM is not dispatched: a "ruleset"
    else if Gen.mediaTextRejects.contains k then (if raising then .error .hierarchy else .ok none)   -- :190-203
    else if k = .style then
      if usesDeclared d used then .ok (some (⟨n, k, pre, uri, enc, used, false, some cid, []⟩, n + 1))
      else (if raising then .error .namespaceErr else .ok none)
    else if k = .media then                                                  -- factories, :204-210
      match parseMediaKids raising d n (n + 1) kids with
      | .error e => .error e
      | .ok ks => .ok (some (⟨n, k, pre, uri, enc, used, false, some cid, ks.1⟩, ks.2))
    else if k = .page then
      match parsePageKids raising n (n + 1) kids with
      | .error e => .error e
      | .ok ks => .ok (some (⟨n, k, pre, uri, enc, used, false, some cid, ks.1⟩, ks.2))
    else if k = .margin then                                                 -- not a margin here: CSSUnknownRule, :211-218
      .ok (some (⟨n, .unknown, [], [], [], [], false, some cid, []⟩, n + 1))
    else .ok (some (⟨n, k, pre, uri, enc, used, false, some cid, []⟩, n + 1))   -- comment, unknown
/-- the rule list an @media text denotes: children of the container `cid`; `d`: the namespaces visible to
selectors. `.error` = a DOM exception escaped (raise mode). -/
def parseMediaKids (raising : Bool) (d : Dict) (cid : Nat) (n : Nat) : List Spec → Except Err (List Rule × Nat)
  | [] => .ok ([], n)
  | s :: ss =>
    match parseMediaKid raising d cid n s with
    | .error e => .error e
    | .ok none => parseMediaKids raising d cid n ss
    | .ok (some rn) =>
      match parseMediaKids raising d cid rn.2 ss with
      | .error e => .error e
      | .ok rest => .ok (rn.1 :: rest.1, rest.2)
end

/-- `container.cssText = text` for the rule-list part: the children the text denotes replace the old ones,
which are detached (`_parentRule = None`) once the text is accepted -/
def cSetText (raising : Bool) (d : Dict) (next : Nat) (c : Rule) (kids : List Spec) : Rule × List Rule × Nat × Outcome :=
  let res := if c.kind = .media then parseMediaKids raising d c.id next kids
             else parsePageKids raising c.id next kids
  match res with
  | .error e => (c, [], next, .err e)
  | .ok ks => ({ c with kids := ks.1 }, c.kids.map (fun k => { k with prule := none }), ks.2, .none)

/-- the rule object at `path` (indexes from the sheet's list downwards) -/
def atPath (rules : List Rule) : List Nat → Option Rule
  | [] => none
  | [i] => rules[i]?
  | i :: j :: p => match rules[i]? with
    | none => none
    | some r => atPath r.kids (j :: p)

/-- replace the rule object at `path` -/
def setPath (rules : List Rule) (c : Rule) : List Nat → List Rule
  | [] => rules
  | [i] => rules.set i c
  | i :: j :: p => match rules[i]? with
    | none => rules
    | some r => rules.set i { r with kids := setPath r.kids c (j :: p) }

/-! ## `sheet.cssText = text`: the dispatcher with its ordering levels -/

/-- `_replaceNamespaceURI` on every @namespace rule with this prefix (`cssstylesheet.py:236-238`) -/
def replaceUri (p u : Cps) (l : List Rule) : List Rule :=
  l.map (fun r => if r.kind = .ns ∧ r.pre = p then { r with uri := u } else r)

/-- parser state while a sheet text is read: rules so far, the plain prefix dict, the level `expected`, next id -/
structure PSt where
  acc : List Rule
  nd : Dict
  level : Nat
  next : Nat

/-- `self.insertRule(rule)` from a dispatcher callback (`index=None`), on the list being built -/
def pInsert (raising : Bool) (p : PSt) (r : Rule) (clean : Bool) : List Rule × Outcome :=
  let res := insertCore { rules := p.acc, gone := [], next := 0, raising := raising } p.nd r p.acc.length false clean false
  (res.1.rules, res.2)

/-- what a dispatcher callback decides for one statement -/
inductive Act where
  /-- a DOM exception escapes while the statement's own text is parsed (raise mode) -/
  | fail (e : Err)
  /-- the statement is refused by the callback: `log.error(...)`; `keepLevel`: it returns `expected` unchanged -/
  | refuse (e : Err) (keepLevel : Bool)
  /-- @namespace with a prefix seen before in this text: the URI of the earlier rule is replaced (`:235-238`) -/
  | replace
  /-- `self.insertRule(rule)` (with `_clean=False` for @namespace), then `nd` is the prefix dict, `next` the next id -/
  | ins (r : Rule) (next : Nat) (nd : Dict) (clean : Bool)

/-- the level test of the callback for this kind: `if expected > N` (`Gen.lvlMax`) -/
def lvlOk (level : Nat) (k : Kind) : Bool :=
  match Gen.lvlMax k with
  | some m => !(level > m)
  | none => true

/-- the level the callback returns after handling a rule of this kind (`Gen.lvlAfter`);
S, COMMENT, unknownrule: `max(1, expected or 0)` -/
def lvlNext (level : Nat) (k : Kind) : Nat :=
  match Gen.lvlAfter k with
  | some a => a
  | none => max 1 level

/-- the decision of the callback for statement `s` (`cssstylesheet.py:176-316`) -/
def actOf (raising : Bool) (p : PSt) (s : Spec) : Act :=
  if !lvlOk p.level s.kind then .refuse .hierarchy true             -- `return expected`
  else if s.kind = .ns then
    if !s.wellformed then .refuse .syntaxErr true                  -- ignored, `return expected` (:243-244)
    else if !p.nd.hasKey s.pre then                                -- :231-233
      .ins ⟨p.next, .ns, s.pre, s.uri, [], [], false, none, []⟩ (p.next + 1) (p.nd.set s.pre s.uri) false
    else .replace                                                  -- :235-238
  else if s.kind = .style then
    if usesDeclared p.nd s.used then
      .ins ⟨p.next, .style, [], [], [], s.used, false, none, []⟩ (p.next + 1) p.nd true
    else .refuse .namespaceErr true                                -- not well-formed: ignored, level kept (:314-316)
  else if s.kind = .media then
    match parseMediaKids raising p.nd p.next (p.next + 1) s.kids with
    | .error e => .fail e
    | .ok ks => .ins ⟨p.next, .media, [], [], [], [], false, none, ks.1⟩ ks.2 p.nd true
  else if s.kind = .page then
    match parsePageKids raising p.next (p.next + 1) s.kids with
    | .error e => .fail e
    | .ok ks => .ins ⟨p.next, .page, [], [], [], [], false, none, ks.1⟩ ks.2 p.nd true
  else
    .ins ⟨p.next, s.kind, s.pre, s.uri, s.enc, s.used, false, none, []⟩ (p.next + 1) p.nd true

/-- one statement of the text; `.error` = a DOM exception escaped (raise mode) -/
def parseOne (raising : Bool) (p : PSt) (s : Spec) : Except Err PSt :=
  match actOf raising p s with
  | .fail e => .error e
  | .refuse e keepLevel =>
    if raising then .error e
    else .ok (if keepLevel then p else { p with level := lvlNext p.level s.kind })
  | .replace =>
    .ok { acc := replaceUri s.pre s.uri p.acc, nd := p.nd.set s.pre s.uri, level := lvlNext p.level s.kind, next := p.next }
  | .ins r next nd clean =>
    match pInsert raising p r clean with
    | (_, .err e) => .error e
    | (acc, _) => .ok { acc := acc, nd := nd, level := lvlNext p.level s.kind, next := next }

/-- the statements of a text, white space after each: the `S` callback raises the level to at least 1
(`max(1, expected or 0)`, `:171-174`) — this matters only after a first statement that was ignored at level 0 -/
def parseTop (raising : Bool) : PSt → List Spec → Except Err PSt
  | p, [] => .ok p
  | p, s :: ss => match parseOne raising p s with
    | .error e => .error e
    | .ok p' => parseTop raising { p' with level := max 1 p'.level } ss

/-! ## `insertRule` / `add` -/

/-- the rule object a CSS text denotes when it is parsed alone in a temp sheet (`cssstylesheet.py:601-634`,
`cssrule.py:251-260`): `d` = the namespaces handed to the temp sheet. `.ok none`: the temp sheet does not hold exactly
one rule. (The `@charset` text the sheet puts in front of the string only raises the level to 1, which no other
kind tests.) -/
def parseCand (raising : Bool) (d : Dict) (next : Nat) (s : Spec) : Except Err (Option (Rule × Nat)) :=
  match parseOne raising { acc := [], nd := d, level := 0, next := next } s with
  | .error e => .error e
  | .ok p => match p.acc with
    | [r] => .ok (some (r.detach, p.next))                      -- `rule._parentStyleSheet = None  # done later?`
    | _ => .ok none

/-- `CSSStyleSheet.insertRule(rule, index, inOrder)` / `add(rule)`; `viaStr`: `rule` is given as CSS text (parsed in a
temp sheet); `track`: the caller holds the rule object (false for text and for objects made inside a setter) -/
def insertRule (st : St) (s : Spec) (index : Option Int) (inOrder viaStr track : Bool) : St × Outcome :=
  let d := nsDict st.rules
  if viaStr then
    match idxOf index st.rules.length with
    | none => (st, .err .indexSize)                                          -- :594-599 (raise)
    | some idx =>
      match parseCand st.raising d st.next s with                            -- :601-634
      | .error e => (st, .err e)
      | .ok none => (st, logError st.raising .syntaxErr)                     -- 'Not a CSSRule'
      | .ok (some c) => insertCore { st with next := c.2 } d c.1 idx inOrder true false
  else
    let c := Spec.inst none st.next s
    let st1 := { st with next := c.2 }
    let held := if track then [c.1] else []
    match idxOf index st.rules.length with
    | none => ({ st1 with gone := st1.gone ++ held }, .err .indexSize)
    | some idx =>
      if !s.wellformed then                                                  -- :646-648
        ({ st1 with gone := st1.gone ++ held }, logError st1.raising .syntaxErr)
      else insertCore st1 d c.1 idx inOrder true track

/-- `insertRule(CSSRuleList, index)` was refused: the list and all parent pointers are put back
(`cssstylesheet.py`, `cssrule.py`: "insert all rules or none"); the caller still holds the rule objects of the list -/
def resetList (st0 : St) (specs0 : List Spec) (next : Nat) : St :=
  let c := Spec.instList none next specs0
  { st0 with gone := st0.gone ++ c.1, next := c.2 }

/-- the loop `for i, r in enumerate(rule): self.insertRule(r, index + i)` of the CSSRuleList branch: every rule goes
through the whole of `insertRule` (not ordered, whatever the caller said); a DOM exception — a refusal in raise mode,
IndexSizeErr after a skipped rule in log-only mode, the clean-up's NoModificationAllowedErr — undoes everything -/
def insertListLoop (st0 : St) (specs0 : List Spec) (idx : Nat) : St → Nat → List Spec → St × Outcome
  | cur, _, [] => (cur, .ok idx)
  | cur, i, s :: ss =>
    let r := insertRule cur s (some ((idx + i : Nat) : Int)) false false true
    match r.2 with
    | .err e => (resetList st0 specs0 r.1.next, .err e)
    | _ => insertListLoop st0 specs0 idx r.1 (i + 1) ss

/-- `sheet.insertRule(CSSRuleList([...]), index)` -/
def insertList (st : St) (specs : List Spec) (index : Option Int) : St × Outcome :=
  match idxOf index st.rules.length with
  | none => (resetList st specs st.next, .err .indexSize)
  | some idx => insertListLoop st specs idx st 0 specs

/-! ## `encoding` setter -/

/-- `sheet.encoding = e`; `e = []` stands for `None`/`''`; `valid`: `e` is a single IDENT token naming a codec
Python knows (`csscharsetrule.py:141-167`), `e` is given lower-cased -/
def setEncoding (st : St) (e : Cps) (valid : Bool) : St × Outcome :=
  let fresh : St × Outcome :=                                   -- :453-454
    if e.isEmpty then (st, .none)
    else if !valid then
      -- the constructor's setter refuses: raises, or (log-only) leaves a rule without encoding, which insertRule
      -- refuses as not well-formed (`csscharsetrule.py:55-57`, `cssstylesheet.py:664-666`)
      (st, logError st.raising .syntaxErr)
    else
      let r := insertRule st ⟨.charset, [], [], e, [], []⟩ (some 0) false false false
      (r.1, match r.2 with | .ok _ => .none | o => o)
  match st.rules with
  | [] => fresh
  | r :: rest =>
    if r.kind = .charset then                                   -- :448
      if !e.isEmpty then
        if valid then ({ st with rules := { r with enc := e } :: rest }, .none)
        else (st, logError st.raising .syntaxErr)
      else deleteRule st 0                                      -- :452
    else fresh

/-! ## `sheet.namespaces[p] = u`, `del sheet.namespaces[p]` -/

def nsSet (st : St) (p u : Cps) : St × Outcome :=
  match findNsIdx p st.rules with
  | none =>                                                     -- util.py:789-793
    -- the rule object is created inside the call: the caller holds no reference
    let r := insertRule st ⟨.ns, p, u, [], [], []⟩ none true false false
    (r.1, match r.2 with | .ok _ => .none | o => o)
  | some i =>
    match st.rules[i]? with
    | none => (st, .badOp)
    | some r =>
      if (nsDict st.rules).hasKey p && r.uri ≠ u then (st, logError st.raising .noMod)   -- :795-796
      else (st, .none)

def nsDel (st : St) (p : Cps) : St × Outcome :=
  match findNsIdx p st.rules with
  | some i => deleteRule st i                                   -- util.py:773-779
  | none => (st, logError st.raising .namespaceErr)             -- :781

/-! ## operations on nested lists -/

def isContainer (r : Rule) : Bool := r.kind = .media || r.kind = .page

def nInsert (st : St) (path : List Nat) (s : Spec) (index : Option Int) (viaStr : Bool) : St × Outcome :=
  match atPath st.rules path with
  | none => (st, .badOp)
  | some c =>
    if !isContainer c then (st, .badOp) else
    if viaStr then
      if (idxOf index c.kids.length).isNone then (st, .err .indexSize) else  -- cssrule.py:243-248 precedes the parse
      -- temp sheet that is given the namespaces of `self.parentStyleSheet` (`cssrule.py:254-261`, since cfe1126); the
      -- container is in the sheet's tree, where the getter answers the sheet at every depth
      -- (`parentStyleSheet_all_depths`)
      match parseCand st.raising (nsDict st.rules) st.next s with
      | .error e => (st, .err e)
      | .ok none => (st, logError st.raising .syntaxErr)
      | .ok (some i) =>
        let res := cInsert st.raising c i.1 index true
        ({ st with rules := setPath st.rules res.1 path, gone := st.gone ++ res.2.1, next := i.2 }, res.2.2)
    else
      let i := Spec.inst none st.next s
      let res := cInsert st.raising c i.1 index false
      ({ st with rules := setPath st.rules res.1 path, gone := st.gone ++ res.2.1, next := i.2 }, res.2.2)

/-- the same loop for a container: every rule goes through the container's `insertRule` (index check, kind check) -/
def cInsertListLoop (raising : Bool) (c0 : Rule) (idx : Nat) : Rule → Nat → Nat → List Rule → List Spec →
    Rule × List Rule × Nat × Outcome
  | c, _, next, dropped, [] => (c, dropped, next, .none)
  | c, i, next, dropped, s :: ss =>
    let r := Spec.inst none next s
    let res := cInsert raising c r.1 (some ((idx + i : Nat) : Int)) false
    match res.2.2 with
    | .err e => (c0, [], r.2, .err e)
    | _ => cInsertListLoop raising c0 idx res.1 (i + 1) r.2 (dropped ++ res.2.1) ss

/-- `container.insertRule(CSSRuleList([...]), index)` -/
def nInsertList (st : St) (path : List Nat) (specs : List Spec) (index : Option Int) : St × Outcome :=
  match atPath st.rules path with
  | none => (st, .badOp)
  | some c =>
    if !isContainer c then (st, .badOp) else
    match idxOf index c.kids.length with
    | none => (resetList st specs st.next, .err .indexSize)
    | some idx =>
      let res := cInsertListLoop st.raising c idx c 0 st.next [] specs
      match res.2.2.2 with
      | .err e => (resetList st specs res.2.2.1, .err e)
      | o => ({ st with rules := setPath st.rules res.1 path, gone := st.gone ++ res.2.1, next := res.2.2.1 }, o)

def nDelete (st : St) (path : List Nat) (i : Int) : St × Outcome :=
  match atPath st.rules path with
  | none => (st, .badOp)
  | some c =>
    if !isContainer c then (st, .badOp) else
    let res := cDelete c i
    ({ st with rules := setPath st.rules res.1 path, gone := st.gone ++ res.2.1 }, res.2.2)

/-- `container.cssText = text` with a text that is not a complete @media / @page rule: content after the closing
brace (a blank, a comment, `;`, another rule), or a block that is not closed (after a child that is no block, or
with no child). `CSSMediaRule._setCssText` reports 'Trailing content' / 'No "}" found' before it looks at the
children (`cssmediarule.py:131-160`), `CSSPageRule._setCssText` sets `ok = False` (`csspagerule.py:317-327`): a
SyntaxErr in raise mode; in log-only mode the call returns and the rule list is the old one, untouched — its rules
still name the container (the media query may have been taken over: not a matter of structure). -/
def nSetBroken (st : St) (path : List Nat) : St × Outcome :=
  match atPath st.rules path with
  | none => (st, .badOp)
  | some c => if !isContainer c then (st, .badOp) else (st, logError st.raising .syntaxErr)

def nSetText (st : St) (path : List Nat) (kids : List Spec) : St × Outcome :=
  match atPath st.rules path with
  | none => (st, .badOp)
  | some c =>
    if !isContainer c then (st, .badOp) else
    let res := cSetText st.raising (nsDict st.rules) st.next c kids
    ({ st with rules := setPath st.rules res.1 path, gone := st.gone ++ res.2.1, next := res.2.2.1 }, res.2.2.2)

/-- `sheet.cssText = text` where the text consists of the statements `specs` (white space between them).
A DOM exception during the parse restores the old state (`finally`, `:352-357`); otherwise the new list replaces the
old one, whose objects are detached (`_parentStyleSheet = None`), and `_cleanNamespaces` runs. -/
def setText (st : St) (specs : List Spec) : St × Outcome :=
  match parseTop st.raising { acc := [], nd := [], level := 0, next := st.next } specs with
  | .error e => (st, .err e)
  | .ok p =>
    let c := cleanNamespaces p.acc
    ({ st with rules := c.1, gone := st.gone ++ st.rules.map Rule.detach, next := p.next },
      match c.2.2 with | some e => .err e | none => .none)

/-- what parsing the serialisation of the sheet gives (`parseString(sheet.cssText)`): a fresh sheet, log-only mode -/
def reparse (st : St) : St :=
  (setText { rules := [], gone := [], next := st.next, raising := false } (Rule.toSpecs st.rules)).1

/-! ## operations -/

inductive Op where
  /-- `sheet.insertRule(rule, index)` -/
  | insert (s : Spec) (index : Option Int) (viaStr : Bool)
  /-- `sheet.add(rule)` = `insertRule(rule, index=None, inOrder=True)` -/
  | add (s : Spec) (viaStr : Bool)
  /-- `sheet.insertRule(rule, index, inOrder=True)` with an explicit index ("ignored", says the doc string) -/
  | insertOrdered (s : Spec) (index : Int) (viaStr : Bool)
  | delete (i : Int)
  | setEncoding (e : Cps) (valid : Bool)
  | setText (specs : List Spec)
  | nsSet (p u : Cps)
  | nsDel (p : Cps)
  /-- `sheet.insertRule(CSSRuleList, index)` -/
  | insertList (specs : List Spec) (index : Option Int)
  /-- `container.insertRule(CSSRuleList, index)` -/
  | nInsertList (path : List Nat) (specs : List Spec) (index : Option Int)
  | nInsert (path : List Nat) (s : Spec) (index : Option Int) (viaStr : Bool)
  | nDelete (path : List Nat) (i : Int)
  | nSetText (path : List Nat) (kids : List Spec)
  /-- `container.cssText = <almost a rule: trailing content or an unclosed block>` -/
  | nSetBroken (path : List Nat)
  | setMode (raising : Bool)
  deriving Repr

def step (st : St) : Op → St × Outcome
  | .insert s i v => insertRule st s i false v (!v)
  | .add s v => insertRule st s none true v (!v)
  | .insertOrdered s i v => insertRule st s (some i) true v (!v)
  | .delete i => deleteRule st i
  | .setEncoding e v => setEncoding st e v
  | .setText specs => setText st specs
  | .nsSet p u => nsSet st p u
  | .nsDel p => nsDel st p
  | .insertList specs i => insertList st specs i
  | .nInsertList path specs i => nInsertList st path specs i
  | .nInsert path s i v => nInsert st path s i v
  | .nDelete path i => nDelete st path i
  | .nSetText path kids => nSetText st path kids
  | .nSetBroken path => nSetBroken st path
  | .setMode b => ({ st with raising := b }, .none)

def run (st : St) : List Op → St
  | [] => st
  | op :: ops => run (step st op).1 ops

/-- `sheet.encoding` (`cssstylesheet.py:430-436`) -/
def encodingOf (rules : List Rule) : Cps :=
  match rules with
  | r :: _ => if r.kind = .charset then r.enc else Proto.cps "utf-8"
  | [] => Proto.cps "utf-8"

end CssVerif.SheetEdit
