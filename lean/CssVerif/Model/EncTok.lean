import CssVerif.Model.EncEscape
import CssVerif.Model.Tok
/-!
# K6 × K1 — `escapecss` seen by the tokenizer (`serialize.py:13-27` against `tokenize2.py:161-270`)

Definitions used by the token-boundary theorems of `Props/C08.lean` (T8.4b) and by the driver: the position map of
`escape`, the guard of the known finding C08-escaped-unrepresentable as a property of the whole text, and the
projection of the tokenizer model's result to (type, source span).

Core Lean only (the driver links this file).
-/
namespace CssVerif.EncTok
open CssVerif CssVerif.Tok

/-- where the text position `l` of `s` lands in `escape rep s`: the length of the escaped prefix -/
def elen (rep : Nat → Bool) (s : Cps) (l : Nat) : Nat := (EncEscape.escape rep (s.take l)).length

/-- `pb` = the previous character was a backslash -/
def guardFrom (rep : Nat → Bool) : Bool → Cps → Bool
  | _, [] => true
  | pb, c :: t => (!pb || rep c) && guardFrom rep (c == 92) t

/-- no character that has to be escaped stands directly after a backslash (anywhere in the text). This is the
region of the known finding C08-escaped-unrepresentable, widened from "after an unescaped backslash" (scanner state
`bs` of `Model/EncEscape`, which needs to know where a token starts) to "after any backslash" so that it is a property
of the text alone and is inherited by every suffix. -/
def guard (rep : Nat → Bool) (s : Cps) : Bool := guardFrom rep false s

/-- (type, source span) of every item of a tokenizer result: the token boundaries -/
def bounds (r : Res) : List (String × Cps) := r.items.map fun it => (it.typ, it.span)

end CssVerif.EncTok
