import CssVerif.Model.StructSpec
/-!
# K2 `Struct`: truncated token lists — what is open at the cut, and what the DOM must be

Executable vocabulary of the truncation theorems T4.4 of C04 (core Lean only, so that the driver can run it):

* `mediaRules O ns ts` — the rules a token list yields as content of an `@media` block (the loop of
  `cssmediarule.py:163-245` on the model's `mediaStep`, nested `@media` parsed with enough fuel);
* `MFrame`, `openToks`, `openRules` — `@media` rules open at the cut, to any depth;
* `Open` / `Cut` — a *certificate* for one truncated sheet: complete statements, then the construct that is
  open at the end of input (an `@media` rule with complete units and, recursively, an open construct in its
  block; a style rule with complete declarations; or an undivided rest), with the decidable check `Cut.ok`
  of every hypothesis of the theorems and the predicted rule list `Cut.predict`.
  `Lemmas/StructMedia.lean` proves `Cut.ok c → (sheetLoop O M {} c.toks).rules = c.predict O M`.
  The driver finds a certificate for a real truncated token list greedily (unverified), checks it with
  `Cut.ok` (verified) and answers with the prediction, which the harness compares with the real DOM.
-/
namespace CssVerif.Struct
open CssVerif.Proto (Cps)

/-- the rules a token list yields as the content of an `@media` block, `nested` parsing `@media` in it -/
def mediaLoop (O : Oracle) (ns : List (Cps × Cps)) (nested : List Tok → Option Rule) (ts : List Tok) :
    List Rule :=
  parseLoop (mediaStep O ns nested) [] ts

/-- the block loop with `@media` inside parsed by `mediaRule` with fuel `f` -/
def mediaLoopF (O : Oracle) (ns : List (Cps × Cps)) (f : Nat) (ts : List Tok) : List Rule :=
  mediaLoop O ns (fun l => mediaRule O ns f l) ts

/-- **the rules of the content of an `@media` block** (nested `@media` rules parsed with enough fuel) -/
def mediaRules (O : Oracle) (ns : List (Cps × Cps)) (ts : List Tok) : List Rule :=
  mediaLoopF O ns (ts.length + 1) ts

def noString (g : List Tok) : Bool := g.all (fun t => t.typ != .string)

/-- tokens that start a `ruleset` inside an `@media` block (the default production there) -/
def startsMediaRuleset (t : Tok) : Bool :=
  match t.typ with
  | .s | .comment | .eof | .charsetSym | .fontFaceSym | .importSym | .namespaceSym | .pageSym | .mediaSym
  | .atkeyword => false
  | _ => true

/-! ## frames (list form) -/

/-- one `@media` rule that is still open at the cut: the complete units `done` that stand before it in the
enclosing block, and its head `@media mq {` -/
structure MFrame where
  done : List Tok
  at_ : Tok
  mq : List Tok
  lb : Tok

/-- the token list: outermost frame first, the unfinished innermost content `junk` last -/
def openToks : List MFrame → List Tok → List Tok
  | [], junk => junk
  | F :: fs, junk => F.done ++ F.at_ :: (F.mq ++ F.lb :: openToks fs junk)

/-- the rules: at every level the rules of the complete units, then the open media rule with, recursively,
what its content yields -/
def openRules (O : Oracle) (ns : List (Cps × Cps)) : List MFrame → List Rule → List Rule
  | [], inner => inner
  | F :: fs, inner =>
    mediaRules O ns F.done ++
      [if O.mediaOk F.mq then Rule.media (some (F.mq, none)) (openRules O ns fs inner)
       else Rule.media none []]

/-! ## decidable unit checks -/

/-- last token and the tokens before it -/
def unsnoc (l : List Tok) : Option (List Tok × Tok) :=
  match l.getLast? with
  | some e => some (l.dropLast, e)
  | none => none

/-- `t :: g ++ [e]` is a statement: well nested, quiet in mode `default`, closed by `e` -/
def stmtShapeB (t : Tok) (body : List Tok) : Bool :=
  match unsnoc body with
  | none => false
  | some (g, e) =>
    Quiet .default (startStack t) g &&
      (match nest (startStack t) g with
       | some stk' => push stk' e == some [] && endTok .default e
       | none => false)

/-- decides `StmtUnit` (sheet level) -/
def stmtUnitB : List Tok → Bool
  | [] => false
  | [t] => t.typ == .s || t.typ == .cdo || t.typ == .cdc || t.typ == .comment
  | t :: body =>
    t.typ != .s && t.typ != .cdo && t.typ != .cdc && t.typ != .comment && t.typ != .eof && stmtShapeB t body

/-- decides `MediaUnit` (content of an `@media` block) -/
def mediaUnitB : List Tok → Bool
  | [] => false
  | [t] => t.typ == .s || t.typ == .comment
  | t :: body => t.typ != .s && t.typ != .comment && t.typ != .eof && stmtShapeB t body

/-- decides `DeclUnit` (declaration block) -/
def declUnitB : List Tok → Bool
  | [] => false
  | [t] => t.typ == .s || t.typ == .comment || (t.typ == .char && t.val == vSemi)
  | t :: body =>
    if t.typ == .atkeyword then stmtShapeB t body
    else
      t.typ != .s && t.typ != .comment && t.typ != .eof && !(t.typ == .char && t.val == vSemi) &&
      (match unsnoc body with
       | none => false
       | some (g, semi) =>
         Quiet .semicolon (startStack t) g && nest (startStack t) g == some [] &&
           semi.typ == .char && semi.val == vSemi)

def selShapeB (sel : List Tok) : Bool :=
  (match sel with
   | [] => false
   | t :: _ => t.val.head? != some 0x40) &&
  nest [] sel == some [] && noBrace sel && noEof sel && Quiet .default [] sel

def mqShapeB (mq : List Tok) : Bool :=
  nest [] mq == some [] && noBrace mq && noEof mq && noString mq && Quiet .default [] mq

/-! ## certificates -/

/-- the construct that is open at the end of input, seen from the enclosing block -/
inductive Open where
  /-- not divided further (the cut is between two statements, or inside a statement's prelude …) -/
  | junk (j : List Tok)
  /-- a style rule cut inside its declaration block: selector `t :: sel'`, `{`, complete units, rest -/
  | style (t : Tok) (sel' : List Tok) (lb : Tok) (decls : List (List Tok)) (j : List Tok)
  /-- an `@media` rule cut inside its block: `@media mq {`, complete units, the next open construct -/
  | media (at_ : Tok) (mq : List Tok) (lb : Tok) (done : List (List Tok)) (inner : Open)

def Open.toks : Open → List Tok
  | .junk j => j
  | .style t sel' lb decls j => t :: (sel' ++ lb :: (decls.flatten ++ j))
  | .media at_ mq lb done inner => at_ :: (mq ++ lb :: (done.flatten ++ inner.toks))

/-- every hypothesis of the truncation theorems, decided -/
def Open.ok : Open → Bool
  | .junk j => (nest [] j).isSome && noEof j
  | .style t sel' lb decls j =>
    startsMediaRuleset t && selShapeB (t :: sel') && lb.val == vLBrace && lb.typ == .char &&
      decls.all declUnitB && (nest [] (decls.flatten ++ j)).isSome && noEof (decls.flatten ++ j)
  | .media at_ mq lb done inner =>
    at_.typ == .mediaSym && normalize at_.val == atMedia && mqShapeB mq && lb.val == vLBrace &&
      lb.typ == .char && done.all mediaUnitB && (nest [] (done.flatten ++ inner.toks)).isSome &&
      noEof (done.flatten ++ inner.toks) && inner.ok

/-- what the content `o.toks ++ [eof]` of an `@media` block must yield -/
def Open.predict (O : Oracle) (ns : List (Cps × Cps)) (eof : Tok) : Open → List Rule
  | .junk j => mediaRules O ns (j ++ [eof])
  | .style t sel' _ decls j =>
    if O.selOk ns (t :: sel') then
      [Rule.style ns (t :: sel') (parseDecls O decls.flatten ++ parseDecls O (j ++ [eof]))]
    else []
  | .media _ mq _ done inner =>
    [if O.mediaOk mq then
      Rule.media (some (mq, none)) (mediaRules O ns done.flatten ++ Open.predict O ns eof inner)
     else Rule.media none []]

def Open.shape : Open → String
  | .junk j => if j.isEmpty then "end" else "rest"
  | .style .. => "style"
  | .media _ _ _ _ inner => "media>" ++ inner.shape

/-- a truncated sheet: complete statements, the open construct, the EOF token -/
structure Cut where
  s₁ : List (List Tok)
  o : Open
  eof : Tok

def Cut.toks (c : Cut) : List Tok := c.s₁.flatten ++ (c.o.toks ++ [c.eof])

def Cut.ok (c : Cut) : Bool :=
  c.s₁.all stmtUnitB && c.eof.typ == .eof && c.o.ok &&
    (match c.o with
     | .style t .. => startsRuleset t
     | _ => true)

/-- the rule list of the truncated sheet (before `_cleanNamespaces`) -/
def Cut.predict (O : Oracle) (M : List Cps) (c : Cut) : List Rule :=
  let st := sheetLoop O M {} c.s₁.flatten
  match c.o with
  | .junk j => (sheetLoop O M st (j ++ [c.eof])).rules
  | o => st.rules ++ o.predict O st.nsmap c.eof

/-! ## finding a certificate (greedy, NOT verified: `Cut.ok` judges the result) -/

/-- split complete units off the front; `cand t rest` proposes the unit that starts at `t` -/
def takeUnits (unitB : List Tok → Bool) (cand : Tok → List Tok → List Tok × List Tok) :
    Nat → List Tok → List (List Tok) × List Tok
  | 0, ts => ([], ts)
  | _ + 1, [] => ([], [])
  | f + 1, t :: rest =>
    let c := cand t rest
    if unitB c.1 then
      let r := takeUnits unitB cand f c.2
      (c.1 :: r.1, r.2)
    else ([], t :: rest)

def candStmt (t : Tok) (rest : List Tok) : List Tok × List Tok :=
  if t.typ == .s || t.typ == .cdo || t.typ == .cdc || t.typ == .comment then ([t], rest)
  else upto .default (some t) rest

def candMedia (t : Tok) (rest : List Tok) : List Tok × List Tok :=
  if t.typ == .s || t.typ == .comment then ([t], rest) else upto .default (some t) rest

def candDecl (t : Tok) (rest : List Tok) : List Tok × List Tok :=
  if t.typ == .s || t.typ == .comment || (t.typ == .char && t.val == vSemi) then ([t], rest)
  else if t.typ == .atkeyword then upto .default (some t) rest
  else upto .semicolon (some t) rest

/-- the open construct at the head of `rem` (tokens without the EOF) -/
def findOpen : Nat → List Tok → Open
  | 0, rem => .junk rem
  | _ + 1, [] => .junk []
  | f + 1, t :: rest =>
    if t.typ == .mediaSym then
      let r := upto .mq none rest
      match unsnoc r.1 with
      | none => .junk (t :: rest)
      | some (mq, lb) =>
        let u := takeUnits mediaUnitB candMedia (r.2.length + 1) r.2
        let c := Open.media t mq lb u.1 (findOpen f u.2)
        if c.ok then c else .junk (t :: rest)
    else
      let r := upto .blockstart none (t :: rest)
      match unsnoc r.1 with
      | some (_ :: sel', lb) =>
        let u := takeUnits declUnitB candDecl (r.2.length + 1) r.2
        let c := Open.style t sel' lb u.1 u.2
        if c.ok then c else .junk (t :: rest)
      | _ => .junk (t :: rest)

/-- a certificate for the token list `ts` (which must end with its EOF token) -/
def findCut (ts : List Tok) : Option Cut :=
  match unsnoc ts with
  | none => none
  | some (body, eof) =>
    let u := takeUnits stmtUnitB candStmt (body.length + 1) body
    some ⟨u.1, findOpen (u.2.length + 1) u.2, eof⟩

end CssVerif.Struct
