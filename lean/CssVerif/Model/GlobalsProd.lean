import CssVerif.Lib.Proto
/-!
# K4 (global part): the production engine of `cssutils/prodparser.py` with its process-wide state

What is transcribed (file:line refer to /repo at HEAD):

* `Choice.nextProd` (prodparser.py:91-120), `Sequence.nextProd` (:189-237), `Sequence.matches` (:155-165),
  `Choice.matches` (:84-89), `Prod.matches` (:340-345), the shallow `reset()`s (:80-82, :167-171)
* `ProdParser.__init__` (:367-371: `tokenizer.clear()`), `_SorTokens` (:402-434), `ProdParser.parse` (:436-683)
* the module-level `savedTokens` list (:361) and the push-back queue `_pushed` of the module-level
  tokenizer (:358, tokenize2.py:63,87-92,155)
* the calling convention of every nested production parser in the code base:
  `toSeq = lambda t, tokens: (…, Child(pushtoken(t, tokens), …))` (value.py:955-1010, medialist.py:92-98,
  cssvariablesdeclaration.py:131-137), i.e. the child gets `itertools.chain([t], tokens)` over the SAME
  token iterator as its parent, builds a fresh `ProdParser()` and fresh grammar objects.

Grammars are first-order data (a node table, children by index, parents before children), so grammar
objects never carry state across calls: `St` is created empty by every `parse` (DESIGN K4 (4)).
`log.error(...)` raises `xml.dom.SyntaxErr` iff `raiseExceptions` is set (errorhandler.py:95-103); a raise
aborts the whole call tree (there is no `try` around any `ProdParser.parse`).

Loops that are `while True` in Python take fuel. The C12 theorems hold for every amount of fuel and every
outcome (also `noFuel`), so they do not depend on termination, which is C01's obligation.
-/
namespace CssVerif.GProd

/-- what `ProdParser.parse` itself distinguishes (prodparser.py:521-548); everything else is `other` -/
inductive TT | comment | s | invalid | eof | other
  deriving DecidableEq, Repr, Inhabited

structure Tok where
  typ : TT
  /-- identity of the (type, value) pair in the alphabet of the harness -/
  sym : Nat
  /-- `token[1] in ',/'` (prodparser.py:420) — true for `,` `/` and for an empty value (EOF) -/
  sep : Bool
  deriving DecidableEq, Repr, Inhabited

/-- the process-wide state the engine reads and writes -/
structure PG where
  /-- `cssutils.log.raiseExceptions` -/
  raising : Bool
  /-- `cssutils.prodparser.savedTokens`; head = end of the Python list (`pop()` / `append`) -/
  saved : List Tok
  /-- logical content of `cssutils.prodparser.tokenizer._pushed`; head = pushed last -/
  pushed : List Tok
  deriving DecidableEq, Repr, Inhabited

structure PFlags where
  optional : Bool
  stop : Bool
  stopAndKeep : Bool
  stopIf : Bool
  nextSor : Bool
  mayEnd : Bool
  deriving DecidableEq, Repr, Inhabited

/-- `Prod.toSeq`: `False` (nothing appended), the default `(t[0], t[1])`, or a nested parser on
`pushtoken(t, tokens)` with the grammar/parameters `env[k]` -/
inductive Act | drop | keep | child (k : Nat)
  deriving DecidableEq, Repr, Inhabited

inductive Node
  | prod (acc : List Nat) (fl : PFlags) (act : Act)
  | seq (ch : List Nat) (min : Nat) (max : Nat)
  | choice (ch : List Nat) (opt : Option Bool)
  deriving Repr, Inhabited

abbrev Table := List Node

/-- `sys.maxsize` on the 64-bit CPython the check runs under (prodparser.py:141-147) -/
def maxsize : Nat := 9223372036854775807

structure Spec where
  tb : Table
  keepS : Bool
  checkS : Bool
  emptyOk : Bool
  /-- the constructor that owns this grammar calls `self._log.error(...)` when the parse result is not
  wellformed (e.g. value.py:186-190); raises in raising mode -/
  postErr : Bool
  deriving Repr, Inhabited

abbrev Env := List Spec

/-! ## grammar queries -/

def isProd : Node → Bool
  | .prod .. => true
  | _ => false

/-- `optional` of the three classes (prodparser.py:66-75, :181, :302); a `Choice` without the keyword
is optional iff one of its members is. Children have larger indices than their parent (the tables are
flattened in pre-order), so `tb.length` levels of recursion are enough; the first argument counts them. -/
def optionalF (tb : Table) : Nat → Nat → Bool
  | 0, _ => false
  | d + 1, i =>
    match tb[i]? with
    | none => false
    | some (.prod _ fl _) => fl.optional
    | some (.seq _ mn _) => mn == 0
    | some (.choice _ (some b)) => b
    | some (.choice ch none) => ch.any fun c => i < c && optionalF tb d c

def optional (tb : Table) (i : Nat) : Bool := optionalF tb tb.length i

/-- `matches(token)`; `none` is Python's `token=None` -/
def matchesF (tb : Table) (tok : Option Tok) : Nat → Nat → Bool
  | 0, _ => false
  | d + 1, i =>
    match tb[i]? with
    | none => false
    | some (.prod acc _ _) =>
        match tok with
        | none => false                                   -- prodparser.py:342-343
        | some t => acc.contains t.sym                     -- :344-345
    | some (.choice ch _) =>                               -- :84-89
        ch.any fun c => i < c && matchesF tb tok d c
    | some (.seq ch _ _) =>                                -- :155-165: first match wins, stop at the first non-optional
        ch.foldr (fun c acc => i < c && (matchesF tb tok d c || (optional tb c && acc))) false

def matchesN (tb : Table) (i : Nat) (tok : Option Tok) : Bool := matchesF tb tok tb.length i

/-! ## per-call grammar state (`_exhausted`, `_i`, `_round`, `_roundstarted`) -/

inductive NodeSt
  | seq (i round : Nat) (started : Bool)
  | ch (exhausted : Bool)
  deriving Repr, Inhabited

abbrev St := List (Nat × NodeSt)

def St.get (st : St) (i : Nat) : Option NodeSt := (st.find? (·.1 == i)).map (·.2)
def St.set (st : St) (i : Nat) (v : NodeSt) : St := (i, v) :: st.filter (·.1 != i)

def getSeq (st : St) (i : Nat) : Nat × Nat × Bool :=
  match st.get i with
  | some (.seq a b c) => (a, b, c)
  | _ => (0, 0, false)

def getCh (st : St) (i : Nat) : Bool :=
  match st.get i with
  | some (.ch e) => e
  | _ => false

/-- `p.reset()` — shallow (prodparser.py:80-82, :167-171, :347-348) -/
def reset (tb : Table) (st : St) (i : Nat) : St :=
  match tb[i]? with
  | some (.seq ..) => st.set i (.seq 0 0 false)
  | some (.choice ..) => st.set i (.ch false)
  | _ => st

/-- result of one `nextProd` call -/
inductive NP
  | node (c : Nat)
  | none
  | noMatch | exhausted | missing | done
  deriving Repr, DecidableEq

/-- `Choice.nextProd` (prodparser.py:91-120) -/
def choiceNext (tb : Table) (i : Nat) (ch : List Nat) (st : St) (tok : Option Tok) : NP × St :=
  if !(getCh st i) then
    let rec go : List Nat → Bool → NP × St
      | [], opt => if !opt then (.noMatch, st) else (.none, st)          -- :112-116
      | c :: cs, opt =>
        if matchesN tb c tok then (.node c, reset tb (st.set i (.ch true)) c)   -- :105-109
        else go cs (opt || optional tb c)                                    -- :110-111
    go ch false
  else if tok.isSome then (.exhausted, st)                                 -- :117-118
  else (.none, st)

/-- `Sequence.nextProd` (prodparser.py:189-237). The `while self._round < self._max` loop leaves through a
`return`/`raise` as soon as it meets a member that matches or is not optional. If it meets neither in
`len(prods)+1` steps, every member is optional and none matches: the loop then only counts rounds up to
`_max` (2^63-1 when unbounded — the cost of that is C01's subject) and ends with `_i = 0`, `_round = _max`,
`_roundstarted = False`; the model answers with that final state directly. -/
def seqNext (tb : Table) (id : Nat) (ch : List Nat) (mn mx : Nat) (st : St) (tok : Option Tok) : NP × St :=
  go (ch.length + 1) (getSeq st id).1 (getSeq st id).2.1 (getSeq st id).2.2
where
  go : Nat → Nat → Nat → Bool → NP × St
    | 0, _, _, _ => (if tok.isSome then .exhausted else .none, st.set id (.seq 0 mx false))
    | fuel + 1, i, round, started =>
      if round < mx then                                                      -- :197
        match ch[i]? with
        | some p =>
          let started := if i == 0 then false else started                    -- :202-203
          let i' := if i + 1 == ch.length then 0 else i + 1                   -- :206-209
          let round' := if i + 1 == ch.length then round + 1 else round
          if matchesN tb p tok then                                           -- :211-216
            (.node p, reset tb (st.set id (.seq i' round' true)) p)
          else if optional tb p then go fuel i' round' started                -- :218-219
          else if round < mn || started then (.missing, st.set id (.seq i' round' started))   -- :221-224
          else if tok.isNone then                                             -- :226-230
            (if started then .missing else .done, st.set id (.seq i' round' started))
          else (.noMatch, st.set id (.seq i' round' started))                 -- :232-233
        | none => (.none, st.set id (.seq i round started))   -- not reachable: `_i < _prodcount` is an invariant
      else
        (if tok.isSome then .exhausted else .none, st.set id (.seq i round started))   -- :235-236

def nextProd (tb : Table) (i : Nat) (st : St) (tok : Option Tok) : NP × St :=
  match tb[i]? with
  | some (.choice ch _) => choiceNext tb i ch st tok
  | some (.seq ch mn mx) => seqNext tb i ch mn mx st tok
  | _ => (.none, st)

/-! ## token streams

`tkz` is `cssutils.prodparser.tokenizer.tokenize(text)` (prodparser.py:379): once before every new token it
re-emits what is in `_pushed` (tokenize2.py:153-155) — only while text is left; `drained` says that this has
happened for the token that comes next (the generator is suspended inside the `yield from`). `lst` is any other token
iterator (a list, a generator of another tokenizer). `layer` is the `tokens` variable of one `parse` call:
`_SorTokens(itertools.chain(pre, base))` with the generator's own state (`_sor`, a pending second `yield`),
or just the chain when `sor = none`. -/
inductive Stream
  | tkz (drained : Bool) (rest : List Tok)
  | lst (rest : List Tok)
  | layer (sor : Option (Bool × List Tok)) (pre : List Tok) (base : Stream)
  deriving Repr, Inhabited

inductive Pull
  | tok (t : Tok) (s : Stream) (g : PG)
  | stop (s : Stream) (g : PG)
  /-- two or more tokens in `_pushed` when the tokenizer drains it: the aliasing of partially consumed
  `itertools.chain` objects is not modelled; the driver reports it and the harness skips the case -/
  | unsupported

def Stream.depth : Stream → Nat
  | .layer _ _ b => b.depth + 1
  | _ => 0

def unlayer : Stream → List Tok × Stream
  | .layer _ p b => (p, b)
  | b => ([], b)

/-- `next()` of `itertools.chain(pre, base)`; `rec` is `next()` of the base -/
def chainPull (rec : PG → Stream → Pull) (g : PG) (pre : List Tok) (base : Stream) : Pull :=
  match pre with
  | t :: pre => .tok t (.layer none pre base) g
  | [] => match rec g base with
    | .tok t b g => .tok t (.layer none [] b) g
    | .stop b g => .stop (.layer none [] b) g
    | .unsupported => .unsupported

/-- number of tokens a stream can still deliver by itself (bounds the loop of `nextNonS`) -/
def Stream.size : Stream → Nat
  | .tkz _ rest => rest.length
  | .lst rest => rest.length
  | .layer sor pre base => (sor.map (·.2.length)).getD 0 + pre.length + base.size

/-- `next_ = next(tokens)` followed by `while next_[0] == S: next_ = next(tokens)` (prodparser.py:416-420, since
f1e0059: S tokens in a row are one S). Every round takes a token out of the stream or out of the push-back queue,
so `size + pushed + 1` rounds are enough; the first argument counts them. -/
def nextNonS (rec : PG → Stream → Pull) : Nat → PG → List Tok → Stream → Pull
  | 0, _, _, _ => .unsupported                                                -- not reachable
  | fuel + 1, g, pre, base =>
    match chainPull rec g pre base with
    | .tok n inner g1 =>
      if n.typ == .s then nextNonS rec fuel g1 (unlayer inner).1 (unlayer inner).2
      else .tok n inner g1
    | r => r

/-- one resumption of the `_SorTokens` generator that has nothing pending (prodparser.py:410-440) -/
def sorPull (rec : PG → Stream → Pull) (g : PG) (act : Bool) (pre : List Tok) (base : Stream) : Pull :=
  match chainPull rec g pre base with                                         -- `for token in tokens:` (:410)
  | .unsupported => .unsupported
  | .stop inner g => .stop (.layer (some (act, [])) (unlayer inner).1 (unlayer inner).2) g
  | .tok t inner g =>
    let pre' := (unlayer inner).1
    let b := (unlayer inner).2
    if !act then .tok t (.layer (some (false, [])) pre' b) g                  -- :411-413
    else if t.typ == .s then                                                  -- :414
      match nextNonS rec (pre'.length + b.size + g.pushed.length + 2) g pre' b with   -- :416-420
      | .unsupported => .unsupported
      | .stop inner2 g => .tok t (.layer (some (true, [])) (unlayer inner2).1 (unlayer inner2).2) g   -- :421-422
      | .tok n inner2 g =>
        let p2 := (unlayer inner2).1
        let b2 := (unlayer inner2).2
        if n.sep then .tok n (.layer (some (true, [])) p2 b2) g                -- :424-426
        else if n.typ == .comment then .tok n (.layer (some (true, [])) p2 b2) g   -- :427-429
        else .tok t (.layer (some (true, [n])) p2 b2) g                        -- :430-432
    else if t.typ == .comment then .tok t (.layer (some (true, [])) pre' b) g  -- :434-436
    else .tok t (.layer (some (false, [])) pre' b) g                          -- :437-440

/-- `next(tokens)`; the first argument only bounds the nesting depth of the stream (`pull` below) -/
def pullF : Nat → PG → Stream → Pull
  | _, g, .tkz _ [] => .stop (.tkz false []) g                            -- tokenize2.py:153 `while pos < _len_text`
  | _, g, .tkz true (t :: rest) => .tok t (.tkz false rest) g             -- resumed after the `yield from`: the new token
  | _, g, .tkz false (t :: rest) =>
      match g.pushed with                                                 -- :155 `yield from self._pushed`, once per token
      | [] => .tok t (.tkz false rest) g
      | [p] => .tok p (.tkz true (t :: rest)) { g with pushed := [] }
      | _ => .unsupported
  | _, g, .lst [] => .stop (.lst []) g
  | _, g, .lst (t :: rest) => .tok t (.lst rest) g
  | 0, _, .layer .. => .unsupported                                       -- not reachable from `pull`
  | n + 1, g, .layer none pre base => chainPull (pullF n) g pre base
  | _ + 1, g, .layer (some (act, t :: pend)) pre base =>
      .tok t (.layer (some (act, pend)) pre base) g                       -- the second `yield` (:429)
  | n + 1, g, .layer (some (act, [])) pre base => sorPull (pullF n) g act pre base

def pull (g : PG) (s : Stream) : Pull := pullF (s.depth + 1) g s

/-- `self._sor = True`, wrapping `tokens` once (prodparser.py:629-633) -/
def setSor : Stream → Stream
  | .layer none pre base => .layer (some (true, [])) pre base
  | .layer (some (_, pend)) pre base => .layer (some (true, pend)) pre base
  | s => .layer (some (true, [])) [] s

/-- the parent's `tokens` object after a child consumed from `chain([t], tokens)` -/
def parentOf : Stream → Stream
  | .layer _ _ base => base
  | s => s

/-! ## `ProdParser.parse` -/

/-- projection of the `Seq` a parse returns: comments, kept S, tokens, and bracketed child results -/
inductive Item
  | com (sym : Nat)
  | tok (sym : Nat) (isS : Bool)
  | openc (k : Nat)
  | closec (wf : Bool)
  | closeNoContent
  | closeOther
  deriving Repr, DecidableEq

inductive Out
  | ok (wf : Bool) (items : List Item)
  /-- `return False, [], None, None` (prodparser.py:676-678) -/
  | noContent
  /-- `xml.dom.SyntaxErr` raised by a `log.error` call in raising mode -/
  | raised
  | noFuel
  | unsupported
  deriving Repr, DecidableEq

structure Res where
  out : Out
  toks : Stream
  g : PG

/-- local variables of `parse` (prodparser.py:480-503) -/
structure L where
  toks : Stream
  seq : List Item          -- reversed
  prods : List Nat
  st : St
  wellformed : Bool
  started : Bool
  stopall : Bool
  prod : Option Nat
  defaultS : Bool
  stopIf : Bool

def L.init (s : Stream) : L :=
  { toks := s, seq := [], prods := [0], st := [], wellformed := true, started := false, stopall := false,
    prod := none, defaultS := true, stopIf := false }

inductive Search
  | found (p : Nat) (prods : List Nat) (st : St)
  | noMatch (prods : List Nat) (st : St)
  | perr (prod : Option Nat) (prods : List Nat) (st : St)
  | noFuel

/-- the inner `while True` (prodparser.py:551-571): find the next matching `Prod` -/
def search (tb : Table) : Nat → List Nat → St → Option Nat → Tok → Search
  | 0, _, _, _, _ => .noFuel
  | fuel + 1, prods, st, prodVar, tok =>
    match prods with
    | [] => .noMatch [] st
    | top :: below =>
      match nextProd tb top st (some tok) with
      | (.missing, st) | (.done, st) => .perr prodVar prods st             -- propagates to :583
      | (.node c, st) =>
        if (tb[c]?.map isProd).getD false then .found c prods st               -- :559-561
        else search tb fuel (c :: prods) st (some c) tok                      -- :562-564
      | (_, st) =>                                                            -- None / Exhausted / NoMatch (:555-557)
        if below.isEmpty then .noMatch prods st                               -- :569-571
        else search tb fuel below st none tok                                 -- :567-568

/-- `rstrip` of the Seq (util.py:649-653) on the reversed list -/
def rstripRev : List Item → List Item
  | .tok _ true :: r => rstripRev r
  | l => l

structure Fin where
  wellformed : Bool
  /-- a `log.error` call was made (raises in raising mode) -/
  erred : Bool
  fuelOut : Bool

/-- the loop after the tokens are used up (prodparser.py:641-673). In raising mode the first `log.error`
raises, which the caller derives from `erred`; otherwise the loop goes on. -/
def finish (tb : Table) (lastprod : Option Nat) : Nat → List Nat → St → Bool → Bool → Fin
  | 0, _, _, wf, er => ⟨wf, er, true⟩
  | fuel + 1, prods, st, wf, er =>
    match prods with
    | [] => ⟨wf, er, false⟩
    | top :: below =>
      let r := nextProd tb top st none
      let st := r.2
      let lastMayEndFalse : Bool := match lastprod.bind (tb[·]?) with
        | some (.prod _ fl _) => !fl.mayEnd          -- hasattr(lastprod, 'mayEnd') and not lastprod.mayEnd (:652)
        | _ => false
      -- `prod and not prod.optional` is false unless a node came back; then pop or stop (:668-677)
      let next (wf er : Bool) : Fin :=
        if below.isEmpty then ⟨wf, er, false⟩ else finish tb lastprod fuel below st wf er
      match r.1 with
      | .done => next wf er                                                   -- :645-647
      | .missing => if lastMayEndFalse then next false true else next wf er   -- :649-654
      | .noMatch | .exhausted => next false true                              -- :656-659
      | .none => next wf er                                                   -- :661-663 (prod is None)
      | .node c =>
        if optional tb top then next wf er                                    -- :662-663
        else if optional tb c then finish tb lastprod fuel prods st wf er     -- :664-666 `continue`
        else ⟨false, true, false⟩                                             -- :668-673 error, `break`

/-- what happens after the main loop ended (prodparser.py:639-683) -/
def epilogue (sp : Spec) (fuel : Nat) (l : L) (g : PG) : Res :=
  if !l.stopall then
    let f := finish sp.tb l.prod fuel l.prods l.st l.wellformed false
    if f.fuelOut then ⟨.noFuel, l.toks, g⟩
    else if f.erred && g.raising then ⟨.raised, l.toks, g⟩
    else if !sp.emptyOk && l.seq.isEmpty then                                  -- :676
      if g.raising then ⟨.raised, l.toks, g⟩ else ⟨.noContent, l.toks, g⟩
    else ⟨.ok f.wellformed (rstripRev l.seq).reverse, l.toks, g⟩
  else ⟨.ok l.wellformed (rstripRev l.seq).reverse, l.toks, g⟩

def childItems (k : Nat) : Out → List Item      -- reversed
  | .ok wf items => .closec wf :: (items.reverse ++ [.openc k])
  | .noContent => [.closeNoContent, .openc k]
  | _ => [.closeOther, .openc k]

/-- `prod.toSeq(token, tokens)` for a nested parser: `Child(pushtoken(t, tokens))` builds a `ProdParser()`
(which clears the push-back queue, prodparser.py:370-371), parses from `chain([t], tokens)` and — in the
owners that do so — reports a result that is not wellformed. `rec` runs the child's `parse`. -/
def runChild (env : Env) (rec : Nat → L → PG → Res) (k' : Nat) (tok : Tok) (l : L) (g : PG) : Option L × Out × PG :=
  match env[k']? with
  | none => (none, .unsupported, g)
  | some csp =>
    let r := rec k' (L.init (.layer none [tok] l.toks)) { g with pushed := [] }
    match r.out with
    | .raised => (none, .raised, r.g)
    | .noFuel => (none, .noFuel, r.g)
    | .unsupported => (none, .unsupported, r.g)
    | .ok wf items =>
      if !wf && csp.postErr && r.g.raising then (none, .raised, r.g)
      else (some { l with toks := parentOf r.toks, seq := childItems k' (.ok wf items) ++ l.seq }, .noContent, r.g)
    | .noContent =>
      if csp.postErr && r.g.raising then (none, .raised, r.g)
      else (some { l with toks := parentOf r.toks, seq := childItems k' .noContent ++ l.seq }, .noContent, r.g)

/-- a `Prod` matched (prodparser.py:596-640) -/
def onFound (env : Env) (sp : Spec) (fuel : Nat) (rec : Nat → L → PG → Res) (k : Nat) (tok : Tok)
    (fl : PFlags) (act : Act) (l : L) (g : PG) : Res :=
  let l := { l with stopIf := fl.stopIf || l.stopIf }                          -- :601
  -- :604-615 toSeq
  let r : Option L × Out × PG :=
    if fl.stopAndKeep then (some l, .noContent, g) else
    match act with
    | .drop => (some l, .noContent, g)
    | .keep => (some { l with seq := .tok tok.sym (tok.typ == .s) :: l.seq }, .noContent, g)
    | .child k' => runChild env rec k' tok l g
  match r with
  | (none, o, g) => ⟨o, l.toks, g⟩
  | (some l, _, g) =>
    if fl.stop then epilogue sp fuel l g                                       -- :617-620
    else if fl.stopAndKeep then                                                -- :622-632
      epilogue sp fuel { l with stopall := true } { g with pushed := tok :: g.pushed }
    else if fl.nextSor then                                                    -- :634-640
      rec k { l with toks := setSor l.toks, defaultS := false } g
    else rec k { l with defaultS := true } g

/-- one token has been fetched (prodparser.py:518-637) -/
def onTok (env : Env) (sp : Spec) (fuel : Nat) (rec : Nat → L → PG → Res) (k : Nat) (tok : Tok) (l : L) (g : PG) : Res :=
  match tok.typ with
  | .comment => rec k { l with seq := .com tok.sym :: l.seq } g                         -- :521-525
  | .invalid =>                                                                        -- :537-541
    if g.raising then ⟨.raised, l.toks, g⟩
    else epilogue sp fuel { l with wellformed := false } g
  | .eof => rec k { l with stopall := true } g                                          -- :543-545
  | ty =>
    if ty == .s && l.defaultS && !sp.checkS then                                       -- :527
      if !sp.keepS || !l.started then rec k l g                                        -- :529-530
      else rec k { l with seq := .tok tok.sym true :: l.seq } g                        -- :531-532
    else
      let l := { l with started := true }                                              -- :548
      match search sp.tb fuel l.prods l.st l.prod tok with
      | .noFuel => ⟨.noFuel, l.toks, g⟩
      | .noMatch prods st =>                                                           -- :573-582
        let l := { l with prods := prods, st := st, prod := none }
        if l.stopIf then
          epilogue sp fuel { l with stopall := true } { g with saved := tok :: g.saved }   -- :577-578
        else if g.raising then ⟨.raised, l.toks, g⟩
        else epilogue sp fuel { l with wellformed := false } g
      | .perr pv prods st =>                                                           -- :584-594
        -- Missing is an error also with `stopIfNoMoreMatch`; the token is not pushed back (since ed45313)
        let l := { l with prods := prods, st := st, prod := pv }
        if g.raising then ⟨.raised, l.toks, g⟩
        else epilogue sp fuel { l with wellformed := false } g
      | .found p prods st =>
        let l := { l with prods := prods, st := st, prod := some p }
        match sp.tb[p]? with
        | some (.prod _ fl act) => onFound env sp fuel rec k tok fl act l g
        | _ => ⟨.unsupported, l.toks, g⟩

/-- `savedTokens.pop()`, else `next(tokens)` (prodparser.py:506-514) -/
def fetch (l : L) (g : PG) : Option (Option Tok × Stream × PG) :=
  match g.saved with
  | t :: rest => some (some t, l.toks, { g with saved := rest })
  | [] => match pull g l.toks with
    | .tok t s g => some (some t, s, g)
    | .stop s g => some (none, s, g)
    | .unsupported => none

/-- `ProdParser.parse` from the `while True` on (prodparser.py:505-683); grammar `env[k]`, local variables `l`.
One unit of fuel per iteration and per nested parser. -/
def loop (env : Env) : Nat → Nat → L → PG → Res
  | 0, _, l, g => ⟨.noFuel, l.toks, g⟩
  | fuel + 1, k, l, g =>
    match env[k]? with
    | none => ⟨.unsupported, l.toks, g⟩
    | some sp =>
      match fetch l g with
      | none => ⟨.unsupported, l.toks, g⟩
      | some (none, s, g) => epilogue sp fuel { l with toks := s } g
      | some (some tok, s, g) => onTok env sp fuel (loop env fuel) k tok { l with toks := s } g

/-- a stand-alone constructor call `Owner(text)`: `ProdParser()` (clears `_pushed`), `.parse(text, …)`, then the
owner's own error report when the result is not wellformed -/
def ctor (env : Env) (fuel k : Nat) (src : Stream) (g : PG) : Res :=
  let r := loop env fuel k (L.init (.layer none [] src)) { g with pushed := [] }
  match r.out with
  | .ok false _ | .noContent =>
    if ((env[k]?.map (·.postErr)).getD false) && r.g.raising then { r with out := .raised } else r
  | _ => r

/-! ## well-formedness of a table (checked by the driver on every grammar it is given) -/

def wfNode (tb : Table) (i : Nat) : Node → Bool
  | .prod .. => true
  | .seq ch _ mx => !ch.isEmpty && ch.all (fun c => i < c && c < tb.length) && mx ≥ 1
  | .choice ch none => ch.all (fun c => i < c && c < tb.length &&
      match tb[c]? with
      | some (.choice _ none) => false
      | _ => true)
  | .choice ch (some _) => ch.all (fun c => i < c && c < tb.length)

def wfTable (tb : Table) : Bool :=
  !tb.isEmpty && (tb.zipIdx.all fun (n, i) => wfNode tb i n)

end CssVerif.GProd
