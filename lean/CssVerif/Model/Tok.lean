import CssVerif.Lib.Re
import CssVerif.Gen.C05Productions
/-!
# `Tok` — executable model of `cssutils/tokenize2.py` `Tokenizer.tokenize` (kernel K1)

Statement-by-statement transcription (line numbers = `/repo/cssutils/tokenize2.py`). Text is a list of code
points; "the text from `pos` on" is the list `s` the loop carries (every test the code makes on `text`/`pos` —
`has_at`, `suffix_eq`, `matcher(text, pos)`, `text[match.end(0)]` — looks at that suffix only; the productions
contain no look-behind). All tables (`productions`, `bomRe`, `unicodesubRe`, `atkeywords`, `fastChars`, …) are
generated from the source (`Gen/C05Productions.lean`).

Partial Python operations are partial here: `int(…, 16)` in `_repl` (`ValueError`), `found[0]` (`IndexError`);
where Python would loop for ever (no production matches, or a match of length 0: `pos += 0`) the model stops
with `Stop.stuck`. Not modelled: `self._pushed` (`yield from self._pushed`, :163) — it is empty unless a caller
pushed tokens back (C12), so `tokenize` is modelled for a tokenizer whose push-back list is empty.

Core Lean only (the driver links this file).
-/
namespace CssVerif.Tok
open CssVerif CssVerif.Gen.C05

abbrev Cps := List Nat

/-! ## small Python string helpers -/

/-- `has_at(text, pos, string)` (:276-288): `text[pos:pos+len(string)] == string` -/
def hasAt (s str : Cps) : Bool := s.take str.length == str

def isHex (c : Nat) : Bool := (48 ≤ c && c ≤ 57) || (65 ≤ c && c ≤ 70) || (97 ≤ c && c ≤ 102)

def hexVal (c : Nat) : Nat := if c ≤ 57 then c - 48 else if c ≤ 70 then c - 55 else c - 87

def hexNum (ds : Cps) : Nat := ds.foldl (fun a d => a * 16 + hexVal d) 0

/-- ASCII white space that `int()` strips -/
def pyWs (c : Nat) : Bool := c == 9 || c == 10 || c == 11 || c == 12 || c == 13 || c == 32

/-- `int(t, 16)` on the domain that matters here: hex digits, then only white space. `none` = `ValueError`
(or a spelling outside this domain — sign, `0x`, `_`, leading / non-ASCII white space — which the pattern of
`unicodesub` cannot produce; `subU_total` shows `none` never occurs). -/
def pyIntHex (t : Cps) : Option Nat :=
  if (t.takeWhile isHex).isEmpty then none
  else if (t.dropWhile isHex).all pyWs then some (hexNum (t.takeWhile isHex)) else none

/-- `_repl` (:117-132), `m` = `m.group(0)` -/
def repl (m : Cps) : Option Cps :=
  if m == [92, 92] then some m                                    -- :119-121 escaped backslash, kept as is
  else match m with
    | _ :: d :: _ =>
      if d == 10 || d == 13 || d == 12 then some []               -- :122-124 line continuation (stringsub only)
      else match pyIntHex (m.drop 1) with                        -- :125
        | none => none
        | some num =>
          if num == 0x5C then some [92, 92]                       -- :126-128
          else if num ≤ 0x10FFFF then some [num]                  -- :129-130 sys.maxunicode
          else some m                                             -- :132
    | _ => none                                                   -- m.group(0)[1]: IndexError

/-- `pattern.sub(repl, s)` for a pattern that cannot match the empty string: leftmost, non-overlapping
matches. The `Nat` argument counts code points still inside the previous match. `none` = `repl` raised, or the
pattern matched with length 0 (outside the modelled domain; the generated patterns are `nonNullable`). -/
def subGo (r : Re) (f : Cps → Option Cps) : Cps → Nat → Option Cps
  | [], _ => some []
  | _ :: t, k + 1 => subGo r f t k
  | c :: t, 0 =>
    match r.first (c :: t) with
    | none => (subGo r f t 0).map (c :: ·)
    | some 0 => none
    | some (l + 1) =>
      match f ((c :: t).take (l + 1)), subGo r f t l with
      | some a, some b => some (a ++ b)
      | _, _ => none

/-- `self.unicodesub(_repl, value)` (:31, :231) -/
def subU (s : Cps) : Option Cps := subGo unicodesubRe repl s 0

/-- `self.stringsub(_repl, found)` (:35-37, :234): escapes decoded and backslash-newline dropped in one pass -/
def subS (s : Cps) : Option Cps := subGo stringsubRe repl s 0

/-- `str.lower()` as far as ASCII can be produced: `A-Z`, U+212A KELVIN SIGN ↦ `k`, U+0130 ↦ `i` U+0307.
Every other code point above 127 lowers to non-ASCII text (checked exhaustively by the harness), and the
results are only ever compared with ASCII words (`"and"`, `"url("`, the at-keywords). -/
def lowerCp (c : Nat) : Cps :=
  if 65 ≤ c ∧ c ≤ 90 then [c + 32] else if c = 0x212A then [0x6B] else if c = 0x130 then [0x69, 0x307] else [c]

def pyLower (s : Cps) : Cps := s.flatMap lowerCp

/-- `helper.normalize` (helper.py:44-61): drop the backslash of simple escapes, lower-case -/
def normalize (x : Cps) : Option Cps :=
  if x.isEmpty then some x
  else (subGo simpleescapesRe (fun m => some (m.drop 1)) x 0).map pyLower

/-- `_normalize` (:134-136) -/
def normalizeU (v : Cps) : Option Cps :=
  match subU v with
  | none => none
  | some u => normalize u

/-! ## tokens -/

/-- one step of the loop: the token tuple `(typ, value, line, col)`, the source code points the step consumed
(`span`), `found` as used for the `pos/line/col` arithmetic (`span` plus a completion, :207/:216/:249), and
whether the tuple is yielded (comment filter, :255-258). -/
structure Item where
  typ : String
  value : Cps
  line : Nat
  col : Nat
  span : Cps
  found : Cps
  emit : Bool
deriving Repr, BEq, DecidableEq

inductive Stop where
  | done (line col : Nat)      -- the `while` loop ended; `line`/`col` as left by the last step
  | stuck (rest : Cps)         -- Python never terminates (no production matches / empty match)
  | raised (rest : Cps)        -- an exception propagates (ValueError / IndexError)
  | noFuel (rest : Cps)        -- artefact of the fuelled recursion (`tokenize_noFuel`: never)
deriving Repr, BEq, DecidableEq

def Stop.rest : Stop → Cps
  | .done _ _ => []
  | .stuck r => r
  | .raised r => r
  | .noFuel r => r

structure Res where
  items : List Item
  stop : Stop
deriving Repr, BEq, DecidableEq

def Res.cons (it : Item) (r : Res) : Res := ⟨it :: r.items, r.stop⟩

/-- :260-266 `pos += len(found)` is the caller's `drop`; this is the line/col part -/
def advance (line col : Nat) (found : Cps) : Nat × Nat :=
  if found.count 10 ≠ 0 then
    (line + found.count 10, (found.reverse.takeWhile (· != 10)).length + 1)   -- len(found[found.rfind('\n'):])
  else (line, col + found.length)

/-! ## the production scan (:174-202) -/

inductive Scan where
  | nomatch                           -- the `for` ran to its end without `break`
  | comment (v : Cps)                 -- :176-183 unterminated comment completed (full sheet)
  | hit (name : String) (l : Nat)     -- production `name` matched `l` code points at `pos`
deriving Repr, BEq, DecidableEq

/-- :196-202 an IDENT directly followed by `(` is skipped so that FUNCTION takes over — except `and` -/
def identContinue (name : String) (s : Cps) (l : Nat) : Bool :=
  name == "IDENT" && pyLower (s.take l) != andWord && decide (l < s.length) && s[l]? == some 40

def scan (full doC : Bool) (s : Cps) : List (String × Re) → Scan
  | [] => .nomatch
  | (name, r) :: ps =>
    if full && name == "CHAR" && hasAt s commentOpen                       -- :176
        && (commentRe.first (s ++ commentClose)).isSome && doC then        -- :178-180
      .comment (s ++ commentClose)                                         -- :181-183
    else match r.first s with                                              -- :185
      | none => scan full doC s ps
      | some l => if identContinue name s l then scan full doC s ps else .hit name l

/-- :212-217 `for end in ("')", '")', ')')` -/
def tryEnds (s : Cps) : List Cps → Option Cps
  | [] => none
  | e :: es =>
    match uriRe.first (s ++ e) with
    | some l => some ((s ++ e).take l)
    | none => tryEnds s es

structure NF where
  name : String
  found : Cps
deriving Repr, BEq, DecidableEq

/-- :203-217 full-sheet completion; `none` = exception -/
def complete (full : Bool) (s : Cps) (name : String) (found : Cps) : Option NF :=
  if full then
    if name == "INVALID" && s == found then                                -- :205 suffix_eq
      match found with
      | q :: _ => some ⟨"STRING", found ++ [q]⟩                            -- :207
      | [] => none                                                         -- found[0]
    else if name == "FUNCTION" then                                        -- :209
      match normalizeU found with
      | none => none
      | some n =>
        if n == urlFn then
          match tryEnds s uriEnds with
          | some u => some ⟨"URI", u⟩                                       -- :216
          | none => some ⟨name, found⟩
        else some ⟨name, found⟩
    else some ⟨name, found⟩
  else some ⟨name, found⟩

structure NVF where
  name : String
  value : Cps
  found : Cps
deriving Repr, BEq, DecidableEq

/-- :219-253 value of the token (`s` = text from `pos` on); `none` = exception -/
def valueOf (s : Cps) (name : String) (found : Cps) : Option NVF :=
  if unescTypes.contains name then                                         -- :219-228
    if cleanTypes.contains name then                                       -- :232 STRING, INVALID, URI
      match subS found with                                                -- :234
      | none => none
      | some v => some ⟨name, v, found⟩
    else
      match subU found with                                                -- :236
      | none => none
      | some v => some ⟨name, v, found⟩
  else if name == "ATKEYWORD" then                                         -- :238
    match normalizeU found with                                            -- :241
    | none => none
    | some k =>
      match atkeywords.lookup k with
      | some sym => some ⟨sym, found, found⟩
      | none =>                                                            -- :242 KeyError
        if found == charsetKw && hasAt (s.drop found.length) charsetSep then   -- :244-246
          some ⟨charsetSym, found ++ charsetSep, found ++ charsetSep⟩      -- :248-249
        else some ⟨"ATKEYWORD", found, found⟩                              -- :251
  else some ⟨name, found, found⟩                                           -- :253

/-! ## the main loop (:161-270) -/

def loop (full doC : Bool) : Nat → Cps → Nat → Nat → Res
  | 0, s, _, _ => ⟨[], .noFuel s⟩
  | _ + 1, [], line, col => ⟨[], .done line col⟩                            -- :161
  | fuel + 1, c :: t, line, col =>
    if fastChars.contains c then                                           -- :167-170
      Res.cons ⟨"CHAR", [c], line, col, [c], [c], true⟩ (loop full doC fuel t line (col + 1))
    else
      match scan full doC (c :: t) productions with
      | .nomatch => ⟨[], .stuck (c :: t)⟩
      | .comment v =>                                                      -- :181-183 `pos = _len_text`, no line/col update
        ⟨[⟨"COMMENT", v, line, col, c :: t, v, true⟩], .done line col⟩
      | .hit name l =>
        match complete full (c :: t) name ((c :: t).take l) with
        | none => ⟨[], .raised (c :: t)⟩
        | some nf =>
          match valueOf (c :: t) nf.name nf.found with
          | none => ⟨[], .raised (c :: t)⟩
          | some x =>
            if x.found.length = 0 then ⟨[], .stuck (c :: t)⟩               -- `pos += 0`: spins for ever
            else
              Res.cons ⟨x.name, x.value, line, col, (c :: t).take x.found.length, x.found,
                        doC || x.name != "COMMENT"⟩                        -- :255-258
                (loop full doC fuel ((c :: t).drop x.found.length)          -- :260
                  (advance line col x.found).1 (advance line col x.found).2)  -- :261-266

/-- text after the BOM (:144-149) -/
def afterBom (text : Cps) : Cps :=
  match bomRe.first text with
  | some l => text.drop l
  | none => text

def bomItems (text : Cps) : List Item :=
  match bomRe.first text with
  | some l => [⟨bomName, text.take l, 1, 1, text.take l, text.take l, true⟩]   -- :148 (col is not advanced)
  | none => []

/-- :152-156 -/
def charsetItems (s1 : Cps) : List Item :=
  if hasAt s1 charsetStart then [⟨charsetSym, charsetStart, 1, 1, charsetStart, charsetStart, true⟩] else []

def afterCharset (s1 : Cps) : Cps := if hasAt s1 charsetStart then s1.drop charsetStart.length else s1

def startCol (s1 : Cps) : Nat := if hasAt s1 charsetStart then 1 + charsetStart.length else 1

def eofItems (full : Bool) : Stop → List Item
  | .done line col => if full then [⟨"EOF", [], line, col, [], [], true⟩] else []   -- :272-273
  | _ => []

/-- the `while` loop (:161-270) on the text after BOM and `@charset ` -/
def mainLoop (text : Cps) (full doC : Bool) : Res :=
  loop full doC ((afterCharset (afterBom text)).length + 1) (afterCharset (afterBom text)) 1 (startCol (afterBom text))

/-- everything after the BOM token and before the end marker -/
def body (text : Cps) (full doC : Bool) : List Item :=
  charsetItems (afterBom text) ++ (mainLoop text full doC).items

/-- `Tokenizer(doComments=doC).tokenize(text, fullsheet=full)` -/
def tokenize (text : Cps) (full doC : Bool) : Res :=
  ⟨bomItems text ++ body text full doC ++ eofItems full (mainLoop text full doC).stop, (mainLoop text full doC).stop⟩

/-- the yielded tuples -/
def Res.tokens (r : Res) : List Item := r.items.filter (·.emit)

/-! ## error reports (`errorhandler.py:87-103`) -/

def natDec (n : Nat) : Cps := (Nat.toDigits 10 n).map Char.toNat

structure Report where
  msg : Cps
  line : Option Nat
  col : Option Nat
deriving Repr, BEq, DecidableEq

/-- `_ErrorHandler.__handle(msg, token)`: message suffix `[line:col: value]` and the `line`/`col` attributes
set on the exception (errorhandler.py:87-93, :100-103) -/
def report (msg : Cps) (token : Option Item) : Report :=
  match token with
  | none => ⟨msg, none, none⟩
  | some t =>
    ⟨msg ++ [32, 91] ++ natDec t.line ++ [58] ++ natDec t.col ++ [58, 32] ++ t.value ++ [93], some t.line, some t.col⟩

end CssVerif.Tok
