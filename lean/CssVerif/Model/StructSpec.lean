import CssVerif.Model.Struct
/-!
# K2 `Struct`, specification vocabulary (executable, core Lean only)

The bracket structure the theorems of C04 speak about — `nest`, `Balanced`, `Quiet`, `startStack` … —
classified exactly as `_tokensupto2` does it (by token VALUE, FUNCTION opens a parenthesis).  Moved here from
`Lemmas/Struct.lean` unchanged so that the driver can evaluate the hypotheses of the truncation theorems on
real token lists (`Model/StructCut.lean`).
-/
namespace CssVerif.Struct
open CssVerif.Proto (Cps)

/-- the three kinds of brackets -/
inductive K where | brace | bracket | paren
  deriving DecidableEq, Repr

/-- how `_tokensupto2` classifies a token read from the tokenizer (by VALUE, then type FUNCTION) -/
inductive Br where
  | op (k : K) | cl (k : K) | no
  deriving DecidableEq, Repr

def Tok.br (t : Tok) : Br :=
  if t.val = vLBrace then .op .brace
  else if t.val = vRBrace then .cl .brace
  else if t.val = vLBrack then .op .bracket
  else if t.val = vRBrack then .cl .bracket
  else if t.val = vLParen ∨ t.typ = .function then .op .paren
  else if t.val = vRParen then .cl .paren
  else .no

/-- one step of the bracket stack; `none` = a closing bracket that does not match -/
def push (stk : List K) (t : Tok) : Option (List K) :=
  match t.br with
  | .op k => some (k :: stk)
  | .cl k =>
    match stk with
    | k' :: s => if k = k' then some s else none
    | [] => none
  | .no => some stk

/-- run the bracket stack over a token list -/
def nest : List K → List Tok → Option (List K)
  | stk, [] => some stk
  | stk, t :: ts =>
    match push stk t with
    | none => none
    | some s => nest s ts

/-- brackets, braces and parentheses (a FUNCTION token opens one) are properly nested and all closed -/
def Balanced (g : List Tok) : Prop := nest [] g = some []

instance (g : List Tok) : Decidable (Balanced g) := by unfold Balanced; infer_instance

def Cnt.inc (c : Cnt) : K → Cnt
  | .brace => { c with brace := c.brace + 1 }
  | .bracket => { c with bracket := c.bracket + 1 }
  | .paren => { c with parant := c.parant + 1 }

def Cnt.dec (c : Cnt) : K → Cnt
  | .brace => { c with brace := c.brace - 1 }
  | .bracket => { c with bracket := c.bracket - 1 }
  | .paren => { c with parant := c.parant - 1 }

/-- the counters that correspond to a stack of open brackets, on top of `c₀` -/
def cntFrom (c₀ : Cnt) : List K → Cnt
  | [] => c₀
  | k :: s => (cntFrom c₀ s).inc k

def zeroCnt : Cnt := ⟨0, 0, 0⟩


/-- from stack `stk`: well nested, no EOF, and the loop (counters `cntFrom c₀ ·`) never stops inside -/
def calm (m : Mode) (c₀ : Cnt) : List K → List Tok → Bool
  | _, [] => true
  | stk, t :: ts =>
    match push stk t with
    | none => false
    | some s => t.typ != .eof && !(stop m (cntFrom c₀ s) t) && calm m c₀ s ts

/-- from stack `stk`: well nested, no EOF, no end token of mode `m` at nesting depth 0 -/
def Quiet (m : Mode) : List K → List Tok → Bool
  | _, [] => true
  | stk, t :: ts =>
    match push stk t with
    | none => false
    | some s => t.typ != .eof && !(s.isEmpty && endTok m t) && Quiet m s ts

/-- no EOF token -/
def noEof (g : List Tok) : Bool := g.all (fun t => t.typ != .eof)

/-- the opening bracket a START token contributes (`util.py:341-349`) -/
def Tok.startOpen (t : Tok) : Option K :=
  if t.val = vLBrack then some .bracket
  else if t.val = vLBrace then some .brace
  else if t.val = vLParen ∨ t.typ = .function then some .paren
  else none

/-- the stack a start token leaves -/
def startStack (t : Tok) : List K :=
  match t.startOpen with
  | some k => [k]
  | none => []

/-- no token that `_tokensupto2` would count as a brace -/
def noBrace (g : List Tok) : Bool := g.all (fun t => t.br != .op .brace && t.br != .cl .brace)

/-- the token starts a `ruleset` (the default production of the sheet) -/
def startsRuleset (t : Tok) : Bool :=
  match t.typ with
  | .s | .cdo | .cdc | .comment | .eof | .charsetSym | .importSym | .namespaceSym | .variablesSym
  | .fontFaceSym | .mediaSym | .pageSym | .atkeyword => false
  | _ => true

end CssVerif.Struct
