import CssVerif.Model.Profiles
/-!
# K5b — which macros a pattern uses, and the rank of a macro (termination of `_expand_macros`)

`_expand_macros` (`cssutils/profiles.py:182-194`) repeats `re.sub(r'{(?P<macro>[a-z][a-z0-9-]*)}', …)` while
`re.search(r'{[a-z][a-z0-9-]*}', value)` finds something; Python has no bound on the number of passes. The number
of passes is bounded when the macro set has no cycle: give every macro name a *rank* — 0 for an undefined name or a
body without placeholders, else one more than the highest rank among the names its body uses — and each pass lowers
the highest rank present in the value.

This file has the executable parts (used by the driver and by the kernel on the regenerated tables):
`phNames` (= `re.findall` of the placeholder pattern), `rankOf` / `acyclicB` (the ranks exist), `closedB` /
`propsClosedB` (no undefined macro), `passCount` (how many passes the loop makes). The theorems are in
`Lemmas/MacroRank.lean`.
-/
namespace CssVerif.Profiles

/-- the names of the placeholders of a token list, in order -/
def segNames : List Seg → List Str
  | [] => []
  | .ch _ :: t => segNames t
  | .ph n :: t => n :: segNames t

/-- `re.findall(r'{([a-z][a-z0-9-]*)}', s)` -/
def phNames (s : Str) : List Str := segNames (toks none s)

/-- one more than the highest of the ranks of the names, `none` if one of them has none -/
def maxRank (rk : Str → Option Nat) : List Str → Option Nat
  | [] => some 0
  | n :: t => match rk n, maxRank rk t with
      | some a, some b => some (max (a + 1) b)
      | _, _ => none

/-- the rank of a macro name, searched to depth `fuel`: an undefined name and a body without placeholders have
rank 0, otherwise one more than the highest rank among the names used by the body; `none`: deeper than `fuel` -/
def rankOf (m : Dict Str) : Nat → Str → Option Nat
  | 0, _ => none
  | f + 1, k => match dget m k with
      | none => some 0
      | some body => maxRank (rankOf m f) (phNames body)

/-- every defined macro has a rank within depth `|m| + 1` (a chain of distinct defined names is no longer than `|m|`) -/
def acyclicB (m : Dict Str) : Bool := (dkeys m).all fun k => (rankOf m (m.length + 1) k).isSome

/-- the rank function the check found -/
def rankFn (m : Dict Str) (k : Str) : Nat := (rankOf m (m.length + 1) k).getD 0

def depthL (rk : Str → Nat) (l : List Str) : Nat := l.foldr (fun n a => max (rk n + 1) a) 0

/-- one more than the highest rank among the placeholders of the text; 0 for a text without placeholders: the
bound on the number of passes (`C14.passes_bounded`) -/
def depth (rk : Str → Nat) (s : Str) : Nat := depthL rk (phNames s)

/-- every entry of the table (shadowed ones too) uses lower-ranked macros only -/
def rankedAllB (rk : Str → Nat) (m : Dict Str) : Bool := m.all fun kv => (phNames kv.2).all fun n => rk n < rk kv.1

/-- every macro used by a body is defined -/
def closedB (m : Dict Str) : Bool := m.all fun kv => (phNames kv.2).all fun n => (dget m n).isSome

/-- every macro used by a property definition is defined (callables use none) -/
def propsClosedB (m : Dict Str) (d : Dict PVal) : Bool := d.all fun kv =>
  match kv.2 with
  | .pat s => (phNames s).all fun n => (dget m n).isSome
  | .fn _ => true

/-- the macro is defined, and so is every macro its body uses, and so on, to depth `fuel` (no cycle on the way) -/
def definedDeep (m : Dict Str) : Nat → Str → Bool
  | 0, _ => false
  | f + 1, k => match dget m k with
      | none => false
      | some body => (phNames body).all (definedDeep m f)

/-- every macro a property definition uses is defined to depth `fuel` -/
def propsDeepB (m : Dict Str) (fuel : Nat) (d : Dict PVal) : Bool := d.all fun kv =>
  match kv.2 with
  | .pat s => (phNames s).all (definedDeep m fuel)
  | .fn _ => true

/-- the number of passes of the `while` loop of line 190 (`re.sub` calls), same shape as `expandValue` -/
def passCount (m : Dict Str) : Nat → Str → Except Exc Nat
  | 0, v => if hasPh v then .error .diverges else .ok 0
  | f + 1, v =>
    if hasPh v then
      match subPass m v with
      | .ok v' => match passCount m f v' with
          | .ok n => .ok (n + 1)
          | .error e => .error e
      | .error e => .error e
    else .ok 0

end CssVerif.Profiles
