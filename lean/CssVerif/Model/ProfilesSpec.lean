import CssVerif.Model.Profiles
/-!
# K5c — the registry as an explicit function of its contents

`specReg cfg c d`: the registry computed from a list of entries (name, raw property table, macros) and a
`defaultProfiles` value alone: macro environment = base macros updated with the entries' macros in order
(`_resetProperties`, `profiles.py:250-257`), compiled table = every raw table expanded under that environment and
compiled (`profiles.py:262-269`), `knownNames` derived from it (`profiles.py:209-212`). `C14.answers_from_contents`:
a registry reached by any history cannot be told from `specReg` of its contents. The driver request `spec` evaluates
it on contents that the harness tracks by the documented meaning of the operations, and the result is compared with
what the implementation shows after the history.
-/
namespace CssVerif.Profiles

/-- name, raw property definitions, macros -/
abbrev SEntry := Str × Dict PVal × Dict Str

/-- the macro environment the contents denote -/
def specEnv (cfg : Cfg) (c : List SEntry) : Dict Str := c.foldl (fun m e => dupdate m e.2.2) cfg.base

/-- one compiled table: the raw definitions expanded under the environment of ALL entries (nothing when the
expansion fails — the invariant excludes that) -/
def specTable (cfg : Cfg) (env : Dict Str) (props : Dict PVal) : Dict CVal :=
  match expandDict cfg.fuel env props with
  | .ok ex => compileDict ex
  | .error _ => []

/-- `_profilesProperties` from the contents -/
def specCompiled (cfg : Cfg) (c : List SEntry) : Dict (Dict CVal) :=
  c.map fun e => (e.1, specTable cfg (specEnv cfg c) e.2.1)

/-- the registry the contents denote -/
def specReg (cfg : Cfg) (c : List SEntry) (d : Option (List Str)) : Reg :=
  { used := specEnv cfg c,
    names := c.map (·.1),
    raw := c.map fun e => (e.1, { props := some e.2.1, macros := e.2.2 }),
    compiled := specCompiled cfg c,
    default := d,
    known := knownOf (specCompiled cfg c) }

end CssVerif.Profiles
