/-!
# K7 effect scripts — the mutator discipline behind C11 ("a rejected DOM mutation changes nothing")

Every public mutator of the cssutils DOM (`cssText` setters, `insertRule`, `setProperty`, …) is
abstracted to an *effect script*: a small structured program over the persistent attributes
("fields") of the object operated on.  The scripts themselves are not written by hand: they are
extracted from the Python AST of the current source by `tools/gen/c11_scripts.py` into
`Gen/C11Scripts.lean`.  This file defines the script language, its executable semantics `run`
(the thing the theorems quantify over: *every* sequence of sub-parser verdicts / branch decisions)
and a static analysis `post` whose verdict `Disciplined` is decidable.

What the primitives stand for (Python side, see the extractor for the exact syntactic shapes):

* `assign f`    `self.f = <new object>`
* `mutate f`    in-place change of the object held by `self.f` (`self.f.append(x)`, `del self.f[i]`,
                a child setter that succeeded, …).  A reference saved earlier to the *same* object
                sees the change (aliasing), so it is no longer a valid backup.
* `save f`      `old = self.f`   (one backup slot per field)
* `restore f`   `self.f = old`
* `saveC f`     `old = list(self.f)` / `old = self.f.cssText`: a *copy* of the content, which later in-place changes
                of `self.f` do not reach
* `restoreC f`  `del self.f[:]; list.extend(self.f, old)` / `self.f.cssText = old`: the content is put back
* `guard`       `self._checkReadonly()` (`util.py:36`): raises NoModificationAllowedErr iff read-only
* `raise`       `self._log.error(...)` without `neverraise` while `cssutils.log.raiseExceptions` is on
                (`errorhandler.py:95-103`), or a literal `raise xml.dom.X`
* `mayRaise`    a sub-parser / child constructor / child setter working on the *new* content: raises or
                not — decided by the outcome sequence
* `choice`, `loop body els` (Python `for/while … else`), `havoc` take their decision from the outcome sequence as well
* `setFlag/ifFlag` local boolean flags such as `wellformed` in `CSSStyleSheet._setCssText`
* `tryCatch b h`   `try: b  except xml.dom.DOMException: h`
* `tryFinally b f` `try: b  finally: f`
* `scope b`     an inlined call of another method on `self` (`return` inside ends the call only)
* `call f`      a public mutator of the *child object* held in field `f` (or of an element of the child collection
                held there) is called on new content: `self.f.cssText = x`, `self.f.appendSelector(x)` where the
                class of the child is not known to the extractor. What the call does is decided by a **handler**:
                the modular semantics `run` uses the contract "raises with the child unchanged, or changes the
                child" (`Handler.shallow`); the ownership-tree semantics (`Model/MutatorTree.lean`) really runs a
                script of the child and reports what happened — including "raised *and* changed the child"
* `mark n`      trace event: the Python statement at line id `n` was started (used by the correspondence)
-/
namespace CssVerif.Mutators

abbrev Field := Nat
abbrev Flag := Nat

inductive Stmt where
  | skip
  | mark (n : Nat)
  | assign (f : Field)
  | mutate (f : Field)
  | save (f : Field)
  | restore (f : Field)
  | saveC (f : Field)
  | restoreC (f : Field)
  | guard
  | raise
  | mayRaise
  | ret
  | brk
  | cont
  | setFlag (b : Flag) (v : Bool)
  | havoc (b : Flag)
  | ifFlag (b : Flag) (t e : Stmt)
  | seq (a b : Stmt)
  | choice (a b : Stmt)
  | loop (body els : Stmt)
  | tryCatch (body handler : Stmt)
  | tryFinally (body fin : Stmt)
  | scope (body : Stmt)
  | call (f : Field)
  deriving Repr, DecidableEq, Inhabited

/-- `seqs [a, b, c] = seq a (seq b c)` (generated scripts use this to stay flat) -/
def seqs : List Stmt → Stmt
  | [] => .skip
  | [a] => a
  | a :: r => .seq a (seqs r)

/-- n-ary choice -/
def choices : List Stmt → Stmt
  | [] => .skip
  | [a] => a
  | a :: r => .choice a (choices r)

/-- How a statement ends. `roExc` is the NoModificationAllowedErr of the read-only guard, `exc` any other
DOM exception, `stuck` = the interpreter ran out of fuel (never a verdict). -/
inductive Exit where
  | norm | ret | brk | cont | exc | roExc | stuck
  deriving Repr, DecidableEq, Inhabited

/-- Concrete state. Values are object versions (`Nat`); `next` is larger than every value handed out so far,
so `assign`/`mutate` always produce a value different from all earlier ones. -/
structure St where
  cur : Field → Nat
  saved : Field → Nat
  copies : Field → Nat
  flags : Flag → Bool
  readonly : Bool
  next : Nat
  trace : List Nat      -- marks, most recent first

def St.setCur (s : St) (f : Field) (v : Nat) : St :=
  { s with cur := fun g => if g = f then v else s.cur g }

def St.setSaved (s : St) (f : Field) (v : Nat) : St :=
  { s with saved := fun g => if g = f then v else s.saved g }

def St.setFlag (s : St) (b : Flag) (v : Bool) : St :=
  { s with flags := fun c => if c = b then v else s.flags c }

/-- `self.f = <new object>` -/
def St.assign (s : St) (f : Field) : St :=
  { (s.setCur f s.next) with next := s.next + 1 }

/-- in-place change of the object in `f`; a backup that aliases the same object changes with it -/
def St.mutate (s : St) (f : Field) : St :=
  let s1 := if s.saved f = s.cur f then s.setSaved f s.next else s
  { (s1.setCur f s.next) with next := s.next + 1 }

/-- well-formed state: the version counter is above every version held by a field -/
def St.WF (st : St) : Prop := ∀ f, st.cur f < st.next

/-- Outcomes: the verdicts of sub-parsers and all branch decisions, consumed left to right.
An exhausted sequence answers `false` (= "does not raise", "else branch", "leave the loop"). -/
abbrev Outcomes := List Bool

def nextOutcome (os : Outcomes) : Bool × Outcomes :=
  match os with
  | [] => (false, [])
  | o :: r => (o, r)

structure Res where
  exit : Exit
  st : St
  os : Outcomes

/-- What a call of a mutator of the child object held in a field reports back to the calling script. -/
structure CallRes where
  raised : Bool     -- the child's mutator ended with a DOM exception
  changed : Bool    -- some observable field of the child no longer holds the value it had before the call
  stuck : Bool      -- the interpreter ran out of fuel / ownership depth inside the child (never a verdict)
  os : Outcomes     -- outcomes left

/-- How child calls are answered: fuel, field, the version the field holds (it identifies the child), outcomes. -/
abbrev Handler := Nat → Field → Nat → Outcomes → CallRes

/-- The contract the modular (one object at a time) semantics assumes of every child mutator: it either raises
with the child unchanged or changes the child; which of the two is decided by the outcome sequence. -/
def Handler.shallow : Handler := fun _ _ _ os =>
  let o := nextOutcome os
  ⟨o.1, !o.1, false, o.2⟩

/-- a handler is *atomic* if a call that raises never reports a changed child -/
def Handler.Atomic (h : Handler) : Prop :=
  ∀ fuel f v os, (h fuel f v os).raised = true → (h fuel f v os).changed = false

/-- The interpreter, generic in the handler that answers child calls. `fuel` bounds the number of loop
iterations + nesting; every finite execution is covered by some fuel, and the theorems hold for all fuel. -/
def runG (H : Handler) (fuel : Nat) (sc : Stmt) (st : St) (os : Outcomes) : Res :=
  match fuel with
  | 0 => ⟨.stuck, st, os⟩
  | fuel + 1 =>
    match sc with
    | .skip => ⟨.norm, st, os⟩
    | .mark n => ⟨.norm, { st with trace := n :: st.trace }, os⟩
    | .assign f => ⟨.norm, st.assign f, os⟩
    | .mutate f => ⟨.norm, st.mutate f, os⟩
    | .save f => ⟨.norm, st.setSaved f (st.cur f), os⟩
    | .restore f => ⟨.norm, st.setCur f (st.saved f), os⟩
    | .saveC f => ⟨.norm, { st with copies := fun g => if g = f then st.cur f else st.copies g }, os⟩
    | .restoreC f => ⟨.norm, st.setCur f (st.copies f), os⟩
    | .guard => if st.readonly then ⟨.roExc, st, os⟩ else ⟨.norm, st, os⟩
    | .raise => ⟨.exc, st, os⟩
    | .mayRaise =>
      let o := nextOutcome os
      if o.1 then ⟨.exc, st, o.2⟩ else ⟨.norm, st, o.2⟩
    | .ret => ⟨.ret, st, os⟩
    | .brk => ⟨.brk, st, os⟩
    | .cont => ⟨.cont, st, os⟩
    | .setFlag b v => ⟨.norm, st.setFlag b v, os⟩
    | .havoc b =>
      let o := nextOutcome os
      ⟨.norm, st.setFlag b o.1, o.2⟩
    | .ifFlag b t e => if st.flags b then runG H fuel t st os else runG H fuel e st os
    | .seq a b =>
      let r := runG H fuel a st os
      match r.exit with
      | .norm => runG H fuel b r.st r.os
      | _ => r
    | .choice a b =>
      let o := nextOutcome os
      if o.1 then runG H fuel a st o.2 else runG H fuel b st o.2
    | .loop body els =>
      let o := nextOutcome os
      if o.1 then
        let r := runG H fuel body st o.2
        match r.exit with
        | .norm => runG H fuel (.loop body els) r.st r.os
        | .cont => runG H fuel (.loop body els) r.st r.os
        | .brk => ⟨.norm, r.st, r.os⟩
        | _ => r
      else runG H fuel els st o.2
    | .tryCatch body h =>
      let r := runG H fuel body st os
      match r.exit with
      | .exc => runG H fuel h r.st r.os
      | .roExc => runG H fuel h r.st r.os
      | _ => r
    | .tryFinally body fin =>
      let r := runG H fuel body st os
      match r.exit with
      | .stuck => r
      | _ =>
        let r2 := runG H fuel fin r.st r.os
        match r2.exit with
        | .norm => ⟨r.exit, r2.st, r2.os⟩
        | _ => r2
    | .scope body =>
      let r := runG H fuel body st os
      match r.exit with
      | .ret => ⟨.norm, r.st, r.os⟩
      | _ => r
    | .call f =>
      -- the child is in place whether it raises or not; the field's content changes iff the child changed
      let c := H fuel f (st.cur f) os
      if c.stuck then ⟨.stuck, st, c.os⟩
      else if c.raised then ⟨.exc, if c.changed then st.mutate f else st, c.os⟩
      else ⟨.norm, st.mutate f, c.os⟩

/-- The modular interpreter the C11 theorems of the first rounds are about and the driver runs: child calls
answered by the contract `Handler.shallow` (`call f` then behaves exactly like `mayRaise; mutate f`). -/
def run (fuel : Nat) (sc : Stmt) (st : St) (os : Outcomes) : Res := runG Handler.shallow fuel sc st os

/-! ## The static discipline

A forward *must* analysis, disjunctive: a set of abstract states describes the ways the concrete state may relate
to the state at entry. One abstract state lists the fields that are certainly unchanged w.r.t. entry (`clean`),
the fields whose backup slot / content copy certainly holds the entry value (`valid` / `cvalid`), the fields that
certainly hold an object created after entry (`fresh`), and the local flags whose value is certainly known.
Keeping the states of different paths apart (instead of intersecting them) keeps the correlation between a flag
such as `wellformed` and what has been changed. -/

structure Abs where
  clean : List Field            -- certainly holds its entry value
  valid : List Field            -- the backup slot certainly holds the entry value of the field
  cvalid : List Field           -- the content copy certainly holds the entry value of the field
  fresh : List Field            -- certainly holds an object created after entry (so no backup aliases it)
  known : List (Flag × Bool)
  nro : Bool                    -- the read-only guard has been passed: the object is certainly not read-only
  isro : Bool                   -- the object is certainly read-only (entry assumption of the T11.3 analysis)
  deriving Repr, DecidableEq, Inhabited

/-- `a ⊑ b`: everything `a` claims, `b` claims too (so `a` is the weaker, safer description) -/
def Abs.le (a b : Abs) : Bool :=
  a.clean.all (· ∈ b.clean) && a.valid.all (· ∈ b.valid) && a.cvalid.all (· ∈ b.cvalid) &&
  a.fresh.all (· ∈ b.fresh) &&
  a.known.all (· ∈ b.known) && (!a.nro || b.nro) && (!a.isro || b.isro)

def Abs.bot : Abs := ⟨[], [], [], [], [], false, false⟩

abbrev AbsSet := List Abs

def AbsSet.union (a b : AbsSet) : AbsSet := a ++ b.filter (· ∉ a)

/-- some member of `I` is a weaker description than `x` -/
def AbsSet.covers (I : AbsSet) (x : Abs) : Bool := I.any (·.le x)

def AbsSet.coversAll (I X : AbsSet) : Bool := X.all (I.covers ·)

/-- abstract result: for every way of ending, the abstract states possible then (`[]` = cannot end this way) -/
structure Post where
  norm : AbsSet := []
  ret : AbsSet := []
  brk : AbsSet := []
  cont : AbsSet := []
  exc : AbsSet := []
  roExc : AbsSet := []
  deriving Repr, DecidableEq, Inhabited

def Post.join (p q : Post) : Post :=
  ⟨p.norm.union q.norm, p.ret.union q.ret, p.brk.union q.brk, p.cont.union q.cont, p.exc.union q.exc,
   p.roExc.union q.roExc⟩

/-- component of a post for a way of ending -/
def Post.get (p : Post) : Exit → AbsSet
  | .norm => p.norm | .ret => p.ret | .brk => p.brk | .cont => p.cont | .exc => p.exc | .roExc => p.roExc
  | .stuck => []

/-- add `o` to the component of `q` that belongs to the way of ending `k` -/
def Post.put (q : Post) (k : Exit) (o : AbsSet) : Post :=
  match k with
  | .norm => { q with norm := q.norm.union o }
  | .ret => { q with ret := q.ret.union o }
  | .brk => { q with brk := q.brk.union o }
  | .cont => { q with cont := q.cont.union o }
  | .exc => { q with exc := q.exc.union o }
  | .roExc => { q with roExc := q.roExc.union o }
  | .stuck => q

/-- continue with `f` from every state of `A` -/
def bindAll (f : Abs → Post) : AbsSet → Post
  | [] => {}
  | a :: r => (f a).join (bindAll f r)

def Abs.flagVal (a : Abs) (b : Flag) : Option Bool :=
  if (b, true) ∈ a.known then some true else if (b, false) ∈ a.known then some false else none

def Abs.dropFlag (a : Abs) (b : Flag) : Abs := { a with known := a.known.filter (·.1 ≠ b) }

def Abs.setFlag (a : Abs) (b : Flag) (v : Bool) : Abs :=
  { a with known := (b, v) :: (a.dropFlag b).known }

/-- `finally`: entered from the body's exit `k` in the abstract states `A`; if the `finally` block ends normally
the original way of ending `k` is resumed, otherwise the block's own way of ending wins (Python semantics) -/
def finThru (pf : Abs → Post) (k : Exit) : AbsSet → Post
  | [] => {}
  | x :: r => (let q := pf x; Post.put { q with norm := [] } k q.norm).join (finThru pf k r)

/-- candidate loop invariant: add the states reached at the end of an iteration until nothing new appears -/
def loopInv (body : Abs → Post) (I : AbsSet) : Nat → AbsSet
  | 0 => I
  | n + 1 =>
    let p := bindAll body I
    let new := (p.norm.union p.cont).filter fun x => !I.covers x
    if new.isEmpty then I else loopInv body (I ++ new) n

def invStable (body : Abs → Post) (I : AbsSet) : Bool :=
  let p := bindAll body I
  I.coversAll p.norm && I.coversAll p.cont

def post (sc : Stmt) (a : Abs) : Post :=
  match sc with
  | .skip => { norm := [a] }
  | .mark _ => { norm := [a] }
  | .assign f => { norm := [{ a with clean := a.clean.filter (· ≠ f), fresh := f :: a.fresh }] }
  | .mutate f =>
    { norm := [{ a with clean := a.clean.filter (· ≠ f),
                        valid := if f ∈ a.fresh then a.valid else a.valid.filter (· ≠ f),
                        fresh := f :: a.fresh }] }
  | .save f =>
    { norm := [{ a with valid := if f ∈ a.clean then f :: a.valid else a.valid.filter (· ≠ f) }] }
  | .restore f =>
    { norm := [{ a with clean := if f ∈ a.valid then f :: a.clean else a.clean.filter (· ≠ f),
                        fresh := a.fresh.filter (· ≠ f) }] }
  | .saveC f =>
    { norm := [{ a with cvalid := if f ∈ a.clean then f :: a.cvalid else a.cvalid.filter (· ≠ f) }] }
  | .restoreC f =>
    { norm := [{ a with clean := if f ∈ a.cvalid then f :: a.clean else a.clean.filter (· ≠ f),
                        fresh := a.fresh.filter (· ≠ f) }] }
  | .guard =>
    if a.isro then { roExc := [a] }
    else if a.nro then { norm := [a] } else { norm := [{ a with nro := true }], roExc := [a] }
  | .raise => { exc := [a] }
  | .mayRaise => { norm := [a], exc := [a] }
  | .ret => { ret := [a] }
  | .brk => { brk := [a] }
  | .cont => { cont := [a] }
  | .setFlag b v => { norm := [a.setFlag b v] }
  | .havoc b => { norm := [a.dropFlag b] }
  | .ifFlag b t e =>
    match a.flagVal b with
    | some true => post t a
    | some false => post e a
    | none => (post t (a.setFlag b true)).join (post e (a.setFlag b false))
  | .seq s t =>
    let p := post s a
    Post.join { p with norm := [] } (bindAll (post t) p.norm)
  | .choice s t => (post s a).join (post t a)
  | .loop body els =>
    let I0 := loopInv (post body) [a] 6
    let I := if I0.covers a && invStable (post body) I0 then I0 else [Abs.bot]
    let p := bindAll (post body) I
    -- the loop ends through `break` (normally, `else` skipped) or, from the invariant, by exhaustion: `else` runs
    Post.join { norm := p.brk, ret := p.ret, exc := p.exc, roExc := p.roExc } (bindAll (post els) I)
  | .tryCatch body h =>
    let p := post body a
    Post.join { p with exc := [], roExc := [] } (bindAll (post h) (p.exc.union p.roExc))
  | .tryFinally body fin =>
    let p := post body a
    (finThru (post fin) .norm p.norm).join <|
    (finThru (post fin) .ret p.ret).join <|
    (finThru (post fin) .brk p.brk).join <|
    (finThru (post fin) .cont p.cont).join <|
    (finThru (post fin) .exc p.exc).join <|
    (finThru (post fin) .roExc p.roExc)
  | .scope body =>
    let p := post body a
    { p with norm := p.norm.union p.ret, ret := [] }
  | .call f =>
    -- the contract of a child mutator: raises with the child (hence the field) unchanged, or changes the child
    { norm := [{ a with clean := a.clean.filter (· ≠ f),
                        valid := if f ∈ a.fresh then a.valid else a.valid.filter (· ≠ f),
                        fresh := f :: a.fresh }],
      exc := [a] }

/-- A mutator script over the fields `fs`. -/
structure Script where
  name : String
  fields : List Field
  body : Stmt
  deriving Repr, Inhabited

def Abs.entry (fs : List Field) : Abs := ⟨fs, [], [], [], [], false, false⟩

/-- entry state of a read-only object -/
def Abs.entryRO (fs : List Field) : Abs := ⟨fs, [], [], [], [], false, true⟩

/-- every field of the object is certainly unchanged -/
def Abs.allClean (fs : List Field) (a : Abs) : Bool := fs.all (· ∈ a.clean)

def okClean (fs : List Field) (o : AbsSet) : Bool := o.all (·.allClean fs)

/-- **The discipline**: on every path that ends with a DOM exception all fields are back at their entry
values; the read-only rejection happens with all fields untouched. Decidable: it is a computation. -/
def Disciplined (fs : List Field) (sc : Stmt) : Bool :=
  let p := post sc (Abs.entry fs)
  okClean fs p.exc && okClean fs p.roExc


/-- **Read-only safety**: started on a read-only object, no way of ending leaves a field changed. -/
def ReadonlySafe (fs : List Field) (sc : Stmt) : Bool :=
  let p := post sc (Abs.entryRO fs)
  okClean fs p.norm && okClean fs p.ret && okClean fs p.brk && okClean fs p.cont && okClean fs p.exc &&
  okClean fs p.roExc

/-- fields that a path ending with a DOM exception may leave changed (empty iff disciplined) — used to
name the culprit fields of an undisciplined script -/
def dirtyOnExc (fs : List Field) (sc : Stmt) : List Field :=
  let p := post sc (Abs.entry fs)
  fs.filter fun f => (p.exc.any fun a => f ∉ a.clean) || (p.roExc.any fun a => f ∉ a.clean)

/-- the read-only guard is the first thing the script does (syntactic) -/
def guardedFirst : Stmt → Bool
  | .guard => true
  | .seq (.mark _) b => guardedFirst b
  | .seq a _ => guardedFirst a
  | .scope a => guardedFirst a
  | _ => false

/-- initial concrete state for drivers/examples: field `f` holds version `f`, backups hold junk -/
def St.init (readonly : Bool) : St :=
  { cur := fun f => if f < 1000000 then f else 0, saved := fun _ => 1000000, copies := fun _ => 1000001, flags := fun _ => false, readonly := readonly,
    next := 2000000, trace := [] }

end CssVerif.Mutators
