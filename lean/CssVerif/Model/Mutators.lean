/-!
# K7 effect scripts — the mutator discipline behind C11 ("a rejected DOM mutation changes nothing")

Every public mutator of the cssutils DOM (`cssText` setters, `insertRule`, `setProperty`, …) is
abstracted to an *effect script*: a small structured program over the persistent attributes
("fields") of the object operated on.  The scripts themselves are not written by hand: they are
extracted from the Python AST of the current source by `tools/gen/c11_scripts.py` into
`Gen/C11Scripts.lean`.  This file defines the script language, its executable semantics `run`
(the thing the theorems quantify over: *every* sequence of sub-parser verdicts / branch decisions)
and a static analysis `post` whose verdict `Disciplined` is decidable.

What the primitives stand for (Python side, see the extractor for the exact syntactic shapes):

* `assign f`    `self.f = <new object>`
* `mutate f`    in-place change of the object held by `self.f` (`self.f.append(x)`, `del self.f[i]`,
                a child setter that succeeded, …).  A reference saved earlier to the *same* object
                sees the change (aliasing), so it is no longer a valid backup.
* `save f`      `old = self.f`   (one backup slot per field)
* `restore f`   `self.f = old`
* `saveC f`     `old = list(self.f)` / `old = self.f.cssText`: a *copy* of the content, which later in-place changes
                of `self.f` do not reach
* `restoreC f`  `del self.f[:]; list.extend(self.f, old)` / `self.f.cssText = old`: the content is put back
* `guard`       `self._checkReadonly()` (`util.py:36`): raises NoModificationAllowedErr iff read-only
* `raise`       `self._log.error(...)` without `neverraise` while `cssutils.log.raiseExceptions` is on
                (`errorhandler.py:95-103`), or a literal `raise xml.dom.X`
* `mayRaise`    a sub-parser / child constructor / child setter working on the *new* content: raises or
                not — decided by the outcome sequence
* `choice`, `loop body els` (Python `for/while … else`), `havoc` take their decision from the outcome sequence as well
* `setFlag/ifFlag` local boolean flags such as `wellformed` in `CSSStyleSheet._setCssText`
* `tryCatch b h`   `try: b  except xml.dom.DOMException: h`
* `tryFinally b f` `try: b  finally: f`
* `scope b`     an inlined call of another method on `self` (`return` inside ends the call only)
* `mark n`      trace event: the Python statement at line id `n` was started (used by the correspondence)
-/
namespace CssVerif.Mutators

abbrev Field := Nat
abbrev Flag := Nat

inductive Stmt where
  | skip
  | mark (n : Nat)
  | assign (f : Field)
  | mutate (f : Field)
  | save (f : Field)
  | restore (f : Field)
  | saveC (f : Field)
  | restoreC (f : Field)
  | guard
  | raise
  | mayRaise
  | ret
  | brk
  | cont
  | setFlag (b : Flag) (v : Bool)
  | havoc (b : Flag)
  | ifFlag (b : Flag) (t e : Stmt)
  | seq (a b : Stmt)
  | choice (a b : Stmt)
  | loop (body els : Stmt)
  | tryCatch (body handler : Stmt)
  | tryFinally (body fin : Stmt)
  | scope (body : Stmt)
  deriving Repr, DecidableEq, Inhabited

/-- `seqs [a, b, c] = seq a (seq b c)` (generated scripts use this to stay flat) -/
def seqs : List Stmt → Stmt
  | [] => .skip
  | [a] => a
  | a :: r => .seq a (seqs r)

/-- n-ary choice -/
def choices : List Stmt → Stmt
  | [] => .skip
  | [a] => a
  | a :: r => .choice a (choices r)

/-- How a statement ends. `roExc` is the NoModificationAllowedErr of the read-only guard, `exc` any other
DOM exception, `stuck` = the interpreter ran out of fuel (never a verdict). -/
inductive Exit where
  | norm | ret | brk | cont | exc | roExc | stuck
  deriving Repr, DecidableEq, Inhabited

/-- Concrete state. Values are object versions (`Nat`); `next` is larger than every value handed out so far,
so `assign`/`mutate` always produce a value different from all earlier ones. -/
structure St where
  cur : Field → Nat
  saved : Field → Nat
  copies : Field → Nat
  flags : Flag → Bool
  readonly : Bool
  next : Nat
  trace : List Nat      -- marks, most recent first

def St.setCur (s : St) (f : Field) (v : Nat) : St :=
  { s with cur := fun g => if g = f then v else s.cur g }

def St.setSaved (s : St) (f : Field) (v : Nat) : St :=
  { s with saved := fun g => if g = f then v else s.saved g }

def St.setFlag (s : St) (b : Flag) (v : Bool) : St :=
  { s with flags := fun c => if c = b then v else s.flags c }

/-- `self.f = <new object>` -/
def St.assign (s : St) (f : Field) : St :=
  { (s.setCur f s.next) with next := s.next + 1 }

/-- in-place change of the object in `f`; a backup that aliases the same object changes with it -/
def St.mutate (s : St) (f : Field) : St :=
  let s1 := if s.saved f = s.cur f then s.setSaved f s.next else s
  { (s1.setCur f s.next) with next := s.next + 1 }

/-- well-formed state: the version counter is above every version held by a field -/
def St.WF (st : St) : Prop := ∀ f, st.cur f < st.next

/-- Outcomes: the verdicts of sub-parsers and all branch decisions, consumed left to right.
An exhausted sequence answers `false` (= "does not raise", "else branch", "leave the loop"). -/
abbrev Outcomes := List Bool

def nextOutcome (os : Outcomes) : Bool × Outcomes :=
  match os with
  | [] => (false, [])
  | o :: r => (o, r)

structure Res where
  exit : Exit
  st : St
  os : Outcomes

/-- The interpreter. `fuel` bounds the number of loop iterations + nesting; every finite execution is
covered by some fuel, and the theorems hold for all fuel. -/
def run (fuel : Nat) (sc : Stmt) (st : St) (os : Outcomes) : Res :=
  match fuel with
  | 0 => ⟨.stuck, st, os⟩
  | fuel + 1 =>
    match sc with
    | .skip => ⟨.norm, st, os⟩
    | .mark n => ⟨.norm, { st with trace := n :: st.trace }, os⟩
    | .assign f => ⟨.norm, st.assign f, os⟩
    | .mutate f => ⟨.norm, st.mutate f, os⟩
    | .save f => ⟨.norm, st.setSaved f (st.cur f), os⟩
    | .restore f => ⟨.norm, st.setCur f (st.saved f), os⟩
    | .saveC f => ⟨.norm, { st with copies := fun g => if g = f then st.cur f else st.copies g }, os⟩
    | .restoreC f => ⟨.norm, st.setCur f (st.copies f), os⟩
    | .guard => if st.readonly then ⟨.roExc, st, os⟩ else ⟨.norm, st, os⟩
    | .raise => ⟨.exc, st, os⟩
    | .mayRaise =>
      let o := nextOutcome os
      if o.1 then ⟨.exc, st, o.2⟩ else ⟨.norm, st, o.2⟩
    | .ret => ⟨.ret, st, os⟩
    | .brk => ⟨.brk, st, os⟩
    | .cont => ⟨.cont, st, os⟩
    | .setFlag b v => ⟨.norm, st.setFlag b v, os⟩
    | .havoc b =>
      let o := nextOutcome os
      ⟨.norm, st.setFlag b o.1, o.2⟩
    | .ifFlag b t e => if st.flags b then run fuel t st os else run fuel e st os
    | .seq a b =>
      let r := run fuel a st os
      match r.exit with
      | .norm => run fuel b r.st r.os
      | _ => r
    | .choice a b =>
      let o := nextOutcome os
      if o.1 then run fuel a st o.2 else run fuel b st o.2
    | .loop body els =>
      let o := nextOutcome os
      if o.1 then
        let r := run fuel body st o.2
        match r.exit with
        | .norm => run fuel (.loop body els) r.st r.os
        | .cont => run fuel (.loop body els) r.st r.os
        | .brk => ⟨.norm, r.st, r.os⟩
        | _ => r
      else run fuel els st o.2
    | .tryCatch body h =>
      let r := run fuel body st os
      match r.exit with
      | .exc => run fuel h r.st r.os
      | .roExc => run fuel h r.st r.os
      | _ => r
    | .tryFinally body fin =>
      let r := run fuel body st os
      match r.exit with
      | .stuck => r
      | _ =>
        let r2 := run fuel fin r.st r.os
        match r2.exit with
        | .norm => ⟨r.exit, r2.st, r2.os⟩
        | _ => r2
    | .scope body =>
      let r := run fuel body st os
      match r.exit with
      | .ret => ⟨.norm, r.st, r.os⟩
      | _ => r

/-! ## The static discipline

A forward *must* analysis. An abstract state lists the fields that are certainly unchanged w.r.t. the
state at entry (`clean`), the fields whose backup slot certainly holds the entry value (`valid`), and the
flags whose value is certainly known. Joining two paths intersects. -/

structure Abs where
  clean : List Field            -- certainly holds its entry value
  valid : List Field            -- the backup slot certainly holds the entry value of the field
  cvalid : List Field           -- the content copy certainly holds the entry value of the field
  fresh : List Field            -- certainly holds an object created after entry (so no backup aliases it)
  known : List (Flag × Bool)
  nro : Bool                    -- the read-only guard has been passed: the object is certainly not read-only
  isro : Bool                   -- the object is certainly read-only (entry assumption of the T11.3 analysis)
  deriving Repr, DecidableEq, Inhabited

def Abs.meet (a b : Abs) : Abs :=
  ⟨a.clean.filter (· ∈ b.clean), a.valid.filter (· ∈ b.valid), a.cvalid.filter (· ∈ b.cvalid),
   a.fresh.filter (· ∈ b.fresh),
   a.known.filter (· ∈ b.known), a.nro && b.nro, a.isro && b.isro⟩

/-- `a ⊑ b`: everything `a` claims, `b` claims too (so `a` is the weaker, safer description) -/
def Abs.le (a b : Abs) : Bool :=
  a.clean.all (· ∈ b.clean) && a.valid.all (· ∈ b.valid) && a.cvalid.all (· ∈ b.cvalid) &&
  a.fresh.all (· ∈ b.fresh) &&
  a.known.all (· ∈ b.known) && (!a.nro || b.nro) && (!a.isro || b.isro)

def Abs.bot : Abs := ⟨[], [], [], [], [], false, false⟩

def omeet : Option Abs → Option Abs → Option Abs
  | none, b => b
  | a, none => a
  | some a, some b => some (a.meet b)

/-- abstract result: for every way of ending, what is certainly true then (`none` = cannot end this way) -/
structure Post where
  norm : Option Abs := none
  ret : Option Abs := none
  brk : Option Abs := none
  cont : Option Abs := none
  exc : Option Abs := none
  roExc : Option Abs := none
  deriving Repr, DecidableEq, Inhabited

def Post.join (p q : Post) : Post :=
  ⟨omeet p.norm q.norm, omeet p.ret q.ret, omeet p.brk q.brk, omeet p.cont q.cont, omeet p.exc q.exc,
   omeet p.roExc q.roExc⟩

def Abs.flagVal (a : Abs) (b : Flag) : Option Bool :=
  if (b, true) ∈ a.known then some true else if (b, false) ∈ a.known then some false else none

def Abs.dropFlag (a : Abs) (b : Flag) : Abs := { a with known := a.known.filter (·.1 ≠ b) }

def Abs.setFlag (a : Abs) (b : Flag) (v : Bool) : Abs :=
  { a with known := (b, v) :: (a.dropFlag b).known }

/-- continue with `k` from the normal exit of `p`, keep all other exits of `p` -/
def Post.bind (p : Post) (k : Abs → Post) : Post :=
  match p.norm with
  | none => p
  | some a => Post.join { p with norm := none } (k a)

/-- candidate loop invariant: iterate `n` times from `a` -/
def loopInv (body : Abs → Post) (a : Abs) : Nat → Abs
  | 0 => a
  | n + 1 =>
    let p := body a
    let a1 := match omeet (some a) (omeet p.norm p.cont) with
      | some x => x
      | none => a
    if a.le a1 then a else loopInv body a1 n

def invStable (body : Abs → Post) (i : Abs) : Bool :=
  let p := body i
  (match p.norm with | none => true | some x => i.le x) &&
  (match p.cont with | none => true | some x => i.le x)

/-- add `o` to the component of `q` that belongs to the way of ending `k` -/
def Post.put (q : Post) (k : Exit) (o : Option Abs) : Post :=
  match k with
  | .norm => { q with norm := omeet q.norm o }
  | .ret => { q with ret := omeet q.ret o }
  | .brk => { q with brk := omeet q.brk o }
  | .cont => { q with cont := omeet q.cont o }
  | .exc => { q with exc := omeet q.exc o }
  | .roExc => { q with roExc := omeet q.roExc o }
  | .stuck => q

/-- `finally`: entered from the body's exit `k` in abstract state `o`; if the `finally` block ends normally
the original way of ending `k` is resumed, otherwise the block's own way of ending wins (Python semantics) -/
def finThru (pf : Abs → Post) (o : Option Abs) (k : Exit) : Post :=
  match o with
  | none => {}
  | some x => let q := pf x; Post.put { q with norm := none } k q.norm

def post (sc : Stmt) (a : Abs) : Post :=
  match sc with
  | .skip => { norm := some a }
  | .mark _ => { norm := some a }
  | .assign f => { norm := some { a with clean := a.clean.filter (· ≠ f), fresh := f :: a.fresh } }
  | .mutate f =>
    { norm := some { a with clean := a.clean.filter (· ≠ f),
                            valid := if f ∈ a.fresh then a.valid else a.valid.filter (· ≠ f),
                            fresh := f :: a.fresh } }
  | .save f =>
    { norm := some { a with valid := if f ∈ a.clean then f :: a.valid else a.valid.filter (· ≠ f) } }
  | .restore f =>
    { norm := some { a with clean := if f ∈ a.valid then f :: a.clean else a.clean.filter (· ≠ f),
                            fresh := a.fresh.filter (· ≠ f) } }
  | .saveC f =>
    { norm := some { a with cvalid := if f ∈ a.clean then f :: a.cvalid else a.cvalid.filter (· ≠ f) } }
  | .restoreC f =>
    { norm := some { a with clean := if f ∈ a.cvalid then f :: a.clean else a.clean.filter (· ≠ f),
                            fresh := a.fresh.filter (· ≠ f) } }
  | .guard =>
    if a.isro then { roExc := some a }
    else if a.nro then { norm := some a } else { norm := some { a with nro := true }, roExc := some a }
  | .raise => { exc := some a }
  | .mayRaise => { norm := some a, exc := some a }
  | .ret => { ret := some a }
  | .brk => { brk := some a }
  | .cont => { cont := some a }
  | .setFlag b v => { norm := some (a.setFlag b v) }
  | .havoc b => { norm := some (a.dropFlag b) }
  | .ifFlag b t e =>
    match a.flagVal b with
    | some true => post t a
    | some false => post e a
    | none => (post t a).join (post e a)
  | .seq s t => (post s a).bind (post t)
  | .choice s t => (post s a).join (post t a)
  | .loop body els =>
    let i0 := loopInv (post body) a 8
    let i := if i0.le a && invStable (post body) i0 then i0 else Abs.bot
    let p := post body i
    -- the loop ends through `break` (normally, `else` skipped) or, from the invariant, by exhaustion: `else` runs
    Post.join { norm := p.brk, ret := p.ret, exc := p.exc, roExc := p.roExc } (post els i)
  | .tryCatch body h =>
    let p := post body a
    let q := match omeet p.exc p.roExc with
      | none => ({} : Post)
      | some x => post h x
    Post.join { p with exc := none, roExc := none } q
  | .tryFinally body fin =>
    let p := post body a
    (finThru (post fin) p.norm .norm).join <|
    (finThru (post fin) p.ret .ret).join <|
    (finThru (post fin) p.brk .brk).join <|
    (finThru (post fin) p.cont .cont).join <|
    (finThru (post fin) p.exc .exc).join <|
    (finThru (post fin) p.roExc .roExc)
  | .scope body =>
    let p := post body a
    { p with norm := omeet p.norm p.ret, ret := none }

/-- A mutator script over the fields `fs`. -/
structure Script where
  name : String
  fields : List Field
  body : Stmt
  deriving Repr, Inhabited

def Abs.entry (fs : List Field) : Abs := ⟨fs, [], [], [], [], false, false⟩

/-- entry state of a read-only object -/
def Abs.entryRO (fs : List Field) : Abs := ⟨fs, [], [], [], [], false, true⟩

/-- every field of the object is certainly unchanged -/
def Abs.allClean (fs : List Field) (a : Abs) : Bool := fs.all (· ∈ a.clean)

/-- **The discipline**: on every path that ends with a DOM exception all fields are back at their entry
values; the read-only rejection happens with all fields untouched. Decidable: it is a computation. -/
def Disciplined (fs : List Field) (sc : Stmt) : Bool :=
  let p := post sc (Abs.entry fs)
  (match p.exc with | none => true | some a => a.allClean fs) &&
  (match p.roExc with | none => true | some a => a.allClean fs)

def okClean (fs : List Field) (o : Option Abs) : Bool :=
  match o with | none => true | some a => a.allClean fs

/-- **Read-only safety**: started on a read-only object, no way of ending leaves a field changed. -/
def ReadonlySafe (fs : List Field) (sc : Stmt) : Bool :=
  let p := post sc (Abs.entryRO fs)
  okClean fs p.norm && okClean fs p.ret && okClean fs p.brk && okClean fs p.cont && okClean fs p.exc &&
  okClean fs p.roExc

/-- fields that a path ending with a DOM exception may leave changed (empty iff disciplined) — used to
name the culprit fields of an undisciplined script -/
def dirtyOnExc (fs : List Field) (sc : Stmt) : List Field :=
  let p := post sc (Abs.entry fs)
  fs.filter fun f =>
    (match p.exc with | none => false | some a => f ∉ a.clean) ||
    (match p.roExc with | none => false | some a => f ∉ a.clean)

/-- the read-only guard is the first thing the script does (syntactic) -/
def guardedFirst : Stmt → Bool
  | .guard => true
  | .seq (.mark _) b => guardedFirst b
  | .seq a _ => guardedFirst a
  | .scope a => guardedFirst a
  | _ => false

/-- initial concrete state for drivers/examples: field `f` holds version `f`, backups hold junk -/
def St.init (readonly : Bool) : St :=
  { cur := fun f => if f < 1000000 then f else 0, saved := fun _ => 1000000, copies := fun _ => 1000001, flags := fun _ => false, readonly := readonly,
    next := 2000000, trace := [] }

end CssVerif.Mutators
