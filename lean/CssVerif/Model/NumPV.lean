import CssVerif.Model.NumColor

/-!
# C18 — whole property values: `do_css_PropertyValue` and `do_css_CSSFunction`

`cssutils/serialize.py:1067-1088` (`do_css_PropertyValue`) and `:1155-1166` (`do_css_CSSFunction`, also the serializer
of `rgb()` / `hsl()` colours, `:1144-1153`) on top of `Out.append` / `Out.value` (`Model/Num.lean`).

A `PropertyValue.seq` (`css/value.py:137-186`) holds, in source order, one item per component — type `'Value'`,
`'DIMENSION'`, `'URIValue'`, `'ColorValue'`, `'Function'`, `'CSSCalc'` (…) with the value object — and one item
`('operator', ',')` / `('operator', '/')` per written comma or slash; white space between components is not kept
(`PreDef.S(toSeq=False)`). A `CSSFunction.seq` (`css/value.py:702-741`) holds `('FUNCTION', name)`, the argument
objects, `('CHAR', ',')` for every written comma and the closing `('CHAR', ')')`.

Not modelled here: `CSSVariable` (`var()`), `MSValue` (`expression()` …) components and the `valuesOnly` flag.
-/

namespace CssVerif.Num
open CssVerif.Proto

mutual
/-- one component of a value -/
inductive Comp where
  | num (typ : NumType) (tokval : Cps)      -- `DimensionValue` built from this token
  | simple (t : ItemType) (value : Cps)     -- `Value`: IDENT / STRING / UNICODE-RANGE, `value` = `Value.value`
  | uri (value : Cps)                       -- `URIValue`, `value` = `.uri`
  | color (t : ItemType) (value : Cps)      -- `ColorValue` of a HASH or a keyword
  | calc (toks : List CalcTok)              -- `CSSCalc` (its own serializer, `fmtCalc`)
  | comment (text : Cps)                    -- `CSSComment`; `text` = its `cssText` under the preferences in force
  | func (name : Cps) (args : Args)         -- `CSSFunction` / `ColorValue` FUNCTION: normalised name incl. `(`
/-- the items of a function's `seq` after the name; `nil` is the closing `)` -/
inductive Args where
  | nil
  | comma (rest : Args)
  | comp (c : Comp) (rest : Args)
end

/-- an item of `PropertyValue.seq` -/
inductive PVItem where
  | comp (c : Comp)
  | op (v : Cps)                            -- `('operator', ',')` or `('operator', '/')`

mutual
/-- `component.cssText` under preferences `p` -/
def Comp.text (ops : NumOps) (p : Prefs) : Comp → Except Err Cps
  | .num typ tv =>
    match parseDim typ tv with
    | .error e => .error e
    | .ok d => fmtNum ops p d
  | .simple t v => .ok (fmtSimple p t v)
  | .uri v => .ok (fmtSimple p .uri v)
  | .color t v => .ok (fmtColorSimple p t v)
  | .calc toks => fmtCalc ops p toks
  | .comment t => .ok t
  -- `do_css_CSSFunction`: `out = Out(self)`; `for item in cssvalue.seq: out.append(val, type_)`; `out.value()`
  | .func name args =>
    match Args.fmt ops p args (outAppend p [] name false .function) with
    | .error e => .error e
    | .ok out => .ok (outValue out)
/-- the loop of `do_css_CSSFunction` over the items after the name (`serialize.py:1161-1165`); an argument is passed
as the object (`Out.append` takes its `cssText`, `serialize.py:251-253`) -/
def Args.fmt (ops : NumOps) (p : Prefs) : Args → List Cps → Except Err (List Cps)
  | .nil, out => .ok (outAppend p out (cps ")") false .char)
  | .comma rest, out => Args.fmt ops p rest (outAppend p out (cps ",") false .char)
  | .comp c rest, out =>
    match Comp.text ops p c with
    | .error e => .error e
    | .ok t => Args.fmt ops p rest (outAppend p out t true .other)
end

/-- `serialize.py:1083-1084`: an item without `cssText` that is written in quotes is re-quoted by `helper.string` -/
def pvPlainVal (val : Cps) : Cps :=
  match val.head?, val.getLast? with
  | some a, some b => if a = b ∧ (a = cQuote ∨ a = cApos) then helperString (val.drop 1).dropLast else val
  | _, _ => val

/-- the loop of `do_css_PropertyValue` (`serialize.py:1073-1086`): a component is appended as its text
(`out.append(cssText, type_)`, the type being none of those `Out.append` treats specially), an operator as it is -/
def fmtPVAux (ops : NumOps) (p : Prefs) : List PVItem → List Cps → Except Err (List Cps)
  | [], out => .ok out
  | .comp c :: t, out =>
    match Comp.text ops p c with
    | .error e => .error e
    | .ok txt => fmtPVAux ops p t (outAppend p out txt false .other)
  | .op v :: t, out => fmtPVAux ops p t (outAppend p out (pvPlainVal v) false .other)

/-- an item that `PropertyValue.__len__` counts (`css/value.py:62,86-90`: instances of `Value`) -/
def PVItem.isValue : PVItem → Bool
  | .comp (.comment _) => false
  | .comp _ => true
  | .op _ => false

/-- `PropertyValue.cssText` (`if not value: return ''` — `len(value)` counts the `Value` objects) -/
def fmtPV (ops : NumOps) (p : Prefs) (items : List PVItem) : Except Err Cps :=
  if !items.any PVItem.isValue then .ok [] else
  match fmtPVAux ops p items [] with
  | .error e => .error e
  | .ok out => .ok (outValue out)

end CssVerif.Num
