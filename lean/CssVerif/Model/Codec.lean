import CssVerif.Lib.Proto
/-!
# K6 — model of `cssutils/codec.py`: `detectencoding_str`, `detectencoding_unicode`, `_fixencoding`

Hand transcription, statement by statement; bytes and code points are `Nat`.
The correspondence (tools/harness/c07.py) compares it with the implementation exhaustively on all
byte strings of length ≤ 4 over the detector's byte classes, and on generated longer inputs.
-/
namespace CssVerif.Codec
open CssVerif.Proto

/-- `candidates &= ~m` on the 10-bit candidate set -/
def clr (c m : Nat) : Nat := c &&& (1023 ^^^ m)

/-- first byte (`codec.py:56-71`) -/
def m0 (b0 c : Nat) : Nat :=
  let c := if b0 != 0xEF then clr c 1 else c
  let c := if b0 != 0xFF then clr c (32 ||| 2) else c
  let c := if b0 != 0xFE then clr c 4 else c
  let c := if b0 != 0x40 then clr c (128 ||| 8 ||| 512) else c
  let c := if b0 != 0 then clr c (64 ||| 256 ||| 16) else c
  c

/-- second byte (`codec.py:72-93`) -/
def m1 (b1 c : Nat) : Nat :=
  let c := if b1 != 0xBB then clr c 1 else c
  let c := if b1 != 0xFE then clr c (2 ||| 32) else c
  let c := if b1 != 0xFF then clr c 4 else c
  let c := if b1 != 0 then clr c (8 ||| 64 ||| 128 ||| 256) else c
  let c := if b1 != 0x40 then clr c 16 else c
  let c := if b1 != 0x63 then clr c 512 else c
  c

/-- third byte (`codec.py:94-111`) -/
def m2 (b2 c : Nat) : Nat :=
  let c := if b2 != 0xBF then clr c 1 else c
  let c := if b2 != 0x63 then clr c 8 else c
  let c := if b2 != 0 then clr c (32 ||| 128 ||| 256) else c
  let c := if b2 != 0xFE then clr c 64 else c
  let c := if b2 != 0x68 then clr c 512 else c
  c

/-- fourth byte, which also looks at the third (`input[2:4]`, `codec.py:112-129`) -/
def m3 (b2 b3 c : Nat) : Nat :=
  let c := if b2 == 0 && b3 == 0 then clr c 2 else c
  let c := if b3 != 0 then clr c (8 ||| 32 ||| 128) else c
  let c := if b3 != 0xFF then clr c 64 else c
  let c := if b3 != 0x40 then clr c 256 else c
  let c := if b3 != 0x61 then clr c 512 else c
  c

/-- the candidate mask after looking at up to four bytes (`codec.py:52-129`) -/
def mask : List Nat → Nat
  | [] => 1023
  | [a] => m0 a 1023
  | [a, b] => m1 b (m0 a 1023)
  | [a, b, c] => m2 c (m1 b (m0 a 1023))
  | a :: b :: c :: d :: _ => m3 c d (m2 c (m1 b (m0 a 1023)))

/-- the answers of the detector; `charset name` carries the bytes between the quotes -/
inductive Enc where
  | utf8 | utf8sig | utf16 | utf16le | utf16be | utf32 | utf32le | utf32be
  | named (name : List Nat)
deriving DecidableEq, Repr, Inhabited

/-- `'@charset "'` -/
def prefix10 : List Nat := [0x40, 0x63, 0x68, 0x61, 0x72, 0x73, 0x65, 0x74, 0x20, 0x22]

/-- `s.find('"', 0)` on a list: index of the first `"` -/
def findQuote : List Nat → Option Nat
  | [] => none
  | c :: t => if c = 0x22 then some 0 else (findQuote t).map (· + 1)

/-- the `@charset "…"` scan (`codec.py:167-175`): name between the prefix and the next quote -/
def charsetName (l : List Nat) : Option (List Nat) :=
  if l.take 10 = prefix10 then
    match findQuote (l.drop 10) with
    | some k => some ((l.drop 10).take k)
    | none => none
  else none

/-- what the decision ladder (`codec.py:142-175`) says before the `@charset` text is looked at -/
inductive Core where
  | dflt                              -- fall through to `if final: utf-8 else None`
  | ans (e : Enc) (explicit : Bool)
  | scan                              -- the CHARSET candidate alone is left: scan for `@charset "…"`
deriving DecidableEq, Repr, Inhabited

def core (l : List Nat) (final : Bool) : Core :=
  let li := l.length
  -- `if final and li < 4: candidates &= ~CANDIDATE_UTF_32_AS_LE` (no more data: `FF FE (00)` is the UTF-16 BOM)
  let c := if final && li < 4 then clr (mask l) 32 else mask l
  if c == 0 then .ans .utf8 false
  else if c &&& (c - 1) == 0 then
    if c == 1 && li ≥ 3 then .ans .utf8sig true
    else if c == 2 && li ≥ 2 then .ans .utf16 true
    else if c == 4 && li ≥ 2 then .ans .utf16 true
    else if c == 8 && li ≥ 4 then .ans .utf16le false
    else if c == 16 && li ≥ 2 then .ans .utf16be false
    else if c == 32 && li ≥ 4 then .ans .utf32 true
    else if c == 64 && li ≥ 4 then .ans .utf32 true
    else if c == 128 && li ≥ 4 then .ans .utf32le false
    else if c == 256 && li ≥ 4 then .ans .utf32be false
    else if c == 512 && li ≥ 4 then .scan
    else .dflt
  else .dflt

/-- `detectencoding_str(input, final)`; `none` = "don't know yet" -/
def detect (l : List Nat) (final : Bool) : Option (Enc × Bool) :=
  let dflt : Option (Enc × Bool) := if final then some (.utf8, false) else none
  match core l final with
  | .ans e x => some (e, x)
  | .scan =>
    match charsetName l with
    | some n => some (.named n, true)
    | none => dflt
  | .dflt => dflt

/-- `prefix.startswith(input)` -/
def isPrefixOf10 (l : List Nat) : Bool := l.isPrefixOf prefix10

/-- `detectencoding_unicode(input, final)` (`codec.py:185-205`) -/
def detectUnicode (l : List Nat) (final : Bool) : Option (Enc × Bool) :=
  if prefix10.isPrefixOf l then
    match findQuote (l.drop 10) with
    | some k => some (.named ((l.drop 10).take k), true)
    | none => none
  else if final || !isPrefixOf10 l then some (.utf8, false)
  else none

/-- `encoding.replace("_", "-").lower()` on ASCII -/
def normName (e : List Nat) : List Nat :=
  e.map fun c => if c = 0x5F then 0x2D else if 0x41 ≤ c ∧ c ≤ 0x5A then c + 32 else c

/-- `"utf-8-sig"` -/
def utf8sigName : List Nat := [0x75, 0x74, 0x66, 0x2D, 0x38, 0x2D, 0x73, 0x69, 0x67]
/-- `"utf-8"` -/
def utf8Name : List Nat := [0x75, 0x74, 0x66, 0x2D, 0x38]

/-- `_fixencoding(input, encoding, final)` (`codec.py:208-239`) -/
def fixEncoding (l enc : List Nat) (final : Bool) : Option (List Nat) :=
  if l.length > 10 then
    if prefix10.isPrefixOf l then
      match findQuote (l.drop 10) with
      | some k => some (prefix10 ++ (if normName enc = utf8sigName then utf8Name else enc) ++ (l.drop 10).drop k)
      | none => if final then some l else none
    else some l
  else if !isPrefixOf10 l || final then some l
  else none

end CssVerif.Codec
