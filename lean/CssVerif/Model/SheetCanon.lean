import CssVerif.Model.SheetSpec
import CssVerif.Model.StrCodec
/-!
# C03 — the spelling the serializer writes (structure level)

`canon : SSheet → SSheet` maps a spelled sheet (`Model/SheetSpec.lean`: an abstract sheet + one way of writing it) to
the spelling that `CSSSerializer` (default preferences, `resolveVariables = False` as in the oracle of this check: with
the default the `@variables` rules are dropped and `var()` is replaced, which is lossy by design) gives to the DOM parsed
from it.  `serialise s = render (canon s)`
is the token list of `sheet.cssText` (tie: tools/harness/c03_canon.py compares it with the real tokenizer run on the real
`cssText`, token by token).  Layout facts, each a line of `cssutils/serialize.py` (model of the text level:
`Model/OutRules.lean`, property C06):

* rules of the sheet are joined by `lineSeparator` (`do_CSSStyleSheet` `:396-421`); nothing before the first, nothing
  after the last; `@charset "enc";` always with double quotes (`do_CSSCharsetRule`);
* `@import` / `@namespace` (`:493-558`): keyword normalised, one blank between the parts, comments kept where they were,
  the target as STRING with double quotes or as `url()` which is quoted iff `helper.uri` finds a forbidden character;
  the namespace URI always as STRING; `;` directly behind the last part;
* style rule (`do_CSSStyleRule` `:757-816`): selectors joined by `, `, ` {`, line separator, the declaration block
  indented by one level, line separator, the closing brace indented as the block (`indentClosingBrace`);
* declaration block (`do_css_CSSStyleDeclaration` `:907-968`): one item per line; a declaration is followed by `;`
  unless it is the last item of the block (`omitLastSemicolon`); stand-alone `;` are not items of the DOM;
* declaration (`do_Property` `:970-1017`): the name in lower case with its escapes, comments directly behind it, `: `,
  the value with one blank between its parts (comments included), ` !` and the normalised priority;
* `@media` (`:560-614`), `@font-face` (`:470-491`), `@page` (`:616-663`: declarations first, then the margin boxes; the
  last declaration keeps its `;` when a margin box follows), margin box (`:675-716`): as the style rule, one level deeper
  per nesting.
Opaque parts (selector groups, values, media queries, unknown at-rules) are written as they stand: how THEIR items are
spaced is the business of C16 / C17 / C18 (the tie feeds parts that are already in the serializer's form).
-/
namespace CssVerif.SheetCanon
open CssVerif.Proto (Cps)
open CssVerif.Struct CssVerif.SheetSpec

/-- one blank -/
def sp : Ws := ⟨.space, []⟩
/-- line separator + `lv` indents of four blanks -/
def nl (lv : Nat) : Ws := ⟨.lf, List.replicate (4 * lv) .space⟩

/-- the comments of a gap -/
def comments : Gap → List Cps
  | [] => []
  | .cm b :: g => b :: comments g
  | .ws _ :: g => comments g

/-- comments only -/
def tight : List Cps → Gap
  | [] => []
  | b :: l => .cm b :: tight l
/-- every comment followed by a blank -/
def after : List Cps → Gap
  | [] => []
  | b :: l => .cm b :: .ws sp :: after l
/-- every comment preceded by a blank -/
def before : List Cps → Gap
  | [] => []
  | b :: l => .ws sp :: .cm b :: before l

def gTight (g : Gap) : Gap := tight (comments g)
/-- a blank, then every comment followed by a blank -/
def gLead (g : Gap) : Gap := .ws sp :: after (comments g)
/-- every comment preceded by a blank, then `tail` -/
def gTrail (g : Gap) (tail : Gap) : Gap := before (comments g) ++ tail

/-- lower case, escapes kept (`Property.literalname.lower()`) -/
def lowMask (m : Mask) : Mask := m.map fun p => (false, p.2)

def closing : Option Ws → Gap
  | none => []
  | some w => [.ws w]

/-- `do_Property`; `close`: the white space before the closing brace when the declaration is the last item -/
def canonDecl (close : Option Ws) (d : SDecl) : SDecl :=
  { name := d.name, nameSp := lowMask d.nameSp, g1 := gTight d.g1, g2 := gLead d.g2, value := d.value,
    g3 := gTrail d.g3 (match d.prio with
      | some _ => [.ws sp]
      | none => closing close),
    prio := match d.prio with
      | some (g4, n, _, g5) => some (gTight g4, n, [], gTight g5 ++ closing close)
      | none => none }

def canonItem : SItem → SItem
  | .decl d => .decl (canonDecl none d)
  | i => i

/-- the items of a block that the DOM keeps (stand-alone `;` are none) -/
def keptItems : List (SItem × WGap) → List SItem
  | [] => []
  | (.semi, _) :: rest => keptItems rest
  | (i, _) :: rest => i :: keptItems rest

def realItems (b : SBlock) : List SItem := keptItems b.items ++ (b.last.map SItem.decl).toList

/-- one item per line; `om`: the last item, if a declaration, is written without `;` -/
def layItems (om : Bool) (lv : Nat) : List SItem → List (SItem × WGap) × Option SDecl
  | [] => ([], none)
  | [i] =>
    match om, i with
    | true, .decl d => ([], some (canonDecl (some (nl lv)) d))
    | _, _ => ([(canonItem i, [nl lv])], none)
  | i :: j :: rest => ((canonItem i, [nl lv]) :: (layItems om lv (j :: rest)).1, (layItems om lv (j :: rest)).2)

/-- `do_css_CSSStyleDeclaration` inside braces at indentation level `lv` -/
def canonBlock (lv : Nat) (b : SBlock) : SBlock :=
  { lead := [nl lv], items := (layItems true lv (realItems b)).1, last := (layItems true lv (realItems b)).2 }

def canonMore : List (Gap × List Tok × Gap) → List (Gap × List Tok × Gap)
  | [] => []
  | (pre, core, post) :: rest =>
    (.ws sp :: gTight pre, core, gTrail post (if rest.isEmpty then [.ws sp] else [])) :: canonMore rest

/-- `do_css_SelectorList` + the blank before `{` -/
def canonSel (s : SSel) : SSel :=
  { first := s.first, post := gTrail s.post (if s.more.isEmpty then [.ws sp] else []), more := canonMore s.more }

/-- `helper.string` / `helper.uri` -/
def canonHref : SHref → SHref
  | .str _ h => .str .dq h
  | .url _ _ _ _ h => .url [] [] [] (if StrCodec.forbMatch h then some .dq else none) h

/-- the namespace URI is always written as a STRING -/
def canonNsUri (r : SHref) : SHref := .str .dq r.value

def pagePlain : List (SPageItem × WGap) → List SItem
  | [] => []
  | (.item .semi, _) :: rest => pagePlain rest
  | (.item i, _) :: rest => i :: pagePlain rest
  | (.margin .., _) :: rest => pagePlain rest

/-- a declaration as `MarginRule` keeps it (`marginrule.py:150-172`: neither white space nor comments are stored; the
serializer puts the blanks between the value items back) -/
def bareDecl (d : SDecl) : SDecl :=
  { name := d.name, nameSp := d.nameSp, value := strip d.value,
    prio := match d.prio with
      | some (_, n, m, _) => some ([], n, m, [])
      | none => none }

/-- the items of a margin box that the DOM keeps: its declarations -/
def keptDecls : List (SItem × WGap) → List SItem
  | [] => []
  | (.decl d, _) :: rest => .decl (bareDecl d) :: keptDecls rest
  | (_, _) :: rest => keptDecls rest

def canonMarginBlock (lv : Nat) (b : SBlock) : SBlock :=
  let l := layItems true lv (keptDecls b.items ++ (b.last.map fun d => SItem.decl (bareDecl d)).toList)
  { lead := [nl lv], items := l.1, last := l.2 }

def pageMargins (lv : Nat) : List (SPageItem × WGap) → List (SPageItem × WGap)
  | [] => []
  | (.margin n _ _ b, _) :: rest => (.margin n [] [.ws sp] (canonMarginBlock (lv + 1) b), [nl lv]) :: pageMargins lv rest
  | (.item _, _) :: rest => pageMargins lv rest

def asPageItems : List (SItem × WGap) → List (SPageItem × WGap)
  | [] => []
  | (i, w) :: rest => (.item i, w) :: asPageItems rest

/-- the block of `@page` at level `lv`: declarations, then margin boxes -/
def canonPageBlock (lv : Nat) (b : SPageBlock) : SPageBlock :=
  let plain := pagePlain b.items ++ (b.last.map SItem.decl).toList
  let ms := pageMargins lv b.items
  let l := layItems ms.isEmpty lv plain
  { lead := [nl lv], items := asPageItems l.1 ++ ms, last := l.2 }

/-- is the optional name of `@media` / `@import` written (an empty name is no name: `cssmediarule.py:117-130`) -/
def nameWritten : SName → Bool
  | some (_, n, _) => !n.isEmpty
  | none => false

/-- the name as STRING with double quotes, its comments each preceded by a blank, then `tail` -/
def canonName (tail : Gap) : SName → SName
  | some (_, n, g) => if n.isEmpty then none else some (.dq, n, gTrail g tail)
  | none => none

/-- the comments behind an empty name of `@import`: the name is not written, its comments are (behind what stands before
it; `@media` drops them with the name) -/
def emptyNameGap : SName → Gap
  | some (_, n, g) => if n.isEmpty then g else []
  | none => []

def canonPageSel (s : SPageSel) : SPageSel :=
  { name := s.name, mid := s.mid, pseudo := s.pseudo, pseudoSp := [] }

/-- behind a page selector: a blank, the comments without blanks between them, a blank (`do_CSSPageRuleSelector`) -/
def gPage (g : Gap) : Gap :=
  (match comments g with
    | [] => []
    | c :: l => .ws sp :: tight (c :: l)) ++ [.ws sp]

def selEmpty (s : SPageSel) : Bool := s.name.isNone && s.pseudo.isNone

mutual
/-- a rule whose text starts at indentation level `lv` -/
def canonRule (lv : Nat) : SRule → SRule
  | .comment b => .comment b
  | .style sel blk => .style (canonSel sel) (canonBlock (lv + 1) blk)
  | .unknown t => .unknown t
  | .media _ g1 mq g2 name _ rules =>
    .media [] (gLead g1) mq (gTrail g2 [.ws sp]) (canonName [.ws sp] name) [nl (lv + 1)]
      (canonRules (lv + 1) true rules)
  | .fontface _ g1 blk => .fontface [] (gTrail g1 [.ws sp]) (canonBlock (lv + 1) blk)
  | .page _ g0 sel g1 blk =>
    .page [] (gLead g0) (canonPageSel sel) (if selEmpty sel then gTight g1 else gPage g1)
      (canonPageBlock (lv + 1) blk)
/-- `inner`: inside `@media` (every rule is followed by a line separator, the last one by the one before `}`) -/
def canonRules (lv : Nat) (inner : Bool) : SRules → SRules
  | .nil => .nil
  | .cons r _ rest =>
    .cons (canonRule lv r) (match inner, rest with
      | false, .nil => []
      | _, _ => [nl lv]) (canonRules lv inner rest)
end

def canonImp : SImp → SImp
  | .comment b => .comment b
  | .unknown t => .unknown t
  | .import_ _ g1 href g2 mq name =>
    .import_ [] (gLead g1) (canonHref href)
      (gTrail (if mq.isSome then g2 else g2 ++ emptyNameGap name) (if mq.isSome || nameWritten name then [.ws sp] else []))
      (mq.map fun p => (p.1, gTrail (p.2 ++ emptyNameGap name) (if nameWritten name then [.ws sp] else [])))
      (canonName [] name)

/-- `name: value` of `@variables` (`do_css_CSSVariablesDeclaration` `:902-934`): the name normalised, the comments behind
the value kept.  Comments before the value and between the declarations are moved by the parser into the item sequence
and written on lines of their own in an irregular layout: they are NOT modelled (left out here; the stream has none). -/
def canonVarDecl (close : Option Ws) (d : SVarDecl) : SVarDecl :=
  { name := d.name, nameSp := [], g1 := [], g2 := [.ws sp], value := d.value, g3 := gTrail d.g3 (closing close) }

def layVarItems (lv : Nat) : List SVarDecl → List (SVarDecl × Gap) × Option SVarDecl
  | [] => ([], none)
  | [d] => ([], some (canonVarDecl (some (nl lv)) d))
  | d :: e :: rest => ((canonVarDecl none d, [.ws (nl lv)]) :: (layVarItems lv (e :: rest)).1, (layVarItems lv (e :: rest)).2)

def varDecls (b : SVarBlock) : List SVarDecl := b.items.map (·.1) ++ b.last.toList

/-- the block of `@variables` at level `lv`.  A name declared twice is written once by the implementation (the DOM is a
mapping: the later value in the place of the first); this is NOT modelled (every declaration is written; the stream has
distinct names). -/
def canonVarBlock (lv : Nat) (b : SVarBlock) : SVarBlock :=
  { lead := [.ws (nl lv)], items := (layVarItems lv (varDecls b)).1, last := (layVarItems lv (varDecls b)).2 }

/-- `do_CSSVariablesRule` (`:445-468`) with `resolveVariables = False` -/
def canonVar : SVar → SVar
  | .comment b => .comment b
  | .unknown t => .unknown t
  | .variables _ g0 blk => .variables [] (gTrail g0 [.ws sp]) (canonVarBlock 1 blk)

def canonNs : SNs → SNs
  | .comment b => .comment b
  | .unknown t => .unknown t
  | .namespace_ _ g1 pfx uri g2 =>
    .namespace_ [] (gLead g1) (pfx.map fun p => (p.1, gLead p.2)) (canonNsUri uri) (gTrail g2 [])

/-- statements of a section, each followed by a line separator unless it is the last statement of the sheet -/
def layStmts {α : Type} (f : α → α) (more : Bool) : List (α × WGap) → List (α × WGap)
  | [] => []
  | (r, _) :: rest => (f r, if rest.isEmpty && !more then [] else [nl 0]) :: layStmts f more rest

def rulesEmpty : SRules → Bool
  | .nil => true
  | .cons .. => false

/-- `do_CSSStyleSheet` for a sheet all of whose rules are written (`prune s = s`) -/
def canonV (s : SSheet) : SSheet :=
  let moreV := !s.variables.isEmpty || !rulesEmpty s.rules
  let moreN := !s.namespaces.isEmpty || moreV
  let more := !s.imports.isEmpty || moreN
  { charset := s.charset.map fun c => (.dq, c.2),
    lead := if s.charset.isSome && more then [nl 0] else [],
    imports := layStmts canonImp moreN s.imports,
    namespaces := layStmts canonNs moreV s.namespaces,
    variables := layStmts canonVar (!rulesEmpty s.rules) s.variables,
    rules := canonRules 0 false s.rules }

/-! ## rules that serialise to nothing (`keepEmptyRules = False`, the default)

`do_CSSStyleRule` / `do_CSSFontFaceRule` return `''` when the declaration block has no item (`:779-786`, `:470-491`),
`do_MarginRule` when it has no declaration (`:675-716`), `do_CSSPageRule` when there is neither a declaration-block item
nor a written margin box (`:659`), `do_CSSMediaRule` when no nested rule is written (`:606-608`); `do_CSSStyleSheet`
skips empty texts (`:425-427`).  Comments and unknown at-rules are always written. -/

def blockEmpty (b : SBlock) : Bool := (realItems b).isEmpty

def marginEmpty (b : SBlock) : Bool :=
  (keptDecls b.items ++ (b.last.map fun d => SItem.decl (bareDecl d)).toList).isEmpty

/-- the items of a page block without the margin boxes that are not written -/
def pruneMargins : List (SPageItem × WGap) → List (SPageItem × WGap)
  | [] => []
  | (.margin n kw g b, w) :: rest =>
    if marginEmpty b then pruneMargins rest else (.margin n kw g b, w) :: pruneMargins rest
  | (.item i, w) :: rest => (.item i, w) :: pruneMargins rest

def prunePageBlock (b : SPageBlock) : SPageBlock := { b with items := pruneMargins b.items }

def pageEmpty (b : SPageBlock) : Bool :=
  (pagePlain b.items ++ (b.last.map SItem.decl).toList).isEmpty && (pageMargins 0 b.items).isEmpty

mutual
def pruneRule : SRule → Option SRule
  | .comment b => some (.comment b)
  | .style sel blk => if blockEmpty blk then none else some (.style sel blk)
  | .unknown t => some (.unknown t)
  | .media kw g1 mq g2 name lead rules =>
    match pruneRules rules with
    | .nil => none
    | .cons r w rest => some (.media kw g1 mq g2 name lead (.cons r w rest))
  | .fontface kw g1 blk => if blockEmpty blk then none else some (.fontface kw g1 blk)
  | .page kw g0 sel g1 blk =>
    if pageEmpty (prunePageBlock blk) then none else some (.page kw g0 sel g1 (prunePageBlock blk))
def pruneRules : SRules → SRules
  | .nil => .nil
  | .cons r w rest =>
    match pruneRule r with
    | none => pruneRules rest
    | some r' => .cons r' w (pruneRules rest)
end

/-- a `@variables` rule without a declaration is not written (`do_CSSVariablesRule`: empty `variablesText`) -/
def varWritten : SVar → Bool
  | .variables _ _ blk => !(varDecls blk).isEmpty
  | _ => true

def pruneVars (l : List (SVar × WGap)) : List (SVar × WGap) := l.filter fun p => varWritten p.1

/-- the sheet without the rules that are not written -/
def prune (s : SSheet) : SSheet := { s with variables := pruneVars s.variables, rules := pruneRules s.rules }

/-- `do_CSSStyleSheet`: the spelling the serializer gives to the sheet parsed from `s` -/
def canon (s : SSheet) : SSheet := canonV (prune s)

/-- the tokens of `sheet.cssText` for the sheet parsed from `render s` -/
def serialise (s : SSheet) : List Tok := render (canon s)

end CssVerif.SheetCanon
