import CssVerif.Lib.Proto
/-!
# K2 (the part C08 needs) — the rule list of a style sheet under edits, as far as `@charset` is concerned

Hand transcription of
* `CSSStyleSheet._getEncoding` / `_setEncoding` (`cssstylesheet.py:427-451`),
* `CSSStyleSheet.insertRule` (`cssstylesheet.py:552-940`) for rule objects of every kind; an `@namespace` rule always
  with a prefix and a URI that no other rule of the sheet has (then it is no "doublette", `_cleanNamespaces` removes
  nothing and no prefix is in use: the de-duplication through the namespace map belongs to C09/C15),
* `CSSStyleSheet.deleteRule` (`cssstylesheet.py:496-550`) for an integer index,
* `CSSCharsetRule._setEncoding` (`csscharsetrule.py:131-164`),
* the `expected` gate of the callbacks in `_setCssText` (`cssstylesheet.py:171-313`) for `sheet.cssText = …`,
* the encoding the serializer picks (`serialize.py:405-412`).

All operations run with `cssutils.log.raiseExceptions = True` (the state outside a parse), so a rejected
operation raises. `valid name` stands for "`name` tokenizes as one IDENT and `codecs.lookup(name)` succeeds".
-/
namespace CssVerif.EncSheet

abbrev Name := List Nat

inductive Rule where
  | charset (enc : Name)    -- a well-formed CSSCharsetRule (`_encoding` is a non-empty lower-case name)
  | comment
  | unknown
  | imp
  | variables
  | ns                      -- CSSNamespaceRule with a fresh prefix and a fresh URI
  | style                   -- CSSStyleRule, CSSMediaRule, CSSPageRule, CSSFontFaceRule ("all other")
deriving DecidableEq, Repr, Inhabited

inductive DomErr where
  | syntaxErr | hierarchyRequestErr | indexSizeErr
deriving DecidableEq, Repr, Inhabited

def utf8N : Name := [0x75, 0x74, 0x66, 0x2D, 0x38]

/-- `str.lower()` on ASCII -/
def lower (e : Name) : Name := e.map fun c => if 0x41 ≤ c ∧ c ≤ 0x5A then c + 32 else c

def Rule.isCharset : Rule → Bool
  | .charset _ => true
  | _ => false

/-- `sheet.encoding` (`cssstylesheet.py:427-433`) -/
def encoding (rules : List Rule) : Name :=
  match rules with
  | .charset e :: _ => e
  | _ => utf8N

/-- the encoding `do_CSSStyleSheet` encodes with (`serialize.py:405-412`); `'UTF-8'` there, compared lower-cased -/
def serEncoding (rules : List Rule) : Name :=
  match rules with
  | .charset e :: _ => e
  | _ => utf8N

/-- `l.insert(i, x)` for `i ≤ len(l)` -/
def insertAt (l : List Rule) (i : Nat) (x : Rule) : List Rule := l.take i ++ x :: l.drop i

def isStyleLike : Rule → Bool
  | .style => true
  | _ => false

/-- index just after the last rule satisfying `p` (`len(rules) - i` for the first hit in `reversed(rules)`) -/
def afterLast (p : Rule → Bool) : List Rule → Option Nat
  | [] => none
  | r :: t =>
    match afterLast p t with
    | some k => some (k + 1)
    | none => if p r then some 1 else none

/-- index of the first rule satisfying `p` -/
def firstIdx (p : Rule → Bool) : List Rule → Option Nat
  | [] => none
  | r :: t => if p r then some 0 else (firstIdx p t).map (· + 1)

/-- `self._cssRules and self._cssRules[0].type == rule.CHARSET_RULE` -/
def headIsCharset : List Rule → Bool
  | .charset _ :: _ => true
  | _ => false

structure InsRes where
  rules : List Rule
  index : Nat
deriving DecidableEq, Repr, Inhabited

/-- `insertRule(rule, index, inOrder)` for a well-formed rule object; `index = none` is `None`.
 -/
def insertRule (rules : List Rule) (rule : Rule) (index : Option Nat) (inOrder : Bool) : Except DomErr InsRes :=
  -- `cssstylesheet.py:589-596`
  let idx := index.getD rules.length
  if idx > rules.length then .error .indexSizeErr
  else
    let head0Charset : Bool := headIsCharset rules
    match rule with
    | .charset e =>                                                  -- :649-667
      if inOrder then
        match rules with
        | .charset _ :: rest => .ok ⟨.charset e :: rest, 0⟩         -- `self._cssRules[0].encoding = rule.encoding`
        | _ => .ok ⟨.charset e :: rules, 0⟩
      else if idx ≠ 0 || head0Charset then .error .hierarchyRequestErr
      else .ok ⟨insertAt rules idx (.charset e), idx⟩
    | .comment | .unknown =>
      if !inOrder then                                               -- :670-682
        if idx = 0 && head0Charset then .error .hierarchyRequestErr
        else .ok ⟨insertAt rules idx rule, idx⟩
      else .ok ⟨rules ++ [rule], rules.length⟩                       -- :856-859
    | .imp =>                                                        -- :685-733
      if inOrder then
        match afterLast (· == .imp) rules with
        | some k => .ok ⟨insertAt rules k .imp, k⟩
        | none =>
          let k := match rules with
            | .charset _ :: _ => 1
            | .comment :: _ => 1
            | _ => 0
          .ok ⟨insertAt rules k .imp, k⟩
      else if idx = 0 && head0Charset then .error .hierarchyRequestErr
      else if (rules.take idx).any (fun r => r == .ns || r == .variables || r == .style) then .error .hierarchyRequestErr
      else .ok ⟨insertAt rules idx .imp, idx⟩
    | .ns =>                                                         -- :766-845
      if inOrder then
        match afterLast (· == .ns) rules with
        | some k => .ok ⟨insertAt rules k .ns, k⟩
        | none =>
          -- after the last @charset / @import, before the first rule of another kind (a given index is ignored)
          let start := (afterLast (fun r => r.isCharset || r == .imp) rules).getD 0
          let k := match firstIdx (fun r => r == .variables || r == .style || r == .unknown || r == .comment)
              (rules.drop start) with
            | some j => start + j
            | none => rules.length
          .ok ⟨insertAt rules k .ns, k⟩
      else if (rules.drop idx).any (fun r => r.isCharset || r == .imp) then .error .hierarchyRequestErr
      else if (rules.take idx).any (fun r => r == .variables || r == .style) then .error .hierarchyRequestErr
      else .ok ⟨insertAt rules idx .ns, idx⟩                         -- fresh prefix: no doublette, nothing to clean
    | .variables =>                                                  -- :803-852
      if inOrder then
        match afterLast (· == .variables) rules with
        | some k => .ok ⟨insertAt rules k .variables, k⟩
        | none =>
          -- a given index is ignored (fix e727728); the scan starts after the last @charset / @import (fix 23bf738)
          let start := (afterLast (fun r => r.isCharset || r == .imp || r == .ns) rules).getD 0
          let k := match firstIdx (fun r => r == .style || r == .unknown || r == .comment) (rules.drop start) with
            | some j => start + j
            | none => rules.length
          .ok ⟨insertAt rules k .variables, k⟩
      else if (rules.drop idx).any (fun r => r.isCharset || r == .imp || r == .ns) then .error .hierarchyRequestErr
      else if (rules.take idx).any (fun r => r == .style) then .error .hierarchyRequestErr
      else .ok ⟨insertAt rules idx .variables, idx⟩
    | .style =>                                                      -- :855-875
      if inOrder then .ok ⟨rules ++ [.style], rules.length⟩
      else if (rules.drop idx).any (fun r => r.isCharset || r == .imp || r == .ns || r == .variables) then
        .error .hierarchyRequestErr
      else .ok ⟨insertAt rules idx .style, idx⟩

/-- `deleteRule(index)` for `0 ≤ index` (`cssstylesheet.py:530-550`; the `@namespace` rules of this model are not in use) -/
def deleteRule (rules : List Rule) (i : Nat) : Except DomErr (List Rule) :=
  if i < rules.length then .ok (rules.eraseIdx i) else .error .indexSizeErr

/-- `if encoding:` -/
def truthy : Option Name → Bool
  | some (_ :: _) => true
  | _ => false

/-- `sheet.encoding = e` (`cssstylesheet.py:435-451`); `e = none` is `None`, `some []` is `''` -/
def setEncoding (valid : Name → Bool) (rules : List Rule) (e : Option Name) : Except DomErr (List Rule) :=
  let n := e.getD []
  match rules with
  | .charset old :: rest =>
    if truthy e then
      if valid n then .ok (.charset (lower n) :: rest)               -- `rule.encoding = encoding`
      else .error .syntaxErr                                         -- raised by `_log.error`, nothing changed
    else deleteRule (.charset old :: rest) 0
  | _ =>
    if truthy e then
      if valid n then
        match insertRule rules (.charset (lower n)) (some 0) false with
        | .ok r => .ok r.rules
        | .error x => .error x
      else .error .syntaxErr                                         -- `CSSCharsetRule(encoding=…)` raises
    else .ok rules

/-- `sheet.cssRules[i].encoding = e` for a name `e` (`csscharsetrule.py:131-164`); only for a charset rule -/
def setRuleEncoding (valid : Name → Bool) (rules : List Rule) (i : Nat) (e : Name) : Except DomErr (List Rule) :=
  match rules[i]? with
  | some (.charset _) => if valid e then .ok (rules.set i (.charset (lower e))) else .error .syntaxErr
  | _ => .error .indexSizeErr          -- the harness never asks for this

/-- `sheet.cssText = text`, the text given as its rules in source order (each syntactically fine);
a rule that comes too late is reported (raises) and, because of `finally`, the old content stays -/
def parseAll : List Rule → Nat → List Rule → Except DomErr (List Rule)
  | [], _, acc => .ok acc
  | r :: t, exp, acc =>
    match r with
    | .charset e => if exp > 0 then .error .hierarchyRequestErr else parseAll t 1 (acc ++ [.charset e])
    | .comment => parseAll t (max 1 exp) (acc ++ [.comment])
    | .unknown => parseAll t (max 1 exp) (acc ++ [.unknown])
    | .imp => if exp > 1 then .error .hierarchyRequestErr else parseAll t 1 (acc ++ [.imp])
    | .variables => if exp > 2 then .error .hierarchyRequestErr else parseAll t 2 (acc ++ [.variables])
    | .ns =>                                           -- :220-245: `insertRule(rule, _clean=False)`, index `None`
      if exp > 2 then .error .hierarchyRequestErr
      else if acc.any (fun r => r == .variables || r == .style) then .error .hierarchyRequestErr
      else parseAll t 2 (acc ++ [.ns])
    | .style => parseAll t 3 (acc ++ [.style])

/-- `sheet.cssText = …`: when a rule is reported the exception leaves through `finally`, which puts the old
content back (`cssstylesheet.py:352-357`) -/
def setCssText (src : List Rule) : Except DomErr (List Rule) := parseAll src 0 []

/-- `insertRule(text, index, inOrder)` with the rule given as a string (`cssstylesheet.py:600-645`): the index is
checked first; the text — with the sheet's own `@charset` rule in front unless the text itself starts with `@charset` —
is parsed into a temporary sheet (a rule that is not allowed there raises, the sheet is untouched); it must give exactly
one new rule (`'Not a CSSRule'` otherwise), which then goes the way of a rule object. `src` = the rules of the text. -/
def startsCharset : List Rule → Bool
  | .charset _ :: _ => true
  | _ => false

/-- `pre` = the sheet's `@charset` rule is put in front of the text (`newrulescount, newruleindex = 2, 1`) -/
def insertRuleTextCore (pre : Bool) (rules src : List Rule) (idx : Nat) (inOrder : Bool) : Except DomErr InsRes :=
  match setCssText (if pre then rules.take 1 ++ src else src) with
  | .error e => .error e
  | .ok rs =>
    if rs.length ≠ (if pre then 2 else 1) then .error .syntaxErr
    else match rs[if pre then 1 else 0]? with
      | some r => insertRule rules r (some idx) inOrder
      | none => .error .syntaxErr

def insertRuleText (rules src : List Rule) (index : Option Nat) (inOrder : Bool) : Except DomErr InsRes :=
  let idx := index.getD rules.length
  if idx > rules.length then .error .indexSizeErr
  else insertRuleTextCore (!startsCharset src && headIsCharset rules) rules src idx inOrder

inductive Op where
  | setEncoding (e : Option Name)
  | insert (r : Rule) (index : Option Nat) (inOrder : Bool)
  | insertText (src : List Rule) (index : Option Nat) (inOrder : Bool)
  | insertCharsetNamed (name : Name) (index : Option Nat) (inOrder : Bool)   -- `CSSCharsetRule(encoding=name)` built first
  | delete (i : Nat)
  | setRuleEncoding (i : Nat) (e : Name)
  | setCssText (src : List Rule)
deriving DecidableEq, Repr, Inhabited

/-- one public operation; an error leaves the sheet as it was -/
def applyOp (valid : Name → Bool) (rules : List Rule) : Op → Except DomErr (List Rule)
  | .setEncoding e => setEncoding valid rules e
  | .insert r i o => match insertRule rules r i o with
    | .ok x => .ok x.rules
    | .error e => .error e
  | .insertText src i o => match insertRuleText rules src i o with
    | .ok x => .ok x.rules
    | .error e => .error e
  | .insertCharsetNamed n i o =>
    if n = [] then
      -- `CSSCharsetRule()` is not well-formed: the index is checked first (:589-596), then
      -- 'Invalid rules cannot be added.' (:643-645)
      if i.getD rules.length > rules.length then .error .indexSizeErr else .error .syntaxErr
    else if valid n then
      match insertRule rules (.charset (lower n)) i o with
      | .ok x => .ok x.rules
      | .error e => .error e
    else .error .syntaxErr
  | .delete i => deleteRule rules i
  | .setRuleEncoding i e => setRuleEncoding valid rules i e
  | .setCssText src => setCssText src

/-- a history: rejected operations change nothing -/
def runOps (valid : Name → Bool) : List Rule → List Op → List Rule
  | rules, [] => rules
  | rules, op :: t =>
    match applyOp valid rules op with
    | .ok rs => runOps valid rs t
    | .error _ => runOps valid rules t

/-! ## protocol (used by `Drv/C08.lean`) -/
open CssVerif.Proto

def showRule : Rule → String
  | .charset e => "charset:" ++ encCps e | .comment => "comment" | .unknown => "unknown"
  | .imp => "import" | .variables => "variables" | .ns => "namespace" | .style => "style"

def rule? (s : String) : Option Rule :=
  match s.splitOn ":" with
  | ["charset", e] => (decCps e).map Rule.charset
  | ["comment"] => some .comment | ["unknown"] => some .unknown | ["import"] => some .imp
  | ["variables"] => some .variables | ["namespace"] => some .ns | ["style"] => some .style
  | _ => none

def showErr : DomErr → String
  | .syntaxErr => "SyntaxErr" | .hierarchyRequestErr => "HierarchyRequestErr" | .indexSizeErr => "IndexSizeErr"

def idx? (s : String) : Option (Option Nat) := if s == "N" then some none else s.toNat?.map some

def rules? (s : String) : Option (List Rule) :=
  if s == "-" then some [] else (s.splitOn ",").foldr (fun w acc => match rule? (w.replace "=" ":"), acc with
    | some r, some l => some (r :: l)
    | _, _ => none) (some [])

/-- `enc/<name|N>`, `ins/<rule>/<idx|N>/<0|1>`, `inst/<rule,rule,…>/<idx|N>/<0|1>` (the rule given as text), `insn/<name>/<idx|N>/<0|1>`, `del/<i>`, `renc/<i>/<name>`,
`text/<rule,rule,…>` (inside `text`, `charset=<name>`) -/
def op? (s : String) : Option Op :=
  match s.splitOn "/" with
  | ["enc", e] => if e == "N" then some (.setEncoding none) else (decCps e).map (fun n => .setEncoding (some n))
  | ["ins", r, i, o] => match rule? r, idx? i with
    | some r, some i => some (.insert r i (o == "1"))
    | _, _ => none
  | ["inst", l, i, o] => match rules? l, idx? i with
    | some l, some i => some (.insertText l i (o == "1"))
    | _, _ => none
  | ["insn", n, i, o] => match decCps n, idx? i with
    | some n, some i => some (.insertCharsetNamed n i (o == "1"))
    | _, _ => none
  | ["del", i] => i.toNat?.map Op.delete
  | ["renc", i, e] => match i.toNat?, decCps e with
    | some i, some e => some (.setRuleEncoding i e)
    | _, _ => none
  | ["text", l] => (rules? l).map Op.setCssText
  | _ => none

def showRules (l : List Rule) : String := if l.isEmpty then "-" else ",".intercalate (l.map showRule)

/-- `sheet V <valid name>* O <op>*` → per op `ok` / the error, `;`-separated, then `=` the rules, the encoding -/
def sheetCmd (ws : List String) : String :=
  let vs := ws.takeWhile (· ≠ "O")
  let os := (ws.dropWhile (· ≠ "O")).drop 1
  match vs with
  | "V" :: names =>
    match names.foldr (fun w acc => match decCps w, acc with
        | some n, some l => some (n :: l) | _, _ => none) (some []) with
    | none => "bad-op"
    | some valids =>
      let valid : Name → Bool := fun n => valids.contains n
      let rec go (rules : List Rule) (ops : List String) (acc : List String) : String :=
        match ops with
        | [] => ";".intercalate acc.reverse ++ " = " ++ showRules rules ++ " " ++ encCps (encoding rules)
        | o :: t =>
          match op? o with
          | none => "bad-op"
          | some op =>
            match applyOp valid rules op with
            | .ok rs => go rs t (("ok:" ++ showRules rs ++ ":" ++ encCps (encoding rs)) :: acc)
            | .error e => go rules t ((showErr e ++ ":" ++ showRules rules ++ ":" ++ encCps (encoding rules)) :: acc)
      go [] os []
  | _ => "bad-op"

end CssVerif.EncSheet
