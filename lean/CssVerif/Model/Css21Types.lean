import CssVerif.Model.Validate
/-!
# Reference: CSS 2.1 single-value grammars built from `<integer>`, `<number>`, `<length>`, `<percentage>`
# and keywords — as *templates*

A template is a sequence of segments: `one ms` = exactly one code point whose ASCII lower-casing is in `ms`,
`many ms` = zero or more such code points. `tmatch` is the (obvious, executable) meaning of a template.
The lists below are typed from the CSS 2.1 Recommendation — NOT derived from cssutils:

* §4.3.1  `<integer>` = `[+-]?[0-9]+`, `<number>` = `[+-]?([0-9]+|[0-9]*\.[0-9]+)`
* §4.3.2  `<length>`  = `<number>` immediately followed by `em ex px in cm mm pt pc`, or a zero `<number>`
          (“after a zero length, the unit identifier is optional”; the zero in any spelling: `0`, `00`, `0.0`, `.0`, `-0`)
* §4.3.3  `<percentage>` = `<number>%`
* Appendix F for the properties. `font-size` is left out: its grammar is `<length> | <percentage> | …` but the
  prose forbids negative values, and cssutils implements that for lengths only.

Core Lean only.
-/
namespace CssVerif.Css21
open CssVerif.Validate

inductive Seg where
  | one (ms : List Nat)
  | many (ms : List Nat)
deriving DecidableEq, Repr, Inhabited

abbrev Template := List Seg

/-- does the whole string match the template? -/
def tmatch : Template → Str → Bool
  | [], s => s.isEmpty
  | .one _ :: _, [] => false
  | .one ms :: t, x :: s => ms.contains (foldc x) && tmatch t s
  | .many _ :: t, [] => tmatch t []
  | .many ms :: t, x :: s => tmatch t (x :: s) || (ms.contains (foldc x) && tmatch (.many ms :: t) s)
termination_by t s => t.length + s.length

def digits : List Nat := [48, 49, 50, 51, 52, 53, 54, 55, 56, 57]

/-- the letters of an (ASCII lower-case) keyword, one segment each -/
def kw (s : String) : Template := s.toList.map fun c => Seg.one [c.toNat]

/-- `[0-9]+` -/
def digits1 : Template := [.one digits, .many digits]

/-- `[0-9]+ | [0-9]*\.[0-9]+` (unsigned) -/
def unum : List Template := [digits1, [.many digits, .one [46]] ++ digits1]

/-- optional sign `[-+]?`: none, or one of `-` `+` -/
def signed (ts : List Template) : List Template :=
  ts ++ ts.map (fun t => Seg.one [45, 43] :: t)

def integer : List Template := signed [digits1]
def number : List Template := signed unum
def units : List String := ["em", "ex", "px", "in", "cm", "mm", "pt", "pc"]
def withUnits (ns : List Template) : List Template := ns.flatMap fun n => units.map fun u => n ++ kw u
/-- a zero number without sign: `0+ | 0*\.0+` -/
def uzero : List Template := [[.one [48], .many [48]], [.many [48], .one [46], .one [48], .many [48]]]
/-- "after a zero length, the unit identifier is optional": a zero `<number>` in any spelling (`0`, `00`, `0.0`, `.0`,
`-0`, `+0`), or a `<number>` with a unit -/
def length : List Template := signed uzero ++ withUnits number
def percentage : List Template := number.map fun n => n ++ [Seg.one [37]]
def kws (l : List String) : List Template := l.map kw

/-- property ↦ templates of its CSS 2.1 value grammar (Appendix F) -/
def typedProps : List (String × List Template) := [
  ("bottom", length ++ percentage ++ kws ["auto", "inherit"]),
  ("left", length ++ percentage ++ kws ["auto", "inherit"]),
  ("right", length ++ percentage ++ kws ["auto", "inherit"]),
  ("top", length ++ percentage ++ kws ["auto", "inherit"]),
  ("width", length ++ percentage ++ kws ["auto", "inherit"]),
  ("height", length ++ percentage ++ kws ["auto", "inherit"]),
  ("margin-top", length ++ percentage ++ kws ["auto", "inherit"]),
  ("margin-right", length ++ percentage ++ kws ["auto", "inherit"]),
  ("margin-bottom", length ++ percentage ++ kws ["auto", "inherit"]),
  ("margin-left", length ++ percentage ++ kws ["auto", "inherit"]),
  ("padding-top", length ++ percentage ++ kws ["inherit"]),
  ("padding-right", length ++ percentage ++ kws ["inherit"]),
  ("padding-bottom", length ++ percentage ++ kws ["inherit"]),
  ("padding-left", length ++ percentage ++ kws ["inherit"]),
  ("max-height", length ++ percentage ++ kws ["none", "inherit"]),
  ("max-width", length ++ percentage ++ kws ["none", "inherit"]),
  ("min-height", length ++ percentage ++ kws ["inherit"]),
  ("min-width", length ++ percentage ++ kws ["inherit"]),
  ("text-indent", length ++ percentage ++ kws ["inherit"]),
  ("letter-spacing", length ++ kws ["normal", "inherit"]),
  ("word-spacing", length ++ kws ["normal", "inherit"]),
  ("line-height", number ++ length ++ percentage ++ kws ["normal", "inherit"]),
  ("orphans", integer ++ kws ["inherit"]),
  ("widows", integer ++ kws ["inherit"]),
  ("z-index", integer ++ kws ["auto", "inherit"]),
  ("pitch-range", number ++ kws ["inherit"]),
  ("richness", number ++ kws ["inherit"]),
  ("stress", number ++ kws ["inherit"]),
  ("speech-rate", number ++ kws ["x-slow", "slow", "medium", "fast", "x-fast", "faster", "slower", "inherit"]),
  ("volume", number ++ percentage ++ kws ["silent", "x-soft", "soft", "medium", "loud", "x-loud", "inherit"]),
  ("border-top-width", length ++ kws ["thin", "medium", "thick", "inherit"]),
  ("border-right-width", length ++ kws ["thin", "medium", "thick", "inherit"]),
  ("border-bottom-width", length ++ kws ["thin", "medium", "thick", "inherit"]),
  ("border-left-width", length ++ kws ["thin", "medium", "thick", "inherit"]),
  ("vertical-align", length ++ percentage ++ kws ["baseline", "sub", "super", "top", "text-top", "middle",
      "bottom", "text-bottom", "inherit"])
]

/-- the value text is in the CSS 2.1 grammar of the property -/
def member (ts : List Template) (s : Str) : Bool := ts.any fun t => tmatch t s

end CssVerif.Css21
