import CssVerif.Model.SheetEdit
/-!
# C09 — the specification: what "structurally valid" means

Written independently of the code's structure (no generated table is used here):

* `rank`: @charset 0, @import 1, @namespace 2, @variables 3, style/@media/@page/@font-face 4; comments, unknown
  at-rules (and a stray margin rule, which the sheet parser treats like an unknown at-rule) are transparent;
* `TopOK`: ranks never decrease along the list, and no @charset rule follows any rule;
* `allowedIn`: @media holds style rules, @page, @media, comments, unknown at-rules; @page holds margin rules;
* links: a rule in the sheet's list names the sheet and no parent rule; a rule in a nested list names its container as
  parent rule (the raw `_parentStyleSheet` of a nested rule is `None`: the getter goes through the parent rule);
* an object that is not in the tree (removed, refused, replaced) names neither.
-/
namespace CssVerif.SheetEdit
open CssVerif.Proto (Cps)

def rank : Kind → Option Nat
  | .charset => some 0
  | .imp => some 1
  | .ns => some 2
  | .vars => some 3
  | .style | .media | .page | .fontface => some 4
  | .comment | .unknown | .margin => none

/-- `x` may stand before `y` -/
def leR (x y : Kind) : Bool :=
  match rank x, rank y with
  | some a, some b => a ≤ b
  | _, _ => true

/-- the relation that must hold between every rule and every later rule of the sheet's list -/
def Before (x y : Kind) : Prop := leR x y = true ∧ y ≠ .charset

instance : DecidableRel Before := fun x y => by unfold Before; exact inferInstance

/-- order and @charset clause on a list of kinds -/
def TopK (l : List Kind) : Prop := l.Pairwise Before

/-- order and @charset clause of a rule list -/
def TopOK (l : List Rule) : Prop := TopK (kindsOf l)

instance (l : List Kind) : Decidable (TopK l) := by unfold TopK; exact inferInstance
instance (l : List Rule) : Decidable (TopOK l) := by unfold TopOK; exact inferInstance

/-- rule kinds a nested list may hold -/
def allowedIn : Kind → Kind → Bool
  | .media, k => k = .style || k = .page || k = .media || k = .comment || k = .unknown
  | .page, k => k = .margin
  | _, _ => false

mutual
/-- nested lists hold only allowed kinds, at every depth (a rule that is no container has no children) -/
def Rule.kidsOK : Rule → Bool
  | ⟨_, k, _, _, _, _, _, _, kids⟩ => Rule.kidsOKL k kids
def Rule.kidsOKL (ck : Kind) : List Rule → Bool
  | [] => true
  | r :: rs => allowedIn ck r.kind && r.kidsOK && Rule.kidsOKL ck rs
end

mutual
/-- the same for the description of a rule object the caller builds (a caller cannot put a rule of a refused kind
into a detached @media / @page either, but the listed findings let some kinds through: the theorems ask the candidate
to be well nested) -/
def Spec.kidsOK : Spec → Bool
  | ⟨k, _, _, _, _, kids⟩ => Spec.kidsOKL k kids
def Spec.kidsOKL (ck : Kind) : List Spec → Bool
  | [] => true
  | s :: ss => allowedIn ck s.kind && s.kidsOK && Spec.kidsOKL ck ss
end

mutual
/-- back pointers mirror containment: this rule has `_parentRule = parent`, `_parentStyleSheet is sheet = pss`, and
every rule below it names its container and no sheet -/
def Rule.linksOK (parent : Option Nat) (pss : Bool) : Rule → Bool
  | ⟨i, _, _, _, _, _, p, pr, kids⟩ => p == pss && pr == parent && Rule.linksOKL (some i) kids
def Rule.linksOKL (parent : Option Nat) : List Rule → Bool
  | [] => true
  | r :: rs => r.linksOK parent false && Rule.linksOKL parent rs
end

/-- the public getter `rule.parentStyleSheet` (`cssrule.py:133-140`): a rule inside another rule asks that rule,
which may itself be inside a rule; `ancestors` = the containers of `r`, innermost first -/
def derivedPss : List Rule → Rule → Bool
  | ancestors, r => match r.prule, ancestors with
    | none, _ => r.pss
    | some _, [] => false
    | some _, c :: cs => derivedPss cs c

mutual
/-- the getter answers "the sheet" for this rule and for every rule below it -/
def Rule.pssOK (ancestors : List Rule) : Rule → Bool
  | ⟨i, k, pre, uri, enc, used, p, pr, kids⟩ =>
    derivedPss ancestors ⟨i, k, pre, uri, enc, used, p, pr, []⟩ &&
      Rule.pssOKL (⟨i, k, pre, uri, enc, used, p, pr, []⟩ :: ancestors) kids
def Rule.pssOKL (ancestors : List Rule) : List Rule → Bool
  | [] => true
  | r :: rs => r.pssOK ancestors && Rule.pssOKL ancestors rs
end

/-- rule objects handed in by the caller are well nested (texts are parsed, which guarantees it) -/
def OpOK : Op → Prop
  | .insert s _ v => v = true ∨ s.kidsOK = true
  | .add s v => v = true ∨ s.kidsOK = true
  | .insertOrdered s _ v => v = true ∨ s.kidsOK = true
  | .nInsert _ s _ v => v = true ∨ s.kidsOK = true
  | .insertList specs _ => ∀ s ∈ specs, s.kidsOK = true
  | .nInsertList _ specs _ => ∀ s ∈ specs, s.kidsOK = true
  | _ => True

instance (op : Op) : Decidable (OpOK op) := by cases op <;> unfold OpOK <;> exact inferInstance

structure Valid (st : St) : Prop where
  top : TopOK st.rules
  kids : ∀ r ∈ st.rules, r.kidsOK = true
  links : ∀ r ∈ st.rules, r.linksOK none true = true
  gone : ∀ g ∈ st.gone, g.linksOK none false = true
  /-- bookkeeping of the model, not part of the property: the rule objects of the sheet's list were created before
  `next` (object identity is rendered as an id; Python's `r is rule` / `rule in self._cssRules` compare ids) -/
  ids : ∀ r ∈ st.rules, r.id < st.next

/-- the part of `Valid` that speaks about the sheet's tree only (not about dropped objects) -/
structure ValidTree (st : St) : Prop where
  top : TopOK st.rules
  kids : ∀ r ∈ st.rules, r.kidsOK = true
  links : ∀ r ∈ st.rules, r.linksOK none true = true
  ids : ∀ r ∈ st.rules, r.id < st.next

/-- every operation of the history hands in well nested rule objects -/
def AllOK (ops : List Op) : Prop := ∀ op ∈ ops, OpOK op

instance (ops : List Op) : Decidable (AllOK ops) := by unfold AllOK; exact inferInstance

/-! ## serialise + reparse: what must survive -/

mutual
/-- the tree of rule kinds -/
def Rule.shape : Rule → Spec
  | ⟨_, k, _, _, _, _, _, _, kids⟩ => ⟨k, [], [], [], [], Rule.shapes kids⟩
def Rule.shapes : List Rule → List Spec
  | [] => []
  | r :: rs => r.shape :: Rule.shapes rs
end

mutual
/-- the rule on its own survives being written and parsed (after the sheet's @namespace rules): its selectors use
declared namespace URIs only (`uris`), an @page rule holds each margin once (the parser merges a repeated margin),
an @namespace rule has a URI — at every depth. This is what the harness checks rule by rule before it blames the
ORDER for a loss. -/
def Rule.roundTrips (uris : List Cps) : Rule → Bool
  | ⟨_, k, _, uri, _, used, _, _, kids⟩ =>
    (if k = .style then used.all (fun u => uris.contains u) else true) &&
    (if k = .page then decide ((kids.map (·.pre)).Nodup) else true) &&
    (if k = .ns then !uri.isEmpty else true) &&
    Rule.roundTripsL uris kids
def Rule.roundTripsL (uris : List Cps) : List Rule → Bool
  | [] => true
  | r :: rs => r.roundTrips uris && Rule.roundTripsL uris rs
end

/-- the @namespace rules of the list: (prefix, URI) in document order -/
def nsPairs (l : List Rule) : List (Cps × Cps) := (l.filter (fun r => r.kind = .ns)).map (fun r => (r.pre, r.uri))

/-- every @namespace rule is effective: prefixes pairwise distinct, URIs pairwise distinct (what `_cleanNamespaces`
establishes) -/
def NsClean (l : List Rule) : Prop := ((nsPairs l).map (·.1)).Nodup ∧ ((nsPairs l).map (·.2)).Nodup

/-- Bool rendering of `Valid` (for `decide` at witnesses and for the driver) -/
def validB (st : St) : Bool :=
  decide (TopOK st.rules) && st.rules.all (fun r => r.kidsOK && r.linksOK none true) &&
    st.gone.all (fun g => g.linksOK none false) && st.rules.all (fun r => r.id < st.next)

end CssVerif.SheetEdit
