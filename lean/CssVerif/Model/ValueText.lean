import CssVerif.Model.Out
/-!
# K4/K5 `ValueText` — how `Property.value` (the text handed to validation) comes out of a value's tokens

`Property.value` (`css/property.py:294-297`) is `PropertyValue.value` (`css/value.py:216-220`), i.e.
`do_css_PropertyValue(self, valuesOnly=True)` (`serialize.py:1067-1088`) over the item list that
`PropertyValue._setCssText` (`css/value.py:92-197`) obtains from `ProdParser.parse` (`prodparser.py:442-696`) with
the grammar `term [ [S | ',' | '/']? term ]*` (`value.py:140-174`).

Modelled here, for the **top level** of a value (what happens between its components):

* `VTok`        — the token stream as the main loop sees it: `S`, `COMMENT`, the two operator characters, `;`,
                  `INVALID`, any other token that no production takes, and a *term*: a token (or, for a function,
                  the token run up to its `)`) that one of the eight term productions takes. What a term production
                  puts into the item list — item type, the text its `cssText` gives under the current preferences,
                  its `wellformed` — is an input of the model (`Term`); the nested parsers are not modelled here.
* `Stream.next` — `_SorTokens` (`prodparser.py:403-440`) as a state machine: once a production with `nextSor` has
                  matched the token stream is wrapped; while `self._sor` is set an S run is dropped before `,` `/`
                  or a comment, merged into one S otherwise (`yield token; yield next_` = `pending`).
* `gstep`       — the descent through `Sequence(term, Sequence(operator?, END?, term)*)` (`Sequence.nextProd` /
                  `Choice.nextProd`) as the derived four-state automaton.
* `mainLoop`, `parseValue` — `ProdParser.parse`'s loop (`:509-645`: COMMENT always appended, default S handling,
                  INVALID, `stopAndKeep`, `nextSor` → wrap / `_sor` / `defaultS`), the end-of-input loop
                  (`:647-690`, `mayEnd`), and the three conditions of `_setCssText` (`value.py:176-184`).
* `voCalls`, `valueText` — `do_css_PropertyValue(valuesOnly=True)`: comments skipped, every other item appended
                  through `Out.append` (model of C06, `Model/Out.lean`), `Out.value()`.
* `propertyValue` — the composition: the text `Property.value` has for a token stream (`none`: not well-formed,
                  no value is set).

Not in the model: `savedTokens` (assumed empty on entry; C12), the nested parsers of functions, `EOF` tokens (a
value text is tokenized without `fullsheet`).
-/
namespace CssVerif.ValueText
open CssVerif.Proto (Cps)
open CssVerif.Out (Prefs Call)

/-- what a term production appends to the item list: `(type_, val)` with `val` an object that has `cssText` -/
structure Term where
  /-- `item.type`: `'Value'`, `'DIMENSION'`, `'ColorValue'`, `'URIValue'`, `'Function'`, `'CSSCalc'`, … -/
  ty : Cps
  /-- `item.value.cssText` under the current preferences -/
  text : Cps
  /-- `item.value.wellformed` -/
  wf : Bool
  deriving DecidableEq, Repr

inductive VTok where
  | s
  | comment (text : Cps)
  /-- CHAR `,` (44) or `/` (47) -/
  | op (c : Nat)
  | term (t : Term)
  /-- CHAR `;` (production `END`, `stopAndKeep`) -/
  | semi
  | invalid
  /-- a token no production of the grammar takes (`}` `)` `!` `+` `:` …) -/
  | other
  deriving DecidableEq, Repr

inductive SItem where
  | comment (text : Cps)
  | op (c : Nat)
  | term (t : Term)
  deriving DecidableEq, Repr

/-! ## `_SorTokens` (`prodparser.py:403-440`) -/

structure Stream where
  toks : List VTok
  /-- `sortokens is not None` -/
  wrapped : Bool := false
  /-- `self._sor` -/
  sor : Bool := false
  /-- the `yield next_` that follows `yield token` (`:431-432`) -/
  pending : Option VTok := none
  deriving Repr

/-- `while next_[0] == self.types.S: next_ = next(tokens)` (`:419-420`) -/
def dropS : List VTok → List VTok
  | .s :: r => dropS r
  | r => r

def Stream.next (st : Stream) : Option (VTok × Stream) :=
  match st.pending with
  | some t => some (t, { st with pending := none })
  | none =>
    match st.toks with
    | [] => none
    | t :: r =>
      if !st.wrapped || !st.sor then some (t, { st with toks := r })           -- `:411-413`
      else match t with
        | .s =>                                                                   -- `:414-432`
          match dropS r with
          | [] => some (.s, { st with toks := [] })                               -- `except StopIteration: yield token`
          | n :: r' =>
            match n with
            | .op _ => some (n, { st with toks := r' })                           -- `next_[1] in until`
            | .comment _ => some (n, { st with toks := r' })
            | _ => some (.s, { st with toks := r', pending := some n })
        | .comment _ => some (t, { st with toks := r })                           -- `:434-436`
        | _ => some (t, { st with toks := r, sor := false })                      -- `:437-440`

/-- tokens still to be yielded -/
def Stream.size (st : Stream) : Nat := st.toks.length + (if st.pending.isSome then 1 else 0)

/-! ## the grammar `Sequence(term, Sequence(operator?, END?, term)*)` as an automaton -/

inductive PState where
  /-- nothing matched yet: the outer sequence waits for its first `term` -/
  | start
  /-- a `term` matched last: the inner sequence is at `operator` -/
  | afterTerm
  /-- the operator `S` matched last (`mayEnd`) -/
  | afterS
  /-- `,` or `/` matched last -/
  | afterOp
  deriving DecidableEq, Repr

inductive Step where
  /-- a production matched: new state, the item its `toSeq` yields (none: `toSeq=False`), its `nextSor` -/
  | cont (ps : PState) (emit : Option SItem) (nextSor : Bool)
  /-- `END` matched (`stopAndKeep`) -/
  | stop
  /-- `NoMatch` / `Missing` -/
  | fail
  deriving DecidableEq, Repr

def gstep (ps : PState) (t : VTok) : Step :=
  match ps, t with
  | _, .term x => .cont .afterTerm (some (.term x)) true
  | .start, _ => .fail
  | .afterTerm, .s => .cont .afterS none false
  | .afterTerm, .op c => .cont .afterOp (some (.op c)) false
  | _, .semi => .stop
  | _, _ => .fail

/-- the end-of-input loop (`prodparser.py:647-690`): `Done` after a term, `Missing` after an operator, which is
forgiven iff the operator was the `S` production (`mayEnd`) -/
def endOk : PState → Bool
  | .afterTerm | .afterS => true
  | _ => false

/-! ## `ProdParser.parse` (`prodparser.py:492-696`) -/

structure Loop where
  ps : PState := .start
  defaultS : Bool := true
  /-- newest first -/
  seq : List SItem := []
  deriving Repr

/-- `none`: `wellformed` is `False` -/
def mainLoop : Nat → Stream → Loop → Option (List SItem)
  | 0, _, _ => none
  | fuel + 1, st, l =>
    match st.next with
    | none => if endOk l.ps then some l.seq.reverse else none
    | some (t, st) =>
      match t with
      | .comment c => mainLoop fuel st { l with seq := .comment c :: l.seq }     -- `:525-529`
      | .invalid => none                                                          -- `:542-546`
      | _ =>
        if t == .s && l.defaultS then mainLoop fuel st l                          -- `:531-534` (`keepS` is False)
        else match gstep l.ps t with
          | .fail => none
          | .stop => some l.seq.reverse                                           -- `:626-635`, `stopall`
          | .cont ps e ns =>
            let seq := match e with | some i => i :: l.seq | none => l.seq
            -- `:637-645`
            let st := if ns then { st with wrapped := true, sor := true } else st
            mainLoop fuel st { ps := ps, defaultS := !ns, seq := seq }

def SItem.isTerm : SItem → Bool
  | .term _ => true
  | _ => false

/-- `hasattr(item.value, 'wellformed') and not item.value.wellformed` (`value.py:180-183`); a `CSSComment` made
from a COMMENT token is well-formed, an operator is a string -/
def SItem.wf : SItem → Bool
  | .term x => x.wf
  | _ => true

/-- `PropertyValue._setCssText`: the item list that is set, `none` when the value is refused -/
def parseValue (ts : List VTok) : Option (List SItem) :=
  match mainLoop (ts.length + 1) { toks := ts } {} with
  | some seq => if seq.any SItem.isTerm && seq.all SItem.wf then some seq else none
  | none => none

/-! ## `do_css_PropertyValue(valuesOnly=True)` (`serialize.py:1067-1088`) -/

def t_operator : Cps := [111, 112, 101, 114, 97, 116, 111, 114]

def voCalls : List SItem → List Call
  | [] => []
  | .comment _ :: r => voCalls r                                                  -- `:1075-1076`
  | .op c :: r => { v := .str (Out.requote [c]), ty := t_operator } :: voCalls r  -- `:1083-1086`
  | .term x :: r => { v := .str x.text, ty := x.ty } :: voCalls r                 -- `:1078-1081`

/-- `PropertyValue.value`; `lv` is `ser._level` -/
def valueText (p : Prefs) (lv : Nat) (seq : List SItem) : Cps :=
  if !seq.any SItem.isTerm then []                                                -- `if not value`
  else Out.value (Out.runCalls p (lv + 1) (voCalls seq))

/-- `Property.value` of the value parsed from `ts` -/
def propertyValue (p : Prefs) (lv : Nat) (ts : List VTok) : Option Cps :=
  (parseValue ts).map (valueText p lv)

/-! ## reference: the components of a value and the plain reading of them -/

def VTok.isGap : VTok → Bool
  | .s | .comment _ => true
  | _ => false

/-- the token stream with comments and white space deleted -/
def components (ts : List VTok) : List VTok := ts.filter (fun t => !t.isGap)

/-- the three-state reading of a gap-free stream: `term ( (',' | '/')? term )*`, cut at `;` -/
def specGo : PState → List VTok → List SItem → Option (List SItem)
  | ps, [], acc => if endOk ps then some acc.reverse else none
  | _, .term x :: r, acc => specGo .afterTerm r (.term x :: acc)
  | .afterTerm, .op c :: r, acc => specGo .afterOp r (.op c :: acc)
  | .start, _ :: _, _ => none
  | _, .semi :: _, acc => some acc.reverse
  | _, _ :: _, _ => none

/-- the reading of a gap-free stream with the three conditions of `_setCssText` -/
def specValue (cs : List VTok) : Option (List SItem) :=
  match specGo .start cs [] with
  | some seq => if seq.any SItem.isTerm && seq.all SItem.wf then some seq else none
  | none => none

def SItem.isComment : SItem → Bool
  | .comment _ => true
  | _ => false

def noComments (seq : List SItem) : List SItem := seq.filter (fun i => !i.isComment)

end CssVerif.ValueText
