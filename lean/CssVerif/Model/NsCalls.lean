import CssVerif.Model.Ns
/-!
# K3/K7: `New.append` call by call — the saved namespace prefix and comments (`selector.py:84-147`)

`Model/Ns.lean` resolves a selector item by item, a qualified name being one item with its prefix form. The code
receives a prefix and its name in two calls: `append(val, '_PREFIX')` saves the prefix in `self._PREFIX`, the next
call combines it with the name. Since fix 3495bab a `COMMENT` between the two is appended as it is and LEAVES the
saved prefix for the name that follows (before, the comment consumed it and the name was resolved without prefix).
This file models that level, so that the placement of comments is covered by a theorem instead of a search.
-/
namespace CssVerif.Ns
open CssVerif.Proto

/-- one call of `New.append`, as far as namespaces are concerned -/
inductive Call
  /-- `typ == '_PREFIX'`: `*|`, `|` or `p|` (`val[:-1]` is saved) -/
  | pfx (p : PfxSpec)
  | comment (c : Cps)
  /-- a type selector, `*`, attribute name or type selector inside `:not(` -/
  | name (k : QKind) (n : Cps)
  | other (val ser : Cps)
  | bad
  deriving DecidableEq, Repr

/-- what lands in `seq` -/
inductive Emit
  | item (x : Item)
  | comment (c : Cps)
  deriving DecidableEq, Repr

def Emit.isComment : Emit → Bool
  | .comment _ => true
  | .item _ => false

def Call.isComment : Call → Bool
  | .comment _ => true
  | _ => false

/-- `New.append` (`selector.py:84-147`); the state is `self._PREFIX` -/
def appendCall (d : Dict) (st : Option PfxSpec) : Call → Except Err (Option PfxSpec × List Emit)
  | .pfx p => .ok (some p, [])                                   -- :101-105
  | .comment c => .ok (st, [.comment c])                          -- :107-110, the saved prefix stays
  | .name k n =>                                                  -- :112-147: `prefix, self._PREFIX = self._PREFIX, None`
    match resolveItem d (.q k (st.getD .noPfx) n) with
    | .ok x => .ok (none, [.item x])
    | .error e => .error e
  | .other v s => .ok (none, [.item (.other v s)])
  | .bad => .error .syntaxErr

def runCalls (d : Dict) : Option PfxSpec → List Call → Except Err (List Emit)
  | _, [] => .ok []
  | st, c :: t => match appendCall d st c with
    | .error e => .error e
    | .ok r => match runCalls d r.1 t with
      | .error e => .error e
      | .ok ys => .ok (r.2 ++ ys)

/-- the calls that a comment-free selector of `Model/Ns.lean` makes -/
def callsOfItem : SItem → List Call
  | .q k .noPfx n => [.name k n]
  | .q k ps n => [.pfx ps, .name k n]
  | .other v s => [.other v s]
  | .bad => [.bad]

def callsOf (sel : SSel) : List Call := (sel.map callsOfItem).flatten

end CssVerif.Ns
