import CssVerif.Model.Num
/-!
# The tokenizer-side value of STRING and URI tokens (C18)

ONE definition, `tokenValue`, of how the tokenizer turns the source text of a token into the token value the value
classes receive (`cssutils/tokenize2.py:36-38` `stringsub`; `:117-132` `_repl`; `:229-235`).
Everything in the C18 model that is about *source* strings / URLs goes through it (`stringSourceValue`,
`uriSourceValue`), so a repair of the tokenizer is followed by changing this file only.
-/
namespace CssVerif.Num
open CssVerif.Proto

inductive TokKind where
  | string | uri
deriving DecidableEq, Repr, Inhabited

/-- `sys.maxunicode` -/
def maxUnicode : Nat := 0x10FFFF

/-- `stringsub(_repl, found)` (`tokenize2.py:36-38`, `_repl` `:117-132`), one pass over the source text, non-overlapping,
from the left: `\\\\` stays; a line continuation (backslash + CR LF / LF / CR / FF) disappears; `\hex{1,6}` with one
optional white space becomes the character (`\\\\` for U+005C, unchanged beyond `sys.maxunicode`). `fuel ≥ length`. -/
def stringSubAux : Nat → Cps → Cps
  | 0, s => s
  | _ + 1, [] => []
  | _ + 1, [c] => [c]
  | fuel + 1, c :: d :: t =>
    if c = cBackslash then
      if d = cBackslash then c :: d :: stringSubAux fuel t
      else if d = 0x0D then
        stringSubAux fuel (match t with | 0x0A :: t' => t' | _ => t)
      else if d = 0x0A ∨ d = 0x0C then stringSubAux fuel t
      else if isHexDigit d then
        let r := takeHex 6 0 (d :: t)
        let rest := skipEscSpace r.2
        let matched := (c :: d :: t).take ((c :: d :: t).length - rest.length)
        (if r.1 = 0x5C then [cBackslash, cBackslash] else if r.1 ≤ maxUnicode then [r.1] else matched)
          ++ stringSubAux fuel rest
      else c :: stringSubAux fuel (d :: t)
    else c :: stringSubAux fuel (d :: t)

def stringSub (s : Cps) : Cps := stringSubAux (s.length + 1) s

/-- **the** tokenizer-side value function: token source text ↦ token value. STRING, INVALID and URI tokens are all
decoded by `stringsub` (`tokenize2.py:231-233`); the kind is kept as a parameter for the callers. -/
def tokenValue (_k : TokKind) (src : Cps) : Cps := stringSub src

/-- `Value.value` of a STRING token written `src` (`PreDef.string`: `helper.stringvalue(t[1])`) -/
def stringSourceValue (src : Cps) : Except Err Cps := stringValue (tokenValue .string src)

/-- `URIValue.uri` of a URI token written `src` (`PreDef.uri`: `helper.urivalue(t[1])`) -/
def uriSourceValue (src : Cps) : Except Err Cps := uriValue (tokenValue .uri src)

end CssVerif.Num
