import CssVerif.Model.Num
/-!
# The tokenizer-side value of STRING and URI tokens (C18)

ONE definition, `tokenValue`, of how the tokenizer turns the source text of a token into the token value the value
classes receive (`cssutils/tokenize2.py:31-32` `unicodesub`, `cleanstring`; `:112-124` `_repl`; `:222-227`).
Everything in the C18 model that is about *source* strings / URLs goes through it (`stringSourceValue`,
`uriSourceValue`), so a repair of the tokenizer is followed by changing this file only.
-/
namespace CssVerif.Num
open CssVerif.Proto

inductive TokKind where
  | string | uri
deriving DecidableEq, Repr, Inhabited

/-- `sys.maxunicode` -/
def maxUnicode : Nat := 0x10FFFF

/-- `unicodesub(_repl, found)`: `\\\\` stays; `\hex{1,6}` with one optional white space becomes the character
(`\\\\` for U+005C, unchanged beyond `sys.maxunicode`); non-overlapping, from the left. `fuel ≥ length`. -/
def unicodeSubAux : Nat → Cps → Cps
  | 0, s => s
  | _ + 1, [] => []
  | _ + 1, [c] => [c]
  | fuel + 1, c :: d :: t =>
    if c = cBackslash then
      if d = cBackslash then c :: d :: unicodeSubAux fuel t
      else if isHexDigit d then
        let r := takeHex 6 0 (d :: t)
        let rest := skipEscSpace r.2
        let matched := (c :: d :: t).take ((c :: d :: t).length - rest.length)
        (if r.1 = 0x5C then [cBackslash, cBackslash] else if r.1 ≤ maxUnicode then [r.1] else matched)
          ++ unicodeSubAux fuel rest
      else c :: unicodeSubAux fuel (d :: t)
    else c :: unicodeSubAux fuel (d :: t)

def unicodeSub (s : Cps) : Cps := unicodeSubAux (s.length + 1) s

/-- `cleanstring('', value)`: a backslash followed by CR LF, LF, CR or FF disappears -/
def cleanString : Cps → Cps
  | [] => []
  | [c] => [c]
  | [c, d] => if c = cBackslash ∧ (d = 0x0D ∨ d = 0x0A ∨ d = 0x0C) then [] else c :: cleanString [d]
  | c :: d :: e :: t =>
    if c = cBackslash ∧ d = 0x0D ∧ e = 0x0A then cleanString t
    else if c = cBackslash ∧ (d = 0x0D ∨ d = 0x0A ∨ d = 0x0C) then cleanString (e :: t)
    else c :: cleanString (d :: e :: t)

/-- **the** tokenizer-side value function: token source text ↦ token value -/
def tokenValue (k : TokKind) (src : Cps) : Cps :=
  let v := unicodeSub src
  -- `if name in ('STRING', 'INVALID'):  # 'URI'?`
  if k = .string then cleanString v else v

/-- `Value.value` of a STRING token written `src` (`PreDef.string`: `helper.stringvalue(t[1])`) -/
def stringSourceValue (src : Cps) : Except Err Cps := stringValue (tokenValue .string src)

/-- `URIValue.uri` of a URI token written `src` (`PreDef.uri`: `helper.urivalue(t[1])`) -/
def uriSourceValue (src : Cps) : Except Err Cps := uriValue (tokenValue .uri src)

end CssVerif.Num
