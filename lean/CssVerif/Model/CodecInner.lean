import CssVerif.Model.CodecInc
/-!
# K6 — the inner codecs of `cssutils/codec.py`: CPython's UTF-8, UTF-8-SIG, UTF-16/32 (BOM, LE, BE),
latin-1 and ASCII decoders and encoders under `errors="strict"` (the only handler `codec.py` passes on:
`decode(input, errors="strict", …)`, `codecs.getincrementaldecoder(self.encoding)(self._errors)`)

What is transcribed
* the C unit decoders (`Objects/stringlib/codecs.h` `utf8_decode`, `Objects/unicodeobject.c`
  `PyUnicode_DecodeUTF16Stateful` / `…UTF32Stateful`, `unicode_decode_utf8` case 2 "truncated surrogate")
  as *readers* (`Rd`): a decision tree that asks for one byte at a time and answers "one character",
  "ill-formed" or — when the data ends — "need more";
* `codecs.BufferedIncrementalDecoder.decode` (`Lib/codecs.py`): `data = self.buffer + input`,
  `(result, consumed) = self._buffer_decode(data, self.errors, final)`, `self.buffer = data[consumed:]`;
* `Lib/encodings/utf_8_sig.py`, `utf_16.py`, `utf_32.py`: `IncrementalDecoder._buffer_decode` (BOM sniffing
  with the `first` / `decoder is None` state), the stateless `decode` functions, and the incremental
  encoders (`first` / `encoder is None` state: the BOM is written by the first call);
* `errors="strict"`: an ill-formed sequence raises; in the model `err = true` and `text` is what was decoded
  before the offending sequence (only used to instantiate `Inner`; the `Option`-valued functions give the
  observable behaviour: `none` = the call raises).

The correspondence (tools/harness/c07_inner.py) compares every function below with CPython for every
chunking of generated and ill-formed inputs.
-/
namespace CssVerif.Codec

/-- a reader: the decision tree of a unit decoder, one byte at a time -/
inductive Rd where
  | done (cp : Nat)
  | bad
  | more (f : Nat → Rd)

/-- what a reader says about the data after the first byte -/
inductive Unit1 where
  | done (cp : Nat) (j : Nat)   -- one character; `j` bytes were read after the first one
  | need                        -- the data ends inside a sequence that may still become well-formed
  | bad                         -- ill-formed: `UnicodeDecodeError`
deriving DecidableEq, Repr

def Rd.run : Rd → List Nat → Nat → Unit1
  | .done cp, _, j => .done cp j
  | .bad, _, _ => .bad
  | .more _, [], _ => .need
  | .more f, b :: t, j => (f b).run t (j + 1)

/-- result of a partial decode: text, undecoded tail (`data[consumed:]`), "raises" -/
structure Res where
  text : List Nat
  pend : List Nat
  err : Bool
deriving DecidableEq, Repr

def Res.cons (c : Nat) (r : Res) : Res := ⟨c :: r.text, r.pend, r.err⟩
def Res.fail : Res := ⟨[], [], true⟩

/-- the scanning loop of a C decoder; `skip` = bytes of the current character still to be passed over.
Stops at the end of the data, at an incomplete sequence (kept as `pend` unless `final`) or at an
ill-formed one. -/
def scanS (first : Nat → Rd) : List Nat → Nat → Bool → Res
  | [], _, _ => ⟨[], [], false⟩
  | _ :: t, s + 1, f => scanS first t s f
  | b :: t, 0, f =>
    match (first b).run t 0 with
    | .done cp j => (scanS first t j f).cons cp
    | .need => if f then .fail else ⟨[], b :: t, false⟩
    | .bad => .fail

def scan (first : Nat → Rd) (l : List Nat) (final : Bool) : Res := scanS first l 0 final

/-! ## unit decoders -/

abbrev isCont (b : Nat) : Prop := 0x80 ≤ b ∧ b ≤ 0xBF

/-- UTF-8 (`stringlib/codecs.h` `utf8_decode`; the `ED A0..BF` + end-of-data case is
`unicode_decode_utf8` case 2: a truncated surrogate waits for more data when not final) -/
def first8 (b0 : Nat) : Rd :=
  if b0 < 0x80 then .done b0
  else if b0 < 0xC2 then .bad
  else if b0 < 0xE0 then .more fun b1 =>
    if isCont b1 then .done ((b0 - 0xC0) * 64 + (b1 - 0x80)) else .bad
  else if b0 < 0xF0 then .more fun b1 =>
    if ¬ isCont b1 then .bad
    else if b0 = 0xE0 ∧ b1 < 0xA0 then .bad
    else if b0 = 0xED ∧ 0xA0 ≤ b1 then .more fun _ => .bad
    else .more fun b2 =>
      if isCont b2 then .done ((b0 - 0xE0) * 4096 + (b1 - 0x80) * 64 + (b2 - 0x80)) else .bad
  else if b0 < 0xF5 then .more fun b1 =>
    if ¬ isCont b1 then .bad
    else if b0 = 0xF0 ∧ b1 < 0x90 then .bad
    else if b0 = 0xF4 ∧ 0x90 ≤ b1 then .bad
    else .more fun b2 =>
      if ¬ isCont b2 then .bad
      else .more fun b3 =>
        if isCont b3 then .done ((b0 - 0xF0) * 262144 + (b1 - 0x80) * 4096 + (b2 - 0x80) * 64 + (b3 - 0x80))
        else .bad
  else .bad

/-- a 16-bit unit from two bytes -/
def u16 (be : Bool) (x y : Nat) : Nat := if be then x * 256 + y else y * 256 + x

/-- UTF-16 (`PyUnicode_DecodeUTF16Stateful`): lone low surrogate, and high surrogate not followed by a
low one, are errors; a high surrogate at the end of the data waits -/
def first16 (be : Bool) (x : Nat) : Rd := .more fun y =>
  let u := u16 be x y
  if u < 0xD800 ∨ 0xE000 ≤ u then .done u
  else if 0xDC00 ≤ u then .bad
  else .more fun x2 => .more fun y2 =>
    let v := u16 be x2 y2
    if 0xDC00 ≤ v ∧ v < 0xE000 then .done (0x10000 + (u - 0xD800) * 1024 + (v - 0xDC00)) else .bad

def u32 (be : Bool) (a b c d : Nat) : Nat :=
  if be then ((a * 256 + b) * 256 + c) * 256 + d else ((d * 256 + c) * 256 + b) * 256 + a

/-- UTF-32 (`PyUnicode_DecodeUTF32Stateful`): surrogates and values above 10FFFF are errors -/
def first32 (be : Bool) (a : Nat) : Rd := .more fun b => .more fun c => .more fun d =>
  let u := u32 be a b c d
  if u < 0xD800 ∨ (0xE000 ≤ u ∧ u < 0x110000) then .done u else .bad

def firstL1 (b : Nat) : Rd := .done b
def firstAscii (b : Nat) : Rd := if b < 0x80 then .done b else .bad

/-- the stateless unit codecs -/
inductive Kind where
  | u8 | u16le | u16be | u32le | u32be | l1 | ascii
deriving DecidableEq, Repr

def Kind.first : Kind → Nat → Rd
  | .u8 => first8
  | .u16le => first16 false
  | .u16be => first16 true
  | .u32le => first32 false
  | .u32be => first32 true
  | .l1 => firstL1
  | .ascii => firstAscii

/-- the codecs `codec.py` can end up with (detector answers and the usual single-byte names) -/
inductive CName where
  | plain (k : Kind)
  | u8sig | u16 | u32
deriving DecidableEq, Repr

def bom8 : List Nat := [0xEF, 0xBB, 0xBF]
def bom16le : List Nat := [0xFF, 0xFE]
def bom16be : List Nat := [0xFE, 0xFF]
def bom32le : List Nat := [0xFF, 0xFE, 0, 0]
def bom32be : List Nat := [0, 0, 0xFE, 0xFF]

/-! ## stateless decoders: `codecs.getdecoder(name)(input, "strict")` -/

/-- `utf_16_decode` / `utf_32_decode` with byte order 0: BOM decides, else native (little-endian build) -/
def bomScan (w : Nat) (le be : List Nat) (kle kbe : Kind) (d : List Nat) (final : Bool) : Res :=
  if d.take w = le then scan kle.first (d.drop w) final
  else if d.take w = be then scan kbe.first (d.drop w) final
  else scan kle.first d final

def stateless : CName → List Nat → Res
  | .plain k, d => scan k.first d true
  | .u8sig, d => if d.take 3 = bom8 then scan first8 (d.drop 3) true else scan first8 d true
  | .u16, d => bomScan 2 bom16le bom16be .u16le .u16be d true
  | .u32, d => bomScan 4 bom32le bom32be .u32le .u32be d true

/-- `codecs.getdecoder(name)(input)[0]`, `none` = raises -/
def statelessDecode (c : CName) (d : List Nat) : Option (List Nat) :=
  let r := stateless c d
  if r.err then none else some r.text

/-! ## incremental decoders: `codecs.getincrementaldecoder(name)("strict")` -/

/-- result of a `_buffer_decode` call together with the decoder chosen (`self.decoder`, `self.first`) -/
structure IRes where
  mode : Option Kind
  res : Res

/-- `_buffer_decode` of `utf_16.py` / `utf_32.py` while `self.decoder is None`:
`…_ex_decode(input, errors, 0, final)`; BOM → decoder set; no BOM and `consumed >= w` → UnicodeError
("stream does not start with BOM"); else nothing is decided yet -/
def sniffBom (w : Nat) (le be : List Nat) (kle kbe : Kind) (d : List Nat) (final : Bool) : IRes :=
  if d.take w = le then ⟨some kle, scan kle.first (d.drop w) final⟩
  else if d.take w = be then ⟨some kbe, scan kbe.first (d.drop w) final⟩
  else
    let r := scan kle.first d final
    if r.err then ⟨none, .fail⟩
    else if r.pend.length + w ≤ d.length then ⟨none, .fail⟩
    else ⟨none, r⟩

/-- `utf_8_sig.py` `IncrementalDecoder._buffer_decode` while `self.first` -/
def sniffSig (d : List Nat) (final : Bool) : IRes :=
  if d.length < 3 then
    if d.isPrefixOf bom8 then ⟨none, ⟨[], d, false⟩⟩     -- `return ("", 0)` whatever `final` says
    else ⟨some .u8, scan first8 d final⟩
  else if d.take 3 = bom8 then ⟨some .u8, scan first8 (d.drop 3) final⟩
  else ⟨some .u8, scan first8 d final⟩

def sniff : CName → List Nat → Bool → IRes
  | .plain k, d, f => ⟨some k, scan k.first d f⟩
  | .u8sig, d, f => sniffSig d f
  | .u16, d, f => sniffBom 2 bom16le bom16be .u16le .u16be d f
  | .u32, d, f => sniffBom 4 bom32le bom32be .u32le .u32be d f

/-- the decoder object: which unit decoder runs (none: still sniffing) and `self.buffer` -/
structure ISt where
  mode : Option Kind
  buf : List Nat
deriving DecidableEq

def CName.init : CName → ISt
  | .plain k => ⟨some k, []⟩
  | _ => ⟨none, []⟩

/-- one `_buffer_decode(data, errors, final)` in the state `mode` -/
def ifeed (c : CName) (mode : Option Kind) (d : List Nat) (final : Bool) : IRes :=
  match mode with
  | some k => ⟨some k, scan k.first d final⟩
  | none => sniff c d final

/-- `BufferedIncrementalDecoder.decode(input, final)`: `none` = raises -/
def istep (c : CName) (s : ISt) (input : List Nat) (final : Bool) : Option (ISt × List Nat) :=
  let r := ifeed c s.mode (s.buf ++ input) final
  if r.res.err then none else some (⟨r.mode, r.res.pend⟩, r.res.text)

def irun (c : CName) : ISt → List (List Nat) → Option (ISt × List Nat)
  | s, [] => some (s, [])
  | s, x :: xs =>
    match istep c s x false with
    | none => none
    | some (s', t) =>
      match irun c s' xs with
      | none => none
      | some (s'', t') => some (s'', t ++ t')

/-- every chunk with `final=False`, then `decode(b"", True)`; `none` = some call raises -/
def incDecode (c : CName) (cs : List (List Nat)) : Option (List Nat) :=
  match irun c c.init cs with
  | none => none
  | some (s, t) =>
    match istep c s [] true with
    | none => none
    | some (_, t') => some (t ++ t')

/-- everything an incremental decoder has produced after the bytes `d` (a function of the bytes alone:
`incDecode_eq`) -/
def incOut (c : CName) (d : List Nat) (final : Bool) : Res := (sniff c d final).res

/-! ## encoders -/

def encUnit8 (c : Nat) : Option (List Nat) :=
  if c < 0x80 then some [c]
  else if c < 0x800 then some [0xC0 + c / 64, 0x80 + c % 64]
  else if c < 0x10000 then
    if 0xD800 ≤ c ∧ c < 0xE000 then none
    else some [0xE0 + c / 4096, 0x80 + c / 64 % 64, 0x80 + c % 64]
  else if c < 0x110000 then some [0xF0 + c / 262144, 0x80 + c / 4096 % 64, 0x80 + c / 64 % 64, 0x80 + c % 64]
  else none

def bytes16 (be : Bool) (u : Nat) : List Nat := if be then [u / 256, u % 256] else [u % 256, u / 256]

def encUnit16 (be : Bool) (c : Nat) : Option (List Nat) :=
  if c < 0x10000 then
    if 0xD800 ≤ c ∧ c < 0xE000 then none else some (bytes16 be c)
  else if c < 0x110000 then
    some (bytes16 be (0xD800 + (c - 0x10000) / 1024) ++ bytes16 be (0xDC00 + (c - 0x10000) % 1024))
  else none

def encUnit32 (be : Bool) (c : Nat) : Option (List Nat) :=
  if (c < 0xD800 ∨ 0xE000 ≤ c) ∧ c < 0x110000 then
    some (if be then [c / 16777216, c / 65536 % 256, c / 256 % 256, c % 256]
          else [c % 256, c / 256 % 256, c / 65536 % 256, c / 16777216])
  else none

def Kind.encUnit : Kind → Nat → Option (List Nat)
  | .u8 => encUnit8
  | .u16le => encUnit16 false
  | .u16be => encUnit16 true
  | .u32le => encUnit32 false
  | .u32be => encUnit32 true
  | .l1 => fun c => if c < 0x100 then some [c] else none
  | .ascii => fun c => if c < 0x80 then some [c] else none

/-- bytes of the longest encodable prefix, and whether the whole text was encodable -/
def encScan (k : Kind) : List Nat → List Nat × Bool
  | [] => ([], true)
  | c :: t =>
    match k.encUnit c with
    | none => ([], false)
    | some u => let r := encScan k t; (u ++ r.1, r.2)

/-- the unit encoder and the BOM a codec writes first (native = little endian) -/
def CName.kind : CName → Kind
  | .plain k => k
  | .u8sig => .u8
  | .u16 => .u16le
  | .u32 => .u32le

def CName.bom : CName → List Nat
  | .plain _ => []
  | .u8sig => bom8
  | .u16 => bom16le
  | .u32 => bom32le

/-- `codecs.getencoder(name)(text, "strict")[0]`, `none` = `UnicodeEncodeError` -/
def statelessEncode (c : CName) (t : List Nat) : Option (List Nat) :=
  let r := encScan c.kind t
  if r.2 then some (c.bom ++ r.1) else none

/-- the incremental encoder object: `first` (`utf_8_sig.py`) / `encoder is None` (`utf_16.py`, `utf_32.py`) -/
def estepInner (c : CName) (first : Bool) (t : List Nat) : Option (Bool × List Nat) :=
  let r := encScan c.kind t
  if r.2 then some (false, (if first then c.bom else []) ++ r.1) else none

def erunInner (c : CName) : Bool → List (List Nat) → Option (Bool × List Nat)
  | s, [] => some (s, [])
  | s, x :: xs =>
    match estepInner c s x with
    | none => none
    | some (s', b) =>
      match erunInner c s' xs with
      | none => none
      | some (s'', b') => some (s'', b ++ b')

/-- every chunk with `final=False`, then `encode("", True)` -/
def incEncode (c : CName) (cs : List (List Nat)) : Option (List Nat) :=
  erunInner c true (cs ++ [[]]) |>.map (·.2)

/-! ## names, and the instances of `Inner` / `InnerEnc` data -/

def cps' (s : String) : List Nat := s.toList.map Char.toNat

/-- the names the model knows (compared after `normName`: lower case, `_` → `-`); anything else is outside
the model (CPython's alias table is not transcribed) -/
def nameTable : List (List Nat × CName) := [
  (cps' "utf-8", .plain .u8), (cps' "utf8", .plain .u8), (cps' "utf-8-sig", .u8sig),
  (cps' "utf-16", .u16), (cps' "utf-16-le", .plain .u16le), (cps' "utf-16le", .plain .u16le),
  (cps' "utf-16-be", .plain .u16be), (cps' "utf-16be", .plain .u16be),
  (cps' "utf-32", .u32), (cps' "utf-32-le", .plain .u32le), (cps' "utf-32le", .plain .u32le),
  (cps' "utf-32-be", .plain .u32be), (cps' "utf-32be", .plain .u32be),
  (cps' "latin-1", .plain .l1), (cps' "latin1", .plain .l1), (cps' "iso-8859-1", .plain .l1),
  (cps' "ascii", .plain .ascii), (cps' "us-ascii", .plain .ascii)]

def lookupName (n : Name) : Option CName :=
  (nameTable.find? (fun e => e.1 == normName n)).map (·.2)

/-- `Inner.out` for CPython's decoders: the text produced so far -/
def cpyOut (n : Name) (d : List Nat) (final : Bool) : List Nat :=
  match lookupName n with
  | some c => (incOut c d final).text
  | none => []

/-- `InnerEnc.out` for CPython's encoders: the bytes produced so far. The BOM is written by the first
`encode` call, even for an empty text when it is the final one (`codecs.utf_16_encode("")` is the BOM) -/
def encOut (c : CName) (t : List Nat) (final : Bool) : List Nat :=
  if t = [] ∧ final = false then [] else c.bom ++ (encScan c.kind t).1

def cpyEncOut (n : Name) (t : List Nat) (final : Bool) : List Nat :=
  match lookupName n with
  | some c => encOut c t final
  | none => []

end CssVerif.Codec
