import CssVerif.Model.Struct
import CssVerif.Model.Normalize
/-!
# C02 — abstract stylesheets, their spellings, rendering and the DOM projection (structure level)

Specification side of property C02, on top of the structure kernel K2 (`Model/Struct.lean`).

* `A…`  — the **abstract sheet**: what a source denotes.  Rules in order; a style rule is a list of selector
  groups × a list of block items (declaration = name × value × priority, comment, unknown at-rule); comments
  and unknown at-rules are rules of their own.  Selectors, values (and later media queries) are *opaque
  token lists* at this level (K3/K4 interpret them).
* `S…`  — a **spelled sheet**: an abstract sheet together with ONE way of writing it at the structure level:
  white-space and comment tokens at every gap where the grammar allows them, letter case and simple escapes
  of property names and of the priority ident, the optional `;` after the last declaration, stand-alone `;`.
  Every inhabitant is a legal spelling (gaps are built from `WsChar`s and comment bodies, so a gap token can
  never be mistaken for a delimiter).  `erase : S… → A…` forgets the spelling, so "all spellings of `a`" is
  `{s | erase s = a}`.
* `render : SSheet → List Tok` — the token list the tokenizer hands to the parser for that spelling.
* `proj… : Struct.Rule → ARule` — the DOM projection: what the public accessors show, at the structure level
  (`Property.name` = `normalize(literalname)`, `Property.priority` = `normalize(literalpriority)`, comment
  text, selector groups as `SelectorList._setSelectorText` splits them, values/selectors without comment
  tokens and without the white space at both ends — the property counts comments between tokens as spelling,
  and the sub-parsers skip white space at the ends).

The theorem (Props/C02.lean) is `projSheet (parseSheet O M (render s)) = erase s`.
-/
namespace CssVerif.SheetSpec
open CssVerif.Proto (Cps)
open CssVerif.Struct

/-! ## gaps: white space and comments -/

/-- the characters of the tokenizer macro `s` (`[ \t\r\n\f]`) -/
inductive WsChar where | space | tab | lf | cr | ff
  deriving DecidableEq, Repr, Inhabited

def WsChar.cp : WsChar → Nat
  | .space => 0x20 | .tab => 0x09 | .lf => 0x0A | .cr => 0x0D | .ff => 0x0C

/-- one `S` token: one or more white-space characters -/
structure Ws where
  c : WsChar
  cs : List WsChar := []
  deriving DecidableEq, Repr, Inhabited

def Ws.tok (w : Ws) : Tok := ⟨.s, w.c.cp :: w.cs.map WsChar.cp, 0⟩

/-- `/*` body `*/` -/
def commentVal (body : Cps) : Cps := [0x2F, 0x2A] ++ body ++ [0x2A, 0x2F]
def commentTok (body : Cps) : Tok := ⟨.comment, commentVal body, 0⟩
/-- the text between `/*` and `*/` of a comment token -/
def commentBody (v : Cps) : Cps := (v.drop 2).take (v.length - 4)

/-- a token of a gap inside a construct -/
inductive GapTok where
  | ws (w : Ws)
  | cm (body : Cps)
  deriving DecidableEq, Repr, Inhabited

def GapTok.tok : GapTok → Tok
  | .ws w => w.tok
  | .cm b => commentTok b

/-- a gap inside a construct: any number of `S` and `COMMENT` tokens -/
abbrev Gap := List GapTok
def Gap.toks (g : Gap) : List Tok := g.map GapTok.tok

/-- a gap between the items of a list (rules of a sheet, items of a block): `S` tokens only — a comment at
such a place is an item of the abstract sheet, not spelling -/
abbrev WGap := List Ws
def WGap.toks (g : WGap) : List Tok := g.map Ws.tok

def isGapTok (t : Tok) : Bool := t.typ == .s || t.typ == .comment
def isS (t : Tok) : Bool := t.typ == .s
def notComment (t : Tok) : Bool := t.typ != .comment

/-- an opaque token list without its comment tokens (comments between tokens are spelling) -/
def strip (l : List Tok) : List Tok := l.filter notComment

/-- drop the white space at both ends -/
def trimS (l : List Tok) : List Tok := ((l.dropWhile isS).reverse.dropWhile isS).reverse

/-- how an opaque token list (selector, value, media query) appears in the projection: without comments,
without the white space at both ends (the sub-parsers skip it) -/
def clean (l : List Tok) : List Tok := trimS (strip l)

/-! ## names: letter case and simple escapes -/

/-- one way of writing a name: per character, upper-case it or not, put a backslash before it or not (the
backslash is only written where CSS reads it as a simple escape: before a non-hex character) -/
abbrev spell : List (Bool × Bool) → Cps → Cps := CssVerif.Normalize.spell

def identTok (v : Cps) : Tok := ⟨.ident, v, 0⟩
def charTok (c : Nat) : Tok := ⟨.char, [c], 0⟩
def semiTok : Tok := charTok 0x3B
def colonTok : Tok := charTok 0x3A
def bangTok : Tok := charTok 0x21
def commaTok : Tok := charTok 0x2C
def lbraceTok : Tok := charTok 0x7B
def rbraceTok : Tok := charTok 0x7D
def eofTok : Tok := ⟨.eof, [], 0⟩

/-! ## abstract syntax -/

/-- an item of a declaration block -/
inductive AItem where
  /-- `name`: the normalised property name; `value`: opaque tokens; `prio`: the normalised priority ident -/
  | decl (name : Cps) (value : List Tok) (prio : Option Cps)
  | comment (body : Cps)
  /-- an (unknown) at-rule inside a block, kept token by token -/
  | unknown (toks : List Tok)
  deriving DecidableEq, Repr

inductive ARule where
  | comment (body : Cps)
  /-- selector groups (opaque tokens, one list per comma-separated selector) × block items -/
  | style (sels : List (List Tok)) (items : List AItem)
  /-- an unknown at-rule, kept token by token -/
  | unknown (toks : List Tok)
  /-- a rule kind this file does not interpret (yet): kind only -/
  | other (k : Kind)
  deriving DecidableEq, Repr

abbrev ASheet := List ARule

/-! ## spelled syntax -/

/-- `name g1 : g2 value g3 [ ! g4 important g5 ]` -/
structure SDecl where
  name : Cps
  nameSp : List (Bool × Bool) := []
  g1 : Gap := []
  g2 : Gap := []
  value : List Tok
  g3 : Gap := []
  /-- `!` gap ident(spelling) gap -/
  prio : Option (Gap × Cps × List (Bool × Bool) × Gap) := none
  deriving Repr

inductive SItem where
  /-- a declaration followed by its `;` -/
  | decl (d : SDecl)
  | comment (body : Cps)
  | unknown (toks : List Tok)
  /-- a stand-alone `;` -/
  | semi
  deriving Repr

/-- `{ lead (item gap)* [last] }`: every declaration among `items` is closed by `;`, the last declaration
of the block may be written without -/
structure SBlock where
  lead : WGap := []
  items : List (SItem × WGap) := []
  last : Option SDecl := none
  deriving Repr

/-- `core₁ g , g core₂ g , … coreₙ g` -/
structure SSel where
  first : List Tok
  post : Gap := []
  more : List (Gap × List Tok × Gap) := []
  deriving Repr

inductive SRule where
  | comment (body : Cps)
  | style (sel : SSel) (block : SBlock)
  | unknown (toks : List Tok)
  deriving Repr

/-- `lead (rule gap)* EOF` -/
structure SSheet where
  lead : WGap := []
  rules : List (SRule × WGap) := []
  deriving Repr

/-! ### `erase`: the abstract sheet a spelled sheet denotes -/

def SDecl.erase (d : SDecl) : AItem := .decl d.name (strip d.value) (d.prio.map (·.2.1))

def SItem.erase : SItem → Option AItem
  | .decl d => some d.erase
  | .comment b => some (.comment b)
  | .unknown t => some (.unknown t)
  | .semi => none

def SBlock.erase (b : SBlock) : List AItem :=
  b.items.filterMap (fun p => p.1.erase) ++ (b.last.map SDecl.erase).toList

def SSel.erase (s : SSel) : List (List Tok) := strip s.first :: s.more.map (fun p => strip p.2.1)

def SRule.erase : SRule → ARule
  | .comment b => .comment b
  | .style sel blk => .style sel.erase blk.erase
  | .unknown t => .unknown t

def SSheet.erase (s : SSheet) : ASheet := s.rules.map (·.1.erase)

/-! ### `render`: the tokens of a spelled sheet -/

def renderPrio : Option (Gap × Cps × List (Bool × Bool) × Gap) → List Tok
  | none => []
  | some (g4, n, sp, g5) => bangTok :: (Gap.toks g4 ++ identTok (spell sp n) :: Gap.toks g5)

/-- the tokens of a declaration without its `;` -/
def SDecl.toks (d : SDecl) : List Tok :=
  identTok (spell d.nameSp d.name) ::
    (Gap.toks d.g1 ++ colonTok :: (Gap.toks d.g2 ++ (d.value ++ (Gap.toks d.g3 ++ renderPrio d.prio))))

def SItem.toks : SItem → List Tok
  | .decl d => d.toks ++ [semiTok]
  | .comment b => [commentTok b]
  | .unknown t => t
  | .semi => [semiTok]

def renderItems : List (SItem × WGap) → List Tok
  | [] => []
  | (i, w) :: rest => i.toks ++ (WGap.toks w ++ renderItems rest)

def renderLast : Option SDecl → List Tok
  | none => []
  | some d => d.toks

/-- the tokens between `{` and `}` -/
def SBlock.toks (b : SBlock) : List Tok := WGap.toks b.lead ++ (renderItems b.items ++ renderLast b.last)

def renderMore : List (Gap × List Tok × Gap) → List Tok
  | [] => []
  | (pre, core, post) :: rest => commaTok :: (Gap.toks pre ++ (core ++ (Gap.toks post ++ renderMore rest)))

/-- the tokens before `{` -/
def SSel.toks (s : SSel) : List Tok := s.first ++ (Gap.toks s.post ++ renderMore s.more)

def SRule.toks : SRule → List Tok
  | .comment b => [commentTok b]
  | .style sel blk => sel.toks ++ lbraceTok :: (blk.toks ++ [rbraceTok])
  | .unknown t => t

def renderRules : List (SRule × WGap) → List Tok
  | [] => []
  | (r, w) :: rest => r.toks ++ (WGap.toks w ++ renderRules rest)

/-- what the tokenizer (`fullsheet=True`) hands to `CSSStyleSheet._setCssText` -/
def render (s : SSheet) : List Tok := WGap.toks s.lead ++ (renderRules s.rules ++ [eofTok])

/-! ## the DOM projection -/

/-- `SelectorList._setSelectorText` (`selectorlist.py:187-200`): `_tokensupto2(listseponly=True)` until
nothing is left; a trailing `,` is popped.  (`uptoLoop` always takes the head, so the rest is shorter;
the fuel only makes the recursion structural.) -/
def selGroupsFuel : Nat → List Tok → List (List Tok)
  | 0, _ => []
  | _, [] => []
  | fuel + 1, t :: ts =>
    let r := upto .listsep none (t :: ts)
    let grp := if (r.1.getLast?.map (·.val)) = some [0x2C] then r.1.dropLast else r.1
    grp :: selGroupsFuel fuel r.2

def selGroups (ts : List Tok) : List (List Tok) := selGroupsFuel ts.length ts

def projItem : Item → Option AItem
  | .decl d => some (.decl (normalize d.name.val) (clean d.value) (d.prio.map (fun t => normalize t.val)))
  | .comment t => some (.comment (commentBody t.val))
  | .unknown toks => some (.unknown toks)
  | .dropped _ => none

def projRule : Rule → ARule
  | .comment t => .comment (commentBody t.val)
  | .style _ sel items => .style ((selGroups sel).map clean) (items.filterMap projItem)
  | .unknown toks => .unknown toks
  | .at_ k _ => .other k
  | .ns _ _ _ => .other .namespace_
  | .media _ _ => .other .media

def projSheet (rules : List Rule) : ASheet := rules.map projRule

end CssVerif.SheetSpec
