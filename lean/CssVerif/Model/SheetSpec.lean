import CssVerif.Model.Struct
import CssVerif.Model.Normalize
import CssVerif.Model.AtRules
/-!
# C02 — abstract stylesheets, their spellings, rendering and the DOM projection (structure level)

Specification side of property C02, on top of the structure kernel K2 (`Model/Struct.lean`).

* `A…`  — the **abstract sheet**: what a source denotes.  Rules in order; a style rule is a list of selector
  groups × a list of block items (declaration = name × value × priority, comment, unknown at-rule); comments
  and unknown at-rules are rules of their own.  Selectors, values (and later media queries) are *opaque
  token lists* at this level (K3/K4 interpret them).
* `S…`  — a **spelled sheet**: an abstract sheet together with ONE way of writing it at the structure level:
  white-space and comment tokens at every gap where the grammar allows them, letter case and simple escapes
  of property names and of the priority ident, the optional `;` after the last declaration, stand-alone `;`.
  Every inhabitant is a legal spelling (gaps are built from `WsChar`s and comment bodies, so a gap token can
  never be mistaken for a delimiter).  `erase : S… → A…` forgets the spelling, so "all spellings of `a`" is
  `{s | erase s = a}`.
* `render : SSheet → List Tok` — the token list the tokenizer hands to the parser for that spelling.
* `proj… : Struct.Rule → ARule` — the DOM projection: what the public accessors show, at the structure level
  (`Property.name` = `normalize(literalname)`, `Property.priority` = `normalize(literalpriority)`, comment
  text, selector groups as `SelectorList._setSelectorText` splits them, values/selectors without comment
  tokens and without the white space at both ends — the property counts comments between tokens as spelling,
  and the sub-parsers skip white space at the ends).

The theorem (Props/C02.lean) is `projSheet (parseSheet O M (render s)) = erase s`.
-/
namespace CssVerif.SheetSpec
open CssVerif.Proto (Cps)
open CssVerif.Struct CssVerif.AtRules

/-! ## gaps: white space and comments -/

/-- the characters of the tokenizer macro `s` (`[ \t\r\n\f]`) -/
inductive WsChar where | space | tab | lf | cr | ff
  deriving DecidableEq, Repr, Inhabited

def WsChar.cp : WsChar → Nat
  | .space => 0x20 | .tab => 0x09 | .lf => 0x0A | .cr => 0x0D | .ff => 0x0C

/-- one `S` token: one or more white-space characters -/
structure Ws where
  c : WsChar
  cs : List WsChar := []
  deriving DecidableEq, Repr, Inhabited

def Ws.tok (w : Ws) : Tok := ⟨.s, w.c.cp :: w.cs.map WsChar.cp, 0⟩

/-- `/*` body `*/` -/
def commentVal (body : Cps) : Cps := [0x2F, 0x2A] ++ body ++ [0x2A, 0x2F]
def commentTok (body : Cps) : Tok := ⟨.comment, commentVal body, 0⟩
/-- the text between `/*` and `*/` of a comment token -/
def commentBody (v : Cps) : Cps := (v.drop 2).take (v.length - 4)

/-- a token of a gap inside a construct -/
inductive GapTok where
  | ws (w : Ws)
  | cm (body : Cps)
  deriving DecidableEq, Repr, Inhabited

def GapTok.tok : GapTok → Tok
  | .ws w => w.tok
  | .cm b => commentTok b

/-- a gap inside a construct: any number of `S` and `COMMENT` tokens -/
abbrev Gap := List GapTok
def Gap.toks (g : Gap) : List Tok := g.map GapTok.tok

/-- a gap between the items of a list (rules of a sheet, items of a block): `S` tokens only — a comment at
such a place is an item of the abstract sheet, not spelling -/
abbrev WGap := List Ws
def WGap.toks (g : WGap) : List Tok := g.map Ws.tok

def isGapTok (t : Tok) : Bool := t.typ == .s || t.typ == .comment
def isS (t : Tok) : Bool := t.typ == .s
def notComment (t : Tok) : Bool := t.typ != .comment

/-- an opaque token list without its comment tokens (comments between tokens are spelling) -/
def strip (l : List Tok) : List Tok := l.filter notComment

/-- drop the white space at both ends -/
def trimS (l : List Tok) : List Tok := ((l.dropWhile isS).reverse.dropWhile isS).reverse

/-- how an opaque token list (selector, value, media query) appears in the projection: without comments,
without the white space at both ends (the sub-parsers skip it) -/
def clean (l : List Tok) : List Tok := trimS (strip l)

/-! ## names: letter case and simple escapes -/

/-- one way of writing a name: per character, upper-case it or not, put a backslash before it or not (the
backslash is only written where CSS reads it as a simple escape: before a non-hex character) -/
abbrev spell : List (Bool × Bool) → Cps → Cps := CssVerif.Normalize.spell

def identTok (v : Cps) : Tok := ⟨.ident, v, 0⟩
def charTok (c : Nat) : Tok := ⟨.char, [c], 0⟩
def semiTok : Tok := charTok 0x3B
def colonTok : Tok := charTok 0x3A
def bangTok : Tok := charTok 0x21
def commaTok : Tok := charTok 0x2C
def lbraceTok : Tok := charTok 0x7B
def rbraceTok : Tok := charTok 0x7D
def eofTok : Tok := ⟨.eof, [], 0⟩

/-! ## abstract syntax -/

/-- an item of a declaration block -/
inductive AItem where
  /-- `name`: the normalised property name; `value`: opaque tokens; `prio`: the normalised priority ident -/
  | decl (name : Cps) (value : List Tok) (prio : Option Cps)
  | comment (body : Cps)
  /-- an (unknown) at-rule inside a block, kept token by token -/
  | unknown (toks : List Tok)
  deriving DecidableEq, Repr

/-- a margin box of `@page`: the normalised at-keyword (with its `@`) and the declarations -/
structure AMargin where
  name : Cps
  items : List AItem
  deriving DecidableEq, Repr

inductive ARule where
  | comment (body : Cps)
  /-- selector groups (opaque tokens, one list per comma-separated selector) × block items -/
  | style (sels : List (List Tok)) (items : List AItem)
  /-- an unknown at-rule, kept token by token -/
  | unknown (toks : List Tok)
  /-- media query list (opaque tokens), optional name (an empty one is no name), nested rules.  `@media` whose parse failed is
  `media [] none []` (the DOM has the constructor's `all` and no rules) -/
  | media (mq : List Tok) (name : Option Cps) (rules : List ARule)
  | fontface (items : List AItem)
  /-- page selector (name as written; pseudo-page name: `first` / `left` / `right`, any other as written), declarations, margin boxes -/
  | page (name pseudo : Option Cps) (items : List AItem) (margins : List AMargin)
  /-- import target, media query list (opaque tokens; `none` = no list, i.e. `all`), name -/
  | import_ (href : Cps) (mq : Option (List Tok)) (name : Option Cps)
  | namespace_ (pfx uri : Cps)
  | charset (encoding : Cps)
  /-- `@variables`: the variables in order, normalised name × value (opaque tokens) -/
  | variables (vars : List (Cps × List Tok))
  /-- not interpreted: a margin rule at top level, a `@page` / `@variables` outside the modelled fragments of
  `MarginRule` / `CSSVariablesDeclaration` -/
  | other (k : Kind)
  deriving Repr

abbrev ASheet := List ARule

/-! ## spelled syntax -/

/-- the letter case / simple escapes of a name, character by character -/
abbrev Mask := List (Bool × Bool)

/-- `name g1 : g2 value g3 [ ! g4 important g5 ]` -/
structure SDecl where
  name : Cps
  nameSp : Mask := []
  g1 : Gap := []
  g2 : Gap := []
  value : List Tok
  g3 : Gap := []
  /-- `!` gap ident(spelling) gap -/
  prio : Option (Gap × Cps × Mask × Gap) := none
  deriving Repr

inductive SItem where
  /-- a declaration followed by its `;` -/
  | decl (d : SDecl)
  | comment (body : Cps)
  | unknown (toks : List Tok)
  /-- a stand-alone `;` -/
  | semi
  deriving Repr

/-- `{ lead (item gap)* [last] }`: every declaration among `items` is closed by `;`, the last declaration
of the block may be written without -/
structure SBlock where
  lead : WGap := []
  items : List (SItem × WGap) := []
  last : Option SDecl := none
  deriving Repr

/-- `core₁ g , g core₂ g , … coreₙ g` -/
structure SSel where
  first : List Tok
  post : Gap := []
  more : List (Gap × List Tok × Gap) := []
  deriving Repr

inductive Quote where | dq | sq
  deriving DecidableEq, Repr

def Quote.cp : Quote → Nat
  | .dq => 0x22 | .sq => 0x27

/-- how a string (import target, namespace URI, encoding) is written -/
inductive SHref where
  /-- `"…"` / `'…'` -/
  | str (q : Quote) (h : Cps)
  /-- `url(` ws [quote] … [quote] ws `)`; `up`: letter case and simple escapes of the name `url` -/
  | url (up : Mask) (pre post : List WsChar) (q : Option Quote) (h : Cps)
  deriving Repr

def SHref.value : SHref → Cps
  | .str _ h => h
  | .url _ _ _ _ h => h

/-- the optional name of `@media` / `@import` (`cssmediarule.py:117-130`, `cssimportrule.py:137-151`): a STRING
and the gap after it -/
abbrev SName := Option (Quote × Cps × Gap)

/-- an item of the block of `@page`: a block item or a margin box `@name gap { block }` -/
inductive SPageItem where
  | item (i : SItem)
  | margin (name : Cps) (kw : Mask) (g : Gap) (blk : SBlock)
  deriving Repr

structure SPageBlock where
  lead : WGap := []
  items : List (SPageItem × WGap) := []
  last : Option SDecl := none
  deriving Repr

/-- `@page g0 [name] [comments] [: pseudo] g1 {` — white space between name and `:` is not allowed
(`csspagerule.py:198-201`) -/
structure SPageSel where
  name : Option Cps := none
  mid : List Cps := []
  pseudo : Option Cps := none
  /-- letter case / simple escapes of the pseudo-page name (`:first`, `:left`, `:right` are recognised in any) -/
  pseudoSp : Mask := []
  deriving Repr

mutual
inductive SRule where
  | comment (body : Cps)
  | style (sel : SSel) (block : SBlock)
  | unknown (toks : List Tok)
  /-- `@media g1 mq g2 ["name" g3] { lead rules }` -/
  | media (kw : Mask) (g1 : Gap) (mq : List Tok) (g2 : Gap) (name : SName) (lead : WGap) (rules : SRules)
  /-- `@font-face g1 { block }` -/
  | fontface (kw : Mask) (g1 : Gap) (block : SBlock)
  /-- `@page g0 sel g1 { block }` -/
  | page (kw : Mask) (g0 : Gap) (sel : SPageSel) (g1 : Gap) (block : SPageBlock)
/-- `(rule gap)*` -/
inductive SRules where
  | nil
  | cons (r : SRule) (w : WGap) (rest : SRules)
end

/-- a statement of the `@import` section -/
inductive SImp where
  | comment (body : Cps)
  | unknown (toks : List Tok)
  /-- `@import g1 href g2 [mq g3] ["name" g4] ;` -/
  | import_ (kw : Mask) (g1 : Gap) (href : SHref) (g2 : Gap) (mq : Option (List Tok × Gap)) (name : SName)
  deriving Repr

/-- a statement of the `@namespace` section -/
inductive SNs where
  | comment (body : Cps)
  | unknown (toks : List Tok)
  /-- `@namespace g1 [prefix g] uri g2 ;` -/
  | namespace_ (kw : Mask) (g1 : Gap) (pfx : Option (Cps × Gap)) (uri : SHref) (g2 : Gap)
  deriving Repr

/-- `name g1 : g2 value g3` inside `@variables` -/
structure SVarDecl where
  name : Cps
  nameSp : Mask := []
  g1 : Gap := []
  g2 : Gap := []
  value : List Tok
  g3 : Gap := []
  deriving Repr

/-- `{ lead (decl ; gap)* [last] }` — comments inside the block of `@variables` are spelling (the DOM shows the
variables as a mapping) -/
structure SVarBlock where
  lead : Gap := []
  items : List (SVarDecl × Gap) := []
  last : Option SVarDecl := none
  deriving Repr

/-- a statement of the `@variables` section (after the `@namespace` rules, before the first style / `@media` /
`@page` / `@font-face` rule: `cssstylesheet.py:248-264`, `:818-842`) -/
inductive SVar where
  | comment (body : Cps)
  | unknown (toks : List Tok)
  /-- `@variables g0 { block }` -/
  | variables (kw : Mask) (g0 : Gap) (block : SVarBlock)
  deriving Repr

/-- `[@charset "enc";] lead (import-section) (namespace-section) (variables-section) (rules) EOF` — the order
CSS prescribes (`cssstylesheet.py:182-264`: a rule out of order is dropped) -/
structure SSheet where
  /-- `@charset "enc";` must be the first thing in the sheet, written exactly so (quote style aside) -/
  charset : Option (Quote × Cps) := none
  lead : WGap := []
  imports : List (SImp × WGap) := []
  namespaces : List (SNs × WGap) := []
  variables : List (SVar × WGap) := []
  rules : SRules := .nil

/-! ### `erase`: the abstract sheet a spelled sheet denotes -/

def SDecl.erase (d : SDecl) : AItem := .decl d.name (strip d.value) (d.prio.map (·.2.1))

def SItem.erase : SItem → Option AItem
  | .decl d => some d.erase
  | .comment b => some (.comment b)
  | .unknown t => some (.unknown t)
  | .semi => none

def SBlock.erase (b : SBlock) : List AItem :=
  b.items.filterMap (fun p => p.1.erase) ++ (b.last.map SDecl.erase).toList

def SSel.erase (s : SSel) : List (List Tok) := strip s.first :: s.more.map (fun p => strip p.2.1)

/-- white space is not kept inside a margin box (`marginrule.py:150-172`: the `ProdParser` run stores
neither `S` nor `COMMENT` tokens) -/
def squeeze (l : List Tok) : List Tok := l.filter (fun t => !isGapTok t)

/-- the declaration of a margin box: its value without white space -/
def SDecl.eraseSq (d : SDecl) : AItem := .decl d.name (squeeze d.value) (d.prio.map (·.2.1))

def SItem.eraseSq : SItem → Option AItem
  | .decl d => some d.eraseSq
  | _ => none

def SBlock.eraseSq (b : SBlock) : List AItem :=
  b.items.filterMap (fun p => p.1.eraseSq) ++ (b.last.map SDecl.eraseSq).toList

def SPageItem.eraseItem : SPageItem → Option AItem
  | .item i => i.erase
  | .margin .. => none

def SPageItem.eraseMargin : SPageItem → Option AMargin
  | .item _ => none
  | .margin n _ _ blk => some ⟨0x40 :: n, blk.eraseSq⟩

def SPageBlock.eraseItems (b : SPageBlock) : List AItem :=
  b.items.filterMap (fun p => p.1.eraseItem) ++ (b.last.map SDecl.erase).toList

def SPageBlock.eraseMargins (b : SPageBlock) : List AMargin :=
  b.items.filterMap (fun p => p.1.eraseMargin)

mutual
def SRule.erase : SRule → ARule
  | .comment b => .comment b
  | .style sel blk => .style sel.erase blk.erase
  | .unknown t => .unknown t
  | .media _ _ mq _ name _ rules => .media (strip mq) (storedName (name.map (·.2.1))) rules.erase
  | .fontface _ _ blk => .fontface blk.erase
  | .page _ _ sel _ blk => .page sel.name sel.pseudo blk.eraseItems blk.eraseMargins
def SRules.erase : SRules → List ARule
  | .nil => []
  | .cons r _ rest => r.erase :: rest.erase
end

def SImp.erase : SImp → ARule
  | .comment b => .comment b
  | .unknown t => .unknown t
  | .import_ _ _ href _ mq name => .import_ href.value (mq.map (fun p => strip p.1)) (storedName (name.map (·.2.1)))

def SNs.erase : SNs → ARule
  | .comment b => .comment b
  | .unknown t => .unknown t
  | .namespace_ _ _ pfx uri _ => .namespace_ ((pfx.map (·.1)).getD []) uri.value

def SVarDecl.erase (d : SVarDecl) : Cps × List Tok := (d.name, strip d.value)

/-- the mapping `@variables` denotes, as an ordered list: a name declared again takes the place of its first
declaration with the new value (`cssvariablesdeclaration.py:166-190`) -/
def aVarsAdd (acc : List (Cps × List Tok)) (v : Cps × List Tok) : List (Cps × List Tok) :=
  if acc.any (fun e => e.1 = v.1) then acc.map (fun e => if e.1 = v.1 then v else e) else acc ++ [v]

def SVarBlock.erase (b : SVarBlock) : List (Cps × List Tok) :=
  (b.items.map (fun p => p.1.erase) ++ (b.last.map SVarDecl.erase).toList).foldl aVarsAdd []

def SVar.erase : SVar → ARule
  | .comment b => .comment b
  | .unknown t => .unknown t
  | .variables _ _ blk => .variables blk.erase

def SSheet.erase (s : SSheet) : ASheet :=
  (s.charset.map (fun c => ARule.charset c.2)).toList ++ s.imports.map (·.1.erase) ++ s.namespaces.map (·.1.erase)
    ++ s.variables.map (·.1.erase) ++ s.rules.erase

/-! ### `render`: the tokens of a spelled sheet -/

def renderPrio : Option (Gap × Cps × Mask × Gap) → List Tok
  | none => []
  | some (g4, n, sp, g5) => bangTok :: (Gap.toks g4 ++ identTok (spell sp n) :: Gap.toks g5)

/-- the tokens of a declaration without its `;` -/
def SDecl.toks (d : SDecl) : List Tok :=
  identTok (spell d.nameSp d.name) ::
    (Gap.toks d.g1 ++ colonTok :: (Gap.toks d.g2 ++ (d.value ++ (Gap.toks d.g3 ++ renderPrio d.prio))))

def SItem.toks : SItem → List Tok
  | .decl d => d.toks ++ [semiTok]
  | .comment b => [commentTok b]
  | .unknown t => t
  | .semi => [semiTok]

def renderItems : List (SItem × WGap) → List Tok
  | [] => []
  | (i, w) :: rest => i.toks ++ (WGap.toks w ++ renderItems rest)

def renderLast : Option SDecl → List Tok
  | none => []
  | some d => d.toks

/-- the tokens between `{` and `}` -/
def SBlock.toks (b : SBlock) : List Tok := WGap.toks b.lead ++ (renderItems b.items ++ renderLast b.last)

def renderMore : List (Gap × List Tok × Gap) → List Tok
  | [] => []
  | (pre, core, post) :: rest => commaTok :: (Gap.toks pre ++ (core ++ (Gap.toks post ++ renderMore rest)))

/-- the tokens before `{` -/
def SSel.toks (s : SSel) : List Tok := s.first ++ (Gap.toks s.post ++ renderMore s.more)

/-- an at-keyword token: `@` + the spelled name; the type is what the tokenizer assigns by the normalised
value (`tokenize2.py:134-143`) -/
def atTok (typ : TT) (kw : Mask) (name : String) : Tok := ⟨typ, 0x40 :: spell kw (CssVerif.Proto.cps name), 0⟩

/-- `q` + the text with every `q` escaped + `q` -/
def quoteStr (q : Quote) (h : Cps) : Cps :=
  q.cp :: (h.flatMap (fun c => if c = q.cp then [0x5C, c] else [c]) ++ [q.cp])

def urlWord (up : Mask) : Cps := spell up (CssVerif.Proto.cps "url")

def SHref.tok : SHref → Tok
  | .str q h => ⟨.string, quoteStr q h, 0⟩
  | .url up pre post q h =>
    ⟨.uri, urlWord up ++ 0x28 :: (pre.map WsChar.cp ++ ((match q with
        | some q => quoteStr q h
        | none => h) ++ (post.map WsChar.cp ++ [0x29]))), 0⟩

/-- a STRING token -/
def strTok (q : Quote) (n : Cps) : Tok := ⟨.string, quoteStr q n, 0⟩

/-- the tokens of the optional name -/
def nameToks : SName → List Tok
  | some (q, n, g) => strTok q n :: Gap.toks g
  | none => []

/-- the STRING token of the optional name -/
def nameTok? : SName → Option Tok
  | some (q, n, _) => some (strTok q n)
  | none => none

def SPageItem.toks : SPageItem → List Tok
  | .item i => i.toks
  | .margin n kw g blk =>
    ⟨.atkeyword, 0x40 :: spell kw n, 0⟩ :: (Gap.toks g ++ lbraceTok :: (blk.toks ++ [rbraceTok]))

def renderPageItems : List (SPageItem × WGap) → List Tok
  | [] => []
  | (i, w) :: rest => i.toks ++ (WGap.toks w ++ renderPageItems rest)

def SPageBlock.toks (b : SPageBlock) : List Tok :=
  WGap.toks b.lead ++ (renderPageItems b.items ++ renderLast b.last)

def SPageSel.toks (s : SPageSel) : List Tok :=
  (match s.name with
    | some n => identTok n :: s.mid.map commentTok
    | none => []) ++
  (match s.pseudo with
    | some p => [colonTok, identTok (spell s.pseudoSp p)]
    | none => [])

mutual
def SRule.toks : SRule → List Tok
  | .comment b => [commentTok b]
  | .style sel blk => sel.toks ++ lbraceTok :: (blk.toks ++ [rbraceTok])
  | .unknown t => t
  | .media kw g1 mq g2 name lead rules =>
    atTok .mediaSym kw "media" :: (Gap.toks g1 ++ (mq ++ (Gap.toks g2 ++ (nameToks name ++ lbraceTok ::
      (WGap.toks lead ++ (rules.toks ++ [rbraceTok]))))))
  | .fontface kw g1 blk =>
    atTok .fontFaceSym kw "font-face" :: (Gap.toks g1 ++ lbraceTok :: (blk.toks ++ [rbraceTok]))
  | .page kw g0 sel g1 blk =>
    atTok .pageSym kw "page" :: (Gap.toks g0 ++ (sel.toks ++ (Gap.toks g1 ++ lbraceTok :: (blk.toks ++ [rbraceTok]))))
def SRules.toks : SRules → List Tok
  | .nil => []
  | .cons r w rest => r.toks ++ (WGap.toks w ++ rest.toks)
end

def impMqToks : Option (List Tok × Gap) → List Tok
  | some (m, g3) => m ++ Gap.toks g3
  | none => []

def SImp.toks : SImp → List Tok
  | .comment b => [commentTok b]
  | .unknown t => t
  | .import_ kw g1 href g2 mq name =>
    atTok .importSym kw "import" :: (Gap.toks g1 ++ href.tok :: (Gap.toks g2 ++ (impMqToks mq ++ (nameToks name ++ [semiTok]))))

def nsPfxToks : Option (Cps × Gap) → List Tok
  | some (p, g) => identTok p :: Gap.toks g
  | none => []

def SNs.toks : SNs → List Tok
  | .comment b => [commentTok b]
  | .unknown t => t
  | .namespace_ kw g1 pfx uri g2 =>
    atTok .namespaceSym kw "namespace" :: (Gap.toks g1 ++ (nsPfxToks pfx ++ uri.tok :: (Gap.toks g2 ++ [semiTok])))

def renderImps : List (SImp × WGap) → List Tok
  | [] => []
  | (r, w) :: rest => r.toks ++ (WGap.toks w ++ renderImps rest)

def renderNss : List (SNs × WGap) → List Tok
  | [] => []
  | (r, w) :: rest => r.toks ++ (WGap.toks w ++ renderNss rest)

def SVarDecl.toks (d : SVarDecl) : List Tok :=
  identTok (spell d.nameSp d.name) :: (Gap.toks d.g1 ++ colonTok :: (Gap.toks d.g2 ++ (d.value ++ Gap.toks d.g3)))

def renderVarItems : List (SVarDecl × Gap) → List Tok
  | [] => []
  | (d, g) :: rest => d.toks ++ semiTok :: (Gap.toks g ++ renderVarItems rest)

def renderLastVar : Option SVarDecl → List Tok
  | none => []
  | some d => d.toks

/-- the tokens between `{` and `}` -/
def SVarBlock.toks (b : SVarBlock) : List Tok := Gap.toks b.lead ++ (renderVarItems b.items ++ renderLastVar b.last)

def SVar.toks : SVar → List Tok
  | .comment b => [commentTok b]
  | .unknown t => t
  | .variables kw g0 blk =>
    atTok .variablesSym kw "variables" :: (Gap.toks g0 ++ lbraceTok :: (blk.toks ++ [rbraceTok]))

def renderVars : List (SVar × WGap) → List Tok
  | [] => []
  | (r, w) :: rest => r.toks ++ (WGap.toks w ++ renderVars rest)

/-- `@charset ` (one token, with its space: `tokenize2.py:96-104`), the string, `;` -/
def charsetToks (c : Quote × Cps) : List Tok :=
  [⟨.charsetSym, CssVerif.Proto.cps "@charset ", 0⟩, ⟨.string, quoteStr c.1 c.2, 0⟩, semiTok]

def charsetPart : Option (Quote × Cps) → List Tok
  | some c => charsetToks c
  | none => []

/-- what the tokenizer (`fullsheet=True`) hands to `CSSStyleSheet._setCssText` -/
def render (s : SSheet) : List Tok :=
  charsetPart s.charset ++
  (WGap.toks s.lead ++ (renderImps s.imports ++ (renderNss s.namespaces ++ (renderVars s.variables ++
    (s.rules.toks ++ [eofTok])))))

/-! ## the DOM projection -/

/-- `SelectorList._setSelectorText` (`selectorlist.py:187-200`): `_tokensupto2(listseponly=True)` until
nothing is left; a trailing `,` is popped.  (`uptoLoop` always takes the head, so the rest is shorter;
the fuel only makes the recursion structural.) -/
def selGroupsFuel : Nat → List Tok → List (List Tok)
  | 0, _ => []
  | _, [] => []
  | fuel + 1, t :: ts =>
    let r := upto .listsep none (t :: ts)
    let grp := if (r.1.getLast?.map (·.val)) = some [0x2C] then r.1.dropLast else r.1
    grp :: selGroupsFuel fuel r.2

def selGroups (ts : List Tok) : List (List Tok) := selGroupsFuel ts.length ts

def projItem : Item → Option AItem
  | .decl d => some (.decl (normalize d.name.val) (clean d.value) (d.prio.map (fun t => normalize t.val)))
  | .comment t => some (.comment (commentBody t.val))
  | .unknown toks => some (.unknown toks)
  | .dropped _ => none

def projItems (items : List Item) : List AItem := items.filterMap projItem

def projMargin (m : Margin) : AMargin := ⟨m.name, projItems m.items⟩

/-- a variable as the DOM shows it: the key of the mapping is the normalised name -/
def projVar (v : Var) : Cps × List Tok := (normalize v.1.val, clean v.2)

/-- what an opaque at-rule of `Struct` holds: its tokens are parsed again by the functions of
`Model/AtRules.lean` (the same functions the oracle `withAtRules O` answers with) -/
def projAt (O : Oracle) (M : List Cps) (k : Kind) (toks : List Tok) : ARule :=
  match k with
  | .charset => .charset ((charsetEncoding toks).getD [])
  | .import_ =>
    match importRule O toks with
    | some i => .import_ i.href (i.media.map clean) (storedName i.name)
    | none => .other .import_
  | .fontface => .fontface (projItems ((fontFaceRule O toks).getD []))
  | .page =>
    match pageRule O M toks with
    | .parsed p => .page p.sel.name p.sel.pseudo (projItems p.items) (p.margins.map projMargin)
    | .stub => .page none none [] []
    | .unmodelled => .other .page
  | .variables =>
    match variablesRule O toks with
    | .parsed vs => .variables (vs.map projVar)
    | .stub => .variables []
    | .unmodelled => .other .variables
  | k => .other k

mutual
def projRule (O : Oracle) (M : List Cps) : Rule → ARule
  | .comment t => .comment (commentBody t.val)
  | .style _ sel items => .style ((selGroups sel).map clean) (projItems items)
  | .unknown toks => .unknown toks
  | .at_ k toks => projAt O M k toks
  | .ns p u _ => .namespace_ p u
  | .media none _ => .media [] none []
  | .media (some (mq, name)) rules => .media (clean mq) (storedName (name.map (fun t => stringValue t.val))) (projRules O M rules)
def projRules (O : Oracle) (M : List Cps) : List Rule → List ARule
  | [] => []
  | r :: rs => projRule O M r :: projRules O M rs
end

def projSheet (O : Oracle) (M : List Cps) (rules : List Rule) : ASheet := projRules O M rules

end CssVerif.SheetSpec
