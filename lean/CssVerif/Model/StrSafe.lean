import CssVerif.Model.StrCodec
/-!
# Which stored values survive `write then read` — the decidable predicates of property C03

A stored STRING / URI value keeps "simple escapes": a backslash in it is either the first half of an escaped
backslash `\\`, or escapes the character after it. `scan` walks a stored value the way `unicodesub` will walk its
written form and reports the first reason why `helper.string` / `helper.uri` followed by the tokenizer and
`stringvalue` / `urivalue` does not give the value back. `none` = the value is safe. (Since the tokenizer removes
line continuations in the same pass that decodes escapes, strings and quoted URLs have the same predicate.)
-/
namespace CssVerif.StrCodec
open CssVerif.Proto

inductive Unsafe where
  | dq      -- a double quote with an (unpaired) backslash before it: written `\\"`, which ends the string early
  | bshex   -- an unpaired backslash before hex digits that decode (≤ U+10FFFF): re-read as that code point
  | bsnl    -- an unpaired backslash before a line break: written `\\a `, re-read as an escaped backslash and `a `
  | trail   -- the value ends in an escaped backslash `\\`: written `\\\"`, the closing quote is escaped
deriving DecidableEq, Repr

/-- `trailBad`: the written form is quoted, so a trailing escaped backslash is fatal. -/
structure Mode where
  trailBad : Bool
deriving DecidableEq, Repr

def Mode.quoted : Mode := ⟨true⟩      -- written by helper.string (STRING token, or quoted inside url())
def Mode.unquoted : Mode := ⟨false⟩   -- written unquoted inside url()

def scan (m : Mode) : Cps → Option Unsafe
  | [] => none
  | c :: t =>
    if c = 0x5C then
      match t with
      | [] => none
      | d :: t' =>
        if d = 0x5C then
          (match t' with
            | [] => if m.trailBad then some .trail else none
            | _ :: _ => scan m t')
        else if isHex d then
          -- only six digits that denote something above U+10FFFF are left alone by `_repl`;
          -- the digits are ordinary characters for the rest of the scan
          (if hexNum (t.take (hexRun 6 t)) ≤ 0x10FFFF then some .bshex else scan m t')
        else if isNl d then some .bsnl
        else if d = 0x22 then some .dq
        else scan m t'
    else scan m t

/-- stored STRING value `v`: `helper.string v` is one STRING token whose stored value is `v` again -/
def strClass (v : Cps) : Option Unsafe := scan .quoted v

def SafeStr (v : Cps) : Prop := strClass v = none

instance : DecidablePred SafeStr := fun v => (inferInstance : Decidable (strClass v = none))

/-- stored URL `v`: `helper.uri v` is one URI token whose stored value is `v` again. The unquoted form is chosen
only for values made of characters the `{url}` macro accepts (`isUrlChar_of_not_forb`). -/
def uriClass (v : Cps) : Option Unsafe :=
  if forbMatch v then scan .quoted v else scan .unquoted v

def SafeUri (v : Cps) : Prop := uriClass v = none

instance : DecidablePred SafeUri := fun v => (inferInstance : Decidable (uriClass v = none))

/-- no decodable hex escape at an escape position: such a text is a fixpoint of `unicodesub`
(identifiers, comments, function names … are written back verbatim) -/
def escFree : Cps → Bool
  | [] => true
  | c :: t =>
    if c = 0x5C then
      match t with
      | [] => true
      | d :: t' =>
        if d = 0x5C then escFree t'
        else if isHex d then (if hexNum (t.take (hexRun 6 t)) ≤ 0x10FFFF then false else escFree t')
        else escFree t'
    else escFree t

end CssVerif.StrCodec
