import CssVerif.Model.StrCodec
/-!
# Which stored values survive `write then read` — the decidable predicates of property C03

A stored STRING / URI value keeps "simple escapes": a backslash in it is either the first half of an escaped
backslash `\\`, or escapes the character after it. `scan` walks a stored value the way `unicodesub` will walk its
written form and reports the first reason why `helper.string` / `helper.uri` followed by the tokenizer and
`stringvalue` / `urivalue` does not give the value back. `none` = the value is safe.
-/
namespace CssVerif.StrCodec
open CssVerif.Proto

inductive Unsafe where
  | dq      -- a double quote with an (unpaired) backslash before it: written `\\"`, which ends the string early
  | bshex   -- an unpaired backslash before hex digits that decode (≤ U+10FFFF): re-read as that code point
  | bsnl    -- a backslash before a line break: written `\\a `, re-read as `\\a ` (unpaired) or eaten by cleanstring (paired)
  | trail   -- the value ends in an escaped backslash `\\`: written `\\\"`, the closing quote is escaped
  | ctrl    -- unquoted URL only: a character the `{url}` macro does not accept (C0 controls, DEL)
deriving DecidableEq, Repr

/-- `pairNl`: an escaped backslash directly before a line break is fatal (STRING tokens go through `cleanstring`);
`trailBad`: the written form is quoted, so a trailing escaped backslash is fatal. -/
structure Mode where
  pairNl : Bool
  trailBad : Bool
deriving DecidableEq, Repr

def Mode.str : Mode := ⟨true, true⟩      -- written by helper.string, read as a STRING token
def Mode.uriQ : Mode := ⟨false, true⟩    -- written quoted inside url(), read as a URI token (no cleanstring)
def Mode.uriU : Mode := ⟨false, false⟩   -- written unquoted inside url()

def scan (m : Mode) : Cps → Option Unsafe
  | [] => none
  | c :: t =>
    if c = 0x5C then
      match t with
      | [] => none
      | d :: t' =>
        if d = 0x5C then
          (match t' with
            | [] => if m.trailBad then some .trail else none
            | e :: _ => if m.pairNl && isNl e then some .bsnl else scan m t')
        else if isHex d then
          -- only six digits that denote something above U+10FFFF are left alone by `_repl`;
          -- the digits are ordinary characters for the rest of the scan
          (if hexNum (t.take (hexRun 6 t)) ≤ 0x10FFFF then some .bshex else scan m t')
        else if isNl d then some .bsnl
        else if d = 0x22 then some .dq
        else scan m t'
    else scan m t

/-- stored STRING value `v`: `helper.string v` is one STRING token whose stored value is `v` again -/
def strClass (v : Cps) : Option Unsafe := scan .str v

def SafeStr (v : Cps) : Prop := strClass v = none

instance : DecidablePred SafeStr := fun v => (inferInstance : Decidable (strClass v = none))

/-- every character that `{url}` does not accept directly has a backslash right before it -/
def ctrlOk (prevBs : Bool) : Cps → Bool
  | [] => true
  | c :: t => (isUrlChar c || prevBs) && ctrlOk (c == 0x5C) t

/-- stored URL `v`: `helper.uri v` is one URI token whose stored value is `v` again -/
def uriClass (v : Cps) : Option Unsafe :=
  if forbMatch v then scan .uriQ v
  else if ctrlOk false v then scan .uriU v else some .ctrl

def SafeUri (v : Cps) : Prop := uriClass v = none

instance : DecidablePred SafeUri := fun v => (inferInstance : Decidable (uriClass v = none))

/-- no decodable hex escape at an escape position: such a text is a fixpoint of `unicodesub`
(identifiers, comments, function names … are written back verbatim) -/
def escFree : Cps → Bool
  | [] => true
  | c :: t =>
    if c = 0x5C then
      match t with
      | [] => true
      | d :: t' =>
        if d = 0x5C then escFree t'
        else if isHex d then (if hexNum (t.take (hexRun 6 t)) ≤ 0x10FFFF then false else escFree t')
        else escFree t'
    else escFree t

end CssVerif.StrCodec
