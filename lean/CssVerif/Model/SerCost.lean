import CssVerif.Lib.Proto
/-!
# C01 — cost model of value serialisation (`serialize.py` `Out.append`, `do_css_CSSFunction`, `do_css_PropertyValue`)

A nested value is a tree: a leaf is a plain token, a node is a function value whose `cssText` property runs
`do_css_CSSFunction` over its items. `Out.append(val, type_)` asks each item for its `cssText`; `k` is the number
of times it *evaluates* that property per item: `k = 1` since fix 0d3a43d (`cssText = getattr(val, 'cssText', None)`),
`k = 2` on the pinned tree (`hasattr(val, 'cssText')` evaluates the property, `val.cssText` evaluates it again).
`visits k v` = number of `do_css_CSSFunction` entries caused by one evaluation of `v.cssText`.
-/
namespace CssVerif.SerCost

inductive V where
  | leaf : V
  | fn (args : List V) : V
deriving Repr, Inhabited

mutual
  def visits (k : Nat) : V → Nat
    | .leaf => 0
    | .fn args => 1 + k * visitsL k args
  def visitsL (k : Nat) : List V → Nat
    | [] => 0
    | a :: as => visits k a + visitsL k as
end

mutual
  /-- number of function nodes -/
  def fnCount : V → Nat
    | .leaf => 0
    | .fn args => 1 + fnCountL args
  def fnCountL : List V → Nat
    | [] => 0
    | a :: as => fnCount a + fnCountL as
end

/-- the chain `f(f(…f(1)…))` of depth `d` -/
def chain : Nat → V
  | 0 => .leaf
  | d + 1 => .fn [chain d]

/-- wire format of the driver: `L` leaf, `( … )` function node -/
def parseV : List Char → Nat → Option (V × List Char)
  | _, 0 => none
  | 'L' :: r, _ => some (.leaf, r)
  | '(' :: r, fuel + 1 => parseArgs r fuel []
  | _, _ => none
where
  parseArgs : List Char → Nat → List V → Option (V × List Char)
    | _, 0, _ => none
    | ')' :: r, _, acc => some (.fn acc.reverse, r)
    | cs, fuel + 1, acc =>
      match parseV cs fuel with
      | some (v, r) => parseArgs r fuel (v :: acc)
      | none => none

end CssVerif.SerCost
