import CssVerif.Model.SelSpec
import CssVerif.Model.Tok
/-!
# C16 at text level: the written selector as text, the tokenizer model in front of the selector model

* `Sel.text`   — the text of a written selector: the concatenation of the spellings of its tokens (for the *plain*
  spellings below the spelling of a token is its value: no escapes, so `unicodesub` / `stringsub` change nothing);
* `tokensOf`   — `Tok.tokenize text fullsheet=False doComments=True` (the model of `tokenize2.py`, kernel K1) handed to
  the selector model the way `Selector._setSelectorText` gets its tokens: type by name, value;
* `Tok.plain`, `Tok.follow`, `plainChain` — the **plain spellings**: every token is an escape-free lexeme of its class
  and no two neighbours fuse or re-split (decided by the first code point of the next token).

Theorems: `Lemmas/SelTok.lean`, `Props/C16.lean` (`tokenize_plain`, `text_render`).
Core Lean only (the driver links this file).
-/
namespace CssVerif.Sel
open CssVerif.Proto

/-- `c` lies in one of the ranges (same function as `Tok.inR`) -/
def inRanges (cs : List (Nat × Nat)) (c : Nat) : Bool := cs.any fun q => q.1 ≤ c && c ≤ q.2

/-- first code point of a plain identifier: a letter other than `u` / `U` (which may start `url(` / `U+…`), `_`, or a
non-ASCII code point -/
def identStartR : List (Nat × Nat) := [(65, 84), (86, 90), (95, 95), (97, 116), (118, 122), (128, 1114111)]
/-- … after a leading `-` any letter may start the name -/
def nameStartR : List (Nat × Nat) := [(65, 90), (95, 95), (97, 122), (128, 1114111)]
/-- further code points of a plain identifier: letters, digits, `-`, `_`, non-ASCII -/
def identRestR : List (Nat × Nat) := [(45, 45), (48, 57), (65, 90), (95, 95), (97, 122), (128, 1114111)]
/-- second code point of a name that starts with `u` / `U`: a name code point other than `r` `R` (and no escape) -/
def uSecondR : List (Nat × Nat) :=
  [(45, 45), (48, 57), (65, 81), (83, 90), (95, 95), (97, 113), (115, 122), (128, 1114111)]
def hexR : List (Nat × Nat) := [(48, 57), (65, 70), (97, 102)]
/-- a code point that a backslash escapes *as itself* (a "simple escape": the value keeps backslash and code
point): anything but a hex digit and LF / CR / FF -/
def escOk (d : Nat) : Bool := !(inRanges hexR d) && d != 10 && d != 13 && d != 12

/-- the rest of a name: name code points and simple escapes -/
def nameBody : Cps → Bool
  | [] => true
  | [c] => inRanges identRestR c
  | c :: d :: u => if c == 92 then escOk d && nameBody u else inRanges identRestR c && nameBody (d :: u)
/-- what may follow a name: ASCII code points that are no name code points, no backslash and no `(` -/
def nameStopR : List (Nat × Nat) := [(0, 39), (41, 44), (46, 47), (58, 64), (91, 91), (93, 94), (96, 96), (123, 127)]
/-- what may follow a lone `-`: no `-`, `.`, digit, letter, `_`, backslash, non-ASCII -/
def minusStopR : List (Nat × Nat) := [(0, 44), (47, 47), (58, 64), (91, 91), (93, 94), (96, 96), (123, 127)]
/-- white space of the `S` production -/
def wsR : List (Nat × Nat) := [(9, 9), (13, 13), (10, 10), (12, 12), (32, 32)]
def digitR : List (Nat × Nat) := [(48, 57)]
/-- what may follow an unsigned integer: `nameStopR` without `%` and `.` -/
def numStopR : List (Nat × Nat) :=
  [(0, 36), (38, 39), (41, 44), (47, 47), (58, 64), (91, 91), (93, 94), (96, 96), (123, 127)]

/-- a name whose value is its spelling: a start code point (optionally after one `-`) or a simple escape, then name
code points and simple escapes (no hex escapes: their value differs from the spelling) -/
def plainName : Cps → Bool
  | [] => false
  | [c] => inRanges identStartR c
  | c :: d :: u =>
    if c == 45 then inRanges nameStartR d && nameBody u
    else if c == 92 then escOk d && d != 85 && d != 117 && nameBody u      -- not `\u` / `\U`: they may start `url(` / `U+`
    else if c == 85 || c == 117 then inRanges uSecondR d && nameBody (d :: u)   -- `u…`, but not `ur…` (`url(`), `u\…`
    else inRanges identStartR c && nameBody (d :: u)

/-- body of a plain STRING with quote `q`: not the quote, no backslash, no LF / CR / FF -/
def strPlain (q c : Nat) : Bool := c != q && c != 92 && c != 10 && c != 13 && c != 12

/-- a comment behind a run of stars: `/` ends it, any other code point starts a piece `[^/*][^*]*\*+` -/
def cmSegs : Nat → Cps → Bool
  | 0, _ => false
  | f + 1, s =>
    match s with
    | [] => false
    | c :: t =>
      if c == 47 then t.isEmpty
      else c != 42 && !((t.dropWhile (· != 42)).length == ((t.dropWhile (· != 42)).dropWhile (· == 42)).length) &&
        cmSegs f ((t.dropWhile (· != 42)).dropWhile (· == 42))

/-- the text of a comment behind `/*`: it ends with its first `*/` (no hidden end, no missing end) -/
def cmTail (s : Cps) : Bool :=
  !((s.dropWhile (· != 42)).length == ((s.dropWhile (· != 42)).dropWhile (· == 42)).length) &&
    cmSegs (s.length + 1) ((s.dropWhile (· != 42)).dropWhile (· == 42))

/-- the single-character tokens of the selector grammar: `, : > [ ]` (fast path of the tokenizer), `= )`,
`* | ~` (unless `=` follows), `.` (unless a digit follows), `+` (unless a digit or `.` follows), `-` (followed by
nothing that continues a name, a number or `-->`) -/
def plainChars : List Nat := [44, 58, 62, 91, 93, 61, 41, 42, 124, 126, 46, 43, 45]

/-- the name the tokenizer gives to a token type -/
def typeStr : TT → String
  | .ident => "IDENT" | .function => "FUNCTION" | .char => "CHAR" | .hash => "HASH" | .string => "STRING"
  | .number => "NUMBER" | .dimension => "DIMENSION" | .s => "S" | .comment => "COMMENT" | .atkeyword => "ATKEYWORD"
  | .includes => "INCLUDES" | .dashmatch => "DASHMATCH" | .prefixmatch => "PREFIXMATCH"
  | .suffixmatch => "SUFFIXMATCH" | .substringmatch => "SUBSTRINGMATCH" | .eof => "EOF"
  | _ => "?"

/-- first code point of a plain lexeme: not `@`, not U+00EF / U+00FE (so the text starts neither with a BOM nor with `@charset `) -/
def headOk : Cps → Bool
  | c :: _ => inRanges [(0, 63), (65, 238), (240, 253), (255, 1114111)] c
  | [] => false

/-- an escape-free lexeme of its class -/
def Tok.plainCls (t : Tok) : Bool :=
  match t.typ with
  | .ident => plainName t.val
  | .hash => (match t.val with
      | 35 :: n :: ns => nameBody (n :: ns)
      | _ => false)
  | .function => t.val.getLast? == some 40 && plainName t.val.dropLast &&
      (CssVerif.Tok.pyLower t.val.dropLast != CssVerif.Gen.C05.andWord)
  | .s => !t.val.isEmpty && t.val.all (inRanges wsR)
  | .char => (match t.val with
      | [c] => plainChars.contains c
      | _ => false)
  | .includes => t.val == [126, 61]
  | .dashmatch => t.val == [124, 61]
  | .prefixmatch => t.val == [94, 61]
  | .suffixmatch => t.val == [36, 61]
  | .substringmatch => t.val == [42, 61]
  | .string => (match t.val with
      | q :: r => (q == 34 || q == 39) && r.getLast? == some q && r.dropLast.all (strPlain q)
      | [] => false)
  | .comment => (match t.val with
      | 47 :: 42 :: r => cmTail r
      | _ => false)
  | .number => (match t.val with
      | c :: r => if c == 43 || c == 45 then !r.isEmpty && r.all (inRanges digitR) else (c :: r).all (inRanges digitR)
      | [] => false)
  | .dimension => (match t.val with
      | c :: r =>
        if c == 43 || c == 45 then
          !(r.takeWhile (inRanges digitR)).isEmpty && plainName (r.dropWhile (inRanges digitR))
        else !((c :: r).takeWhile (inRanges digitR)).isEmpty && plainName ((c :: r).dropWhile (inRanges digitR))
      | [] => false)
  | _ => false

def Tok.plain (t : Tok) : Bool := headOk t.val && t.plainCls

/-- may the token be directly followed by a text that starts with the code point `c`? -/
def Tok.follow (t : Tok) (c : Nat) : Bool :=
  match t.typ with
  | .ident => inRanges nameStopR c
  | .hash => inRanges nameStopR c
  | .s => !inRanges wsR c
  | .char => (match t.val with
      | [42] => c != 61
      | [124] => c != 61
      | [126] => c != 61
      | [46] => !inRanges digitR c
      | [43] => !inRanges digitR c && c != 46
      | [45] => inRanges minusStopR c
      | _ => true)
  | .number => inRanges numStopR c
  | .dimension => inRanges nameStopR c
  | _ => true

/-- **plain spelling of a token list**: every token is a plain lexeme and each may be followed by the first code
point of the next one -/
def plainChain : List Tok → Bool
  | [] => true
  | [t] => t.plain
  | t :: u :: r => t.plain && (match u.val with | c :: _ => t.follow c | [] => false) && plainChain (u :: r)

def flat (l : List Tok) : Cps := l.flatMap (·.val)

/-- the text of a written selector -/
def Sel.text (s : Sel) : Cps := flat s.raw

def codes (s : String) : Cps := s.toList.map Char.toNat

/-- a token of the tokenizer model as the selector model receives it: type by name, value -/
def ofItem (it : CssVerif.Tok.Item) : Tok := ⟨TT.ofName (codes it.typ), it.value⟩

/-- `Selector`'s tokens of a text: `Tokenizer().tokenize(text)` (no full sheet, comments kept) -/
def tokensOf (text : Cps) : List Tok := (CssVerif.Tok.tokenize text false true).tokens.map ofItem

end CssVerif.Sel
