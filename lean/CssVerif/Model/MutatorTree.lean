import CssVerif.Model.Mutators
/-!
# Ownership trees of DOM objects — the deep semantics of `call f`

The effect script of a mutator talks about ONE object. Where it calls a public mutator of a child object
(`self.style.cssText = x`, `self._selectorList.appendSelector(x)` …: statement `call f`) the modular interpreter
`run` *assumes* the contract "the child raises and is unchanged, or the child changes" (`Handler.shallow`).
This file drops the assumption: a `World` describes a whole ownership tree of objects, each with the mutator
scripts of its class, and `World.handler` answers a `call f` by really running one of the child's scripts on the
child's state — with the child's own child calls answered the same way, one ownership level further down — and by
reporting what happened: *raised or not*, and independently *did an observable field of the child change*.
"The child raised **and** changed" is a possible answer here; `runG` then marks the field of the parent that holds
the child as changed although the call raised.

* **Objects are addressed by the path of (field, version) pairs from the root** (`Key`): the child held in field
  `f` of the object at `key`, while that field has version `v`, is the object `(f, v) :: key`. A field of the parent
  keeps its version exactly as long as the child it holds is observably unchanged (`runG`, case `call`), so a
  version stands for the whole subtree below it: `World.kid` gives the state of the child and, through the keys one
  level down, of everything it owns.
* `World.scripts key` are the mutators of the class of the object at `key`; which of them a `call` invokes is taken
  from the outcome sequence (`pick`: the number of leading `true`s), so the theorems cover *every* mutator of the
  child, not only the one the Python source names at that site.
* `d` is the number of ownership levels that may still be entered (sheet → rule → declaration block → property →
  value …). A call at level `0` reports `stuck`: like fuel, never a verdict; the theorems hold for every `d`.

Not a theorem about this file but how it is tied to the code: the extractor emits `call f` exactly at the sites where
it records a dependency on a child mutator *by name* (`Gen.C11.callDeps`); `Props/C11.lean` checks that every such
name is the member name of an extracted (hence disciplined) mutator, and the harness checks on the running
implementation that the functions entered on *other* DOM objects from a call site are entries of extracted mutators
and that a raising child leaves the parent's outcome "raised".
-/
namespace CssVerif.Mutators

/-- address of an object in the ownership tree: (field, version held by that field) pairs, innermost first -/
abbrev Key := List (Field × Nat)

structure World where
  /-- the mutator scripts of the class of the object at `key` -/
  scripts : Key → List Script
  /-- the state of the object at `key` when a mutator is entered on it (its locals — backup slots, flags — hold
  whatever they hold: the theorems are for every `kid`) -/
  kid : Key → St

/-- a number read from the outcome sequence in unary: `true`ⁿ `false` ↦ `n` -/
def pick : Outcomes → Nat × Outcomes
  | [] => (0, [])
  | false :: r => (0, r)
  | true :: r => ((pick r).1 + 1, (pick r).2)

/-- every listed field holds the same version in both states -/
def unchangedOn (fs : List Field) (a b : St) : Bool := fs.all fun g => a.cur g == b.cur g

/-- a handler that answers nothing: out of ownership depth -/
def Handler.stuck : Handler := fun _ _ _ os => ⟨false, false, true, os⟩

/-- The answer to `call f` issued by the object at `key`, with `d` ownership levels left: run mutator number
`pick os` of the child `(f, v) :: key` on the child's state, its own child calls answered with `d - 1` levels left;
below the last level calls are answered by `base`. -/
def World.handlerFrom (W : World) (base : Handler) : Nat → Key → Handler
  | 0, _ => base
  | d + 1, key => fun fuel f v os =>
    let k : Key := (f, v) :: key
    let p := pick os
    match (W.scripts k)[p.1]? with
    | none => ⟨false, false, true, p.2⟩
    | some m =>
      let r := runG (W.handlerFrom base d k) fuel m.body (W.kid k) p.2
      match r.exit with
      | .stuck => ⟨false, false, true, r.os⟩
      | .exc => ⟨true, !unchangedOn m.fields r.st (W.kid k), false, r.os⟩
      | .roExc => ⟨true, !unchangedOn m.fields r.st (W.kid k), false, r.os⟩
      | _ => ⟨false, true, false, r.os⟩

/-- nothing assumed at any level: below the last level a call reports `stuck` (like fuel, never a verdict) -/
def World.handler (W : World) : Nat → Key → Handler := W.handlerFrom Handler.stuck

/-- run a script on the object at `key` of the ownership tree `W`, entering at most `d` levels of children -/
def World.run (W : World) (d : Nat) (key : Key) (fuel : Nat) (sc : Stmt) (st : St) (os : Outcomes) : Res :=
  runG (W.handler d key) fuel sc st os

/-- the same with the contract `Handler.shallow` assumed below level `d` (what the driver runs against observed
two-level executions: the target's child calls really executed, the children's own child calls by contract) -/
def World.runFrom (W : World) (base : Handler) (d : Nat) (key : Key) (fuel : Nat) (sc : Stmt) (st : St)
    (os : Outcomes) : Res :=
  runG (W.handlerFrom base d key) fuel sc st os

/-- number of `call` statements of a script -/
def countCalls : Stmt → Nat
  | .call _ => 1
  | .ifFlag _ t e => countCalls t + countCalls e
  | .seq a b => countCalls a + countCalls b
  | .choice a b => countCalls a + countCalls b
  | .loop a b => countCalls a + countCalls b
  | .tryCatch a b => countCalls a + countCalls b
  | .tryFinally a b => countCalls a + countCalls b
  | .scope a => countCalls a
  | _ => 0

/-- What can be observed of an ownership tree: per listed field its version and, below it, the same for the child. -/
inductive ObsTree where
  | node (kids : List (Field × Nat × ObsTree))

/-- the observable tree below the object at `key` in state `st`, `n` levels deep; `fields key` = the observable
fields of the class of the object at `key` -/
def World.obs (W : World) (fields : Key → List Field) : Nat → Key → St → ObsTree
  | 0, _, _ => .node []
  | n + 1, key, st =>
    .node ((fields key).map fun f =>
      (f, st.cur f, W.obs fields n ((f, st.cur f) :: key) (W.kid ((f, st.cur f) :: key))))

end CssVerif.Mutators
