import CssVerif.Lib.Proto
import CssVerif.Lib.Re
import CssVerif.Gen.C20Tables
/-!
# K6 — model of `encutils/__init__.py`

Hand transcription, statement by statement, of

* `_getTextTypeByMediaType` (`:188-221`) — as an interpreter of the `if/elif` ladder that the translator reads
  from the source (`Gen.C20.ladder`: lists, regexes, literals, returned constants, in source order),
* `_getTextType` (`:224-234`), `encodingByMediaType` (`:237-266`), `getHTTPInfo` (`:269-289`, after the two
  calls on the message object), the tail of `getMetaInfo` (`:312-329`, after the HTML parser and the
  `email.message.Message` parameter parser),
* `detectXMLEncoding` (`:332-442`) on a stream (content, position, text/binary), with the BOM table, the two
  reads, the declaration regex (split at the group `encstr`) and the restores of the position,
* `getEncodingInfo` (`:500-698`): text defaulting, which extractor is consulted for which text type, the
  precedence chain and the mismatch flag.

Inputs that are *not* modelled but given to the model: what the message object of the response answers
(`get_content_type()`, `get_content_charset()`, `read()`), what the HTML parser and the parameter parser find
(`MetaRaw`), what `tryEncodings` would answer. Text and bytes documents are lists of code points (bytes are
decoded as latin-1 by the code, which keeps the values). Code points are `Nat`. Text types are the integer
constants of the source (`Gen.C20.XML_APPLICATION_TYPE` …), compared with `==` as the code does.

Second layer (`Model/EncutilsDoc.lean`): documents as `str` / `bytes` with the bytes guards, `_MetaHTMLParser`'s callback
over the start tags `html.parser` reports (so that `MetaRaw` is computed, not given), `EncodingInfo.__str__`;
`Model/EncutilsTry.lean`: `tryEncodings` without chardet.
-/
deriving instance DecidableEq for Except

namespace CssVerif.Encutils
open CssVerif CssVerif.Proto CssVerif.Gen

/-! ## Python string helpers -/

/-- `str.isspace` of one code point (what `str.strip()` removes) -/
def isSpace (c : Nat) : Bool :=
  (9 ≤ c && c ≤ 13) || (28 ≤ c && c ≤ 32) || c == 133 || c == 160 || c == 5760 ||
  (8192 ≤ c && c ≤ 8202) || c == 8232 || c == 8233 || c == 8239 || c == 8287 || c == 12288

def lstrip : Cps → Cps
  | [] => []
  | c :: t => if isSpace c then lstrip t else c :: t

/-- `s.strip()` -/
def strip (s : Cps) : Cps := (lstrip (lstrip s).reverse).reverse

/-- `str.lower` of one code point: ASCII and Latin-1 (code points ≥ 256 are left alone: the generators keep
cased letters outside Latin-1 away from the places that are lower-cased; see the assumptions of the check) -/
def lowerC (c : Nat) : Nat :=
  if 65 ≤ c && c ≤ 90 then c + 32
  else if 192 ≤ c && c ≤ 222 && c != 215 then c + 32
  else c

/-- `s.lower()` -/
def lower (s : Cps) : Cps := s.map lowerC

/-- Python truthiness of `None` / `str` -/
def truthy : Option Cps → Bool
  | none => false
  | some [] => false
  | some _ => true

/-- `hay.find(needle) != -1` -/
def contains (needle : Cps) : Cps → Bool
  | [] => needle.isEmpty
  | c :: t => needle.isPrefixOf (c :: t) || contains needle t

/-- value of a key in a dict *literal* (a later duplicate key replaces an earlier one) -/
def dictGet {α β : Type} [BEq α] (k : α) : List (α × β) → Option β
  | [] => none
  | p :: t => match dictGet k t with
    | some v => some v
    | none => if p.1 == k then some p.2 else none

/-! ## media-type classification -/

/-- the test of one rung (`:205-218`) on the stripped, lower-cased media type -/
def ruleHits : C20.Rule → Cps → Bool
  | .listRe lits re _, mt => lits.contains mt || (re.first mt).isSome
  | .eq lit _, mt => mt == lit
  | .pre lit _, mt => lit.isPrefixOf mt

def ruleTy : C20.Rule → Nat
  | .listRe _ _ ty => ty
  | .eq _ ty => ty
  | .pre _ ty => ty

/-- the `if/elif/else` chain: first rung that hits -/
def runLadder (mt : Cps) : List C20.Rule → Nat
  | [] => C20.elseType
  | r :: rs => if ruleHits r mt then ruleTy r else runLadder mt rs

/-- `_getTextTypeByMediaType(media_type)` (`:188-221`) -/
def textTypeByMediaType : Option Cps → Nat
  | none => C20.noneType                       -- `if not media_type`
  | some [] => C20.noneType
  | some mt => runLadder (lower (strip mt)) C20.ladder

/-- `_getTextType(text)` (`:224-234`) -/
def textTypeOfText (text : Cps) : Nat :=
  if contains C20.sniffNeedle (text.take C20.sniffWindow) then C20.sniffYes else C20.sniffNo

/-- `encodingByMediaType(media_type)` (`:237-266`): `defaultencodings.get(texttype, None)` -/
def encodingByMediaType (mt : Option Cps) : Option Cps :=
  (dictGet (textTypeByMediaType mt) C20.defaultEncodings).join

/-! ## `detectXMLEncoding` -/

/-- a file object: what it holds, where it stands, whether `read` hands out `bytes` (binary) or `str` -/
structure Stream where
  content : Cps
  pos : Nat
  binary : Bool
deriving Repr, BEq, DecidableEq

inductive Err where
  | valueError      -- tuple unpacking of fewer than four items
  | attributeError  -- `None.read()`
  | extractor       -- the (unmodelled) HTML parser stage of `getMetaInfo` raised
deriving Repr, BEq, DecidableEq

/-- result of a call on a stream: the stream is returned in both cases (where does it stand afterwards?) -/
structure XmlRes where
  out : Except Err (Option Cps)
  fp : Stream

/-- `bomDict.get(key)` followed by the truth test `if not bomDetection` -/
def bomGet (key : List (Option Nat)) : Option Cps :=
  match dictGet key C20.bomDict with
  | some name => if name.isEmpty then none else some name
  | none => none

/-- the three lookups (`:386-390`): four bytes, three bytes, two bytes. A position the document does not have is
`None` (`:379`, since "detectXMLEncoding no longer raises ValueError for a document shorter than four characters") -/
def bomDetect (b1 b2 b3 b4 : Option Nat) : Option Cps :=
  match bomGet [b1, b2, b3, b4] with
  | some n => some n
  | none => match bomGet [b1, b2, b3, none] with
    | some n => some n
    | none => bomGet [b1, b2, none, none]

/-- all (length of the part before the group, length of the group) of matches of the declaration pattern at
offset 0, in the order in which a backtracking matcher finds them -/
def declSpans (buf : Cps) : List (Nat × Nat) :=
  (C20.declPre.ms buf).flatMap fun l1 =>
    (C20.declGrp.ms (buf.drop l1)).flatMap fun l2 =>
      (C20.declPost.ms (buf.drop (l1 + l2))).map fun _ => (l1, l2)

/-- `xmlDeclRE.search(buffer)` and `match.group("encstr")` (`:426-432`) -/
def declMatch (buf : Cps) : Option Cps :=
  match declSpans buf with
  | [] => none
  | p :: _ => some ((buf.drop p.1).take p.2)

/-- `detectXMLEncoding(fp, includeDefault)` on a file object. What a binary file object hands out is decoded
as latin-1 (same code points), so `binary` plays no role any more; it is kept so that the theorems can say so. -/
def detectXMLStream (fp : Stream) (includeDefault : Bool) : XmlRes :=
  let oldFP := fp.pos                                         -- tell()
  let head := fp.content.take C20.bomRead                     -- seek(0); read(4); bytes -> latin-1
  -- `(byte1, byte2, byte3, byte4) = (tuple(map(ord, head)) + (None,) * 4)[:4]` (`:379`)
  match (head.map some ++ List.replicate 4 none).take 4 with
    | [b1, b2, b3, b4] =>
      match bomDetect b1 b2 b3 b4 with
      | some name => ⟨.ok (some name), { fp with pos := oldFP }⟩           -- seek(oldFP); return
      | none =>
        let buffer := fp.content.take C20.declRead                          -- seek(0); read(2048); bytes -> latin-1
        match declMatch buffer with                                         -- search; seek(oldFP)
        | some enc => ⟨.ok (some (lower enc)), { fp with pos := oldFP }⟩
        | none =>
          if includeDefault then ⟨.ok (some C20.xmlDefault), { fp with pos := oldFP }⟩
          else ⟨.ok none, { fp with pos := oldFP }⟩
    | _ => ⟨.error .valueError, fp⟩       -- the unpacking of a tuple that has not four items (never: `sniff_total`)

/-- `detectXMLEncoding(text)` for a `str` or `bytes` document: `io.StringIO(text)` (`:354-358`) -/
def detectXML (text : Cps) (includeDefault : Bool) : Except Err (Option Cps) :=
  (detectXMLStream ⟨text, 0, false⟩ includeDefault).out

/-! ## the extractors whose front part is not modelled -/

/-- what the message object of a response answers -/
structure Resp where
  mediaType : Option Cps     -- `info.get_content_type()`
  charset : Option Cps       -- `info.get_content_charset()`
  body : Option Cps          -- `response.read()`; `none` = it raised `OSError`
deriving Repr

/-- `getHTTPInfo(response)` (`:279-289`) -/
def getHTTPInfo (r : Resp) : Option Cps × Option Cps :=
  (r.mediaType, if truthy r.charset then r.charset.map lower else r.charset)

/-- `Message.get_param('charset')`: missing, a string, or an RFC 2231 triple — for the triple the model is given what
`email.utils.collapse_rfc2231_value` makes of it -/
inductive Param where
  | none
  | str (s : Cps)
  | tuple (collapsed : Cps)
deriving Repr

/-- what the HTML parser and the parameter parser deliver to the tail of `getMetaInfo` -/
inductive MetaRaw where
  | raises                                   -- the parser stage raised (not modelled)
  | absent                                   -- `p.content_type` is falsy (`:326-327`)
  | found (mediaType : Cps) (charset : Param)
deriving Repr

/-- tail of `getMetaInfo` (`:312-329`) -/
def getMetaInfo : MetaRaw → Except Err (Option Cps × Option Cps)
  | .raises => .error .extractor
  | .absent => .ok (none, none)
  | .found mt .none => .ok (some mt, none)
  | .found mt (.str s) => .ok (some mt, some (if s.isEmpty then s else lower s))
  | .found mt (.tuple s) => .ok (some mt, some (if s.isEmpty then s else lower s))   -- collapsed first

/-! ## `getEncodingInfo` -/

structure Info where
  encoding : Option Cps
  mismatch : Bool
  httpMediaType : Option Cps
  httpEncoding : Option Cps
  metaMediaType : Option Cps
  metaEncoding : Option Cps
  xmlEncoding : Option Cps
deriving Repr, BEq, DecidableEq

/-- `try: detectXMLEncoding(..) except (AttributeError, ValueError): None` (`:612-622`) -/
def sniffCaught (text : Cps) (includeDefault : Bool) : Except Err (Option Cps) :=
  match detectXML text includeDefault with
  | .ok r => .ok r
  | .error .valueError => .ok none
  | .error .attributeError => .ok none
  | .error e => .error e

/-- `a and b and a != b` on two encodings (`:660-691`) -/
def differ (a b : Option Cps) : Bool := truthy a && truthy b && a != b

/-- the precedence chain (`:630-656`) -/
def chain (tt : Nat) (http xml metaE byMediaType tryEnc : Option Cps) : Option Cps :=
  let e := http                                                   -- :630
  if tt == C20.XML_APPLICATION_TYPE then                          -- :635
    if !truthy e then xml else e
  else if tt == C20.HTML_TEXT_TYPE then                           -- :641
    let e := if !truthy e then metaE else e
    let e := if !truthy e then byMediaType else e
    let e := if !truthy e then tryEnc else e
    e
  else if tt == C20.XML_TEXT_TYPE || tt == C20.TEXT_TYPE then     -- :650
    if !truthy e then byMediaType else e
  else if tt == C20.TEXT_UTF8 then                                -- :654
    if !truthy e then byMediaType else e
  else e

/-- the document that is looked at (`:585-594`): the given text, else what `response.read()` returns;
`OSError` is swallowed (the text stays `None` and becomes `''`); without a response `None.read()` raises -/
def effText (response : Option Resp) (text : Option Cps) : Except Err Cps :=
  match text, response with
  | some t, _ => .ok t
  | none, some r => .ok (r.body.getD [])
  | none, none => .error .attributeError

/-- `(http_media_type, http_encoding)` (`:603-604`) -/
def httpOf : Option Resp → Option Cps × Option Cps
  | some r => getHTTPInfo r
  | none => (none, none)

/-- the text type (`:605-608`) -/
def typeOf (response : Option Resp) (text : Cps) : Nat :=
  match response with
  | some r => textTypeByMediaType (getHTTPInfo r).1
  | none => textTypeOfText text

/-- `xml_encoding` (`:606-622`): two independent `if`s, the second one overwrites; both only when the text has the
four characters of the longest BOM (`sniffable`, `:608`) -/
def xmlOf (tt : Nat) (text : Cps) : Except Err (Option Cps) :=
  let sniffable := decide (4 ≤ text.length)
  match (if tt == C20.XML_APPLICATION_TYPE && sniffable then sniffCaught text true else .ok none) with
  | .error e => .error e
  | .ok x1 => if tt == C20.HTML_TEXT_TYPE && sniffable then sniffCaught text false else .ok x1

/-- `(meta_media_type, meta_encoding)` (`:625-626`) -/
def metaOf (tt : Nat) (metaRaw : MetaRaw) : Except Err (Option Cps × Option Cps) :=
  if tt == C20.HTML_TEXT_TYPE || tt == C20.TEXT_TYPE then getMetaInfo metaRaw else .ok (none, none)

/-- `:630-698` -/
def assemble (tt : Nat) (http : Option Cps × Option Cps) (xml : Option Cps) (metaI : Option Cps × Option Cps)
    (tryEnc : Option Cps) : Info :=
  { encoding := chain tt http.2 xml metaI.2 (encodingByMediaType http.1) tryEnc,
    mismatch := differ http.2 xml || differ http.2 metaI.2 || differ xml metaI.2,
    httpMediaType := http.1, httpEncoding := http.2,
    metaMediaType := metaI.1, metaEncoding := metaI.2, xmlEncoding := xml }

/-- `getEncodingInfo(response, text)` (`:585-698`); `url` and the log are not modelled -/
def getEncodingInfo (response : Option Resp) (text : Option Cps) (metaRaw : MetaRaw) (tryEnc : Option Cps) :
    Except Err Info :=
  match effText response text with
  | .error e => .error e
  | .ok text =>
    let tt := typeOf response text
    match xmlOf tt text with
    | .error e => .error e
    | .ok xml =>
      match metaOf tt metaRaw with
      | .error e => .error e
      | .ok metaI => .ok (assemble tt (httpOf response) xml metaI tryEnc)

end CssVerif.Encutils
