import CssVerif.Model.SheetSpec
/-!
# C02 — the two options of the parser: `parseComments` and `validate`

`cssutils.parse.CSSParser(parseComments=…, validate=…)` (`parse.py:30-70`, `:139-170`):

* `parseComments=False` makes the tokenizer drop COMMENT tokens (`tokenize2.py:240`, `parse.py:65`): the parser sees
  `strip ts`.
* `validate` travels as `validating` to `Property._isValidating()` and is read at two places of the parse path
  (`property.py:185-186`: `if self._isValidating(): self.validate()`, result discarded; `property.py:249-253`: a
  warning about an unknown property name).  Both only emit log records (`neverraise=True`).  So a parse under a
  configuration is the structure kernel's parse plus a list of validation records that exists only when validating.
  That these are the ONLY reads of the flag that are not plain hand-overs is not assumed: the table
  `Gen/C02Validate.lean` is regenerated from the AST of the package on every run and `Props/C02.lean` evaluates it.

The validation records are an opaque function `V` of the rules that were built (which declarations are valid is C13's
subject).
-/
namespace CssVerif.ParseCfg
open CssVerif.Proto (Cps)
open CssVerif.Struct CssVerif.SheetSpec

structure Cfg where
  parseComments : Bool := true
  validate : Bool := true
  deriving DecidableEq, Repr

/-- a validation record: level and text -/
abbrev Msg := Nat × Cps

/-- what the tokenizer hands over under `cfg` -/
def tokensFor (cfg : Cfg) (ts : List Tok) : List Tok := if cfg.parseComments then ts else strip ts

/-- `CSSParser(parseComments, validate).parseString`: the rules of the sheet and the validation records -/
def parseWith (cfg : Cfg) (V : List Rule → List Msg) (O : Oracle) (M : List Cps) (ts : List Tok) :
    List Rule × List Msg :=
  let rules := parseSheet O M (tokensFor cfg ts)
  (rules, if cfg.validate then V rules else [])

/-! ## the regenerated table of flag reads -/

/-- a read of the flag is harmless when it only hands the value on (role 0) or guards log-only statements (role 1) -/
def siteHarmless (s : String × Nat × String × Nat) : Bool := s.2.2.2 ≤ 1

/-- the reads on the parse path: the guards (role 1) -/
def guards (sites : List (String × Nat × String × Nat)) : List (String × String) :=
  (sites.filter (fun s => s.2.2.2 == 1)).map (fun s => (s.1, s.2.2.1))

end CssVerif.ParseCfg
