import CssVerif.Lib.Proto
import CssVerif.Gen.C17Media
/-!
# K7 `Media` — model of `cssutils/stylesheets/medialist.py` and `mediaquery.py`

What is transcribed (statement by statement, line references into /repo at HEAD):

* `MediaQuery._setMediaText` (`mediaquery.py:79-177`) and `MediaList._setMediaText`
  (`medialist.py:77-152`) as **derived parsers**: the two grammars are run by the generic engine of
  `prodparser.py` (`Model/ProdEngine.lean` is the model of that engine); here the behaviour of the engine
  *on these two grammars* is written out as two automata over the token list (`stepQ`, `parseL`), including the
  stop-and-hand-back of the nested query parser: a token that ends a query at a query boundary travels through
  `prodparser.savedTokens` (`prodparser.py:573-578`), a token that ends it in the middle of a construct
  through `tokenizer.push` (`prodparser.py:585-590`) — the latter is re-emitted only by the text tokenizer and
  only while text remains (`tokenize2.py:153-155`). The agreement engine ↔ derived parser is part of the
  correspondence (`tools/harness/c17.py` runs both and the implementation on every case).
* the parse-time filter (`medialist.py:129-152`), `appendMedium`, `deleteMedium`, `__setitem__`, `item`, `length`,
  iteration (`medialist.py:64-72,160-278`; `util.py:110-124` for the inherited list protocol).
* serialisation `do_stylesheets_medialist` / `do_stylesheets_mediaquery` (`serialize.py:1196-1250`) over
  `Out.append` / `Out.value` (`serialize.py:200-315`) with the default preferences.

Tokens come from the tokenizer (K1, property C05); a token carries the text its value object serialises to
(`text`, supplied by the harness from the stand-alone `Value`/`DimensionValue`/`ColorValue` classes — value
normalisation is property C18). Colour *functions* (`rgb(` …) and `EOF` tokens are outside the modelled token
domain: the parsers answer `unsupported`, never a guess.
-/
namespace CssVerif.Media
open CssVerif.Proto

/-! ## Tokens -/

/-- token types the media code tells apart (`cssproductions.CSSProductions`); the rest is `other` -/
inductive TT
  | ident | s | comment | char | number | dimension | percentage | hash | function | string
  | unicodeRange | invalid | eof | other (name : Cps)
  deriving DecidableEq, Repr

/-- `(type, value, line, col)` without the position; `text` = cssText of the value object built from this
token when it stands in value position (input of the model, see header) -/
structure Tok where
  typ : TT
  val : Cps
  text : Cps := []
  deriving DecidableEq, Repr

/-! ## `helper.normalize` (`helper.py:44-61`) -/

def isHex (c : Nat) : Bool :=
  (48 ≤ c && c ≤ 57) || (65 ≤ c && c ≤ 70) || (97 ≤ c && c ≤ 102)

/-- `_simpleescapes.sub(removeescape, x)`: a backslash followed by a non-hex character is dropped -/
def unescSimple : Cps → Cps
  | [] => []
  | [c] => [c]
  | c :: d :: rest =>
    if c = 92 then
      if isHex d then c :: unescSimple (d :: rest) else d :: unescSimple rest
    else c :: unescSimple (d :: rest)

/-- `str.lower()` restricted to ASCII (assumption A2 in the harness) -/
def lowerAscii (l : Cps) : Cps := l.map fun c => if 65 ≤ c ∧ c ≤ 90 then c + 32 else c

def normalize (x : Cps) : Cps := lowerAscii (unescSimple x)

/-! ## Items -/

inductive VKind | color | dimension | value
  deriving DecidableEq, Repr

/-- one `Item` of `MediaQuery.seq` -/
inductive QItem
  /-- default `toSeq`: `(token type, token value)`; only IDENT and the CHARs `( : )` occur -/
  | tok (t : Tok)
  /-- `CSSComment(val)`, appended by `ProdParser.parse` itself (`prodparser.py:521-525`) -/
  | comment (t : Tok)
  /-- `ColorValue` / `DimensionValue` / `Value` built from one token (`value.py:951-1008,1077-1082`) -/
  | value (kind : VKind) (t : Tok)
  deriving DecidableEq, Repr

/-- a well-formed `MediaQuery` object: `seq` and `_mediaType` -/
structure MQ where
  items : List QItem
  mediaType : Cps
  deriving DecidableEq, Repr

/-- one `Item` of `MediaList._seq` -/
inductive LItem
  | comment (t : Tok)
  | query (q : MQ)
  deriving DecidableEq, Repr

def LItem.isQuery : LItem → Bool
  | .query _ => true
  | .comment _ => false

/-! ## The media-query automaton (engine on the `MediaQuery` grammar, `mediaquery.py:110-165`) -/

def cOpen : Cps := [40]
def cClose : Cps := [41]
def cColon : Cps := [58]
def cComma : Cps := [44]

def isMediaType (v : Cps) : Bool := Gen.C17Media.mediaTypes.contains (normalize v)
def isPrefixWord (v : Cps) : Bool := Gen.C17Media.prefixWords.contains (normalize v)
def isAndWord (v : Cps) : Bool := Gen.C17Media.andWords.contains (normalize v)
def isAllType (v : Cps) : Bool := Gen.C17Media.allWords.contains v

/-- `PreDef.reHexcolor`: `^\#(?:[0-9a-fA-F]{3}|[0-9a-fA-F]{6})$` (`value.py:990`) -/
def isHexColor (v : Cps) : Bool :=
  match v with
  | 35 :: r => (r.length = 3 || r.length = 6) && r.all isHex
  | _ => false

def colorFunctions : List Cps := [cps "rgb(", cps "rgba(", cps "hsl(", cps "hsla("]

/-- where the engine stands in the grammar, named by what was consumed last -/
inductive QS
  | start | afterPrefix | afterType | afterAnd | afterOpen | afterFeature | afterColon | afterValue | afterClose
  deriving DecidableEq, Repr

/-- the locals of one `ProdParser.parse` run on the query grammar -/
structure QSt where
  s : QS := .start
  /-- `seq`, newest first -/
  items : List QItem := []
  /-- `stopIfNoMoreMatch` (`prodparser.py:601`) -/
  stopIf : Bool := false
  /-- `store['media_type']` -/
  mtype : Option Cps := none
  /-- `'not simple' in store` -/
  notSimple : Bool := false
  deriving DecidableEq, Repr

inductive StepRes
  | cont (st : QSt)
  /-- `NoMatch` out of the root production (`prodparser.py:571-583`) -/
  | noMatch
  /-- `Missing` (`prodparser.py:585-595`) -/
  | missing
  | unsupported
  deriving Repr

def QSt.emit (st : QSt) (s : QS) (i : QItem) : QSt := { st with s := s, items := i :: st.items }

/-- a CHAR production `match=lambda t, v: v == char` (`prodparser.py:726-736`). Tokens from the tokenizer carry
such a value only with type CHAR; any other type is outside the token domain. -/
def charIs (t : Tok) (c : Cps) : Bool := t.val == c

/-- `MediaQueryValueProd` (`value.py:1077-1082`): which of ColorValue / Dimension / Value takes the token -/
def valueKind (t : Tok) : Option (Option VKind) :=
  -- `none` = no production matches; `some none` = matches but outside the model (colour function)
  if t.typ = .hash ∧ isHexColor t.val then some (some .color)
  else if t.typ = .function ∧ colorFunctions.contains (normalize t.val) then some none
  else if t.typ = .dimension ∨ t.typ = .number ∨ t.typ = .percentage then some (some .dimension)
  else if t.typ = .ident ∨ t.typ = .string ∨ t.typ = .unicodeRange then some (some .value)
  else none

/-- one significant token (not S, COMMENT, INVALID, EOF) against the query grammar; `partof` = `self._partof` -/
def stepQ (partof : Bool) (st : QSt) (t : Tok) : StepRes :=
  let charOk : Bool := t.typ = .char
  match st.s with
  | .start =>
    -- Choice: first alternative `[ONLY|NOT]? media_type …`, second `expression …`
    if t.typ = .ident ∧ isPrefixWord t.val then
      .cont { st.emit .afterPrefix (.tok t) with notSimple := true }
    else if t.typ = .ident ∧ isMediaType t.val then
      .cont { st.emit .afterType (.tok t) with mtype := some t.val, stopIf := partof || st.stopIf }
    else if charIs t cOpen then
      if charOk then .cont (st.emit .afterOpen (.tok t)) else .unsupported
    else .noMatch
  | .afterPrefix =>
    if t.typ = .ident ∧ isMediaType t.val then
      .cont { st.emit .afterType (.tok t) with mtype := some t.val, stopIf := partof || st.stopIf }
    else .missing
  | .afterType =>
    if t.typ = .ident ∧ isAndWord t.val then
      .cont { st.emit .afterAnd (.tok t) with notSimple := true }
    else .noMatch
  | .afterAnd =>
    if charIs t cOpen then
      if charOk then .cont (st.emit .afterOpen (.tok t)) else .unsupported
    else .missing
  | .afterOpen =>
    if t.typ = .ident then .cont (st.emit .afterFeature (.tok t)) else .missing
  | .afterFeature =>
    if charIs t cColon then
      if charOk then .cont (st.emit .afterColon (.tok t)) else .unsupported
    else if charIs t cClose then
      if charOk then .cont { st.emit .afterClose (.tok t) with stopIf := partof || st.stopIf }
      else .unsupported
    else .missing
  | .afterColon =>
    match valueKind t with
    | some (some k) => .cont (st.emit .afterValue (.value k t))
    | some none => .unsupported
    | none => .missing
  | .afterValue =>
    if charIs t cClose then
      if charOk then .cont { st.emit .afterClose (.tok t) with stopIf := partof || st.stopIf }
      else .unsupported
    else .missing
  | .afterClose =>
    if t.typ = .ident ∧ isAndWord t.val then
      .cont { st.emit .afterAnd (.tok t) with notSimple := true }
    else .noMatch

/-- the end-of-input loop of `ProdParser.parse` (`prodparser.py:645-689`) on this grammar: all productions are
exhausted exactly after a media type or a closing parenthesis -/
def QS.accepting : QS → Bool
  | .afterType | .afterClose => true
  | _ => false

/-- `mediaquery.py:167-177`: `mediaType` is set only for a query that is just a media type -/
def QSt.toMQ (st : QSt) : MQ :=
  { items := st.items.reverse
    mediaType := match st.mtype with
      | some v => if st.notSimple then [] else v
      | none => [] }

inductive POut (α : Type)
  | ok (a : α)
  /-- not well-formed (an error was logged, or raised in raise mode) -/
  | bad
  /-- outside the modelled token domain -/
  | unsupported
  deriving Repr, DecidableEq

/-- stand-alone `MediaQuery(text)` (`_partof=False`): the whole token list is the query -/
def parseQ : QSt → List Tok → POut MQ
  | st, [] => if st.s.accepting then .ok st.toMQ else .bad
  | st, t :: ts =>
    match t.typ with
    | .comment => parseQ { st with items := .comment t :: st.items } ts
    | .s => parseQ st ts
    | .invalid => .bad
    | .eof => .unsupported
    | _ =>
      match stepQ false st t with
      | .cont st' => parseQ st' ts
      | .noMatch => .bad
      | .missing => .bad
      | .unsupported => .unsupported

/-! ## The media-list automaton (engine on the `MediaList` grammar with the nested query parser,
`medialist.py:91-107`) -/

inductive LPhase
  /-- nothing but comments so far -/
  | start
  /-- a query has just been completed -/
  | afterQuery
  /-- a comma has been consumed -/
  | afterComma
  deriving DecidableEq, Repr

structure LSt where
  phase : LPhase := .start
  /-- outer `seq`, newest first -/
  items : List LItem := []
  /-- the nested `MediaQuery` parser, while it runs -/
  cur : Option QSt := none
  deriving Repr

/-- `MediaQueryStart`: `match=lambda t, v: t == 'IDENT' or v == '('` -/
def isQueryStart (t : Tok) : Bool := t.typ = .ident || t.val == cOpen

/-- a significant token seen by the *outer* parser while no query is open -/
def listStep (st : LSt) (t : Tok) : POut LSt :=
  match st.phase with
  | .start | .afterComma =>
    if isQueryStart t then
      -- the nested parser is created and fed this token first (`pushtoken(t, tokens)`)
      match stepQ true {} t with
      | .cont q => .ok { st with phase := .afterQuery, cur := some q }
      | .unsupported => .unsupported
      | _ => .bad   -- nested query not well-formed (stopIf is still false on its first token)
    else .bad       -- Missing for MediaQueryStart; the outer parser never has stopIfNoMoreMatch
  | .afterQuery =>
    if charIs t cComma then
      if t.typ = .char then .ok { st with phase := .afterComma } else .unsupported
    else .bad

/-- close the nested query (it stopped or the input ended) and append it to the outer `seq` -/
def LSt.closeQuery (st : LSt) (q : QSt) : LSt :=
  { st with items := .query q.toMQ :: st.items, cur := none }

/-- the whole list parse as one pass over the tokens. `fromText`: the tokens come from the module-level
tokenizer on a string (stand-alone list) and not from a token list (`@media`, `@import`).
`strict = true` is the code as it is (since the repair of C17-missing-handback, `prodparser.py:589-596`: a `Missing`
error is an error also when `stopIfNoMoreMatch` is set); `strict = false` is the parser as it was before. -/
def parseL (strict fromText : Bool) : LSt → List Tok → POut (List LItem)
  | st, [] =>
    match st.cur with
    | some q =>
      -- nested end-of-input check, then the outer one (phase afterQuery: complete)
      if q.s.accepting then .ok (st.closeQuery q).items.reverse else .bad
    | none =>
      match st.phase with
      | .afterQuery => .ok st.items.reverse
      | .afterComma => .bad                                   -- Missing after the comma
      | .start => if st.items.isEmpty then .bad else .ok st.items.reverse   -- "No content" / comments only
  | st, t :: ts =>
    match st.cur with
    | some q =>
      match t.typ with
      | .comment => parseL strict fromText { st with cur := some { q with items := .comment t :: q.items } } ts
      | .s => parseL strict fromText st ts
      | .invalid => .bad
      | .eof => .unsupported
      | _ =>
        match stepQ true q t with
        | .cont q' => parseL strict fromText { st with cur := some q' } ts
        | .unsupported => .unsupported
        | .noMatch =>
          if q.stopIf then
            -- savedTokens.append(token): the outer parser pops it next
            match listStep (st.closeQuery q) t with
            | .ok st' => parseL strict fromText st' ts
            | .bad => .bad
            | .unsupported => .unsupported
          else .bad
        | .missing =>
          if q.stopIf && !strict then
            -- tokenizer.push(token); the query counts as well-formed (!)
            if fromText && !ts.isEmpty then
              match listStep (st.closeQuery q) t with
              | .ok st' => parseL strict fromText st' ts
              | .bad => .bad
              | .unsupported => .unsupported
            else
              -- the pushed token is never read again
              parseL strict fromText (st.closeQuery q) ts
          else .bad
    | none =>
      match t.typ with
      | .comment => parseL strict fromText { st with items := .comment t :: st.items } ts
      | .s => parseL strict fromText st ts
      | .invalid => .bad
      | .eof => .unsupported
      | _ =>
        match listStep st t with
        | .ok st' => parseL strict fromText st' ts
        | .bad => .bad
        | .unsupported => .unsupported

/-! ## Parse-time filter (`medialist.py:129-152`) -/

/-- the `for item in seq` loop; `seen` = `mediaTypes`, `final`/`comments` = `finalseq`/`commentseqonly`
(newest first); `mediaType = normalize(item.value.mediaType)`: media types are compared case-insensitively -/
def canonGo : List LItem → List Cps → List LItem → List LItem → List LItem
  | [], _, final, _ => final.reverse
  | .comment c :: rest, seen, final, comments =>
    canonGo rest seen (.comment c :: final) (.comment c :: comments)
  | .query q :: rest, seen, final, comments =>
    if (normalize q.mediaType).isEmpty then canonGo rest seen (.query q :: final) comments
    else if isAllType (normalize q.mediaType) then (.query q :: comments).reverse
    else if seen.contains (normalize q.mediaType) then canonGo rest seen final comments
    else canonGo rest (normalize q.mediaType :: seen) (.query q :: final) comments

def canon (items : List LItem) : List LItem := canonGo items [] [] []

/-! ## The list object and its operations -/

structure ML where
  seq : List LItem := []
  wellformed : Bool := false
  deriving DecidableEq, Repr

inductive Err
  | syntaxErr | invalidModification | notFound | indexError | attributeError
  deriving DecidableEq, Repr

/-- what a call did: returned (with Python value rendered by the driver), raised, or left the model -/
inductive Outcome (α : Type)
  | ret (a : α)
  | raised (e : Err)
  | unsupported
  deriving Repr, DecidableEq

def queries (l : List LItem) : List MQ := l.filterMap fun | .query q => some q | .comment _ => none

/-- `[normalize(item.value.mediaType) for item in self]` -/
def ntypes (l : List LItem) : List Cps := (queries l).map fun q => normalize q.mediaType

/-- `MediaList.length`, and `len(ml)`: the media are counted, not the comments (`medialist.py` `__len__`) -/
def ML.length (m : ML) : Nat := (queries m.seq).length

/-- `_seqindex`: position in `_seq` of the k-th medium -/
def seqIndex : List LItem → Nat → Option Nat
  | [], _ => none
  | .comment _ :: r, k => (seqIndex r k).map (· + 1)
  | .query _ :: _, 0 => some 0
  | .query _ :: r, k + 1 => (seqIndex r k).map (· + 1)

/-- `MediaList._setMediaText` (`medialist.py:77-152`); `raising` = `cssutils.log.raiseExceptions` -/
def ML.setMediaText (m : ML) (raising fromText : Bool) (toks : List Tok) : ML × Outcome Unit :=
  match parseL true fromText {} toks with
  | .unsupported => (m, .unsupported)
  | .bad =>
    -- an error was reported inside the parse: raised before `_wellformed` is assigned, or only logged
    if raising then (m, .raised .syntaxErr) else ({ m with wellformed := false }, .ret ())
  | .ok items =>
    if (queries items).isEmpty then
      -- "MediaQuery: No content." (`medialist.py:121-127`): the error call comes before `_wellformed = ok`
      if raising then (m, .raised .syntaxErr) else ({ m with wellformed := false }, .ret ())
    else ({ seq := canon items, wellformed := true }, .ret ())

/-- a new medium given as text: `none` = the empty string (`MediaQuery('')` parses nothing) -/
abbrev MediumText := Option (List Tok)

/-- `__prepareset` (`medialist.py:160-168`): `.ret none` = not well-formed in log mode -/
def prepareSet (raising : Bool) (t : MediumText) : Outcome (Option MQ) :=
  match t with
  | none => .ret none
  | some toks =>
    match parseQ {} toks with
    | .ok q => .ret (some q)
    | .bad => if raising then .raised .syntaxErr else .ret none
    | .unsupported => .unsupported

/-- index (among the *queries*) of the first query whose normalised type is `n`
(`for i, mq in enumerate(self): if normalize(mq.value.mediaType) == oldMedium`, `medialist.py:261-262`) -/
def findType (n : Cps) : List MQ → Option Nat
  | [] => none
  | q :: r => if normalize q.mediaType == n then some 0 else (findType n r).map (· + 1)

/-- `deleteMedium`: `del self[i]` deletes the i-th medium (`__delitem__` maps the index through `_seqindex`) -/
def ML.deleteMedium (m : ML) (raising : Bool) (old : Cps) : ML × Outcome Unit :=
  match findType (normalize old) (queries m.seq) with
  | some i =>
    match seqIndex m.seq i with
    | some p => ({ m with seq := m.seq.eraseIdx p }, .ret ())
    | none => (m, .raised .indexError)      -- not reachable: i < number of media
  | none => (m, if raising then .raised .notFound else .ret ())

/-- `appendMedium` (`medialist.py:191-241`); returns the Python return value -/
def ML.appendMedium (m : ML) (raising : Bool) (t : MediumText) : ML × Outcome Bool :=
  match prepareSet raising t with
  | .unsupported => (m, .unsupported)
  | .raised e => (m, .raised e)
  | .ret none => (m, .ret false)
  | .ret (some q) =>
    let mts := ntypes m.seq
    let newmt := normalize q.mediaType
    if mts.any isAllType then
      (m, if raising then .raised .invalidModification else .ret true)
    else if !newmt.isEmpty && mts.contains newmt then
      let m1 := (m.deleteMedium raising newmt).1
      ({ m1 with seq := m1.seq ++ [.query q] }, .ret true)
    else if isAllType newmt then
      ({ m with seq := [.query q] }, .ret true)
    else ({ m with seq := m.seq ++ [.query q] }, .ret true)

/-- Python list index: `-len ≤ i < len` -/
def pyIndex (n : Nat) (i : Int) : Option Nat :=
  if 0 ≤ i then (if i.toNat < n then some i.toNat else none)
  else if (-i).toNat ≤ n then some (n - (-i).toNat) else none

/-- `'all' == newmt or (newmt and newmt == normalize(item.value.mediaType))` (`medialist.py:185-188`) -/
def sameMedium (newmt : Cps) (q : MQ) : Bool :=
  isAllType newmt || (!newmt.isEmpty && newmt == normalize q.mediaType)

/-- the `for i in reversed(range(len(self._seq)))` loop of `__setitem__` (`medialist.py:182-189`) as a filter:
position `keep` is the new item itself (`item is not newitem`) -/
def dropSame (newmt : Cps) : List LItem → Nat → Nat → List LItem
  | [], _, _ => []
  | .comment c :: r, j, keep => .comment c :: dropSame newmt r (j + 1) keep
  | .query q :: r, j, keep =>
    if j != keep && sameMedium newmt q then dropSame newmt r (j + 1) keep
    else .query q :: dropSame newmt r (j + 1) keep

/-- `__setitem__` (`medialist.py:170-189`) -/
def ML.setItem (m : ML) (raising : Bool) (index : Int) (t : MediumText) : ML × Outcome Unit :=
  match prepareSet raising t with
  | .unsupported => (m, .unsupported)
  | .raised e => (m, .raised e)
  | .ret none => (m, .ret ())
  | .ret (some q) =>
    -- `index = self._seqindex(index)`: a Python list index into the positions of the media
    match (pyIndex (queries m.seq).length index).bind (seqIndex m.seq) with
    | none => (m, .raised .indexError)
    | some p => ({ m with seq := dropSame (normalize q.mediaType) (m.seq.set p (.query q)) 0 p }, .ret ())

/-- `item(index)` (`medialist.py:270-278`): `self[index].mediaType`, `None` on IndexError -/
def ML.item (m : ML) (index : Int) : Outcome (Option Cps) :=
  match pyIndex (queries m.seq).length index with
  | none => .ret none
  | some k =>
    match (queries m.seq)[k]? with
    | some q => .ret (some q.mediaType)
    | none => .ret none

/-- iteration: `[mq.mediaType for mq in ml]` -/
def ML.iterTypes (m : ML) : List Cps := (queries m.seq).map (·.mediaType)

/-! ## Serialisation (`serialize.py:200-315`, default preferences) -/

def isInfix (a b : Cps) : Bool :=
  match b with
  | [] => a.isEmpty
  | _ :: r => a.isPrefixOf b || isInfix a r

/-- `not s.strip()` for the strings that can stand in `Out.out` -/
def isBlank (s : Cps) : Bool := s.all fun c => c = 32 || (9 ≤ c && c ≤ 13) || (28 ≤ c && c ≤ 31) || c = 133 || c = 160

abbrev Out := List Cps   -- `Out.out`, newest first

def Out.removeLastIfS (o : Out) : Out :=
  match o with
  | x :: r => if isBlank x then r else o
  | [] => o

/-- `self.out.insert(-1, x)` -/
def Out.insertBeforeLast (o : Out) (x : Cps) : Out :=
  match o with
  | l :: r => l :: x :: r
  | [] => [x]

def endsWithSpace (v : Cps) : Bool := v.getLast? == some 32

/-- APPEND and POST phases for a string `val` whose type is none of the special ones -/
def Out.appendPost (o : Out) (val : Cps) : Out :=
  let o := if endsWithSpace val then o.removeLastIfS else o
  let o : Out := val :: o
  if isInfix val (cps "+>~") then [32] :: o.insertBeforeLast [32]
  else if val = cClose then [32] :: o
  else if val = cComma then [32] :: o
  else if val = cColon then [32] :: o
  else if val = [123] then [10] :: o.insertBeforeLast [32]
  else if val = [59] then [10] :: o
  else if !isInfix val (cps "}[]()/=") then [32] :: o
  else o

/-- `Out.append(val, type_)` for a plain string of type IDENT or CHAR -/
def Out.appendStr (o : Out) (val : Cps) : Out :=
  if val.isEmpty then o
  else
    let o := if isInfix val (cps "+>~,:{;)]/=}") then o.removeLastIfS else o
    o.appendPost val

/-- `Out.append(obj, type_)` for an object with `cssText` / `mediaText` (comment, value, media query) -/
def Out.appendObj (o : Out) (text : Cps) : Out := o.appendPost text

/-- `Out.value()` -/
def Out.value (o : Out) : Cps := (o.removeLastIfS.reverse).flatten

def QItem.render (o : Out) : QItem → Out
  | .tok t => o.appendStr t.val
  | .comment t => o.appendObj t.val
  | .value _ t => o.appendObj t.text

/-- `do_stylesheets_mediaquery` for a well-formed query -/
def MQ.text (q : MQ) : Cps := Out.value (q.items.foldl QItem.render [])

def renderL : List LItem → Bool → Out → Out
  | [], _, o => o
  | .comment c :: r, first, o => renderL r first (o.appendObj c.val)
  | .query q :: r, first, o =>
    let o := if first then o else o.appendStr cComma
    renderL r false (o.appendObj q.text)

/-- `do_stylesheets_medialist` -/
def ML.mediaText (m : ML) : Cps :=
  if (queries m.seq).isEmpty then cps "all" else Out.value (renderL m.seq true [])

/-! ## Token-level serialisation: the tokens `mediaText` consists of, S left out -/

def QItem.toTok : QItem → Tok
  | .tok t => t
  | .comment t => t
  | .value _ t => t

def MQ.toks (q : MQ) : List Tok := q.items.map QItem.toTok

def commaTok : Tok := { typ := .char, val := cComma }

def toksL : List LItem → Bool → List Tok
  | [], _ => []
  | .comment c :: r, first => c :: toksL r first
  | .query q :: r, first => (if first then [] else [commaTok]) ++ q.toks ++ toksL r false

def ML.toks (m : ML) : List Tok :=
  if (queries m.seq).isEmpty then [{ typ := .ident, val := cps "all" }] else toksL m.seq true

/-! ## The `MediaQuery.mediaType` setter (`mediaquery.py:193-234`, as of 7e62688)

`_checkReadonly` is outside (a media query is never read-only in the modelled operations). The loop walks `_seq`;
items whose value is a string are exactly the `.tok` items (comments and value objects are passed over). -/

/-- `normalize(x.value) in ('only', 'not')` (`mediaquery.py:222`) — the tuple literal of the setter -/
def isSetterSkipWord (v : Cps) : Bool := Gen.C17Media.setterSkipWords.contains (normalize v)

/-- `(mediaType, 'IDENT', None, None)`: the type is stored as it was given -/
def typeItem (mt : Cps) : QItem := .tok { typ := .ident, val := mt }

/-- `self._seq.insert(i, 'and', 'IDENT')` (`mediaquery.py:230`) -/
def setterAndItem : QItem := .tok { typ := .ident, val := Gen.C17Media.setterAndWord }

/-- the `for i, x in enumerate(self._seq)` loop (`mediaquery.py:220-232`); `none` = it ended without `break` -/
def setTypeGo (mt : Cps) : List QItem → Option (List QItem)
  | [] => none
  | .tok t :: r =>
    if isSetterSkipWord t.val then (setTypeGo mt r).map (QItem.tok t :: ·)          -- `continue`
    else if t.typ = .ident then some (typeItem mt :: r)                              -- `self._seq[i] = …; break`
    else some (typeItem mt :: setterAndItem :: QItem.tok t :: r)                     -- two `insert(i, …)`; `break`
  | x :: r => (setTypeGo mt r).map (x :: ·)

/-- `MediaQuery._setMediaType` on a well-formed query: an unknown type is an error (SyntaxErr, logged or raised)
and nothing changes; otherwise `_mediaType` is the given string and the sequence is updated by the loop, its
`else` branch putting the type in front (`mediaquery.py:233-234`) -/
def MQ.setMediaType (q : MQ) (raising : Bool) (mt : Cps) : MQ × Outcome Unit :=
  if Gen.C17Media.mediaTypes.contains (normalize mt) then
    ({ items := (setTypeGo mt q.items).getD (typeItem mt :: q.items), mediaType := mt }, .ret ())
  else (q, if raising then .raised .syntaxErr else .ret ())

end CssVerif.Media
