import CssVerif.Model.Out
import CssVerif.Gen.C06Prefs
/-!
# `Preferences.useDefaults` / `useMinified` (`serialize.py:135-185`) over the generated assignment lists

The statements `self.X = v` are data (`Gen/C06Prefs.lean`, regenerated from the source on every run); executing one
is `Prefs.set`. A name or a value type the record does not know makes `set` return `none`, so a preference added
upstream breaks `useDefaults_total` (Props/C06) instead of being ignored.
-/
namespace CssVerif.Out
open CssVerif.Gen.C06 (PVal)

/-- the attribute names of the record, in declaration order -/
def Prefs.fieldNames : List String :=
  ["defaultAtKeyword", "defaultPropertyName", "defaultPropertyPriority", "importHrefFormat", "indent",
   "indentClosingBrace", "indentSpecificities", "keepAllProperties", "keepComments", "keepEmptyRules",
   "keepUnknownAtRules", "keepUsedNamespaceRulesOnly", "lineNumbers", "lineSeparator", "listItemSpacer",
   "minimizeColorHash", "normalizedVarNames", "omitLastSemicolon", "omitLeadingZero", "paranthesisSpacer",
   "propertyNameSpacer", "resolveVariables", "selectorCombinatorSpacer", "spacer", "validOnly"]

/-- `self.<name> = v` -/
def Prefs.set (p : Prefs) (name : String) (v : PVal) : Option Prefs :=
  match name, v with
  | "defaultAtKeyword", .b x => some { p with defaultAtKeyword := x }
  | "defaultPropertyName", .b x => some { p with defaultPropertyName := x }
  | "defaultPropertyPriority", .b x => some { p with defaultPropertyPriority := x }
  | "importHrefFormat", .none => some { p with importHrefFormat := none }
  | "importHrefFormat", .s x => some { p with importHrefFormat := some x }
  | "indent", .s x => some { p with indent := x }
  | "indentClosingBrace", .b x => some { p with indentClosingBrace := x }
  | "indentSpecificities", .b x => some { p with indentSpecificities := x }
  | "keepAllProperties", .b x => some { p with keepAllProperties := x }
  | "keepComments", .b x => some { p with keepComments := x }
  | "keepEmptyRules", .b x => some { p with keepEmptyRules := x }
  | "keepUnknownAtRules", .b x => some { p with keepUnknownAtRules := x }
  | "keepUsedNamespaceRulesOnly", .b x => some { p with keepUsedNamespaceRulesOnly := x }
  | "lineNumbers", .b x => some { p with lineNumbers := x }
  | "lineSeparator", .s x => some { p with lineSeparator := x }
  | "listItemSpacer", .s x => some { p with listItemSpacer := x }
  | "minimizeColorHash", .b x => some { p with minimizeColorHash := x }
  | "normalizedVarNames", .b x => some { p with normalizedVarNames := x }
  | "omitLastSemicolon", .b x => some { p with omitLastSemicolon := x }
  | "omitLeadingZero", .b x => some { p with omitLeadingZero := x }
  | "paranthesisSpacer", .s x => some { p with paranthesisSpacer := x }
  | "propertyNameSpacer", .s x => some { p with propertyNameSpacer := x }
  | "resolveVariables", .b x => some { p with resolveVariables := x }
  | "selectorCombinatorSpacer", .s x => some { p with selectorCombinatorSpacer := x }
  | "spacer", .s x => some { p with spacer := x }
  | "validOnly", .b x => some { p with validOnly := x }
  | _, _ => none

/-- run a list of `self.X = v` statements -/
def Prefs.assign (p : Prefs) : List (String × PVal) → Option Prefs
  | [] => some p
  | (n, v) :: rest => match p.set n v with
    | none => none
    | some q => q.assign rest

/-- `Preferences.useDefaults()` -/
def useDefaults (p : Prefs) : Option Prefs := p.assign CssVerif.Gen.C06.prefsDefaulted

/-- `Preferences.useMinified()` -/
def useMinified (p : Prefs) : Option Prefs := p.assign CssVerif.Gen.C06.prefsMinified

/-- a record with arbitrary content to run `useDefaults` on -/
def Prefs.blank : Prefs :=
  { defaultAtKeyword := false, defaultPropertyName := false, defaultPropertyPriority := false,
    importHrefFormat := none, indent := [], indentClosingBrace := false, indentSpecificities := false,
    keepAllProperties := false, keepComments := false, keepEmptyRules := false, keepUnknownAtRules := false,
    keepUsedNamespaceRulesOnly := false, lineNumbers := false, lineSeparator := [], listItemSpacer := [],
    minimizeColorHash := false, normalizedVarNames := false, omitLastSemicolon := false, omitLeadingZero := false,
    paranthesisSpacer := [], propertyNameSpacer := [], resolveVariables := false, selectorCombinatorSpacer := [],
    spacer := [], validOnly := false }

/-- `Preferences()` — what `__init__` leaves (`useDefaults` on a fresh object) -/
def Prefs.default : Prefs := (useDefaults Prefs.blank).getD Prefs.blank

end CssVerif.Out
