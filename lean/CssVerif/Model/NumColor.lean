import CssVerif.Model.NumF64
/-!
# K4 `Val`, colours — model of `ColorValue._setCssText` and of the colour serializers (C18)

Hand transcription of

* `cssutils/css/value.py:344-485`    `ColorValue._setCssText`: the grammar (as a derived recursive parser over the
  token list: `FUNCTION component (','? component){2|3} ')'`), hash / keyword / function channels
* `cssutils/css/value.py:1016`, `cssutils/prodparser.py:702`   `reHexcolor`
* `cssutils/serialize.py:1111-1133`  `do_css_ColorValue`, `do_css_CSSFunction`
* CPython `colorsys.hls_to_rgb` as exact rational arithmetic (the implementation computes it on floats; the
  correspondence accepts either neighbour when `255·channel` is exactly half-way)

Channels are exact rationals (`Rat` is core Lean).
-/
namespace CssVerif.Num
open CssVerif.Proto

/-! ## hash colours -/

/-- `int(c, 16)` for one character -/
def hexVal? (c : Nat) : Option Nat :=
  if 0x30 ≤ c ∧ c ≤ 0x39 then some (c - 0x30)
  else if 0x41 ≤ c ∧ c ≤ 0x46 then some (c - 0x41 + 10)
  else if 0x61 ≤ c ∧ c ≤ 0x66 then some (c - 0x61 + 10)
  else none

/-- `int(a + b, 16)` for two hex digits -/
def hexPair? (a b : Nat) : Option Nat :=
  match hexVal? a, hexVal? b with
  | some x, some y => some (16 * x + y)
  | _, _ => none

/-- `reHexcolor.match(v)`: `^\#(?:[0-9a-fA-F]{3}|[0-9a-fA-F]{6})\Z` -/
def isHexColor (v : Cps) : Bool :=
  match v with
  | c :: t => c = 0x23 && (t.length = 3 || t.length = 6) && t.all isHexDigit
  | [] => false

/-- red, green, blue, alpha -/
structure Rgba where
  r : Rat
  g : Rat
  b : Rat
  a : Rat
deriving DecidableEq, Repr, Inhabited

inductive ColorErr where
  | malformed          -- logged error, `wellformed = False`
  | valueError         -- `int('', 16)`
  | keyError
deriving DecidableEq, Repr, Inhabited

/-- `value.py:403-414`: `len(v) == 4` → `int(2 * v[i], 16)`, else `int(v[1:3], 16)` … -/
def hashChannels (v : Cps) : Except ColorErr Rgba :=
  match v with
  | [_, a, b, c] =>
    match hexPair? a a, hexPair? b b, hexPair? c c with
    | some r, some g, some bl => .ok { r := r, g := g, b := bl, a := 1 }
    | _, _, _ => .error .valueError
  | _ :: a :: b :: c :: d :: e :: f :: _ =>
    match hexPair? a b, hexPair? c d, hexPair? e f with
    | some r, some g, some bl => .ok { r := r, g := g, b := bl, a := 1 }
    | _, _, _ => .error .valueError
  | _ => .error .valueError        -- a slice shorter than two digits: `int('', 16)` / `int('c\n', 16)` …

/-! ## keywords -/

def lookupColor (name : Cps) : List (Cps × Nat × Nat × Nat × Nat × Nat) → Option Rgba
  | [] => none
  | (n, r, g, b, am, as) :: t =>
    if n = name then some { r := r, g := g, b := b, a := (am : Rat) / (10 : Rat) ^ as } else lookupColor name t

/-- `self.COLORS[normalize(v)]` -/
def keywordChannels (v : Cps) : Except ColorErr Rgba :=
  match lookupColor (normalize v) Gen.C18.colors with
  | some c => .ok c
  | none => .error .keyError

/-! ## colour functions -/

/-- tokens as the tokenizer delivers them (white space and comments are dropped by the engine before the
productions see them: S by `ProdParser.parse`, comments kept in `seq` but irrelevant for channels) -/
inductive CTok where
  | func (v : Cps) | num (v : Cps) | pct (v : Cps) | comma | rparen | s | comment | other
deriving DecidableEq, Repr, Inhabited

/-- items of `seq` after a successful parse -/
inductive CItem where
  | func (name : Cps)           -- `('FUNCTION', normalize(t[1]))`
  | comp (v : DimVal)           -- `(t[0], DimensionValue(...))`
  | comma | rparen
deriving DecidableEq, Repr, Inhabited

def skipS : List CTok → List CTok
  | .s :: t => skipS t
  | .comment :: t => skipS t
  | l => l

/-- `component`: `unary` (always ends malformed, see docs), `number`, `percentage` -/
def parseComp : List CTok → Option (CItem × List CTok)
  | .num v :: t => match parseDim .number v with
      | .ok d => some (.comp d, t)
      | .error _ => none
  | .pct v :: t => match parseDim .percentage v with
      | .ok d => some (.comp d, t)
      | .error _ => none
  | _ => none

/-- `Sequence(PreDef.comma(optional=True), component, minmax=lambda: (n, n))` -/
def parseMore : Nat → List CTok → Option (List CItem × List CTok)
  | 0, ts => some ([], ts)
  | n + 1, ts =>
    let ts := skipS ts
    let withComma : Bool := match ts with | .comma :: _ => true | _ => false
    let ts1 := if withComma then skipS (ts.drop 1) else ts
    match parseComp ts1 with
    | none => none
    | some (c, rest) =>
      match parseMore n rest with
      | none => none
      | some (l, rest') => some ((if withComma then [CItem.comma, c] else [c]) ++ l, rest')

/-- `noalp` / `witha` (`value.py:369-392`); the function name test is on `normalize(v)` -/
def parseColorFunc (ts : List CTok) : Option (List CItem) :=
  match skipS ts with
  | .func v :: t =>
    let name := normalize v
    let n : Option Nat :=
      if name = cps "rgb(" ∨ name = cps "hsl(" then some 2
      else if name = cps "rgba(" ∨ name = cps "hsla(" then some 3 else none
    match n with
    | none => none
    | some n =>
      match parseComp (skipS t) with
      | none => none
      | some (c, rest) =>
        match parseMore n rest with
        | none => none
        | some (l, rest') =>
          match skipS rest' with
          | .rparen :: _ => some (CItem.func name :: c :: l ++ [CItem.rparen])
          | _ => none
  | _ => none

/-- the exact value of `DimensionValue.value` -/
def DimVal.toRat (v : DimVal) : Rat :=
  (if v.sign = [cMinus] then -1 else 1) *
    ((natOfDigits v.ip : Rat) + (natOfDigits (v.fp.getD []) : Rat) / (10 : Rat) ^ (v.fp.getD []).length)

/-- `int(x)`: truncation toward zero -/
def truncRat (x : Rat) : Int := if x < 0 then -((-x).floor) else x.floor

/-- Python 3 `round(x)`: to nearest, ties to even -/
def roundHalfEven (x : Rat) : Int :=
  let f := x.floor
  let d := x - f
  if d < 1 / 2 then f else if d > 1 / 2 then f + 1 else if f % 2 = 0 then f else f + 1

/-- `255·channel` is exactly half-way between two integers (where float arithmetic may go either way) -/
def isTie (x : Rat) : Bool := x - x.floor = 1 / 2

/-- `colorsys._v` -/
def hlsV (m1 m2 hue : Rat) : Rat :=
  let hue := hue - hue.floor                         -- `hue % 1.0`
  if hue < 1 / 6 then m1 + (m2 - m1) * hue * 6
  else if hue < 1 / 2 then m2
  else if hue < 2 / 3 then m1 + (m2 - m1) * (2 / 3 - hue) * 6
  else m1

/-- `colorsys.hls_to_rgb(h, l, s)` -/
def hlsToRgb (h l s : Rat) : Rat × Rat × Rat :=
  if s = 0 then (l, l, l) else
  let m2 := if l ≤ 1 / 2 then l * (1 + s) else l + s - l * s
  let m1 := 2 * l - m2
  (hlsV m1 m2 (h + 1 / 3), hlsV m1 m2 h, hlsV m1 m2 (h - 1 / 3))

/-- the loop `for item in seq` (`value.py:420-442`): `raw` and `check` -/
def collectRaw (hsl : Bool) : List CItem → List Rat × Cps
  | [] => ([], [])
  | .comp v :: t =>
    let r := collectRaw hsl t
    if v.typ = .number then (v.toRat :: r.1, 0x4E :: r.2)                       -- 'N'
    else if v.typ = .percentage then
      ((if hsl then v.toRat / 100 else (truncRat (255 * v.toRat / 100) : Rat)) :: r.1, 0x50 :: r.2)   -- 'P'
    else r
  | _ :: t => collectRaw hsl t

def lookupChecks (name : Cps) : List (Cps × List Cps) → Option (List Cps)
  | [] => none
  | (n, l) :: t => if n = name then some l else lookupChecks name t

/-- `value.py:416-483` for `'FUNCTION' == t`. Second component: some `255·channel` of an `hsl` colour is a tie -/
def funcChannels (items : List CItem) : Except ColorErr (Rgba × Bool) :=
  match items with
  | .func name :: rest =>
    let hsl := name = cps "hsl(" ∨ name = cps "hsla("
    let rc := collectRaw hsl rest
    match lookupChecks name Gen.C18.colorChecks with
    | none => .error .keyError
    | some ok =>
      if !ok.contains rc.2 then .error .malformed else
      match rc.1 with
      | [x, y, z] =>
        if hsl then
          let c := hlsToRgb (x / 360) z y
          .ok ({ r := roundHalfEven (c.1 * 255), g := roundHalfEven (c.2.1 * 255), b := roundHalfEven (c.2.2 * 255),
                 a := 1 }, isTie (c.1 * 255) || isTie (c.2.1 * 255) || isTie (c.2.2 * 255))
        else .ok ({ r := x, g := y, b := z, a := 1 }, false)
      | [x, y, z, w] =>
        if hsl then
          let c := hlsToRgb (x / 360) z y
          .ok ({ r := roundHalfEven (c.1 * 255), g := roundHalfEven (c.2.1 * 255), b := roundHalfEven (c.2.2 * 255),
                 a := w }, isTie (c.1 * 255) || isTie (c.2.1 * 255) || isTie (c.2.2 * 255))
        else .ok ({ r := x, g := y, b := z, a := w }, false)
      | _ => .error .valueError                      -- tuple unpacking; excluded by the check table
  | _ => .error .keyError

/-! ## serializing a colour -/

/-- `do_css_CSSFunction` over the items (`serialize.py:1122-1133`) -/
def fmtItems (ops : NumOps) (p : Prefs) : List CItem → List Cps → Except Err (List Cps)
  | [], out => .ok out
  | .func name :: t, out => fmtItems ops p t (outAppend p out name false .function)
  | .comp v :: t, out =>
    match fmtNum ops p v with
    | .error e => .error e
    | .ok txt => fmtItems ops p t (outAppend p out txt true v.typ.toItem)
  | .comma :: t, out => fmtItems ops p t (outAppend p out (cps ",") false .char)
  | .rparen :: t, out => fmtItems ops p t (outAppend p out (cps ")") false .char)

def fmtColorFunc (ops : NumOps) (p : Prefs) (items : List CItem) : Except Err Cps :=
  match fmtItems ops p items [] with
  | .ok out => .ok (outValue out)
  | .error e => .error e

/-- HASH / IDENT colour: `do_css_Value(value)` appends `value.value`, which is itself
`do_css_CSSFunction(self, True)` over the one-item `seq` -/
def fmtColorSimple (p : Prefs) (t : ItemType) (v : Cps) : Cps :=
  outValue (outAppend p [] (outValue (outAppend p [] v false t)) false .other)


/-! ## `calc()` (`serialize.py:1135-1156` `do_css_CSSCalc`, `Out.append(..., alwaysS=True)`) -/

/-- the items of a `CSSCalc.seq`, nested `calc()` values flattened with brackets -/
inductive CalcTok where
  | func (v : Cps)                          -- `('FUNCTION', 'calc(')` (as written, not normalised)
  | operand (typ : NumType) (tokval : Cps)  -- `('DIMENSION', DimensionValue)`
  | op (v : Cps)                            -- `('CHAR', '+')` …
  | s                                       -- `('S', ' ')`: ignored by `Out.append` (`keepS=False`)
  | rparen
  | openNested | closeNested                -- `('CSSCalc', CSSCalc)`: its items follow between the two
deriving DecidableEq, Repr, Inhabited

/-- `out.append(val, 'CHAR', alwaysS=True)` for an operator (`serialize.py:252` skipped because of `alwaysS`,
`:271-281` APPEND incl. the `/` + `*` guard, `:284-285` POST: **always** one space, whatever `prefs.spacer` is) -/
def outAppendOperator (out : List Cps) (val : Cps) : List Cps :=
  outPush out val ++ [[0x20]]

/-- `do_css_CSSCalc` over the flattened items; `stack` holds the `Out` lists of the enclosing `calc()` values -/
def fmtCalcAux (ops : NumOps) (p : Prefs) : List CalcTok → List Cps → List (List Cps) → Except Err Cps
  | [], cur, [] => .ok (outValue cur)
  | [], _, _ :: _ => .error .protocol
  | .func v :: t, cur, st => fmtCalcAux ops p t (outAppend p cur v false .function) st
  | .operand typ tv :: t, cur, st =>
    match parseDim typ tv with
    | .error e => .error e
    | .ok d =>
      match fmtNum ops p d with
      | .error e => .error e
      -- `out.append(cssText, type_)`: the text, not the object
      | .ok txt => fmtCalcAux ops p t (outAppend p cur txt false .dimension) st
  | .op v :: t, cur, st =>
    -- `elif type_ == 'CHAR' and val in '-+*/'`
    if !v.isEmpty && isSubstr v (cps "-+*/") then fmtCalcAux ops p t (outAppendOperator cur v) st
    else fmtCalcAux ops p t (outAppend p cur v false .char) st
  | .s :: t, cur, st => fmtCalcAux ops p t cur st
  | .rparen :: t, cur, st => fmtCalcAux ops p t (outAppend p cur (cps ")") false .char) st
  | .openNested :: t, cur, st => fmtCalcAux ops p t [] (cur :: st)
  | .closeNested :: t, cur, st =>
    match st with
    | [] => .error .protocol
    | parent :: st' => fmtCalcAux ops p t (outAppend p parent (outValue cur) false .other) st'

def fmtCalc (ops : NumOps) (p : Prefs) (items : List CalcTok) : Except Err Cps := fmtCalcAux ops p items [] []

end CssVerif.Num
