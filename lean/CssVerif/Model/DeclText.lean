import CssVerif.Model.Decl
/-!
# K5, part 2 — `cssText` of the two block kinds as text, under every serializer preference the code reads

Transcription of `cssutils/serialize.py` (line numbers of /repo `cfe1126`):
* `do_Property` (`:1003-1049`) with `_propertyname` (`:369-378`), `_valid` (`:403-405`), `do_CSSComment` (`:434-441`);
* `do_css_CSSStyleDeclaration` (`:939-1001`) — list based, `separator=None`, `omit=True`;
* `do_css_CSSVariablesDeclaration` (`:902-937`) — built with `Out` (`:188-323`): `Out.append` is transcribed for the
  calls this method makes (a string, or a `CSSComment` with type `'COMMENT'`), `Out.value`, and the final strip that
  keeps an escaped blank.

Self-contained on purpose (no import of the C06 model `Model/Out.lean`, which is re-synchronised independently).
Outside this kernel and therefore parameters (`REnv`), never guessed:
* the text of a `PropertyValue` under the current preferences (`value.cssText`, kernels C06 / C18) — `REnv.vtext`
  (under the default preferences it is `Val.css`);
* `property.valid` (profiles, C13) — `REnv.valid`, read only when `validOnly` is set.
-/
namespace CssVerif.Decl
open CssVerif.Proto

/-- the preferences read by the three methods and by `Out.append` / `_indentblock` on their call paths
(`serialize.py:135-161`) -/
structure SPrefs where
  keepAllProperties : Bool := true
  keepComments : Bool := true
  omitLastSemicolon : Bool := true
  defaultPropertyName : Bool := true
  defaultPropertyPriority : Bool := true
  validOnly : Bool := false
  normalizedVarNames : Bool := true
  indentClosingBrace : Bool := true
  lineSeparator : Cps := [10]
  propertyNameSpacer : Cps := [32]
  spacer : Cps := [32]
  listItemSpacer : Cps := [32]
  paranthesisSpacer : Cps := [32]
  indent : Cps := [32, 32, 32, 32]
deriving DecidableEq, Repr

/-- `Preferences.useDefaults()` (`serialize.py:135-161`) -/
def SPrefs.default : SPrefs := {}

/-- `Preferences.useMinified()` (`serialize.py:163-186`) on the fields of `SPrefs` (the other fields keep their defaults) -/
def minifiedPrefs : SPrefs :=
  { indent := [], keepComments := false, lineSeparator := [], listItemSpacer := [], omitLastSemicolon := true,
    paranthesisSpacer := [], propertyNameSpacer := [], spacer := [], validOnly := false }

structure REnv where
  /-- `propertyValue.cssText` under the current preferences -/
  vtext : Val → Cps
  /-- `property.valid` -/
  valid : Pty → Bool

/-- default preferences: the value text is the stored `cssText` -/
def REnv.default : REnv := { vtext := fun v => v.css, valid := fun _ => true }

/-! ## `do_Property` -/

/-- `do_CSSComment` (`:434-441`): `rule._cssText` if it is non-empty and comments are kept, else `''` -/
def commentText (pf : SPrefs) (t : Cps) : Cps := if t != [] && pf.keepComments then t else []

/-- a part of the name sequence (`:1017-1023`): a comment by its `cssText`, the literal name through
`_propertyname`, anything else as it is -/
def namePartText (pf : SPrefs) (p : Pty) : Part → Cps
  | .comment v => commentText pf v
  | .str v =>
    if p.lit == v then (if pf.defaultPropertyName && !pf.keepAllProperties then p.name else v) else v

/-- a part of the priority sequence (`:1037-1047`) -/
def prioPartTextP (pf : SPrefs) (p : Pty) : Part → Cps
  | .comment v => commentText pf v
  | .str v => if v == p.litPrio && pf.defaultPropertyPriority then p.prio else v

/-- `do_Property(property)` for a property of a style declaration (`_mediaQuery` is false) -/
def propTextP (pf : SPrefs) (re : REnv) (p : Pty) : Cps :=
  if p.nameSeq != [] && p.wf && (!pf.validOnly || (pf.validOnly && re.valid p)) then
    let out0 : List Cps := p.nameSeq.map (namePartText pf p)
    let out1 := if out0 != [] then out0 ++ [[58], pf.propertyNameSpacer] else out0
    let out2 := out1 ++ [re.vtext p.val]
    let out3 := if out2 != [] && p.prioSeq != [] then out2 ++ [[32]] ++ p.prioSeq.map (prioPartTextP pf p) else out2
    out3.flatten
  else []

/-! ## `do_css_CSSStyleDeclaration` -/

/-- the filter of `:952-966` with the index of every item: an item that is not a `Property` stays; a `Property`
stays when the object is among `style.getProperties()` (object identity = index in `seq`) -/
def keepIdx (eff : List (Option Nat)) : List Item → Nat → List Item
  | [], _ => []
  | .prop p :: rest, i =>
    if eff.contains (some i) then .prop p :: keepIdx eff rest (i + 1) else keepIdx eff rest (i + 1)
  | it :: rest, i => it :: keepIdx eff rest (i + 1)

/-- `seq` as the loop sees it (`:952-966`) -/
def declSeqP (pf : SPrefs) (seq : List Item) : List Item :=
  if pf.keepAllProperties then seq else keepIdx (getPropertiesIdx seq [] false) seq 0

/-- what one item appends to `out` (`:971-993`); `n` is `len(seq)` of the filtered list, `i` the index in it,
`om` is `omitLastSemicolon` -/
def itemOutP (pf : SPrefs) (re : REnv) (sep : Cps) (om : Bool) (n i : Nat) : Item → List Cps
  | .comment t => if pf.keepComments then [commentText pf t, sep] else []
  | .prop p =>
    if propTextP pf re p != [] then
      [propTextP pf re p] ++ (if om && i == n - 1 then [] else [[59]]) ++ [sep]
    else []
  | .other t => if t != [] then [t, sep] else []

def outPiecesP (pf : SPrefs) (re : REnv) (sep : Cps) (om : Bool) (n : Nat) : List Item → Nat → List Cps
  | [], _ => []
  | it :: rest, i => itemOutP pf re sep om n i it ++ outPiecesP pf re sep om n rest (i + 1)

/-- `do_css_CSSStyleDeclaration(style, separator, omit)`; `separator=None` is `prefs.lineSeparator` -/
def cssTextSep (pf : SPrefs) (re : REnv) (sep : Cps) (omitArg : Bool) (seq : List Item) : Cps :=
  if seq.length > 0 then
    let sq := declSeqP pf seq
    let out := outPiecesP pf re sep (omitArg && pf.omitLastSemicolon) sq.length sq 0
    let out := if out != [] && out.getLast? == some sep then out.dropLast else out
    out.flatten
  else []

/-- `style.cssText` (`cssstyledeclaration.py:300-302`) -/
def cssTextP (pf : SPrefs) (re : REnv) (seq : List Item) : Cps :=
  cssTextSep pf re pf.lineSeparator true seq

/-! ## Python string helpers used by `Out` -/

/-- `str.isspace` on one code point (what `str.strip()` removes) -/
def isWs (c : Nat) : Bool :=
  (9 ≤ c && c ≤ 13) || (28 ≤ c && c ≤ 32) || c == 133 || c == 160 || c == 5760 || (8192 ≤ c && c ≤ 8202)
    || c == 8232 || c == 8233 || c == 8239 || c == 8287 || c == 12288

/-- `not s.strip()` -/
def allWs (s : Cps) : Bool := s.all isWs
/-- the text with every white-space character deleted (used by the theorems only) -/
def stripWs (s : Cps) : Cps := s.filter (fun c => !isWs c)
def lstrip (s : Cps) : Cps := s.dropWhile isWs
def rstrip (s : Cps) : Cps := (s.reverse.dropWhile isWs).reverse
/-- `len(s) - len(s.rstrip('\\'))` -/
def trailingBackslashes (s : Cps) : Nat := (s.reverse.takeWhile (· == 92)).length
/-- `s.endswith(' ')` -/
def endsSp (s : Cps) : Bool := s.getLast? == some 32
/-- `s.endswith('\\ ')` -/
def endsEscSp : Cps → Bool
  | [] => false
  | [_] => false
  | [a, b] => a == 92 && b == 32
  | _ :: t => endsEscSp t
/-- Python `a in b` for strings -/
def isInfix (a : Cps) : Cps → Bool
  | [] => a.isEmpty
  | c :: t => a.isPrefixOf (c :: t) || isInfix a t

/-- `s.split(sep)` for a non-empty `sep` -/
def splitGo (sep : Cps) : Cps → Nat → Cps → List Cps
  | [], _, cur => [cur.reverse]
  | _ :: t, skip + 1, cur => splitGo sep t skip cur
  | c :: t, 0, cur =>
    if sep.isPrefixOf (c :: t) then cur.reverse :: splitGo sep t (sep.length - 1) []
    else splitGo sep t 0 (c :: cur)
def splitOn (sep s : Cps) : List Cps := splitGo sep s 0 []
/-- `sep.join(parts)` -/
def joinWith (sep : Cps) : List Cps → Cps
  | [] => []
  | [x] => x
  | x :: y :: t => x ++ sep ++ joinWith sep (y :: t)
def rep (n : Nat) (s : Cps) : Cps := (List.replicate n s).flatten

/-- `_indentblock(text, level)` (`:357-367`) -/
def indentblock (pf : SPrefs) (text : Cps) (level : Nat) : Cps :=
  if pf.lineSeparator.isEmpty then text
  else joinWith pf.lineSeparator ((splitOn pf.lineSeparator text).map fun l => rep level pf.indent ++ l)

/-! ## `Out` (`serialize.py:188-323`), for the calls `do_css_CSSVariablesDeclaration` makes

`Out.out` is kept reversed: the head is `out[-1]`. -/

abbrev OutL := List Cps

/-- `_remove_last_if_S` (`:195-198`) -/
def removeLastIfS : OutL → OutL
  | [] => []
  | x :: r => if allWs x then r else x :: r

/-- `self.out.insert(-1, s)` -/
def insertBeforeLast (o : OutL) (s : Cps) : OutL :=
  match o with
  | [] => [s]
  | x :: r => x :: s :: r

def punctPre : Cps := cps "+>~,:{;)]/=}"
def combChars : Cps := cps "+>~"
def noSpaceChars : Cps := cps "}[]()/="

/-- `Out.append(val, type_)` (`:200-315`) for a string `val` and a type that is `None` or — with `isComment` — a
`CSSComment` passed with type `'COMMENT'`, whose `cssText` under the current preferences is `val`; all keyword
arguments at their defaults (`space=True, keepS=False, indent=False, alwaysS=False`); `il` is `ser._level + 1`.
A type other than `None` / `'COMMENT'` is one of `CSSVariablesDeclaration`'s item types, none of which `append`
distinguishes (`:229-249`, `:287`, `:305-310`). -/
def outAppend (pf : SPrefs) (il : Nat) (o : OutL) (val : Cps) (isComment : Bool) : OutL :=
  -- `if val or type_ in ('STRING', 'URI')` (:227); a `CSSComment` object is truthy
  if !isComment && val == [] then o
  -- PRE (:229-257)
  else if isComment && !pf.keepComments then o
  else
    let o1 := if !isComment && isInfix val punctPre then removeLastIfS o else o
    -- APPEND (:268-281)
    let o2 :=
      if val == [125] && pf.indentClosingBrace then indentblock pf val il :: o1
      else
        let o1a := if endsSp val && !endsEscSp val then removeLastIfS o1 else o1
        let o1b := match o1a with
          | [] => o1a
          | last :: _ =>
            if (([42] : Cps).isPrefixOf val && last == [47]) ||
               (val == [61] && (last == [42] || last == [126] || last == [124] || last == [94] || last == [36]))
            then [32] :: o1a else o1a
        val :: o1b
    -- POST (:284-315)
    if isInfix val combChars then [32] :: insertBeforeLast o2 [32]
    else if val == [41] then [32] :: o2
    else if val == [44] then pf.listItemSpacer :: o2
    else if val == [58] then pf.propertyNameSpacer :: o2
    else if val == [123] then pf.lineSeparator :: insertBeforeLast o2 pf.paranthesisSpacer
    else if val == [59] then pf.lineSeparator :: o2
    else if !isInfix val noSpaceChars then
      let o3 := pf.spacer :: o2
      if pf.spacer.isEmpty && !(match o3 with | [] => true | x :: _ => endsSp x) then [32] :: o3 else o3
    else o2

/-- `Out.value()` (`:317-323`), defaults -/
def outValue (o : OutL) : Cps := (removeLastIfS o).reverse.flatten

/-- end of `do_css_CSSVariablesDeclaration` (`:928-934`): strip both ends, but when what is left ends in an odd run
of backslashes and something was stripped behind it, the first stripped character is put back -/
def stripKeepEsc (s : Cps) : Cps :=
  let text := lstrip s
  let stripped := rstrip text
  if trailingBackslashes stripped % 2 == 1 && stripped.length < text.length then
    stripped ++ (text.drop stripped.length).take 1
  else stripped

/-- the name as written (`:911-914`) -/
def varNameText (pf : SPrefs) (n : Cps) : Cps := if pf.normalizedVarNames then normalize n else n

/-- the loop of `do_css_CSSVariablesDeclaration` (`:908-926`) for one item; `isLast` is `i == lastitem` -/
def vItemOut (pf : SPrefs) (re : REnv) (il : Nat) (isLast : Bool) (o : OutL) : VItem → OutL
  | .var n v =>
    let o := outAppend pf il o (varNameText pf n) false
    let o := outAppend pf il o [58] false
    let o := outAppend pf il o (re.vtext v) false
    if !isLast || !pf.omitLastSemicolon then outAppend pf il o [59] false else o
  | .other t =>
    -- a `CSSComment` (`:920-923`); `t` is its source text
    let o := outAppend pf il o (commentText pf t) true
    outAppend pf il o pf.lineSeparator false

def vOutLoop (pf : SPrefs) (re : REnv) (il : Nat) : List VItem → OutL → OutL
  | [], o => o
  | it :: rest, o => vOutLoop pf re il rest (vItemOut pf re il rest.isEmpty o it)

/-- `do_css_CSSVariablesDeclaration(variables)`; `il` = `ser._level + 1` (1 for a block serialised on its own) -/
def vCssTextP (pf : SPrefs) (re : REnv) (il : Nat) (s : Vars) : Cps :=
  if s.seq.length > 0 then stripKeepEsc (outValue (vOutLoop pf re il s.seq []))
  else []

/-! ## the items a written block consists of (what the block parser splits the text into) -/

/-- the name of a declaration as written (the text before the colon) -/
def nameText (pf : SPrefs) (p : Pty) : Cps := (p.nameSeq.map (namePartText pf p)).flatten
/-- the priority as written (the text from `!` on) -/
def prioText (pf : SPrefs) (p : Pty) : Cps := (p.prioSeq.map (prioPartTextP pf p)).flatten
/-- the text between the colon and the priority / the end of the declaration -/
def valueField (pf : SPrefs) (re : REnv) (p : Pty) : Cps :=
  pf.propertyNameSpacer ++ re.vtext p.val ++ (if p.prioSeq != [] then [32] else [])

/-- the source items (as the block parser splits the text) of one written item -/
def srcOfItem (pf : SPrefs) (re : REnv) : Item → List SrcItem
  | .comment t => if pf.keepComments then [.comment (commentText pf t)] else []
  | .prop p =>
    if propTextP pf re p != [] then [.decl (nameText pf p) (valueField pf re p) (prioText pf p)] else []
  | .other _ => []

def srcOf (pf : SPrefs) (re : REnv) (l : List Item) : List SrcItem := l.flatMap (srcOfItem pf re)

/-- the items of a variables block as they are written: names as `varNameText` writes them, comments only when kept -/
def vWritten (pf : SPrefs) : List VItem → List VItem
  | [] => []
  | .var n v :: r => .var (varNameText pf n) v :: vWritten pf r
  | .other t :: r => if pf.keepComments then .other (commentText pf t) :: vWritten pf r else vWritten pf r

/-- the item sequence the grammar returns for the written block: IDENT and value per variable, comments -/
def vSrcOf : List VItem → List VSrc
  | [] => []
  | .var n v :: r => .ident n :: .value v :: vSrcOf r
  | .other t :: r => .other t :: vSrcOf r

end CssVerif.Decl
