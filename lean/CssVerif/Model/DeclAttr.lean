import CssVerif.Model.Decl
import CssVerif.Gen.C10Names
/-!
# K5, part 3 — attribute-style access by DOM (camel-case) name (`cssutils/css/cssproperties.py:117-148`,
# `cssstyledeclaration.py:171-201`, `:243-291`)

The name table is the regenerated `Gen.C10.propertyNames`; the two converters are those of `Model/Decl.lean`.
-/
namespace CssVerif.Decl
open CssVerif.Proto

/-- the generated camel-case properties (`cssproperties.py:117-148`): for every known name, in the order of
`CSS2Properties._properties`, the attribute `_toDOMname(name)` whose accessors close over `_toCSSname(DOMname)` -/
def attrTable : List (Cps × Cps) := CssVerif.Gen.C10.propertyNames.map (fun n => (toDOM n, toCSS (toDOM n)))

/-- the CSS name the accessors of the attribute `dom` use (`setattr` on the class: the last definition of an attribute
wins); `none` = no such generated attribute (`AttributeError`, also from `__setattr__`, `cssstyledeclaration.py:171-201`) -/
def attrCss (dom : Cps) : Option Cps :=
  match attrTable.reverse.find? (fun e => e.1 == dom) with
  | some e => some e.2
  | none => none

/-- `style.<dom>` → `_getP(CSSname)` → `getPropertyValue(CSSname)` (`:243-255`) -/
def attrGet (seq : List Item) (dom : Cps) : Option Cps := (attrCss dom).map (fun css => getPropertyValue seq css true)
/-- `style.<dom> = value` → `_setP(CSSname, value)` → `setProperty(CSSname, value)` (`:257-277`) -/
def attrSet (env : Env) (d : Decl) (dom : Cps) (value : Option Cps) : Option (Res (Option Cps)) :=
  (attrCss dom).map (fun css => setProperty env d css value [] true true)
/-- `del style.<dom>` → `_delP(CSSname)` → `removeProperty(CSSname)` (`:279-291`) -/
def attrDel (d : Decl) (dom : Cps) : Option (Res Cps) := (attrCss dom).map (fun css => removeProperty d css true)

end CssVerif.Decl
