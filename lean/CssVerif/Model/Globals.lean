import CssVerif.Model.GlobalsProd
/-!
# K7 (global part): the process-wide state of cssutils and everything that writes it

`G` = error mode (`cssutils.log.raiseExceptions`, errorhandler.py:59), the two queues of the production
engine (`GProd.PG`), the global serializer object `cssutils.ser` with its preferences and the two fields the
EXPERIMENTAL `indentSpecificities` code keeps between calls (serialize.py:336-337, 770-787), and the names of
the registered validation profiles (`cssutils.profile.profiles`).

Writers, as found by the source scan of tools/harness/c12_sites.py (regenerated into `Gen/C12Sites.lean`):
* `CSSParser.__parseSetting` (parse.py:69-81) — set the parser's mode, restore in `finally`;
* `ProdParser` (prodparser.py:371, 509, 577, 589, 627) — modelled in `GlobalsProd.lean`;
* `script.csscombine` (script.py:365-371) — swap `cssutils.ser`, serialise, swap back (no `finally`);
* `CSSSerializer.do_CSSStyleRule` (serialize.py:770-787) — `_selectors`, `_selectorlevel`;
* the explicit setters a user calls (`log.raiseExceptions = …`, `ser.prefs.x = …`, `setSerializer`, `profile.add/removeProfile`).
Nothing in the library writes the profile registry or the preferences of the current serializer.

A *step* is anything that can happen in the process: an explicit setter, a library entry point with the script
of what its body does (log calls, @import fetches with what the user's fetcher does meanwhile, production
parser call trees), or — inside such a script — one of those body events. Faults are outcomes: undecodable
bytes (`Input.bytesBad`), a missing file, a raising fetcher, a DOM exception from a `log` call in raising mode.
-/
namespace CssVerif.Globals
open CssVerif.GProd

/-- what `do_CSSStyleRule` looks at: `{s.element for s in rule.selectorList}` and `[s.specificity …]` -/
structure SelRec where
  elements : List Nat
  specs : List (List Nat)
  deriving DecidableEq, Repr, Inhabited

structure Ser where
  /-- object identity -/
  id : Nat
  /-- value (index) of every preference except `indentSpecificities` -/
  prefs : List Nat
  indentSpec : Bool
  deriving DecidableEq, Repr, Inhabited

/-- a `CSSParser` object: nothing in it changes after `__init__` / `setFetcher` (parse.py:58-66) -/
structure Parser where
  /-- `self.__parseRaising` -/
  raising : Bool
  /-- `self._validate`: the fallback of the per-call `validate` argument -/
  validate : Bool
  deriving DecidableEq, Repr, Inhabited

structure G extends PG where
  ser : Ser
  /-- next fresh serializer identity -/
  nextSer : Nat
  profiles : List Nat
  /-- the `CSSParser` objects that are alive in the process (no library call writes one) -/
  parsers : List Parser
  deriving DecidableEq, Repr, Inhabited

inductive Err
  | dom            -- xml.dom.DOMException subclass raised by a log call (errorhandler.py:95-103)
  | decode         -- UnicodeDecodeError (a ValueError)
  | os             -- FileNotFoundError / OSError
  | user (swallowed : Bool)   -- raised by the user's fetcher; `swallowed` = it is an OSError or ValueError
  deriving DecidableEq, Repr, Inhabited

/-- caught by `except (OSError, ValueError, xml.dom.DOMException)` in `CSSImportRule._loadHref`
(cssimportrule.py:345; DOM exceptions since fix 681bde0) -/
def Err.swallowedByImport : Err → Bool
  | .dom => true
  | .decode => true
  | .os => true
  | .user s => s

inductive FetchRes
  | content                  -- `(encoding, text)`
  | nothing                  -- `None` / `(enc, None)` / undecodable content (util.py:957-969: logged with neverraise)
  | raises (e : Err)
  deriving DecidableEq, Repr, Inhabited

inductive Input | str | bytesOk | bytesBad
  deriving DecidableEq, Repr, Inhabited

/-- `CSSParser(raiseExceptions=x, validate=v)`: `if raiseExceptions: … = raiseExceptions else: … = False`
(parse.py:58-62), `self._validate = validate` (:67) -/
def Parser.new (raiseExceptions : Option Bool) (validate : Bool := true) : Parser :=
  ⟨raiseExceptions.getD false, validate⟩

/-- which parser a call is made on: an object that lives on in the process, or one that is created for this call
only (`cssutils.parseString(…)` = `CSSParser().parseString(…)`, __init__.py:163-168; csscombine's parser) -/
inductive PRef
  | obj (i : Nat)
  | fresh (p : Parser)
  deriving DecidableEq, Repr, Inhabited

def G.parser (g : G) : PRef → Parser
  | .obj i => g.parsers[i]?.getD ⟨false, true⟩
  | .fresh p => p

inductive Step
  /-- `cssutils.log.<level>(msg, neverraise=never)`: raises iff raising mode and not `never` -/
  | log (never : Bool)
  /-- an @import while a sheet is parsed: the fetcher runs (`inner` = library calls the user's fetcher makes),
  answers `res`; with content the imported sheet is parsed (`sub`) (cssimportrule.py:273-345) -/
  | imp (inner : List Step) (res : FetchRes) (sub : List Step)
  /-- `Owner(tokens)` with a production parser: grammar `env[k]` on the given token source -/
  | pp (k : Nat) (src : Stream)
  | setMode (b : Bool)                      -- cssutils.log.raiseExceptions = b
  | setPref (i v : Nat)                     -- cssutils.ser.prefs.<i> = v
  | setIndent (b : Bool)                    -- cssutils.ser.prefs.indentSpecificities = b
  | newSer                                  -- cssutils.setSerializer(CSSSerializer())
  | setProfiles (l : List Nat)              -- add/removeProfile with the resulting list of names
  | newParser (p : Parser)                  -- a `CSSParser(…)` object the user keeps
  /-- the four entry points; `v` is the per-call `validate` argument (`none` = not given: the parser's own) -/
  | parseString (p : PRef) (v : Option Bool) (inp : Input) (body : List Step)
  | parseStyle (p : PRef) (v : Option Bool) (inp : Input) (body : List Step)
  | parseFile (p : PRef) (v : Option Bool) (found : Bool) (inp : Input) (body : List Step)
  | parseUrl (p : PRef) (v : Option Bool) (inner : List Step) (res : FetchRes) (inp : Input) (body : List Step)
  /-- any DOM call outside a parser (constructor with text, `cssText = …`, `insertRule` …): its body runs in the
  global mode -/
  | direct (body : List Step)
  /-- `script.csscombine`: `src` is the parse by a fresh `CSSParser`, `post` = resolveImports + `result.encoding = …`,
  `serBody` = what happens during `result.cssText` -/
  | combine (src : Step) (post : List Step) (serBody : List Step)
  /-- `sheet.cssText` of a sheet with these style rules -/
  | serialize (rules : List SelRec)
  deriving Repr, Inhabited

/-- what a caller or a callback can observe -/
inductive Obs
  | seen (mode : Bool)             -- the error mode a fetcher sees
  | levels (l : List Nat)          -- indentation level of each serialised style rule
  | pp (o : Out)                   -- result of a production parser call
  | none                           -- an entry point returned None (parseUrl without content)
  | validating (b : Bool)          -- the `validating` flag of the sheet / declaration an entry point returned
  deriving Repr, DecidableEq

structure R where
  res : Except Err Unit
  g : G
  obs : List Obs

/-! ## serializer memo (serialize.py:770-787) -/

def lexLt : List Nat → List Nat → Bool
  | [], [] => false
  | [], _ :: _ => true
  | _ :: _, [] => false
  | x :: xs, y :: ys => if x < y then true else if y < x then false else lexLt xs ys

/-- Python's `<` on lists of tuples -/
def lexLtL : List (List Nat) → List (List Nat) → Bool
  | [], [] => false
  | [], _ :: _ => true
  | _ :: _, [] => false
  | x :: xs, y :: ys => if lexLt x y then true else if lexLt y x then false else lexLtL xs ys

def subset (a b : List Nat) : Bool := a.all b.contains

/-- the `for selector in self._selectors: … else: …` loop -/
def memoScan (r : SelRec) (all : List SelRec) : List SelRec → Nat → List SelRec × Nat
  | [], _ => (all ++ [r], 0)                                                 -- :785-787
  | sel :: rest, lvl =>
    if subset r.elements sel.elements then                                   -- :776
      if lexLtL sel.specs r.specs then (all, lvl + 1)                        -- :779-781 `break`
      else memoScan r all rest lvl
    else if lvl > 0 then memoScan r all rest (lvl - 1)                       -- :782-783
    else memoScan r all rest lvl

/-- one `do_CSSStyleRule` while a sheet is serialised: the list of selector lists seen so far in THIS sheet and
the level; the rule is indented by the new level (:815) -/
def memoStep (indent : Bool) (m : List SelRec × Nat) (r : SelRec) : List SelRec × Nat :=
  if indent then memoScan r m.1 m.1 m.2 else m

/-- `do_CSSStyleSheet` (after the fix "indentSpecificities relates the rules of one sheet only"): starts from an
empty list and level 0 and puts the outer values back when it is done, so nothing of the serializer changes;
result: the indentation level of every style rule of the sheet -/
def sheetLevels (indent : Bool) : List SelRec × Nat → List SelRec → List Nat
  | _, [] => []
  | m, r :: rs => (memoStep indent m r).2 :: sheetLevels indent (memoStep indent m r) rs

/-! ## the interpreter -/

/-- the preferences of a fresh `CSSSerializer()` (placeholder: their values are C06's subject) -/
def freshPrefs : List Nat := []

def setAt (l : List Nat) (i v : Nat) : List Nat :=
  if i < l.length then l.set i v else l ++ List.replicate (i - l.length) 0 ++ [v]

/-- `log.<level>(…)` (errorhandler.py:95-105) -/
def doLog (never : Bool) (g : G) : R :=
  if g.raising && !never then ⟨.error .dom, g, []⟩ else ⟨.ok (), g, []⟩

/-- `with self.__parseSetting():` (parse.py:69-81) around `body` -/
def withParseSetting (p : Parser) (body : G → R) (g : G) : R :=
  let globalRaising := g.raising                                            -- :76
  let r := body { g with raising := p.raising }                            -- :77-79
  { r with g := { r.g with raising := globalRaising } }                     -- :80-81 finally

def decode (inp : Input) (g : G) (k : G → R) : R :=
  match inp with
  | .bytesBad => ⟨.error .decode, g, []⟩
  | _ => k g

def seqR (a : R) (k : G → R) : R :=
  match a.res with
  | .error e => ⟨.error e, a.g, a.obs⟩
  | .ok _ => let b := k a.g; ⟨b.res, b.g, a.obs ++ b.obs⟩

/-- the `except` clause of `_loadHref` (cssimportrule.py:345-352: `log.warn(…, neverraise=True)`) and the
`else:` that sets `hrefFound`; second component = `hrefFound` -/
def importLoad (r : R) : R × Bool :=
  match r.res with
  | .error e => if e.swallowedByImport then (⟨.ok (), r.g, r.obs⟩, false) else (r, false)
  | .ok _ => (r, true)

/-- an @import rule of a sheet that is being parsed: `_loadHref` when the rule's text is set
(cssimportrule.py:265,280). When `insertRule` gives the rule its parent sheet (cssstylesheet.py:941-944) the URL that
was tried and could not be read is not fetched a second time (`_loadHref(…, retry=False)`, `_hrefTried`; since "inserting
an @import rule whose sheet could not be read does not fetch the same URL a second time") -/
def importOnce (attempt : G → R) (g : G) : R := (importLoad (attempt g)).1

section
variable (env : Env) (fuel : Nat)

mutual
def runStep : Step → G → R
  | .log never, g => doLog never g
  | .imp inner res sub, g =>
    -- cssimportrule.py:309-352: everything is inside `try … except (OSError, ValueError, DOMException)`
    importOnce (fun g =>
      seqR ⟨.ok (), g, [.seen g.raising]⟩ fun g =>          -- the fetcher is called (util.py:925)
      seqR (runSteps inner g) fun g =>                       -- whatever it does with the library
      match res with
      | .raises e => ⟨.error e, g, []⟩
      | .nothing => ⟨.error .os, g, []⟩                      -- `raise OSError('Cannot read Stylesheet.')` (:326-328)
      | .content => runSteps sub g) g                        -- :340-343 the imported sheet is parsed
  | .pp k src, g =>
    let r := ctor env fuel k src g.toPG
    let g := { g with toPG := r.g }
    match r.out with
    | .raised => ⟨.error .dom, g, [.pp .raised]⟩
    | o => ⟨.ok (), g, [.pp o]⟩
  | .setMode b, g => ⟨.ok (), { g with raising := b }, []⟩
  | .setPref i v, g => ⟨.ok (), { g with ser := { g.ser with prefs := setAt g.ser.prefs i v } }, []⟩
  | .setIndent b, g => ⟨.ok (), { g with ser := { g.ser with indentSpec := b } }, []⟩
  | .newSer, g =>
    ⟨.ok (), { g with ser := ⟨g.nextSer, freshPrefs, false⟩, nextSer := g.nextSer + 1 }, []⟩
  | .setProfiles l, g => ⟨.ok (), { g with profiles := l }, []⟩
  | .newParser p, g => ⟨.ok (), { g with parsers := g.parsers ++ [p] }, []⟩
  -- in all four: `if validate is None: validate = self._validate` (parse.py:101-102,139-140) — a local variable
  | .parseString p v inp body, g =>                          -- parse.py:107-171 (`parseString` → `__parseString`)
    withParseSetting (g.parser p) (fun g1 => decode inp g1 fun g1 =>
      seqR (runSteps body g1) fun g2 => ⟨.ok (), g2, [.validating (v.getD (g.parser p).validate)]⟩) g
  | .parseStyle p v inp body, g =>                           -- parse.py:97-103
    withParseSetting (g.parser p) (fun g1 => decode inp g1 fun g1 =>
      seqR (runSteps body g1) fun g2 => ⟨.ok (), g2, [.validating (v.getD (g.parser p).validate)]⟩) g
  | .parseFile p v found inp body, g =>                      -- parse.py:178-195
    if !found then ⟨.error .os, g, []⟩                       -- :183 open(filename, 'rb') outside the `with`
    else withParseSetting (g.parser p) (fun g1 => decode inp g1 fun g1 =>
      seqR (runSteps body g1) fun g2 => ⟨.ok (), g2, [.validating (v.getD (g.parser p).validate)]⟩) g
  | .parseUrl p v inner res inp body, g =>                   -- parse.py:209-239 (→ `__parseString`)
    -- `_readUrl` runs BEFORE `__parseSetting`: the fetcher sees the global mode and its exceptions propagate
    seqR ⟨.ok (), g, [.seen g.raising]⟩ fun g =>
    seqR (runSteps inner g) fun g =>
    match res with
    | .raises e => ⟨.error e, g, []⟩
    | .nothing => ⟨.ok (), g, [.none]⟩                       -- :219 `if text is not None` fails: returns None
    | .content => withParseSetting (g.parser p) (fun g1 => decode inp g1 fun g1 =>
        seqR (runSteps body g1) fun g2 => ⟨.ok (), g2, [.validating (v.getD (g.parser p).validate)]⟩) g
  | .direct body, g => runSteps body g
  | .combine src post serBody, g =>                          -- script.py:346-373
    seqR (runStep src g) fun g =>                            -- :353-360 (exceptions leave before the swap)
    seqR (runSteps post g) fun g =>                          -- :362-363 resolveImports, `result.encoding = …`
    let oldser := g.ser                                      -- :365
    let g1 := { g with ser := ⟨g.nextSer, freshPrefs, false⟩, nextSer := g.nextSer + 1 }   -- :366-369
    seqR (runSteps serBody g1) fun g2 =>                     -- :370 result.cssText
    ⟨.ok (), { g2 with ser := oldser }, []⟩                  -- :371 (not reached when :370 raises)
  | .serialize rules, g =>
    ⟨.ok (), g, [.levels (sheetLevels g.ser.indentSpec ([], 0) rules)]⟩
def runSteps : List Step → G → R
  | [], g => ⟨.ok (), g, []⟩
  | s :: ss, g => seqR (runStep s g) fun g => runSteps ss g
end

end

end CssVerif.Globals
