import CssVerif.Lib.Proto
/-!
# K7 `Ns` (+ the namespace-resolution part of K3) — model of the namespace machinery of cssutils

Hand transcription of

* `cssutils/util.py` `_Namespaces` (`namespaces` property, `__getitem__`, `__setitem__`, `__delitem__`,
  `__findrule`, `prefixForNamespaceURI`) and `_SimpleNamespaces` (a plain dict, used while parsing),
* `cssutils/css/cssstylesheet.py` `_cleanNamespaces`, `_getUsedURIs`, `deleteRule`, the `@namespace` and
  "all other" branches of `insertRule`, the `namespacerule` / `ruleset` / … callbacks of `_setCssText`,
* `cssutils/css/cssnamespacerule.py` `_setNamespaceURI`, `_replaceNamespaceURI`, `_setPrefix`, the `seq`,
* `cssutils/css/selector.py` `New.append` (prefix → URI while a selector is parsed) and `_getUsedUris`,
* `cssutils/serialize.py` `do_css_Selector` (URI → current prefix).

A selector is modelled at the level at which namespaces enter: its *surface* form is a list of items, each
either a qualified name (type selector, universal, attribute name, type selector inside `:not(`) with one of
the four prefix forms `name`, `*|name`, `|name`, `p|name`, or something else that is carried through verbatim.
Tokenising and the selector grammar are not part of this kernel (K3/C16).
Strings are lists of code points. Python objects have identity; in this model a rule is addressed by its index.
DOM calls run in the raising mode (`cssutils.log.raiseExceptions = True`, the default): the first `log.error`
aborts the call; `parse` (= `cssutils.parseString`) runs in the logging mode.
-/
namespace CssVerif.Ns
open CssVerif.Proto

/-- the `xml.dom` exception classes that the modelled calls can raise; `badTarget` is not an exception of the
code but the model's answer to a request outside its domain (e.g. `setPrefix` on a rule that is not @namespace) -/
inductive Err
  | namespaceErr | noModificationAllowedErr | syntaxErr | indexSizeErr | hierarchyRequestErr | badTarget
  deriving DecidableEq, Repr

/-- first component of a resolved name: `None`, `cssutils._ANYNS` (-1), or a URI string (`''` = no namespace) -/
inductive NsVal
  | none | any | uri (u : Cps)
  deriving DecidableEq, Repr

/-- which of the item types of `New.append` carry a `(namespaceURI, name)` tuple -/
inductive QKind
  | typeSel | universal | attrSel | negType
  deriving DecidableEq, Repr

/-- an item of `Selector.seq` as far as namespaces are concerned -/
inductive Item
  /-- value is the tuple `(ns, name)` -/
  | q (k : QKind) (ns : NsVal) (name : Cps)
  /-- `'attribute-selector'` whose value is the bare string `name` (no prefix, or the empty prefix) -/
  | bareAttr (name : Cps)
  /-- any other item: `val` is `item.value`, `ser` is what the serializer writes for it -/
  | other (val ser : Cps)
  deriving DecidableEq, Repr

abbrev Sel := List Item

/-- the four ways a name can be written -/
inductive PfxSpec
  | noPfx | anyPfx | emptyPfx | named (p : Cps)
  deriving DecidableEq, Repr

/-- surface item (what the selector text says); `bad` stands for a character the selector grammar rejects -/
inductive SItem
  | q (k : QKind) (ps : PfxSpec) (name : Cps)
  | other (val ser : Cps)
  | bad
  deriving DecidableEq, Repr

abbrev SSel := List SItem

/-! ## Python `dict` with insertion order -/

abbrev Dict := List (Cps × Cps)

/-- `d.get(k)` -/
def Dict.get : Dict → Cps → Option Cps
  | [], _ => none
  | (k', v) :: t, k => if k' = k then some v else Dict.get t k

/-- `d[k] = v`: an existing key keeps its position -/
def Dict.set : Dict → Cps → Cps → Dict
  | [], k, v => [(k, v)]
  | (k', v') :: t, k, v => if k' = k then (k', v) :: t else (k', v') :: Dict.set t k v

def Dict.keys (d : Dict) : List Cps := d.map (·.1)
def Dict.values (d : Dict) : List Cps := d.map (·.2)

/-- `_Namespaces.prefixForNamespaceURI` (`util.py:840-847`): first key whose value is `u` (`none` = IndexError) -/
def Dict.prefixFor : Dict → Cps → Option Cps
  | [], _ => none
  | (k, v) :: t, u => if v = u then some k else Dict.prefixFor t u

/-! ## resolution of prefixes while a selector is parsed (`selector.py:68-147`, `New.append`) -/

def star : Cps := [0x2A]
def bar : Cps := [0x7C]

/-- `namespaces` is a `_Namespaces` (attached; `d` = its `namespaces` property) or a `_SimpleNamespaces`; both
answer `get('', None)` and `[prefix]` from the dict; an unknown prefix is `NamespaceErr` (`util.py:783-787`,
`selector.py:116-126`) -/
def resolveItem (d : Dict) : SItem → Except Err Item
  | .bad => .error .syntaxErr
  | .other v s => .ok (.other v s)
  | .q k ps name =>
    -- `not ('attribute-selector' == typ and not prefix)`: an attribute without prefix or with the empty
    -- prefix is NOT in the default namespace and keeps its string value (:99-101)
    if k = .attrSel ∧ (ps = .noPfx ∨ ps = .emptyPfx) then .ok (.bareAttr name)
    else match ps with
      | .anyPfx => .ok (.q k .any name)                                   -- :104-106
      | .noPfx => .ok (.q k (match d.get [] with                           -- :107-110
                              | none => .none
                              | some u => .uri u) name)
      | .emptyPfx => .ok (.q k (.uri []) name)                             -- :111-113
      | .named p => match d.get p with                                      -- :114-126
                    | none => .error .namespaceErr
                    | some u => .ok (.q k (.uri u) name)

/-- items are appended left to right; the first error aborts (raising mode) / makes the selector ill-formed -/
def resolveSel (d : Dict) : SSel → Except Err Sel
  | [] => .ok []
  | i :: t => match resolveItem d i with
    | .error e => .error e
    | .ok x => match resolveSel d t with
      | .error e => .error e
      | .ok xs => .ok (x :: xs)

/-- `SelectorList._setSelectorText` (`selectorlist.py:174-217`): selector by selector -/
def resolveSels (d : Dict) : List SSel → Except Err (List Sel)
  | [] => .ok []
  | s :: t => match resolveSel d s with
    | .error e => .error e
    | .ok x => match resolveSels d t with
      | .error e => .error e
      | .ok xs => .ok (x :: xs)

/-! ## serialisation of a selector (`serialize.py:833-874`) -/

/-- `DEFAULTURI == namespaceURI or (not DEFAULTURI and namespaceURI is None)` (:853-855): write the bare name -/
def plainNs (d : Dict) : NsVal → Bool
  | .none => match d.get [] with
    | none => true
    | some dd => decide (dd = [])
  | .uri u => match d.get [] with
    | none => false
    | some dd => decide (dd = u)
  | .any => false

def serItem (d : Dict) : Item → Cps
  | .q _ ns name =>
    if plainNs d ns then name
    else
      let pre : Cps := match ns with
        | .any => star                                  -- :858-859
        | .uri u => (d.prefixFor u).getD []              -- :861-866, IndexError ⇒ ''
        | .none => []                                    -- no value equals None ⇒ IndexError ⇒ ''
      pre ++ bar ++ name
  | .bareAttr n => n
  | .other _ ser => ser

def serSel (d : Dict) (s : Sel) : Cps := (s.map (serItem d)).flatten

/-! ## rules and sheets -/

/-- item of `CSSNamespaceRule.seq` -/
inductive SeqItem
  | pfx (p : Cps) | uri (u : Cps) | comment
  deriving DecidableEq, Repr

structure NsRule where
  pfx : Cps
  uri : Cps
  seq : List SeqItem
  deriving DecidableEq, Repr

/-- the rule kinds that matter only through their position -/
inductive OKind
  | charset | import | comment | variables | page | fontface | unknown
  deriving DecidableEq, Repr

inductive Rule
  | ns (r : NsRule)
  | style (sels : List Sel)
  | media (rs : List (List Sel))          -- the style rules inside an @media rule
  | other (k : OKind)
  deriving DecidableEq, Repr

abbrev Sheet := List Rule

def Rule.isNs : Rule → Bool
  | .ns _ => true
  | _ => false

def Rule.isCharsetOrImport : Rule → Bool
  | .other .charset | .other .import => true
  | _ => false

/-- `(VARIABLES, MEDIA, PAGE, STYLE, FONT_FACE)` — `cssstylesheet.py:791-798, 845-850` -/
def Rule.isBody : Rule → Bool
  | .style _ | .media _ | .other .variables | .other .page | .other .fontface => true
  | _ => false

/-- `(MEDIA, PAGE, STYLE, FONT_FACE)` -/
def Rule.isBody2 : Rule → Bool
  | .style _ | .media _ | .other .page | .other .fontface => true
  | _ => false

/-- `(VARIABLES, MEDIA, PAGE, STYLE, FONT_FACE, UNKNOWN, COMMENT)` — `cssstylesheet.py:771-779` -/
def Rule.isAfterNs : Rule → Bool
  | .style _ | .media _ | .other .variables | .other .page | .other .fontface
  | .other .unknown | .other .comment => true
  | _ => false

/-- `(CHARSET, IMPORT, NAMESPACE, VARIABLES)` — `cssstylesheet.py:871-876` -/
def Rule.isHead : Rule → Bool
  | .ns _ | .other .charset | .other .import | .other .variables => true
  | _ => false

/-- the (prefix, URI) pairs of the @namespace rules, in sheet order -/
def nsPairs : Sheet → List (Cps × Cps)
  | [] => []
  | .ns r :: t => (r.pfx, r.uri) :: nsPairs t
  | _ :: t => nsPairs t

def nsUris (s : Sheet) : List Cps := (nsPairs s).map (·.2)

/-- `more_itertools.unique_everseen(…, key=namespaceURI)`: keep the first rule seen for each URI -/
def uniqByUri : List (Cps × Cps) → List Cps → List (Cps × Cps)
  | [], _ => []
  | e :: t, seen => if e.2 ∈ seen then uniqByUri t seen else e :: uniqByUri t (e.2 :: seen)

/-- `{rule.prefix: rule.namespaceURI for rule in …}` -/
def dictOf (l : List (Cps × Cps)) : Dict := l.foldl (fun d e => d.set e.1 e.2) []

/-- `_Namespaces.namespaces` (`util.py:821-835`): over the REVERSED rule list, unique by URI, then a dict -/
def viewOfPairs (l : List (Cps × Cps)) : Dict := dictOf (uniqByUri l.reverse [])

def view (s : Sheet) : Dict := viewOfPairs (nsPairs s)

/-! ### URIs "used" according to `Selector._getUsedUris` (`selector.py:623-634`) and `_getUsedURIs`
(`cssstylesheet.py:119-129`):
`(type_.endswith('-selector') or type_ == 'universal') and isinstance(val, tuple) and val[0] not in (None, _ANYNS)`
— the URI strings (`''` included) of all qualified names. -/
def itemUsed : Item → List Cps
  | .q _ (.uri u) _ => [u]
  | _ => []

def selsUsed (sels : List Sel) : List Cps := (sels.map fun s => (s.map itemUsed).flatten).flatten

def ruleUsed : Rule → List Cps
  | .style sels => selsUsed sels
  | .media rs => (rs.map selsUsed).flatten
  | _ => []

def usedStrs (s : Sheet) : List Cps := (s.map ruleUsed).flatten

/-! ## `deleteRule` (`cssstylesheet.py:497-549`) -/

/-- the guard of `deleteRule` for an @namespace rule with URI `u` (:535-544) -/
def delBlocked (s : Sheet) (u : Cps) : Bool :=
  decide (u ∈ usedStrs s) && ((nsUris s).count u == 1)

def deleteRule (s : Sheet) (i : Nat) : Except Err Sheet :=
  match s[i]? with
  | none => .error .indexSizeErr
  | some (.ns r) => if delBlocked s r.uri then .error .noModificationAllowedErr else .ok (s.eraseIdx i)
  | some _ => .ok (s.eraseIdx i)

/-! ## `_cleanNamespaces` (`cssstylesheet.py:104-117`)
`items` is computed once; the `while` loop walks the rule list and calls `deleteRule(i)` for every @namespace
rule whose pair is not among them. `deleteRule` can raise: then the rules deleted so far stay deleted and
the rest stays (second component `true`). `done` = the rules before position `i`, already looked at. -/
def cleanGo (items : Dict) (done : List Rule) : List Rule → Sheet × Bool
  | [] => (done, false)
  | .ns n :: rest =>
    if (n.pfx, n.uri) ∈ items then cleanGo items (done ++ [.ns n]) rest
    else if delBlocked (done ++ .ns n :: rest) n.uri then (done ++ .ns n :: rest, true)
    else cleanGo items done rest
  | r :: rest => cleanGo items (done ++ [r]) rest

def cleanNamespaces (s : Sheet) : Sheet × Bool := cleanGo (view s) [] s

/-- how many rules of `l` a clean-up that goes through leaves in place -/
def keptBefore (items : Dict) (l : List Rule) : Nat :=
  (l.filter fun r => match r with
    | .ns n => decide ((n.pfx, n.uri) ∈ items)
    | _ => true).length

/-! ## `insertRule` (`cssstylesheet.py:551-905`) -/

/-- result of a DOM call: its return value, or the exception class -/
inductive Outcome
  | ok (ret : Option Nat)
  | err (e : Err)
  deriving DecidableEq, Repr

/-- index of the last rule satisfying `p` -/
def lastIdx (p : Rule → Bool) : List Rule → Option Nat
  | [] => none
  | r :: t => match lastIdx p t with
    | some i => some (i + 1)
    | none => if p r then some 0 else none

def insertAt (s : Sheet) (i : Nat) (r : Rule) : Sheet := s.take i ++ r :: s.drop i

/-- in-order position for an @namespace rule (:766-792): after the last @namespace rule if there is one, else
before the first rule after the last @charset/@import that is of a later kind — and the end of the list if
there is none (a given index is ignored, fix e727728) -/
def nsInOrderIndex (s : Sheet) : Nat :=
  match lastIdx Rule.isNs s with
  | some i => i + 1
  | none =>
    let start := match lastIdx Rule.isCharsetOrImport s with
      | some i => i + 1
      | none => 0
    match (s.drop start).findIdx? Rule.isAfterNs with
    | some j => start + j
    | none => s.length

/-- where `insertRule` puts a well-formed @namespace rule, or why it refuses (:595-602, 755-807) -/
def nsPosition (s : Sheet) (idx : Option Nat) (inOrder : Bool) : Except Err Nat :=
  let index0 := idx.getD s.length
  if index0 > s.length then .error .indexSizeErr                                            -- :595-602
  else if inOrder then .ok (nsInOrderIndex s)
  else if (s.drop index0).any Rule.isCharsetOrImport then .error .hierarchyRequestErr       -- :784-791
  else if (s.take index0).any Rule.isBody then .error .hierarchyRequestErr                    -- :792-807
  else .ok index0

/-- the rest of the @namespace branch (:809-822) once the position is known -/
def insertNsAt (s : Sheet) (r : NsRule) (index : Nat) (clean : Bool) : Sheet × Outcome :=
  -- `rule.prefix in self.namespaces and self.namespaces[rule.prefix] == rule.namespaceURI` (:809-812)
  if (view s).get r.pfx = some r.uri then (s, .ok none)                     -- doublette: nothing kept (:818-820)
  else
    let s1 := insertAt s index (.ns r)
    if clean then
      let c := cleanNamespaces s1
      -- deleteRule raised inside the clean-up: the saved rule list is restored before the exception is passed
      -- on (`oldCssRules`, :815-829, fixes 3ec898a + 2293ec0)
      if c.2 then (s, .err .noModificationAllowedErr)
      -- rule still in cssRules: its index is looked up again, the clean-up may have removed rules in front
      -- of it (:842-846, fix 3065ba9) — as many as there are non-effective @namespace rules before it
      else if (r.pfx, r.uri) ∈ view s1 then (c.1, .ok (some (keptBefore (view s1) (s1.take index))))
      else (c.1, .ok none)                                                    -- cleaned again (:818-820)
    else (s1, .ok (some index))

/-- `insertRule(rule, index, inOrder, _clean)` for a well-formed @namespace rule OBJECT (:551-571, 755-822) -/
def insertNs (s : Sheet) (r : NsRule) (idx : Option Nat) (inOrder : Bool) (clean : Bool) : Sheet × Outcome :=
  match nsPosition s idx inOrder with
  | .error e => (s, .err e)
  | .ok index => insertNsAt s r index clean

/-- `CSSNamespaceRule(namespaceURI=u, prefix=p)` (`cssnamespacerule.py:77-83`) -/
def mkNs (p u : Cps) : NsRule := { pfx := p, uri := u, seq := [.pfx p, .uri u] }

/-- the `seq` of a rule parsed from `@namespace /**/ p /**/ "u" /**/;` (`cssnamespacerule.py:130-203`) -/
def mkNsText (p u : Cps) (c0 c1 c2 : Bool) : NsRule :=
  { pfx := p, uri := u,
    seq := (if c0 then [.comment] else []) ++ (if p = [] then [] else [.pfx p]) ++
           (if c1 then [.comment] else []) ++ [.uri u] ++ (if c2 then [.comment] else []) }

/-- `insertRule` for a style rule OBJECT: the "all other" branch (:861-884) -/
def insertStyle (s : Sheet) (r : Rule) (idx : Option Nat) (inOrder : Bool) : Sheet × Outcome :=
  let index0 := idx.getD s.length
  if index0 > s.length then (s, .err .indexSizeErr)
  else if inOrder then (s ++ [r], .ok (some s.length))
  else if (s.drop index0).any Rule.isHead then (s, .err .hierarchyRequestErr)
  else (insertAt s index0 r, .ok (some index0))

/-! ## `CSSNamespaceRule._setPrefix` (`cssnamespacerule.py:268-316`)
The seq is updated: the (first) item of type `prefix` is replaced; a rule that has none gets one in front of
its `namespaceURI` item (at the very front if it had no such item either). -/
def SeqItem.isPfx : SeqItem → Bool
  | .pfx _ => true
  | _ => false

def SeqItem.isUri : SeqItem → Bool
  | .uri _ => true
  | _ => false

def replaceFirstPfx (q : Cps) : List SeqItem → List SeqItem
  | [] => []
  | .pfx _ :: t => .pfx q :: t
  | x :: t => x :: replaceFirstPfx q t

def insertBeforeUri (q : Cps) : List SeqItem → List SeqItem
  | [] => []
  | .uri u :: t => .pfx q :: .uri u :: t
  | x :: t => x :: insertBeforeUri q t

def NsRule.setPrefix (r : NsRule) (q : Cps) : NsRule :=
  { r with pfx := q,
           seq := if r.seq.any SeqItem.isPfx then replaceFirstPfx q r.seq
                  else if r.seq.any SeqItem.isUri then insertBeforeUri q r.seq
                  else .pfx q :: r.seq }

/-- `_setPrefix` on a rule that is in a sheet refuses a prefix that another @namespace rule of the sheet carries
(`cssnamespacerule.py:293-303`): is there such a rule, other than the one at index `i`? -/
def anyNsPfx (q : Cps) (s : Sheet) : Bool :=
  s.any fun r => match r with
    | .ns n => decide (n.pfx = q)
    | _ => false

def prefixTaken (s : Sheet) (i : Nat) (q : Cps) : Bool :=
  anyNsPfx q (s.take i) || anyNsPfx q (s.drop (i + 1))

/-- index and value of the last @namespace rule with prefix `p` (`_Namespaces.__findrule`, `util.py:810-818`) -/
def findLastNs (p : Cps) : List Rule → Option (Nat × NsRule)
  | [] => none
  | r :: t => match findLastNs p t with
    | some (i, n) => some (i + 1, n)
    | none => match r with
      | .ns n => if n.pfx = p then some (0, n) else none
      | _ => none

/-- `sheet.namespaces[p] = u` (`util.py:797-808`) -/
def setNs (s : Sheet) (p u : Cps) : Sheet × Outcome :=
  match findLastNs p s with
  | none =>
    -- `CSSNamespaceRule(prefix=p, namespaceURI=u)`: an empty URI leaves the rule without URI, and
    -- insertRule refuses it: 'Invalid rules cannot be added.' (`cssstylesheet.py:650-652`)
    if u = [] then (s, .err .syntaxErr)
    else
      let r := insertNs s (mkNs p u) none true true
      (r.1, match r.2 with
            | .ok _ => .ok none
            | .err e => .err e)
  | some (i, n) =>
    -- `if prefix in self.namespaces: rule.namespaceURI = namespaceURI` → NoModificationAllowedErr unless equal
    if p ∈ (view s).keys ∧ n.uri ≠ u then (s, .err .noModificationAllowedErr)
    -- `if namespaceURI in list(self.namespaces.values()): rule.prefix = prefix`
    else if u ∈ (view s).values then
      if prefixTaken s i p then (s, .err .noModificationAllowedErr)
      else (s.set i (.ns (n.setPrefix p)), .ok none)
    else (s, .ok none)

/-- `del sheet.namespaces[p]` (`util.py:773-781`) -/
def delNs (s : Sheet) (p : Cps) : Sheet × Outcome :=
  match findLastNs p s with
  | none => (s, .err .namespaceErr)
  | some (i, _) => match deleteRule s i with
    | .ok s' => (s', .ok none)
    | .error e => (s, .err e)

/-! ## parsing a whole sheet (`cssstylesheet.py:151-372`), logging mode -/

inductive SrcRule
  /-- `@namespace /**/ p /**/ "u" /**/;` — `p = []` means no prefix token -/
  | ns (p u : Cps) (c0 c1 c2 : Bool)
  | style (sels : List SSel)
  | media (rs : List (List SSel))
  | other (k : OKind)
  deriving DecidableEq, Repr

structure PState where
  rules : Sheet
  dict : Dict            -- the `_SimpleNamespaces` used while parsing
  expected : Nat
  deriving Repr

/-- `_replaceNamespaceURI` (`cssnamespacerule.py:254-266`): first `namespaceURI` item of the seq -/
def replaceUriSeq (u : Cps) : List SeqItem → List SeqItem
  | [] => []
  | .uri _ :: t => .uri u :: t
  | x :: t => x :: replaceUriSeq u t

def NsRule.replaceUri (r : NsRule) (u : Cps) : NsRule :=
  { r with uri := u, seq := replaceUriSeq u r.seq }

/-- style rule text → rule, or nothing when a selector is not well-formed (`cssstylerule.py:100-176`) -/
def parseStyle (d : Dict) (sels : List SSel) : Option (List Sel) :=
  if sels.isEmpty then none else
  match resolveSels d sels with
  | .ok x => some x
  | .error _ => none

/-- `insertRule(rule)` as the parser calls it: index = end of list, not in order, errors are only logged.
Returns the new rule list (unchanged when the rule is refused). -/
def parseAppend (rules : Sheet) (r : Rule) : Sheet :=
  match r with
  | .other .charset => if rules.isEmpty then [r] else rules                           -- :657-675
  | .other .unknown | .other .comment => rules ++ [r]                                 -- :677-690
  | .other .import => if rules.any (fun x => x.isNs || x.isBody) then rules else rules ++ [r]    -- :718-739
  | .ns _ => if rules.any Rule.isBody then rules else rules ++ [r]                  -- :792-807, _clean=False
  | .other .variables => if rules.any Rule.isBody2 then rules else rules ++ [r]       -- :845-858
  | _ => rules ++ [r]                                                                  -- :861-884

def parseStep (st : PState) : SrcRule → PState
  | .other .charset =>
    if st.expected > 0 then st else { st with rules := parseAppend st.rules (.other .charset), expected := 1 }
  | .other .import =>
    if st.expected > 1 then st else { st with rules := parseAppend st.rules (.other .import), expected := 1 }
  | .ns p u c0 c1 c2 =>
    if st.expected > 2 then st
    else
      let rules' :=
        if st.dict.get p = none then parseAppend st.rules (.ns (mkNsText p u c0 c1 c2))           -- :230-232
        else st.rules.map fun r => match r with                                                    -- :233-237
          | .ns n => if n.pfx = p then .ns (n.replaceUri u) else r
          | _ => r
      { rules := rules', dict := st.dict.set p u, expected := 2 }                                  -- :239-241
  | .other .variables =>
    if st.expected > 2 then st else { st with rules := parseAppend st.rules (.other .variables), expected := 2 }
  | .other .unknown => { st with rules := parseAppend st.rules (.other .unknown), expected := max 1 st.expected }
  | .other .comment => { st with rules := parseAppend st.rules (.other .comment), expected := max 1 st.expected }
  | .other k => { st with rules := parseAppend st.rules (.other k), expected := 3 }
  | .style sels =>
    match parseStyle st.dict sels with
    | some x => { st with rules := parseAppend st.rules (.style x), expected := 3 }
    | none => st            -- an ignored ruleset keeps `expected` (:315-318)
  | .media rs =>
    { st with rules := parseAppend st.rules (.media (rs.filterMap (parseStyle st.dict))), expected := 3 }

/-- `sheet.cssText = (text, init)` on a fresh sheet; the final `_cleanNamespaces()` uses the real view (:366-369) -/
def parseSheet (init : Dict) (src : List SrcRule) : Sheet × Bool :=
  let st0 : PState := { rules := [], dict := init, expected := 0 }
  let st := match src with
    | [] => st0
    -- the rules of the text are separated by white space: the `S` callback makes `expected` ≥ 1 (:168-171)
    | r :: t => t.foldl (fun st r => parseStep { st with expected := max 1 st.expected } r) (parseStep st0 r)
  cleanNamespaces st.rules

/-! ## the operations of a history -/

inductive Op
  /-- replace the sheet by `parseString(text)` / `sheet.cssText = (text, init)` -/
  | parse (init : Dict) (src : List SrcRule)
  /-- `insertRule(CSSNamespaceRule(prefix=p, namespaceURI=u), idx, inOrder)` -/
  | insNs (p u : Cps) (idx : Option Nat) (inOrder : Bool)
  /-- `insertRule('@namespace p "u";', idx, inOrder)` -/
  | insNsText (p u : Cps) (c0 c1 c2 : Bool) (idx : Option Nat) (inOrder : Bool)
  | setNs (p u : Cps)
  | delNs (p : Cps)
  | delRule (i : Nat)
  /-- `sheet.cssRules[i].prefix = q` -/
  | setPrefix (i : Nat) (q : Cps)
  /-- `sheet.cssRules[i].selectorText = …` -/
  | setSelText (i : Nat) (sels : List SSel)
  /-- `insertRule('sel {x:1}', idx, inOrder)` -/
  | insStyleText (sels : List SSel) (idx : Option Nat) (inOrder : Bool)
  /-- `insertRule(rule, idx, inOrder)` for a style rule object built elsewhere (its items are already resolved) -/
  | insStyleObj (sels : List Sel) (idx : Option Nat) (inOrder : Bool)
  /-- `sheet.cssRules[i].cssText = '@namespace p "u";'` on an @namespace rule of the sheet -/
  | setNsText (i : Nat) (p u : Cps) (c0 c1 c2 : Bool)
  /-- `del sheet.cssRules[i]` / `sheet.cssRules.pop(i)`: the list operation itself, not `deleteRule` (the
  assignment `cssRules.__delitem__ = self.deleteRule` on the instance does not reach the `del` statement) -/
  | rawDel (i : Nat)
  deriving Repr

def step (s : Sheet) : Op → Sheet × Outcome
  | .parse init src =>
    let r := parseSheet init src
    (r.1, if r.2 then .err .noModificationAllowedErr else .ok none)
  | .insNs p u idx inOrder =>
    if idx.getD s.length > s.length then (s, .err .indexSizeErr)
    else if u = [] then (s, .err .syntaxErr)     -- rule without URI: 'Invalid rules cannot be added.' (:650-652)
    else insertNs s (mkNs p u) idx inOrder true
  | .insNsText p u c0 c1 c2 idx inOrder =>
    if idx.getD s.length > s.length then (s, .err .indexSizeErr)
    -- the text is parsed into a temporary sheet whose parse-time dict is a copy of this sheet's view
    -- (:604-640): a prefix that is already bound makes the callback update the dict only, the temporary
    -- sheet stays empty ⇒ 'Not a CSSRule'
    else if (view s).get p ≠ none then (s, .err .syntaxErr)
    else insertNs s (mkNsText p u c0 c1 c2) idx inOrder true
  | .setNs p u => setNs s p u
  | .delNs p => delNs s p
  | .delRule i => match deleteRule s i with
    | .ok s' => (s', .ok none)
    | .error e => (s, .err e)
  | .setPrefix i q => match s[i]? with
    | some (.ns n) =>
      if prefixTaken s i q then (s, .err .noModificationAllowedErr)
      else (s.set i (.ns (n.setPrefix q)), .ok none)
    | _ => (s, .err .badTarget)
  | .setSelText i sels => match s[i]? with
    | some (.style _) =>
      if sels.isEmpty then (s, .err .badTarget) else
      match resolveSels (view s) sels with
      | .ok x => (s.set i (.style x), .ok none)
      | .error e => (s, .err e)
    | _ => (s, .err .badTarget)
  | .insStyleText sels idx inOrder =>
    if idx.getD s.length > s.length then (s, .err .indexSizeErr)
    else if sels.isEmpty then (s, .err .badTarget)
    else match resolveSels (view s) sels with
      | .error e => (s, .err e)
      | .ok x => insertStyle s (.style x) idx inOrder
  | .insStyleObj sels idx inOrder => insertStyle s (.style sels) idx inOrder
  | .setNsText i p u c0 c1 c2 => match s[i]? with
    | some (.ns n) =>
      -- a rule that is in a sheet refuses a NEW prefix (`new['prefix'] != self._prefix`) that another
      -- @namespace rule of the sheet carries (`cssnamespacerule.py:214-234`, fix 525b582); then
      -- `self.namespaceURI = new['uri']` refuses another URI (:237-243; in log mode the rule is left as it
      -- is, fix 44fd6b4); then `_prefix` and the seq are set
      if p ≠ n.pfx ∧ prefixTaken s i p = true then (s, .err .noModificationAllowedErr)
      else if n.uri ≠ u then (s, .err .noModificationAllowedErr)
      else (s.set i (.ns (mkNsText p u c0 c1 c2)), .ok none)
    | _ => (s, .err .badTarget)
  | .rawDel i => match s[i]? with
    | some _ => (s.eraseIdx i, .ok none)
    | none => (s, .err .badTarget)

def run (s : Sheet) : List Op → Sheet
  | [] => s
  | op :: t => run (step s op).1 t

/-! ## what the serializer writes for an @namespace rule (`serialize.py:535-558`)
`@namespace` then every seq item (an empty prefix item writes nothing), then `;`. The text is a well-formed
@namespace rule for this rule's prefix and URI iff the non-comment, non-empty items are `[prefix] uri`. -/
def seqCore (l : List SeqItem) : List SeqItem :=
  l.filter fun i => i ≠ .comment ∧ i ≠ .pfx []

def NsRule.wf (r : NsRule) : Bool :=
  seqCore r.seq = (if r.pfx = [] then [] else [.pfx r.pfx]) ++ [.uri r.uri]

end CssVerif.Ns
